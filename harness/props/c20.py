"""C20 generator naming: (template, identifier) pairs against format.FileNamingFormat and stringx camel/snake.

tools/god is a separate Go module whose dependencies cannot be resolved offline, so the driver is not
an in-package test: drive() copies the CURRENT tools/god/util/{format,stringx}/*.go (non-test files)
of $VERIF_REPO into a scratch module (work/C20mod), adds harness/c20drv/main.go and runs it.
Strings travel as hex (JSON cannot carry invalid UTF-8).
"""
import glob
import json
import re
import os
import shutil

import vlib
from vlib import cN, cnat, cbool, clist, cpair

ID = "C20"
GO_PKG = None            # custom drive()
FMT = "tools/god/util/format/format.go"
SX = "tools/god/util/stringx/string.go"
GEN_SPEC = {"items": [
    {"kind": "const", "file": FMT, "name": "flagGo"},
    {"kind": "const", "file": FMT, "name": "flagDesigner"},
    {"kind": "const", "file": FMT, "name": "unknown"},
    {"kind": "const", "file": FMT, "name": "title"},
    {"kind": "const", "file": FMT, "name": "lower"},
    {"kind": "const", "file": FMT, "name": "upper"},
    {"kind": "calls", "file": FMT, "func": "FileNamingFormat", "as": "fnf_calls"},
    {"kind": "calls", "file": FMT, "func": "upperASCII", "as": "upperascii_calls"},
    {"kind": "calls", "file": FMT, "func": "doFormat", "as": "doformat_calls"},
    {"kind": "calls", "file": FMT, "func": "split", "as": "split_calls"},
    {"kind": "cases", "file": FMT, "func": "transferTo", "as": "transfer_cases"},
    {"kind": "cases", "file": FMT, "func": "getStyle", "as": "getstyle_cases"},
    {"kind": "calls", "file": SX, "func": "String.ToCamel", "as": "tocamel_calls"},
    {"kind": "calls", "file": SX, "func": "String.ToSnake", "as": "tosnake_calls"},
    {"kind": "calls", "file": SX, "func": "String.Title", "as": "title_calls"},
    {"kind": "calls", "file": SX, "func": "String.splitBy", "as": "splitby_calls"},
    {"kind": "calls", "file": SX, "func": "String.UnTitle", "as": "untitle_calls"},
    {"kind": "const", "file": "tools/god/config/config.go", "name": "DefaultFormat"},
    {"kind": "calls", "file": "tools/god/config/config.go", "func": "NewConfig", "as": "newconfig_calls"},
    {"kind": "calls", "file": "tools/god/config/config.go", "func": "validate", "as": "validate_calls"},
]}
QUICK_N = 1200
THOROUGH_N = 60000
SHARD = 300
DRIVER_TIMEOUT = 600
COQ_FILES = ["theories/C20/Props.v", "theories/C20/Link.v", "theories/C20/Proofs.v", "theories/C20/Utf8.v"]
COQ_TARGETS = COQ_FILES + ["theories/C20/Exec.v"]
RULE = ("(template, identifier) pairs: templates from a grammar prefix+go+between+designer+suffix with the two words in "
        "lower/UPPER/Title/mixed casing, ASCII, unicode (incl. runes whose upper-casing changes the UTF-8 length) and "
        "invalid-byte prefixes/separators/suffixes, plus missing / reordered / repeated / look-alike words and random "
        "byte strings, and a config stream (template -> config.NewConfig -> FileNamingFormat: empty, blank and near-blank templates, "
        "templates wrapped in white space of 13 kinds; styles containing other product words such as zero/Zero/ZERO/goctl/design in "
        "prefix, separator, suffix or in place of designer), and for 30% of the cases a history of 3-10 configuration operations in the same "
        "process (NewConfig of the default / explicit / blank styles, owner assignments to cfg.NamingFormat, reads, formatting "
        "with a kept configuration, unknown handles); about 10% of the cases (all default-style ones) run in driver processes "
        "preceded, for 60% of the round-trip identifiers, by ToCamel/ToSnake calls on 2-6 sibling spellings with the same camel form); "
        "'%', printf verbs, line breaks and tabs occur as affix / joiner text; some cases are "
        "started with one of 8 adversarial environments (34 GOD_*/GOCTL_*/NAMING_* style variables plus every name the sources "
        "pass to os.Getenv/LookupEnv set to valid and invalid templates, LANG/LC_ALL variants, TZ, HOME and working directory "
        "full of decoy config files); identifiers: snake, camel, Pascal, acronyms, repeated/leading/trailing underscores, digit words, "
        "punctuation and spaces, a fixed set of non-ASCII runes, invalid UTF-8, empty; a third of the cases use an "
        "identifier of the round-trip grammar. non-trivial = accepted template with a non-empty identifier, or a "
        "rejected template that contains both words, or a round-trip identifier with >= 2 words; distinct = distinct "
        "(template, identifier)")
TRUSTED = ["Go's unicode tables and golang.org/x/text v0.5.0 title-casing for non-ASCII runes/words (tabulated per case by "
           "the driver and passed to the model as an explicit oracle; ASCII is modelled inside Coq)",
           "Go's utf8 decoding/encoding and strings.Map/ToUpper/ToLower/Title/Index as transcribed in C20/Str.v "
           "(exercised by every case, not proved against the Go sources)",
           "scratch-module copy of tools/god/util/{format,stringx} (the tools/god module itself cannot be built offline); "
           "driver program harness/c20drv/main.go run with `go run` in that module (not an in-package test)"]
ASSUMPTIONS = ["'upper-case letters' that start a word are ASCII A-Z (as format.go's split); the two template words are "
               "located at their first ASCII-case-insensitive occurrence",
               "round trip is claimed for words that start with a letter: a digit-leading word (user_2fa -> User2Fa -> "
               "user2_fa) does not round-trip (observation of DESIGN section 7, outside the statement)"]

# ------------------------------------------------------------------------------------------ generator
WORDS = ["user", "name", "id", "http", "server", "x", "a1", "v2", "order", "item", "z9z", "api", "url", "db", "i", "go", "designer"]
ACRO = ["HTTP", "ID", "URL", "API", "DB", "XML", "A", "IO"]
NONASCII = ["\u0250", "\u0131", "\u00df", "\u01c6", "\u01c5", "\u01c4", "\u00e9", "\u00c9", "\u00f1", "\u03a9", "\u03c9",
            "\u03c3", "\u03c2", "\u03a3", "\u4e2d", "\u6587", "\u00a0", "\u2003", "\u0085", "\ufffd", "\u0130", "\u212a",
            "\u017f", "\u0149", "\ufb01", "\U0001d49c", "\U0001f600", "\U00010428", "\u0663", "\u00b2", "\u02bc", "\u0301",
            "\u00b7", "\u2019", "\u200d", "\u1e9e", "\u0587"]
INVALID = [b"\xff", b"\xc0\xaf", b"\xe2\x82", b"\xed\xa0\x80", b"\xf4\x90\x80\x80", b"\x80", b"\xc3", b"\xf0\x9f\x98", b"\xfe\xbf"]
PUNCT = [" ", ".", "'", ":", "-", ",", ";", "\t", "\n", "1", "9", "#", "$", "\"", "^", "`", "~", "/", "\x00", "\x7f"]

# white space of several kinds (ASCII, NEL, NBSP, en/em spaces, ideographic space) and non-spaces that look blank
SPACES = [" ", "\t", "\n", "\r", "\f", "\v", "\u0085", "\u00a0", "\u2003", "\u3000", "\u2028", "\u1680", "\u205f"]
NEAR_SPACES = ["\u200b", "\ufeff", "\x00", "\x1f", "\u180e", b"\xa0", b"\xc2", b"\xe3\x80"]


def gen_space(rng, lo=1, hi=3, near=0.0):
    out = b""
    for _ in range(rng.randint(lo, hi)):
        out += b(rng.choice(NEAR_SPACES) if rng.random() < near else rng.choice(SPACES))
    return out


GO_FORMS = ["go", "GO", "Go"]
GO_MIXED = ["gO"]
DS_FORMS = ["designer", "DESIGNER", "Designer"]
DS_MIXED = ["DeSigner", "dESIGNER", "designeR", "DESIGNEr", "DEsigner", "desiGner"]
# words a unicode case fold (strings.ToUpper) would accept, and near misses
GO_ALIKE = ["g\u00f6", "g_o", "G\u022e", "g0", "og"]
DS_ALIKE = ["des\u0131gner", "de\u017figner", "DES\u0130GNER", "desiner", "designe", "DESIGNE\u0280", "d\u0435signer", "desi\u0307gner",
            "design_er"]
LEN_CHANGING = ["\u0250\u0250\u0250\u0250", "\u0131", "\u00df", "\u01c6", "\u0149", "\ufb01", "\u0250", "\u017f", "\u0587"]


def b(s):
    return s.encode("utf-8") if isinstance(s, str) else bytes(s)


def gen_ident_rt(rng):
    """identifier of the round-trip grammar"""
    n = rng.choice([1, 1, 2, 2, 3, 4, 6])
    ws = []
    for _ in range(n):
        if rng.random() < 0.6:
            w = rng.choice(WORDS)
        else:
            w = rng.choice("abcdefghijklmnopqrstuvwxyz") + "".join(
                rng.choice("abcdefghijklmnopqrstuvwxyz0123456789") for _ in range(rng.randint(0, 5)))
        ws.append(w)
    return b("_".join(ws)), "rt%d" % min(n, 3)


def gen_content(rng):
    r = rng.random()
    if r < 0.30:
        return gen_ident_rt(rng)
    if r < 0.34:
        if rng.random() < 0.5:
            return rng.choice([b"", b"_", b"__", b"___", b" ", b"  ", b"\t_ ", b"_ _", b"\t", b" \n ", b"\f\v", b"\r\n"]), "empty"
        return gen_space(rng, 1, 3, near=0.15) + (b"_" if rng.random() < 0.2 else b""), "blank"
    if r < 0.50:      # camel / Pascal / acronyms
        parts = []
        for i in range(rng.randint(1, 4)):
            w = rng.choice(WORDS)
            k = rng.random()
            if k < 0.3:
                parts.append(rng.choice(ACRO))
            elif k < 0.8 or i == 0 and rng.random() < 0.5:
                parts.append(w.capitalize() if (i > 0 or rng.random() < 0.5) else w)
            else:
                parts.append(w)
        return b("".join(parts)), "camel"
    if r < 0.53:      # leading / trailing / doubled underscores around plain words
        ws = [rng.choice(WORDS) for _ in range(rng.randint(1, 3))]
        sep = rng.choice(["_", "__", "___"])
        return b(rng.choice(["_", "__", ""]) + sep.join(ws) + rng.choice(["_", "__", ""])), "uscore"
    if r < 0.62:      # snake with irregular underscores, digit words, upper-case words
        parts = []
        for _ in range(rng.randint(1, 4)):
            k = rng.random()
            if k < 0.15:
                parts.append(rng.choice(["2fa", "9", "42x", "0"]))
            elif k < 0.3:
                parts.append(rng.choice(ACRO))
            elif k < 0.4:
                parts.append(rng.choice(WORDS).capitalize())
            else:
                parts.append(rng.choice(WORDS))
        s = ""
        if rng.random() < 0.3:
            s += "_" * rng.randint(1, 2)
        for i, p in enumerate(parts):
            if i:
                s += "_" * rng.choice([1, 1, 1, 2, 3])
            s += p
        if rng.random() < 0.3:
            s += "_" * rng.randint(1, 2)
        return b(s), "snake*"
    if r < 0.72:      # ASCII punctuation / spaces inside words
        s = ""
        for _ in range(rng.randint(1, 5)):
            s += rng.choice(WORDS + ACRO + ["_", "_"])
            if rng.random() < 0.7:
                s += rng.choice(PUNCT) * rng.choice([1, 1, 2])
        return b(s), "punct"
    if r < 0.88:      # non-ASCII runes
        out = b""
        for _ in range(rng.randint(1, 5)):
            k = rng.random()
            if k < 0.45:
                out += b(rng.choice(NONASCII))
            elif k < 0.75:
                out += b(rng.choice(WORDS + ACRO))
            elif k < 0.85:
                out += b"_"
            else:
                out += b(rng.choice(PUNCT))
        return out, "unicode"
    if r < 0.96:      # invalid UTF-8
        out = b""
        for _ in range(rng.randint(1, 4)):
            k = rng.random()
            if k < 0.5:
                out += rng.choice(INVALID)
            elif k < 0.7:
                out += b(rng.choice(NONASCII))
            elif k < 0.9:
                out += b(rng.choice(WORDS + ACRO + ["_"]))
            else:
                out += bytes([rng.randrange(256)])
        return out, "invalid"
    if r < 0.98:
        return bytes([rng.randrange(256)]) + b(rng.choice(WORDS + ACRO + ["", "_x"])), "byte0"
    return bytes(rng.randrange(256) for _ in range(rng.randint(1, 6))), "random"


# other product / tool words that a template may contain as plain text (prefix, separator, suffix) or
# instead of "designer"; a template is taken literally, none of them is a placeholder
PRODUCT_WORDS = ["zero", "Zero", "ZERO", "gozero", "go_zero", "goctl", "god", "God", "design", "Design", "DESIGN",
                 "frame", "micro", "kratos", "sign", "er", "model", "Model"]
PRODUCT_STYLES = ["go_designer.zero", "zero_go_designer", "GoZeroDesigner", "gozero", "go_zero", "GoZero", "goZero", "GOZERO",
                  "Go_Zero", "go_zero_designer", "goZeroDesigner", "zerogodesigner", "go_designer_zero", "GO#ZERO#DESIGNER",
                  "godesignerzero", "zero", "go-zero", "go_design", "goDesign", "goctl_designer", "god_designer", "godesign",
                  "go_designer.Zero.go", "ZERO", "gozerodesigner", "go_zero.designer", "zero.go", "designer_zero", "gomodel"]


def gen_product_word(rng, kind):
    w = rng.choice(PRODUCT_WORDS)
    if kind == "between":
        return b(rng.choice(["", "_", "."]) + w + rng.choice(["", "_", "."]))
    if kind == "prefix":
        return b(w + rng.choice(["", "_", ".", "-"]))
    return b(rng.choice(["", "_", ".", "-"]) + w)


def gen_affix(rng, kind):
    r = rng.random()
    if r < 0.30:
        return b""
    if r < 0.38:
        return gen_product_word(rng, kind)
    if r < 0.45:      # printf verbs / percent signs are plain text; line breaks and tabs are plain joiner text
        if kind == "between":
            return b(rng.choice(["\n", "\r\n", "\t", "\n\n", "_\n", "\r", "%", "%s", "%d", "%%", "_%d_", "\t_\t", "\v", "\f"]))
        if kind == "prefix":
            return b(rng.choice(["%", "%d", "%s", "%%", "100%_", "%s_", "%v", "%!", "%[1]s", "%5d_", "\n", "%\n"]))
        return b(rng.choice(["%", "%d", "%s", "%%", "_%d", "_%s", "%v", "%!(EXTRA)", ".%d.go", "%+v", "\n", "\r\n", "%\n"]))
    if r < 0.6:
        if kind == "between":
            return b(rng.choice(["_", "-", "#", ".", " ", "__", "_x_", "@", "/"]))
        if kind == "prefix":
            return b(rng.choice(["x_", "pre-", "a", "tmp.", "G", "g", "D", "des", "GDESIGN"]))
        return b(rng.choice([".go", "_gen", "x", "!", "_", "GO", "go", "designer", "Designer"]))
    if r < 0.8:
        return b(rng.choice(LEN_CHANGING + NONASCII))
    if r < 0.92:
        return rng.choice(INVALID)
    return bytes(rng.randrange(256) for _ in range(rng.randint(1, 3)))


def gen_template(rng):
    r = rng.random()
    if r < 0.16:      # the config stream: outer / only white space, empty, near-blank
        k = rng.random()
        if k < 0.12:
            return b"", "cfg-empty"
        if k < 0.40:
            return gen_space(rng, 1, 4, near=0.0), "cfg-blank"
        if k < 0.50:
            return gen_space(rng, 1, 3, near=0.5), "cfg-nearblank"
        core, kind = gen_template_core(rng, rng.random())
        lead = gen_space(rng, 0, 2, near=0.1)
        trail = gen_space(rng, 0, 2, near=0.1)
        if not lead and not trail:
            lead = b(rng.choice(SPACES))
        return lead + core + trail, "cfg-ws+" + kind
    return gen_template_core(rng, rng.random())


def gen_template_core(rng, r):
    if rng.random() < 0.07:   # styles with other product words, with and without "designer"
        k = rng.random()
        if k < 0.6:
            return b(rng.choice(PRODUCT_STYLES)), "product"
        g = rng.choice(GO_FORMS + GO_MIXED)
        w = rng.choice(PRODUCT_WORDS)
        sep = rng.choice(["", "_", "-", "."])
        if k < 0.8:      # the product word where "designer" would stand: must be rejected
            return b(g + sep + w), "product"
        pos = rng.randrange(3)
        d = rng.choice(DS_FORMS)
        return b([w + sep + g + sep + d, g + sep + w + sep + d, g + sep + d + sep + w][pos]), "product"
    pre, mid, suf = gen_affix(rng, "prefix"), gen_affix(rng, "between"), gen_affix(rng, "suffix")
    if r < 0.50:
        return pre + b(rng.choice(GO_FORMS)) + mid + b(rng.choice(DS_FORMS)) + suf, "valid"
    if r < 0.62:
        if rng.random() < 0.5:
            g, d = rng.choice(GO_MIXED), rng.choice(DS_FORMS + DS_MIXED)
        else:
            g, d = rng.choice(GO_FORMS), rng.choice(DS_MIXED)
        return pre + b(g) + mid + b(d) + suf, "mixed"
    if r < 0.70:
        k = rng.random()
        if k < 0.4:
            return pre + b(rng.choice(GO_FORMS)) + mid + suf, "missing"
        if k < 0.8:
            return pre + mid + b(rng.choice(DS_FORMS)) + suf, "missing"
        return pre + mid + suf, "missing"
    if r < 0.78:
        return pre + b(rng.choice(DS_FORMS)) + mid + b(rng.choice(GO_FORMS)) + suf, "reordered"
    if r < 0.84:
        k = rng.random()
        g, d = b(rng.choice(GO_FORMS + GO_MIXED)), b(rng.choice(DS_FORMS + DS_MIXED))
        if k < 0.35:
            return pre + g + mid + d + b"_" + b(rng.choice(GO_FORMS + GO_MIXED)) + b"_" + b(rng.choice(DS_FORMS + DS_MIXED)) + suf, "repeated"
        if k < 0.7:
            return pre + d + mid + g + b"_" + b(rng.choice(DS_FORMS)) + suf, "repeated"
        return pre + g + b(rng.choice(GO_FORMS + GO_MIXED)) + mid + d + suf, "repeated"
    if r < 0.92:      # look-alikes that a unicode case fold would accept, near misses
        if rng.random() < 0.3:
            return pre + b(rng.choice(GO_ALIKE)) + mid + b(rng.choice(DS_FORMS)) + suf, "lookalike"
        return pre + b(rng.choice(GO_FORMS)) + mid + b(rng.choice(DS_ALIKE)) + suf, "lookalike"
    if r < 0.96:      # one byte of a valid template damaged
        t = bytearray(pre + b(rng.choice(GO_FORMS)) + mid + b(rng.choice(DS_FORMS)) + suf)
        i = rng.randrange(len(t))
        t[i] = rng.choice([t[i] ^ 0x20, rng.randrange(256), t[i] | 0x80])
        return bytes(t), "damaged"
    return bytes(rng.randrange(256) for _ in range(rng.randint(0, 14))), "random"


def mk(t, c, tk, ck, h=None):
    d = {"t": b(t).hex(), "c": b(c).hex(), "tk": tk, "ck": ck}
    if h:
        d["h"] = h
    return d


# ---- histories of configurations (config.NewConfig calls with owner assignments in between)
def h_new(s):
    return {"op": "new", "s": b(s).hex()}


def h_set(i, s):
    return {"op": "set", "i": i, "s": b(s).hex()}


def h_read(i):
    return {"op": "read", "i": i}


def h_fmt(i, c):
    return {"op": "fmt", "i": i, "s": b(c).hex()}


H_STYLES = ["", "", "go_designer", "goDesigner", "GO#DESIGNER", "Go-Designer.go", "godesigner", " ", "\t", "\u3000",
            " go_designer", "gO_designer", "designer_go", "x",
            "go_designer.zero", "zero_go_designer", "GoZeroDesigner", "gozero", "go_zero", "goZero", "go_zero_designer",
            "GO#ZERO#DESIGNER", "goctl_designer", "go_design", "zero", "ZERO_go_designer_Zero",
            "go\ndesigner", "Go\r\nDesigner", "go\tdesigner", "GO\n\nDESIGNER", "go_\ndesigner\n", "\ngo\ndesigner",
            "100%_go_designer", "go_designer_%d", "%s_go_designer", "go_designer%", "%%go_designer", "go%sdesigner"]
H_IDENTS = ["userCenter", "user_center", "HTTPServer", "a", "", "_x__y"]


def siblings_of(rng, c):
    """other spellings with the same camel form as the identifier c (a str of the round-trip grammar)"""
    ws = c.split("_")
    cam = "".join(w[:1].upper() + w[1:] for w in ws)
    out = [c.replace("_", "__", 1) if "_" in c else c + "_", "_" + c, c + "__", cam, cam[:1].lower() + cam[1:],
           "_".join(w[:1].upper() + w[1:] for w in ws), "__" + c.replace("_", "___"), ws[0] + "".join(w[:1].upper() + w[1:] for w in ws[1:]) + "_"]
    rng.shuffle(out)
    return out[:rng.randint(2, 6)]


def gen_history(rng, t, c):
    pool = H_STYLES + [t] + [rng.choice(PRODUCT_STYLES), rng.choice(PRODUCT_STYLES)]
    k = rng.random()
    if k < 0.3:       # the default twice, the owner writing over the first in between (a yaml load)
        v = rng.choice([x for x in pool if x != ""] + ["GO_DESIGNER"])
        ops = [h_new(""), h_set(0, v), h_new(""), h_read(1), h_fmt(1, rng.choice(H_IDENTS + [c])), h_read(0),
               h_fmt(0, rng.choice(H_IDENTS))]
        if rng.random() < 0.5:
            ops.insert(1, h_read(0))
        return ops
    if k < 0.55:      # the same explicit style twice
        s1 = rng.choice([x for x in pool if x != ""])
        v = rng.choice(pool + ["Go_Designer"])
        return [h_new(s1), h_fmt(0, rng.choice(H_IDENTS)), h_set(0, v), h_new(s1), h_read(1), h_fmt(1, rng.choice(H_IDENTS + [c])),
                h_new(""), h_read(2), h_read(0)]
    ops, n = [], 0
    for _ in range(rng.randint(3, 9)):
        r = rng.random()
        if n == 0 or r < 0.35:
            ops.append(h_new(rng.choice(pool)))
            n += 1
        elif r < 0.55:
            ops.append(h_set(rng.randrange(n), rng.choice(pool + ["Go_Designer", "tmp"])))
        elif r < 0.8:
            ops.append(h_read(rng.randrange(n)))
        elif r < 0.97:
            ops.append(h_fmt(rng.randrange(n), rng.choice(H_IDENTS + [c])))
        else:
            ops.append(rng.choice([h_read(n + rng.randint(0, 2)), h_set(n, "x"), h_fmt(n + 1, "x")]))   # no such handle
    return ops


# ---- adversarial process environments: neither NewConfig nor FileNamingFormat may look at them
ENV_NAMES = ["GOD_NAMING_FORMAT", "GOD_STYLE", "GOCTL_STYLE", "NAMING_FORMAT", "GOD_FORMAT", "GOD_NAMING_STYLE", "GOD_NAMINGFORMAT",
             "GOD_DEFAULT_FORMAT", "GOD_DEFAULT_STYLE", "GOCTL_NAMING_FORMAT", "GOCTL_FORMAT", "NAMINGFORMAT", "NAMING_STYLE",
             "DEFAULT_FORMAT", "STYLE", "FORMAT", "GOD_CONFIG", "GOCTL_CONFIG", "GOD_HOME", "GOCTL_HOME", "GOD", "GOCTL",
             "GODESIGNER", "GOD_DESIGNER", "GOD_GO", "GOD_UPPER", "GOD_LOCALE", "GOD_EXPERIMENTAL", "GOCTL_EXPERIMENTAL", "GOD_DEBUG",
             "god_naming_format", "god_style", "naming_format", "namingFormat"]
# (value given to every name above, locale)
ENV_PROFILES = [
    None,                                            # 0: the environment vcheck itself runs in
    ("GO_DESIGNER", "tr_TR.UTF-8"),
    ("goDesigner", "C"),
    ("gozero", "zh_CN.GBK"),
    (" ", "POSIX"),
    ("designer_go", "az_AZ.UTF-8"),
    ("gO#DeSigner", "lt_LT.UTF-8"),
    ("Go-Designer.go", "el_GR.ISO-8859-7"),
    ("1", "en_US"),
]
ENV_CWD = os.path.join(vlib.WORK, "C20cwd")
_EXTRA_ENV_NAMES = []     # names the copied sources mention in os.Getenv / os.LookupEnv (filled by drive)


def env_of(idx):
    """environment additions and working directory of profile idx (0: none, the scratch module dir)"""
    if not idx:
        return {}, MOD_DIR
    val, loc = ENV_PROFILES[idx % len(ENV_PROFILES) or 1]
    e = {k: val for k in ENV_NAMES + _EXTRA_ENV_NAMES}
    e.update({"LANG": loc, "LC_ALL": loc, "LC_CTYPE": loc, "LC_COLLATE": loc, "LANGUAGE": loc.split(".")[0], "TZ": "Pacific/Kiritimati",
              "HOME": ENV_CWD, "XDG_CONFIG_HOME": ENV_CWD, "PWD": ENV_CWD})
    return e, ENV_CWD


def make_decoy_cwd(val):
    """a working / home directory full of files a configuration loader might pick up"""
    os.makedirs(ENV_CWD, exist_ok=True)
    for sub in ("", ".god", ".goctl", ".config/god", "etc"):
        d = os.path.join(ENV_CWD, sub)
        os.makedirs(d, exist_ok=True)
        for fn in ("god.yaml", "god.yml", ".god.yaml", "goctl.yaml", ".goctl.yaml", "config.yaml", "config.yml", "config.json",
                   "config", "style", "namingFormat", ".env", "god.json"):
            with open(os.path.join(d, fn), "w") as f:
                if fn.endswith(".json"):
                    f.write(json.dumps({"namingFormat": val, "NamingFormat": val, "style": val}))
                elif fn == ".env":
                    f.write("".join("%s=%s\n" % (k, val) for k in ENV_NAMES))
                elif fn in ("style", "namingFormat", "config"):
                    f.write(val + "\n")
                else:
                    f.write("namingFormat: %s\nNamingFormat: %s\nstyle: %s\n" % (val, val, val))


def env_cases():
    """always-run: the default style and one explicit style under every adversarial environment"""
    out = []
    for idx in range(1, len(ENV_PROFILES)):
        h = [h_new(""), h_read(0), h_fmt(0, "userCenter"), h_new("goDesigner"), h_read(1), h_new(""), h_read(2)]
        out.append(dict(mk("", "user_center", "env-default", "rt2", h), env=idx))
        out.append(dict(mk("Go_Designer.go", "HTTPServer", "env-explicit", "camel"), env=idx))
        out.append(dict(mk("go_des\u0131gner", "\u0131stanbul_I", "env-lookalike", "unicode"), env=idx))
        # locale-sensitive letters (tr/az i-I, lt dotted i, el final sigma) under every casing of both words
        for t in ("GO_DESIGNER", "Go_Designer", "go_designer", "go_DESIGNER"):
            out.append(dict(mk(t, "ministry_ID_title_i\u0130\u0131I", "env-casing", "unicode"), env=idx))
            out.append(dict(mk(t, "\u039f\u0394\u039f\u03a3_\u03bf\u03b4\u03bf\u03c2_i\u0307x_J\u0328", "env-casing", "unicode"), env=idx))
    return out


def fixed_cases():
    """always-run regression cases: the D8 witnesses of DESIGN section 7 and the documented examples"""
    out = []
    for t in ["\u0250\u0250\u0250\u0250godesigner", b"\xffgodesigner", "\u0131go_designer", "\u00dfgo#Designer\u00df",
              "go_des\u0131gner", "go_de\u017figner", "\ufb01GO-designer.go", "\u0149Go_DESIGNER", "\u0587go_designer"]:
        for c in ["user_name", "HTTPServer", "\u0250x_y"]:
            out.append(mk(t, c, "d8", "fixed"))
    for t in ["go_designer", "goDesigner", "GoDesigner", "GODESIGNER", "go#designer", "Go-Designer.go", "godesigner",
              "designer_go", "gO_designer", "go_DeSigner", "go", "designer", "", "go_designer_go_designer", "gogo_designer"]:
        for c in ["welcome_to_go_zero", "WelcomeToGoZero", "userID", "user_2fa", "", "_a__b_", "foo bar.baz", b"a\xffB\xe2\x82c"]:
            out.append(mk(t, c, "doc", "fixed"))
    return out


def generate(rng, tier, n):
    cases = [] if tier == "search" else fixed_cases() + env_cases()
    if tier == "thorough":      # every possible first byte (UnTitle reads it as a Latin-1 rune)
        cases += [mk("go_designer", bytes([x]) + b"bc", "doc", "byte0") for x in range(256)]
    while len(cases) < n:
        t, tk = gen_template(rng)
        c, ck = gen_content(rng)
        h = gen_history(rng, t, c) if rng.random() < 0.3 else None
        case = mk(t, c, tk, ck, h)
        if ck.startswith("rt") and rng.random() < 0.6:     # sibling conversions before the round trip
            case["sib"] = [b(x).hex() for x in siblings_of(rng, c.decode("ascii"))]
        if tk == "cfg-empty" or rng.random() < 0.08:      # started in a process with an adversarial environment
            case["env"] = rng.randrange(1, len(ENV_PROFILES))
            if not h and rng.random() < 0.7:
                case["h"] = gen_history(rng, "", c)
        cases.append(case)
    return cases


def search(rng, problems):
    out = fixed_cases()
    for pre in LEN_CHANGING + INVALID:
        for g in GO_FORMS:
            for d in DS_FORMS:
                for sep in ["", "_"]:
                    out.append(mk(b(pre) + b(g) + b(sep) + b(d), "userName_x", "d8", "search"))
    for g in GO_FORMS + GO_MIXED:
        for d in DS_FORMS + DS_MIXED[:2]:
            for c in ["userNameID", "a_b_c", "HTTPServer", "x"]:
                out.append(mk(g + "#" + d, c, "grid", "search"))
    return out


# ------------------------------------------------------------------------------------------ driver
DRV_SRC = os.path.join(vlib.VERIF, "harness", "c20drv", "main.go")
MOD_DIR = os.path.join(vlib.WORK, "C20mod")


def drive(cases, tier):
    log = []
    try:
        if os.path.isdir(MOD_DIR):
            shutil.rmtree(MOD_DIR)
        os.makedirs(MOD_DIR)
        needs_xtext = False
        for sub, rel in (("format", "util/format"), ("stringx", "util/stringx"), ("config", "config")):
            os.makedirs(os.path.join(MOD_DIR, sub))
            srcs = [f for f in sorted(glob.glob(os.path.join(vlib.REPO, "tools", "god", *rel.split("/"), "*.go")))
                    if not f.endswith("_test.go")]
            if not srcs:
                return None, "no sources for %s under %s" % (sub, vlib.REPO)
            for f in srcs:
                shutil.copy(f, os.path.join(MOD_DIR, sub, os.path.basename(f)))
                if "golang.org/x/text" in open(f, encoding="utf-8", errors="replace").read():
                    needs_xtext = True
        shutil.copy(DRV_SRC, os.path.join(MOD_DIR, "main.go"))
        with open(os.path.join(MOD_DIR, "go.mod"), "w") as f:
            # the driver itself tabulates x/text's title-casing, so the requirement is unconditional
            f.write("module c20drv\n\ngo 1.19\n\nrequire golang.org/x/text v0.5.0\n")
        log.append("stringx imports x/text: %s" % needs_xtext)
        gosum = os.path.join(vlib.REPO, "go.sum")
        if not os.path.exists(gosum):
            gosum = "/repo/go.sum"
        shutil.copy(gosum, os.path.join(MOD_DIR, "go.sum"))
    except OSError as ex:
        return None, "scratch module setup failed: %r" % ex
    env = dict(vlib.GOENV)
    rc, out = vlib.sh(["go", "build", "-o", DRV_BIN, "."], cwd=MOD_DIR, env=env, timeout=DRIVER_TIMEOUT)
    log.append(out)
    if rc != 0:
        return None, "driver build rc=%s\n%s" % (rc, "\n".join(log)[-6000:])
    global _LAST_CASES
    if tier != "search":
        _LAST_CASES = list(cases)
    else:
        _LAST_CASES = _LAST_CASES + list(cases)
    # names of environment variables the sources under test mention: set them too in the adversarial runs
    global _EXTRA_ENV_NAMES
    names = set()
    for f in glob.glob(os.path.join(MOD_DIR, "*", "*.go")):
        txt = open(f, encoding="utf-8", errors="replace").read()
        names.update(re.findall(r'(?:Getenv|LookupEnv)\(\s*"([A-Za-z_][A-Za-z0-9_]*)"', txt))
    _EXTRA_ENV_NAMES = sorted(names - set(ENV_NAMES))
    # one process per environment profile; the cases of a profile share their process, in order
    name = "C20" if tier != "search" else "C20s"
    obs = [None] * len(cases)
    for idx in sorted({c.get("env", 0) for c in cases}):
        sel = [i for i, c in enumerate(cases) if c.get("env", 0) == idx]
        o, out = run_binary([cases[i] for i in sel], name if idx == 0 else "%se%d" % (name, idx), idx)
        log.append(out)
        if o is None:
            return None, "\n".join(log)[-6000:]
        for i, x in zip(sel, o):
            obs[i] = x
    return obs, "\n".join(log)


DRV_BIN = os.path.join(MOD_DIR, "c20drv.bin")
_LAST_CASES = []


def run_binary(cases, name, env_idx=0):
    """one fresh process of the built driver over `cases` (the whole list shares the process), started
    with the environment and working directory of profile env_idx"""
    inp = os.path.join(vlib.WORK, "%s.in.jsonl" % name)
    outp = os.path.join(vlib.WORK, "%s.out.jsonl" % name)
    with open(inp, "w") as f:
        for c in cases:
            f.write(json.dumps({"t": c["t"], "c": c["c"], "h": c.get("h", []), "sib": c.get("sib", [])}, separators=(",", ":")) + "\n")
    if os.path.exists(outp):
        os.remove(outp)
    env = dict(vlib.GOENV)
    extra, cwd = env_of(env_idx)
    if env_idx:
        make_decoy_cwd(extra["GOD_NAMING_FORMAT"])
    env.update(extra)
    env.update({"VERIF_IN": inp, "VERIF_OUT": outp})
    rc, out = vlib.sh([DRV_BIN], cwd=cwd, env=env, timeout=DRIVER_TIMEOUT)
    obs = None
    if os.path.exists(outp):
        obs = [json.loads(l) for l in open(outp) if l.strip()]
    if rc != 0 or obs is None or len(obs) != len(cases) or any("error" in o or any("error" in x for x in o.get("hobs", [])) for o in obs):
        return None, "driver rc=%s obs=%s/%s\n%s" % (rc, None if obs is None else len(obs), len(cases), out[-6000:])
    return obs, out


def shrink(v):
    """All cases of a run share one driver process, so a case can fail only because an EARLIER case's
    history left state behind (a cached / aliased configuration). The replay must fail on its own:
    re-run the chosen case alone in a fresh process; if it no longer fails, look for the smallest
    case of the run that does fail alone (each candidate in its own process, spec_ok decided by Coq)."""
    if not os.path.exists(DRV_BIN):
        return v

    def failing(pairs):
        terms = [encode(c, o) for c, o in pairs]
        r = vlib.coq_eval(ID, "C20.Exec", terms, shard=SHARD, checks=("spec_ok",), tag="k")
        return set(r["spec_ok"])

    o, _ = run_binary([v["case"]], "C20k", v["case"].get("env", 0))
    if o is not None and 0 in failing([(v["case"], o[0])]):
        return {"case": v["case"], "obs": o[0]}
    cands = sorted([c for c in _LAST_CASES if c.get("h") or c.get("env") or c.get("sib")], key=lambda c: len(vlib.canon(c)))[:60]
    pairs = []
    for c in cands:
        o, _ = run_binary([c], "C20k", c.get("env", 0))
        if o is not None:
            pairs.append((c, o[0]))
    bad = failing(pairs) if pairs else set()
    if bad:
        c, o = pairs[min(bad)]
        return {"case": c, "obs": o}
    return v


# ------------------------------------------------------------------------------------------ encoder
def cstrb(h):
    return clist([cN(x) for x in bytes.fromhex(h)])


def cobs(o):
    if "ok" in o:
        return "(OOk %s)" % cstrb(o["ok"])
    if "err" in o:
        return "(OErr %s %s)" % (cnat(o["err"]), cstrb(o["msg"]))
    return "OPanic"


def encode(case, obs):
    runes = [cpair(cN(r[0]), "(mkRI %s %s %s %s %s %s %s)" % (cN(r[1]), cN(r[2]), cN(r[3]), cbool(r[4]), cbool(r[5]), cbool(r[6]), cbool(r[7])))
             for r in obs["runes"]]
    xt = [cpair(cstrb(a), cstrb(b_)) for a, b_ in obs["xt"]]
    hops = []
    for o in case.get("h", []):
        if o["op"] == "new":
            hops.append("XNew %s" % cstrb(o["s"]))
        elif o["op"] == "set":
            hops.append("XSet %s %s" % (cnat(o["i"]), cstrb(o["s"])))
        elif o["op"] == "read":
            hops.append("XRead %s" % cnat(o["i"]))
        else:
            hops.append("XFmt %s %s" % (cnat(o["i"]), cstrb(o["s"])))
    return "mkcase %s %s %s %s %s %s %s %s %s %s %s %s %s %s %s" % (
        cnat(case.get("env", 0)),
        cstrb(case["t"]), cstrb(case["c"]), clist(runes), clist(xt),
        cobs(obs["fmt"]), cobs(obs["fmt2"]), cobs(obs["camel"]), cobs(obs["snake"]), cobs(obs["rt"]), cobs(obs["untitle"]),
        cobs(obs["cfg"]), cobs(obs["cfgfmt"]), clist(hops), clist([cobs(x) for x in obs["hobs"]]))


def nontrivial(case, obs):
    f = obs["fmt"]
    if "ok" in f and case["c"] != "":
        return True
    t = bytes.fromhex(case["t"]).lower()
    if "err" in f and b"go" in t and b"designer" in t:
        return True
    if len(case.get("h", [])) >= 3:
        return True
    if case["tk"].startswith(("cfg", "corpus-cfg")) and ("err" in obs["cfg"] or "ok" in obs["cfgfmt"]):
        return True
    return case["ck"] in ("rt2", "rt3")


def bucket(case, obs):
    f = obs["fmt"]
    out = ["tmpl:" + case["tk"], "ident:" + case["ck"],
           "fmt:" + ("ok" if "ok" in f else "err%d" % f["err"] if "err" in f else "PANIC")]
    if any("panic" in obs[k] for k in ("camel", "snake", "rt")):
        out.append("conv:PANIC")
    if case.get("sib"):
        out.append("siblings-before-roundtrip")
    if case.get("env"):
        out.append("env:adversarial-%d" % case["env"])
    if case.get("h"):
        out.append("history:%d-configs" % min(3, sum(1 for o in case["h"] if o["op"] == "new")))
        if any("panic" in x for x in obs["hobs"]):
            out.append("history:PANIC")
    if obs["xt"]:
        out.append("oracle:xtext-word")
    if len(obs["runes"]) > 1:
        out.append("oracle:unicode-rune")
    return out


def classify(case, obs):
    return None


def explain(case, obs):
    t, c = bytes.fromhex(case["t"]), bytes.fromhex(case["c"])

    def show(o):
        if "ok" in o:
            return "ok %r" % bytes.fromhex(o["ok"])
        if "err" in o:
            return "error kind %d %r" % (o["err"], bytes.fromhex(o["msg"]).decode("utf-8", "replace"))
        return "PANIC " + o.get("panic", "")

    what = []
    for k in ("fmt", "fmt2", "camel", "snake", "rt", "cfg", "cfgfmt"):
        if "panic" in obs[k]:
            what.append("%s panicked (c20_format_total / c20_total): %s" % (k, obs[k]["panic"]))
    if obs["fmt"] != obs["fmt2"]:
        what.append("two identical FileNamingFormat calls differ (c20_deterministic): second -> " + show(obs["fmt2"]))
    if "ok" in obs["cfg"] and bytes.fromhex(obs["cfg"]["ok"]) != (t if t else b"godesigner"):
        what.append("config.NewConfig(%r).NamingFormat = %r: the template must reach FileNamingFormat verbatim, only the "
                    "empty one is the default (c20_config_verbatim / c20_config_transparent)" % (t, bytes.fromhex(obs["cfg"]["ok"])))
    elif obs["cfgfmt"] != obs["fmt"] and t != b"" and not ("err" in obs["cfgfmt"] and "err" in obs["fmt"]):
        what.append("through config.NewConfig the same template gives %s (cfg.NamingFormat: %s) -- the template must reach "
                    "FileNamingFormat verbatim, only the empty one is the default (c20_config_transparent)"
                    % (show(obs["cfgfmt"]), show(obs["cfg"])))
    if case.get("h"):
        hs = []
        for o, x in zip(case["h"], obs["hobs"]):
            arg = bytes.fromhex(o["s"]) if "s" in o else None
            hs.append("%s(%s) -> %s" % (o["op"], ", ".join(([str(o["i"])] if "i" in o and o["op"] != "new" else []) + ([repr(arg)] if arg is not None else [])), show(x)))
        what.append("configuration history in the same process, after this case's own NewConfig(%r) [" % t + "; ".join(hs) + "]: every NewConfig result must be a function of "
                    "its own argument and a configuration must hold only what was assigned to it (c20_config_history / c20_config_no_alias)")
    if not what:
        what.append("the observed results contradict C20.Exec.spec_ok: FileNamingFormat's result is not the Spec's "
                    "rendering prefix ++ join between (style_go w1 :: map style_designer ws) ++ suffix (c20_render), or a "
                    "template lacking a word / with the words out of order / in mixed casing was not rejected (c20_reject), "
                    "or a round-trip identifier did not come back from ToSnake(ToCamel) (c20_camel_snake_roundtrip)")
    if case.get("sib"):
        what.append("before these conversions the same process ran ToCamel/ToSnake on the sibling spellings %r: the round trip must not "
                    "depend on earlier calls (c20_camel_snake_roundtrip holds for the function, whatever was converted before)"
                    % [bytes.fromhex(x) for x in case["sib"]])
    if case.get("env"):
        val, loc = ENV_PROFILES[case["env"] % len(ENV_PROFILES) or 1]
        what.append("driver process started with adversarial environment profile %d (%s... = %r, LANG/LC_ALL = %s, cwd/HOME = a directory "
                    "of decoy config files): results must equal those of a clean environment, the default template is the "
                    "constant \"godesigner\" (c20_no_ambient_state)" % (case["env"], ", ".join(ENV_NAMES[:4]), val, loc))
    return "FileNamingFormat(%r, %r) -> %s; ToCamel -> %s; ToSnake(ToCamel) -> %s; %s" % (
        t, c, show(obs["fmt"]), show(obs["camel"]), show(obs["rt"]), "; ".join(what))
