"""C15 service discovery: event/miss/reload histories x subscribers (see c13.py for the interface).

Two in-package drivers are chained by drive():
  1. lib/discov/internal  -- Registry.Monitor / cluster with a scripted etcd and connection: for every
     history event the calls every listener received, cluster.values, streams, revisions;
  2. lib/discov           -- the real container of every subscriber is fed exactly the calls observed in
     stage 1 (plus AddListener and one getValues sample after every history event).
Stand-alone container cases (kind "cont", incl. sequences outside the one-value-per-key proviso) use
stage 2 only.
"""
import vlib
from vlib import cnat, cbool, clist, copt, cpair

ID = "C15"
GO_PKG = "./lib/discov/internal"
GO_PKG_CONT = "./lib/discov"
GO_PKG_RES = "./rpc/resolver/internal"
R = "lib/discov/internal/registry.go"
S = "lib/discov/subscriber.go"
GEN_SPEC = {"items": [
    {"kind": "const", "file": "lib/discov/internal/vars.go", "name": "Delimiter"},
    {"kind": "const", "file": "lib/discov/internal/vars.go", "name": "coolDownInterval"},
    {"kind": "const", "file": "lib/discov/internal/vars.go", "name": "autoSyncInterval"},
    {"kind": "const", "file": "lib/discov/internal/vars.go", "name": "requestTimeout"},
    {"kind": "const", "file": "lib/discov/publisher.go", "name": "TimeToLive"},
    {"kind": "calls", "file": R, "func": "Registry.Monitor", "as": "calls_Monitor"},
    {"kind": "calls", "file": R, "func": "cluster.monitor", "as": "calls_monitor"},
    {"kind": "calls", "file": R, "func": "cluster.reload", "as": "calls_reload"},
    {"kind": "calls", "file": R, "func": "cluster.load", "as": "calls_load"},
    {"kind": "calls", "file": R, "func": "cluster.handleChanges", "as": "calls_handleChanges"},
    {"kind": "calls", "file": R, "func": "cluster.handleWatchEvents", "as": "calls_handleWatchEvents"},
    {"kind": "calls", "file": R, "func": "cluster.watchConnState", "as": "calls_watchConnState"},
    {"kind": "calls", "file": R, "func": "cluster.getCurrent", "as": "calls_getCurrent"},
    {"kind": "calls", "file": "lib/discov/internal/statwatcher.go", "func": "stateWatcher.updateState", "as": "calls_updateState"},
    {"kind": "calls", "file": S, "func": "container.OnAdd", "as": "calls_OnAdd"},
    {"kind": "calls", "file": S, "func": "container.OnDelete", "as": "calls_OnDelete"},
    {"kind": "calls", "file": S, "func": "container.addKv", "as": "calls_addKv"},
    {"kind": "calls", "file": S, "func": "container.removeKey", "as": "calls_removeKey"},
    {"kind": "calls", "file": S, "func": "container.doRemoveKey", "as": "calls_doRemoveKey"},
    {"kind": "calls", "file": S, "func": "container.notifyChange", "as": "calls_notifyChange"},
    {"kind": "calls", "file": S, "func": "container.getValues", "as": "calls_getValues"},
    {"kind": "calls", "file": S, "func": "NewSubscriber", "as": "calls_NewSubscriber"},
    {"kind": "calls", "file": "rpc/resolver/internal/discovbuilder.go", "func": "discovBuilder.Build", "as": "calls_Build"},
    {"kind": "const", "file": "rpc/resolver/internal/resolver.go", "name": "subsetSize"},
    {"kind": "calls", "file": "lib/discov/publisher.go", "func": "Publisher.KeepAlive", "as": "calls_KeepAlive"},
    {"kind": "calls", "file": "lib/discov/publisher.go", "func": "Publisher.register", "as": "calls_register"},
    {"kind": "calls", "file": "lib/discov/publisher.go", "func": "Publisher.keepAliveAsync", "as": "calls_keepAliveAsync"},
    {"kind": "calls", "file": "lib/discov/publisher.go", "func": "Publisher.revoke", "as": "calls_revoke"},
    {"kind": "calls", "file": "lib/discov/publisher.go", "func": "Publisher.Stop", "as": "calls_Stop"},
    {"kind": "calls", "file": R, "func": "cluster.watchStream", "as": "calls_watchStream"},
    {"kind": "calls", "file": R, "func": "Registry.GetConn", "as": "calls_GetConn"},
    {"kind": "calls", "file": R, "func": "cluster.newClient", "as": "calls_newClient"},
    {"kind": "calls", "file": R, "func": "cluster.getClient", "as": "calls_getClient"},
    {"kind": "calls", "file": R, "func": "cluster.watch", "as": "calls_watch"},
    {"kind": "calls", "file": "lib/discov/internal/statwatcher.go", "func": "stateWatcher.watch", "as": "calls_swatch"},
]}
QUICK_N = 300
THOROUGH_N = 5000
SHARD = 60
DRIVER_TIMEOUT = 900
RULE = ("histories (30% with 2-4 prefixes subscribed on the same cluster; up to 25% of the changes arrive as batches of 2-8 events in "
        "one watch response: restarts, put-then-delete, mixed keys) of 3-40 events over 2-7 keys under the prefix (each key bound to one of 1-4 values for the whole "
        "history, values shared between keys) and 0-2 keys outside it: Put/Del each delivered through every open watch "
        "stream or missed (store only), 0-4 reloads (connection loss and recovery seen by the stateWatcher), 1-3 subscribers "
        "(exclusive or not) attaching at random points through Registry.Monitor; every subscriber's real container is fed "
        "the calls its listener was observed to receive and sampled after every event; 15% stand-alone container call "
        "sequences (a third of them outside the one-value-per-key proviso). Fixed directed histories first (stale-snapshot "
        "witness, late join, exclusive takeover; after a late join every deletion order of keys sharing values; the same key delivered "
        "2-3 times then one delete; resolver Build with events delivered while its first UpdateState is in progress), plus n/12 "
        "random publisher cases (real Publisher + Subscriber on an etcd with leases: start, 1-5 keep-alive losses with or without "
        "lease expiry, pause/resume, stop; store and subscriber list after every op) and n/12 random resolver cases (rpc/resolver/internal: pre/during/post events around discovBuilder.Build on the scripted etcd, "
        "recording ClientConn.UpdateState). non-trivial = a history with a subscriber, a missed change later repaired "
        "by a reload or subscribe, and a delete; distinct = distinct canonical case JSON")
TRUSTED = ["scripted etcd (fake EtcdClient in the driver: Get = sorted snapshot of the store under the requested prefix at the "
           "current revision, Watch = a stream fed by the driver) and scripted connectivity states",
           "watch goroutines are serialised by the driver (one event, then an empty response as barrier, per stream); reload "
           "is awaited through the Watch call it ends with",
           "etcd revision semantics reduced to: the stream opened after a snapshot at revision r starts at r+1 and misses nothing"]
ASSUMPTIONS = ["real-client cases (kind real): Registry/cluster on clientv3.New against an in-process member speaking the etcd gRPC wire "
               "format (Status, Range, Watch; no replay of history to resumed watches); the member is stopped and restarted, reload is "
               "triggered by the client's own connectivity states; request counters are not compared there (the client resumes its "
               "watches itself); 4 directed histories, both start-up orders (GetConn before / after the first subscriber)",
               "server-cancelled watch: the most recent stream of a prefix is cancelled (channel closed or cancel response); the scripted "
               "client serves a stream created WithRev(r) the committed changes with revision >= r first; changes committed while no "
               "replacement stream exists are store-only",
               "failing snapshot Gets: the scripted client honours the request context (fails at once on a done context, 'hang' answers only "
               "when the context is done, 'err' fails immediately); RequestTimeout is set to 30 ms for these cases, the retries are "
               "coolDownInterval (1 s, a constant) apart, so 5 directed histories with 1-2 failed attempts each are run; registry changes "
               "during the failing period are store-only (no stream is open while a reload is pending)",
               "resolver: at most subsetSize = 32 distinct values (subset() truncates beyond that); events can be injected during "
               "Build only while its first UpdateState call is in progress (the only point the ClientConn can hold it)",
               "each key carries one value during its life (the quantifier's proviso); histories outside it are only used to "
               "validate the model",
               "several prefixes on one cluster are modelled as one single-prefix cluster per prefix over the same store (the history "
               "is projected on each prefix; prefixes are not nested); Get never fails (load retries forever otherwise)",
               "publisher: one publisher per case on a scripted etcd with leases (Grant/Put WithLease/Revoke/expiry); Pause/Resume/"
               "Stop are issued only in states where the Go call does not block",
               "in exclusive mode 'most recent key' is the most recent OnAdd received by that subscriber: keys learnt from "
               "one snapshot (reload, late join) arrive in Go map-iteration order"]

VALS = ["a", "b", "c", "d"]


# ----------------------------------------------------------------------------- generation
def _hist(rng, n_events=None, proviso=True, multi=None):
    prefix = rng.choice(["svc", "svc", "a.rpc", "k"])
    if multi is None:
        multi = rng.random() < 0.3
    prefixes = [prefix]
    if multi:
        prefixes = rng.sample(["svc", "a.rpc", "k", "pay.rpc", "m"], rng.randint(2, 4))
        prefix = prefixes[0]
    nk = rng.randint(2, 7)
    nv = rng.randint(1, 4)
    keys = ["%s/%d" % (prefixes[i % len(prefixes)], 7587 + i) for i in range(max(nk, len(prefixes)))]
    outside = rng.sample([prefix + "x/1", "other/2", prefix, prefix + "/"[:0] + "0/3"], rng.randint(0, 2))
    val = {k: VALS[rng.randrange(nv)] for k in keys + outside}
    n = n_events if n_events is not None else rng.randint(3, 40)
    max_subs = rng.randint(len(prefixes), max(3, len(prefixes)))
    max_reloads = rng.randint(0, 4) if not multi else rng.randint(1, 3)
    p_miss = rng.choice([0.0, 0.2, 0.4, 0.7])
    p_del = rng.choice([0.3, 0.45, 0.6])
    p_batch = rng.choice([0.0, 0.1, 0.25])
    p_cancel = rng.choice([0.0, 0.0, 0.06, 0.12]) if proviso else 0.0
    events = []
    nsubs = nreloads = 0
    present = set()
    sub_at = sorted(rng.sample(range(n), min(max_subs, n)))
    if rng.random() < 0.8:
        sub_at[0] = rng.randint(0, min(2, n - 1))
    if multi:   # every prefix is subscribed early, so that reloads concern all of them
        sub_at = list(range(min(len(prefixes), n))) + [x for x in sub_at if x >= len(prefixes)]
    sub_at = sorted(set(sub_at))
    for i in range(n):
        if i in sub_at:
            ls = sorted(set(rng.randrange(0, 6) for _ in range(rng.randint(0, 2))))
            pi = nsubs if nsubs < len(prefixes) else rng.randrange(len(prefixes))
            events.append({"t": "sub", "x": rng.random() < 0.4, "ls": ls, "p": pi})
            nsubs += 1
            continue
        r = rng.random()
        if nreloads < max_reloads and r < 0.12:
            events.append({"t": "reload", "fast": "after"} if rng.random() < 0.3 else {"t": "reload"})
            nreloads += 1
            continue
        if nsubs > 0 and rng.random() < p_cancel:
            cp = rng.randrange(len(prefixes))
            mode = rng.choice(["close", "canceled"])
            if rng.random() < 0.5 and i + 2 < n:
                # changes committed while no replacement stream exists yet (not delivered to anyone)
                events.append({"t": "cancel", "mode": mode, "hold": True, "p": cp})
                for _ in range(rng.randint(1, 3)):
                    k = rng.choice(keys)
                    if k in present and rng.random() < 0.5:
                        events.append({"t": "del", "k": k, "d": False})
                        present.discard(k)
                    else:
                        events.append({"t": "put", "k": k, "v": val[k], "d": False})
                        present.add(k)
                events.append({"t": "cancel_end"})
            else:
                events.append({"t": "cancel", "mode": mode, "hold": False, "p": cp})
            continue
        if proviso and rng.random() < p_batch:
            # several changes in ONE watch response: restarts (delete then put of a key), put then delete, mixed keys
            items = []
            for _ in range(rng.randint(2, 5)):
                k = rng.choice(keys)
                q = rng.random()
                if k in present and q < 0.35:      # restart
                    items += [{"t": "del", "k": k}, {"t": "put", "k": k, "v": val[k]}]
                elif k in present and q < 0.7:
                    items.append({"t": "del", "k": k})
                    present.discard(k)
                elif k not in present and q < 0.3:  # comes and goes within the response
                    items += [{"t": "put", "k": k, "v": val[k]}, {"t": "del", "k": k}]
                else:
                    items.append({"t": "put", "k": k, "v": val[k]})
                    present.add(k)
            events.append({"t": "batch", "items": items})
            continue
        k = rng.choice(keys) if rng.random() < 0.9 or not outside else rng.choice(outside)
        d = rng.random() >= p_miss
        if present and rng.random() < p_del:
            if rng.random() < 0.85:
                k = rng.choice(sorted(present))
            events.append({"t": "del", "k": k, "d": d})
            present.discard(k)
        else:
            v = val[k]
            if not proviso and rng.random() < 0.3:
                v = rng.choice(VALS)
            events.append({"t": "put", "k": k, "v": v, "d": d})
            present.add(k)
    out = {"kind": "hist", "prefix": prefix, "events": events}
    if multi:
        out["prefixes"] = prefixes
    return out


def _pub(rng):
    ops = ["start"]
    mode = "active"
    for _ in range(rng.randint(1, 9)):
        if mode == "active":
            o = rng.choice(["lose", "lose", "losex", "lose", "pause", "stop"])
        elif mode == "paused":
            o = rng.choice(["resume", "resume", "stop"])
        else:
            break
        ops.append(o)
        mode = {"pause": "paused", "resume": "active", "stop": "stopped"}.get(o, mode)
    if mode == "active" and rng.random() < 0.8:
        ops.append(rng.choice(["stop", "pause"]))
    return {"kind": "pub", "key": rng.choice(["svc", "a.rpc"]), "value": "10.0.0.%d:8080" % rng.randint(1, 9),
            "id": rng.choice([0, 0, 7, 12]), "pops": ops}


def publisher_family():
    """(r4-1) register, keep-alive losses in a row, then Stop / Pause: nothing of the publisher may remain."""
    out = []
    for idn in (0, 9):
        for tail in (["stop"], ["pause"], ["pause", "resume", "lose", "stop"], ["pause", "stop"]):
            for losses in (["lose"], ["lose", "lose", "lose"], ["losex"], ["lose", "losex", "lose"]):
                out.append({"kind": "pub", "key": "svc", "value": "10.0.0.1:80", "id": idn, "pops": ["start"] + losses + tail})
    out.append({"kind": "pub", "key": "svc", "value": "10.0.0.1:80", "id": 0, "pops": ["start", "stop"]})
    return out


def multi_prefix_family():
    """(r4-2) several keys subscribed on one cluster; changes under every prefix during an outage; reload."""
    out = []
    for n in (2, 4):
        pf = ["svc", "a.rpc", "pay.rpc", "m"][:n]
        ev = [{"t": "sub", "x": False, "ls": [0], "p": i} for i in range(n)]
        ev += [P("%s/1" % q, "a") for q in pf]
        ev += [P("%s/2" % q, "b", False) for q in pf] + [D("%s/1" % q, False) for q in pf]
        ev += [RL]
        ev += [P("%s/3" % q, "c") for q in pf] + [D("%s/2" % q) for q in pf]
        ev += [P("%s/4" % q, "a", False) for q in pf] + [RL] + [D("%s/4" % q) for q in pf]
        out.append({"kind": "hist", "prefix": pf[0], "prefixes": pf, "events": ev})
    # a second listener on one of the prefixes, joining after the first reload
    pf = ["svc", "k"]
    out.append({"kind": "hist", "prefix": "svc", "prefixes": pf, "events": [
        SUB(p=0), SUB(p=1), P("svc/1", "a", False), P("k/1", "b", False), RL, SUB(p=1), D("svc/1", False), D("k/1", False), RL]})
    return out


def failing_get_family():
    """(r5-1) the snapshot Get of a reload / of the initial monitor fails or hangs (for longer than RequestTimeout in
    total, the retries being coolDownInterval apart) while the registry changes; then it succeeds."""
    H = lambda ev, pf=None: dict({"kind": "hist", "prefix": (pf or ["svc"])[0], "events": ev}, **({"prefixes": pf} if pf else {}))
    OFF = {"t": "fail_off"}
    RF = lambda mode, n=1: {"t": "reload", "fail": mode, "n": n}
    SF = lambda mode, n=1, x=False, p=0: {"t": "sub", "x": x, "ls": [0], "p": p, "fail": mode, "n": n}
    return [
        # an instance leaves and another arrives while the reload's snapshot hangs / errors
        H([SUB(), P("svc/1", "a"), RF("hang"), D("svc/1", False), P("svc/2", "b", False), OFF, P("svc/3", "a"), D("svc/2")]),
        H([SUB(), P("svc/1", "a"), RF("err", 2), D("svc/1", False), P("svc/2", "b", False), OFF, D("svc/2")]),
        # the initial monitor cannot read; a second subscriber and a later plain reload
        H([P("svc/1", "a"), SF("hang"), P("svc/2", "b", False), OFF, D("svc/1"), SUB(True), P("svc/3", "b", False), RL]),
        H([SUB(), P("svc/1", "a"), SF("err", 1, True), D("svc/1", False), P("svc/2", "a", False), OFF, D("svc/2")]),
        # two prefixes: both must come back
        H([SUB(p=0), SUB(p=1), P("svc/1", "a"), P("k/1", "b"), RF("hang"), D("svc/1", False), D("k/1", False), P("k/2", "c", False), OFF,
           P("svc/2", "a"), D("k/2")], ["svc", "k"]),
    ]


def cancel_family():
    """(r6-2) the server cancels a watch stream while the connection stays Ready; changes are committed after the
    cancellation and before the replacement stream exists."""
    H = lambda ev, pf=None: dict({"kind": "hist", "prefix": (pf or ["svc"])[0], "events": ev}, **({"prefixes": pf} if pf else {}))
    C = lambda mode, hold=False, p=0: {"t": "cancel", "mode": mode, "hold": hold, "p": p}
    END = {"t": "cancel_end"}
    out = []
    for mode in ("close", "canceled"):
        out += [
            H([SUB(), P("svc/1", "a"), C(mode, True), D("svc/1", False), P("svc/2", "b", False), END, P("svc/3", "a"), D("svc/2")]),
            H([SUB(True), P("svc/1", "a"), P("svc/2", "a"), C(mode, True), D("svc/2", False), END, D("svc/1")]),
            H([SUB(), P("svc/1", "a"), C(mode), D("svc/1"), SUB(), C(mode, True), P("svc/2", "b", False), END]),
            H([SUB(p=0), SUB(p=1), P("svc/1", "a"), P("k/1", "b"), C(mode, True, 1), D("k/1", False), P("k/2", "c", False),
               D("svc/1"), END, C(mode, True, 0), P("svc/2", "a", False), END], ["svc", "k"]),
            H([SUB(), P("svc/1", "a"), RL, P("svc/2", "b"), C(mode, True), D("svc/2", False), D("svc/1", False), END, RL]),
        ]
    return out


def real_family():
    """(r6-1) both start-up orders (Registry.GetConn / Publisher.KeepAlive before or after the first subscriber) on the REAL etcd
    client against an in-process member; the member goes away and comes back with changes only its snapshot shows."""
    X = lambda ev: {"kind": "real", "prefix": "svc", "events": ev}
    G, OUT, ON = {"t": "getconn"}, {"t": "outage"}, {"t": "online"}
    return [
        X([G, SUB(), P("svc/1", "a"), OUT, D("svc/1", False), P("svc/2", "b", False), ON, P("svc/3", "c"), D("svc/2")]),
        X([SUB(), G, P("svc/1", "a"), OUT, D("svc/1", False), P("svc/2", "b", False), ON, D("svc/2")]),
        X([P("svc/1", "a"), G, SUB(), SUB(True), P("svc/2", "a"), OUT, D("svc/2", False), ON, D("svc/1")]),
        X([G, OUT, P("svc/1", "a", False), ON, SUB(), OUT, P("svc/2", "b", False), D("svc/1", False), ON, SUB()]),
    ]


def fast_reconnect_family():
    """(r8-1) the connection fails and is Ready again before the state watcher's next WaitForStateChange (which, like grpc's,
    returns at once when the state differs from the one passed): the reload still runs, exactly once."""
    H = lambda ev, pf=None: dict({"kind": "hist", "prefix": (pf or ["svc"])[0], "events": ev}, **({"prefixes": pf} if pf else {}))
    FR = {"t": "reload", "fast": "after"}
    return [
        H([SUB(), P("svc/1", "a"), D("svc/1", False), P("svc/2", "b", False), FR, P("svc/3", "c"), D("svc/2")]),
        H([SUB(True), P("svc/1", "a"), P("svc/2", "a", False), FR, D("svc/1", False), FR, RL, D("svc/2")]),
        H([SUB(p=0), SUB(p=1), P("svc/1", "a"), P("k/1", "b", False), D("svc/1", False), FR, P("k/2", "c"), SUB(p=0),
           P("svc/2", "a", False), FR], ["svc", "k"]),
        H([SUB(), RL, P("svc/1", "a", False), FR, FR, D("svc/1", False), RL, P("svc/2", "b", False), FR]),
    ]


def reload_race_family():
    """(D23) a stream goroutine has just taken a watch response when reload takes c.lock: reload must complete, the lock be
    released and the view converge (the driver forces the interleaving; with the lock held across watchGroup.Wait() this hangs)."""
    H = lambda ev, pf=None: dict({"kind": "hist", "prefix": (pf or ["svc"])[0], "events": ev}, **({"prefixes": pf} if pf else {}))
    RR = {"t": "reload_race"}
    return [
        H([SUB(), P("svc/1", "a"), D("svc/1", False), RR, P("svc/2", "b")]),
        H([SUB(), SUB(True), P("svc/1", "a"), P("svc/2", "a", False), RR, D("svc/1"), RR, D("svc/2", False), RL]),
        H([SUB(p=0), SUB(p=1), P("svc/1", "a"), P("k/1", "b", False), RR, D("k/1"), P("svc/2", "c", False), RR], ["svc", "k"]),
    ]


def batch_family():
    """(r4-3) one watch response carrying several events."""
    B = lambda *items: {"t": "batch", "items": [({"t": "put", "k": k, "v": v} if v else {"t": "del", "k": k}) for k, v in items]}
    H = lambda ev: {"kind": "hist", "prefix": "svc", "events": ev}
    out = []
    for x in (False, True):
        out += [
            H([SUB(x), P("svc/1", "a"), B(("svc/1", None), ("svc/1", "a")), SUB(x)]),                       # restart
            H([SUB(x), B(("svc/1", "a"), ("svc/1", None)), SUB(x)]),                                        # comes and goes
            H([SUB(x), P("svc/1", "a"), P("svc/2", "b"), B(("svc/1", None), ("svc/3", "a"), ("svc/2", None), ("svc/2", "b")), SUB(x),
               B(("svc/3", None), ("svc/1", "a"), ("other/9", "c"))]),                                        # mixed keys
            H([SUB(x), SUB(False), P("svc/1", "a"), B(("svc/1", None), ("svc/1", "a"), ("svc/1", None)), B(("svc/1", "a"))]),
        ]
    return out


def _cont(rng, proviso):
    nk = rng.randint(1, 5)
    nv = rng.randint(1, 3)
    val = {i: VALS[rng.randrange(nv)] for i in range(nk)}
    ops = []
    for _ in range(rng.randint(2, 30)):
        r = rng.random()
        k = rng.randrange(nk)
        if r < 0.5:
            v = val[k] if proviso or rng.random() < 0.6 else rng.choice(VALS[:nv + 1])
            ops.append({"op": "add", "k": "k%d" % k, "v": v})
        elif r < 0.75:
            ops.append({"op": "del", "k": "k%d" % k, "v": ""})
        elif r < 0.85:
            ops.append({"op": "listen"})
        else:
            ops.append({"op": "get"})
    ops.append({"op": "get"})
    return {"kind": "cont", "excl": rng.random() < 0.5, "ops": ops}


def P(k, v="a", d=True):
    return {"t": "put", "k": k, "v": v, "d": d}


def D(k, d=True):
    return {"t": "del", "k": k, "d": d}


def SUB(x=False, ls=(0,), p=0):
    return {"t": "sub", "x": x, "ls": list(ls), "p": p}


RL = {"t": "reload"}


def directed():
    """Fixed histories around the clauses of the statement (also the witnesses of known defects)."""
    H = lambda ev: {"kind": "hist", "prefix": "svc", "events": ev}
    out = [
        # D5 witness: appears in one outage, vanishes in a later one
        H([SUB(), P("svc/1", "a", False), RL, D("svc/1", False), RL]),
        H([SUB(True), P("svc/1", "a", False), P("svc/2", "b", True), RL, D("svc/1", False), D("svc/2", False), RL, RL]),
        H([SUB(), P("svc/1", "a", False), RL, D("svc/1", False), SUB(), RL]),
        # late join sees the current set; delivered put/delete; keys sharing a value
        H([P("svc/1", "a"), SUB(), P("svc/2", "a"), P("svc/3", "b"), SUB(), D("svc/2"), D("svc/1"), SUB(True)]),
        H([SUB(), P("svc/1", "a"), P("svc/2", "b"), D("svc/1"), D("svc/2")]),
        # exclusive takeover: the later publisher of a value wins, the earlier key goes
        H([SUB(True), P("svc/1", "a"), P("svc/2", "a"), D("svc/1"), P("svc/3", "a"), D("svc/3")]),
        H([SUB(True), SUB(False), P("svc/1", "a"), P("svc/2", "a"), P("svc/3", "b"), D("svc/2"), RL]),
        # keys outside the prefix are invisible
        H([SUB(), P("svcx/1", "a"), P("other/2", "b"), P("svc", "a"), P("svc/1", "b"), RL]),
        # missed delete + reload, missed put + late join
        H([SUB(), P("svc/1", "a"), P("svc/2", "a"), D("svc/1", False), RL, P("svc/3", "c", False), SUB(), D("svc/3")]),
        {"kind": "cont", "excl": False, "ops": [{"op": "listen"}, {"op": "add", "k": "k1", "v": "a"}, {"op": "add", "k": "k2", "v": "a"},
                                                {"op": "get"}, {"op": "del", "k": "k1", "v": ""}, {"op": "get"}, {"op": "del", "k": "k2", "v": ""}, {"op": "get"}]},
        {"kind": "cont", "excl": True, "ops": [{"op": "add", "k": "k1", "v": "a"}, {"op": "listen"}, {"op": "add", "k": "k2", "v": "a"},
                                               {"op": "get"}, {"op": "del", "k": "k1", "v": ""}, {"op": "get"}, {"op": "del", "k": "k2", "v": ""}, {"op": "get"}]},
    ]
    return out


def _res(rng):
    prefix = rng.choice(["svc", "a.rpc"])
    nk = rng.randint(1, 5)
    nv = rng.randint(1, 3)
    keys = ["%s/%d" % (prefix, 7587 + i) for i in range(nk)] + [prefix + "x/1"]
    val = {k: VALS[rng.randrange(nv)] for k in keys}
    present = set()

    def evs(n, p_miss):
        out = []
        for _ in range(n):
            k = rng.choice(keys)
            d = rng.random() >= p_miss
            if k in present and rng.random() < 0.5:
                out.append({"t": "del", "k": k, "d": d})
                present.discard(k)
            else:
                out.append({"t": "put", "k": k, "v": val[k], "d": d})
                present.add(k)
        return out
    out = {"kind": "res", "prefix": prefix, "pre": evs(rng.randint(0, 4), 0.3), "during": evs(rng.randint(0, 4), 0.0)}
    if rng.random() < 0.4:
        # a second target (another key on the same endpoints) built by the same builder
        second = "pay.rpc"
        keys += ["%s/%d" % (second, 7600 + i) for i in range(rng.randint(1, 3))]
        for k in keys:
            val.setdefault(k, VALS[rng.randrange(nv)])
        out["mid"] = evs(rng.randint(0, 3), 0.0)
        out["second"] = second
    out["post"] = evs(rng.randint(0, 6), 0.05)
    return out


def late_join_family():
    """(2) keys sharing values: after a late join delete the keys one at a time, in every order."""
    import itertools
    out = []
    keys = [("svc/1", "a"), ("svc/2", "a"), ("svc/3", "b")]
    for x in (False, True):
        for perm in itertools.permutations([k for k, _ in keys]):
            ev = [SUB()] + [P(k, v) for k, v in keys] + [SUB(x)] + [D(k) for k in perm]
            out.append({"kind": "hist", "prefix": "svc", "events": ev})
    keys4 = [("svc/1", "a"), ("svc/2", "a"), ("svc/3", "a"), ("svc/4", "b")]
    for i, perm in enumerate(itertools.permutations([k for k, _ in keys4])):
        if i % 4 == 0:   # 6 of the 24 orders; puts partly missed so that the joiner learns them from its own load too
            ev = [SUB()] + [P(k, v, d=(j % 2 == 0)) for j, (k, v) in enumerate(keys4)] + [SUB()] + [D(k) for k in perm]
            out.append({"kind": "hist", "prefix": "svc", "events": ev})
    return out


def duplicate_family():
    """(3) the same (key, value) delivered several times, then one delete."""
    out = []
    for x in (False, True):
        for n in (2, 3):
            # re-put of the key by the same publisher; with two more subscribers every event is delivered 1x, 2x, 3x
            out.append({"kind": "hist", "prefix": "svc", "events": [SUB(x)] + [P("svc/1", "a")] * n + [D("svc/1")]})
            out.append({"kind": "hist", "prefix": "svc", "events": [SUB(x)] * n + [P("svc/1", "a"), P("svc/2", "a"), D("svc/1"), D("svc/2")]})
            out.append({"kind": "cont", "excl": x, "ops": [{"op": "listen"}] + [{"op": "add", "k": "k1", "v": "a"}] * n +
                        [{"op": "get"}, {"op": "del", "k": "k1", "v": ""}, {"op": "get"}]})
            out.append({"kind": "cont", "excl": x, "ops": [{"op": "add", "k": "k2", "v": "a"}] + [{"op": "add", "k": "k1", "v": "a"}] * n +
                        [{"op": "get"}, {"op": "del", "k": "k1", "v": ""}, {"op": "get"}, {"op": "del", "k": "k2", "v": ""}, {"op": "get"}]})
    return out


def resolver_family():
    """(1) updates processed while Build is pushing its first state."""
    R = lambda pre, during, post: {"kind": "res", "prefix": "svc", "pre": pre, "during": during, "post": post}
    return [
        R([], [P("svc/1", "a")], []),
        R([P("svc/1", "a")], [D("svc/1")], []),
        R([P("svc/1", "a", False)], [P("svc/2", "b"), D("svc/1")], [P("svc/3", "a")]),
        R([P("svc/1", "a"), P("svc/2", "a")], [D("svc/1")], [D("svc/2")]),
        R([], [], []),
        R([P("svc/1", "a")], [], [D("svc/1")]),
        # (r6-3) two targets built by the same registered builder: the first ClientConn keeps following its own key
        dict(R([P("svc/1", "a"), P("k/1", "x")], [], [D("svc/1"), P("k/2", "y"), P("svc/2", "b"), D("k/1")]), second="k",
             mid=[P("svc/3", "c")]),
        dict(R([], [P("svc/1", "a")], [P("svc/2", "b"), D("svc/1")]), second="k", mid=[]),
        dict(R([P("svc/1", "a")], [], [D("svc/1")]), second="k", mid=[]),
        dict(R([P("k/1", "x")], [], [P("k/2", "y"), P("svc/1", "a"), D("k/1"), D("k/2")]), second="k", mid=[P("k/3", "x")]),
    ]


def generate(rng, tier, n):
    cases = (list(directed()) + resolver_family() + late_join_family() + duplicate_family() +
             publisher_family() + multi_prefix_family() + batch_family() + failing_get_family() + cancel_family() + real_family() + fast_reconnect_family() + reload_race_family())
    nres = max(6, n // 12)
    for _ in range(nres):
        cases.append(_res(rng))
        cases.append(_pub(rng))
    while len(cases) < n:
        r = rng.random()
        if r < 0.80:
            cases.append(_hist(rng))
        elif r < 0.85:
            cases.append(_hist(rng, proviso=False))
        elif r < 0.95:
            cases.append(_cont(rng, True))
        else:
            cases.append(_cont(rng, False))
    return cases


def search(rng, problems):
    out = (list(directed()) + resolver_family() + late_join_family() + duplicate_family() +
           publisher_family() + multi_prefix_family() + batch_family() + failing_get_family() + cancel_family() + real_family() + fast_reconnect_family() + reload_race_family())
    out += [_res(rng) for _ in range(20)] + [_pub(rng) for _ in range(20)]
    for _ in range(60):
        out.append(_hist(rng, n_events=rng.randint(4, 10)))
    return out


# ----------------------------------------------------------------------------- drivers
def _projections(case, ho):
    """a history on a cluster with several subscribed prefixes = one single-prefix history per prefix:
    the events without the subscriptions of the other prefixes, with what was observed for that prefix"""
    prefixes = case.get("prefixes") or [case["prefix"]]
    steps = ho.get("steps") or []
    out = []
    for pi, pfx in enumerate(prefixes):
        evs, sts = [], []
        pending = None        # a sub/reload whose snapshot Gets fail until fail_off
        cancel_p = None
        held = []             # calls the listener of a pending subscription received before its load succeeded (the replay)
        for j, ev in enumerate(case["events"]):
            st = None
            if j < len(steps) and pi < len(steps[j].get("per") or []):
                st = dict(steps[j]["per"][pi])
                st["stuck"] = steps[j]["stuck"]
            mine_pending = pending is not None and pending["t"] == "sub" and pending.get("p", 0) == pi
            if ev["t"] in ("sub", "reload") and ev.get("fail"):
                pending = ev
                if ev["t"] == "sub" and ev.get("p", 0) != pi:
                    continue
                out_ev = {"t": "getfail"}       # the operation is pending: model event = a failed snapshot attempt
                mine_pending = ev["t"] == "sub"
            elif ev["t"] == "fail_off":
                pe, pending = pending, None
                if pe is None or (pe["t"] == "sub" and pe.get("p", 0) != pi):
                    continue
                out_ev = {k: v for k, v in pe.items() if k not in ("fail", "n")}
                mine_pending = False
                if st is not None and pe["t"] == "sub" and st["calls"]:
                    st["calls"] = st["calls"][:-1] + [held + st["calls"][-1]]
                held = []
            elif ev["t"] == "sub" and ev.get("p", 0) != pi:
                continue
            elif ev["t"] == "reload_race":
                # a reload forced to take c.lock while a stream goroutine has just taken a response
                out_ev = {"t": "reload"}
            elif ev["t"] == "cancel":
                # the server cancels the newest stream of one prefix; held: the replacement comes at cancel_end
                cancel_p = ev.get("p", 0)
                if cancel_p != pi or ev.get("hold"):
                    continue
                out_ev = {"t": "rewatch"}
            elif ev["t"] == "cancel_end":
                if cancel_p != pi:
                    continue
                out_ev = {"t": "rewatch"}
            else:
                out_ev = ev
            if st is not None and mine_pending and st["calls"]:
                held = held + st["calls"][-1]       # Monitor's replay happens at once; the model attaches the listener
                st["calls"] = st["calls"][:-1]      # when the load succeeds (nothing is delivered in between)
            evs.append(out_ev)
            if st is not None:
                sts.append(st)
        sts = sts[:min(len(sts), len(evs))]
        out.append({"prefix": pfx, "events": evs, "steps": sts})
    return out


def _real_events(case):
    out = []
    for ev in case["events"]:
        if ev["t"] in ("getconn", "outage"):
            continue
        out.append({"t": "reload"} if ev["t"] == "online" else ev)
    return out


def _real_projection(case, ho):
    """history driven through the real etcd client: GetConn and the start of an outage are no model events, the
    connection coming back is the Reload; the request counters are not observed (loose comparison)"""
    steps = ho.get("steps") or []
    evs, sts = [], []
    for j, ev in enumerate(case["events"]):
        if ev["t"] in ("getconn", "outage"):
            if j < len(steps) and steps[j]["stuck"]:
                # the run stopped here: keep it visible as a step of the next model event
                pass
            continue
        evs.append({"t": "reload"} if ev["t"] == "online" else ev)
        if j < len(steps):
            st = dict(steps[j])
            st.update({"watchers": 0, "gets": 0, "opened": 0, "get_rev": 0, "watch_rev": -1, "watch_pfx": ""})
            sts.append(st)
    return {"prefix": case["prefix"], "events": evs, "steps": sts[:len(evs)]}


def _cont_cases_of(proj):
    """container cases for the subscribers of a (projected) history, from the calls observed in stage 1"""
    steps = proj["steps"]
    subs = []
    for j, ev in enumerate(proj["events"][:len(steps)]):
        if ev["t"] == "sub":
            subs.append({"excl": bool(ev.get("x")), "start": j, "ls": set(ev.get("ls") or []), "ops": []})
        for i, s in enumerate(subs):
            calls = steps[j]["calls"][i] if i < len(steps[j]["calls"]) else []
            for c in calls:
                if c[0] == "+":
                    s["ops"].append({"op": "add", "k": c[1], "v": c[2]})
                else:
                    s["ops"].append({"op": "del", "k": c[1], "v": c[2]})
            if (j - s["start"]) in s["ls"]:
                s["ops"].append({"op": "listen"})
            s["ops"].append({"op": "get"})
    return subs


def drive(cases, tier):
    import concurrent.futures as cf
    log = ""
    hist_idx = [i for i, c in enumerate(cases) if c["kind"] == "hist"]
    real_idx = [i for i, c in enumerate(cases) if c["kind"] == "real"]
    res_idx = [i for i, c in enumerate(cases) if c["kind"] == "res"]
    hobs = []
    ex = cf.ThreadPoolExecutor(max_workers=3)
    # the real-client and resolver drivers do not depend on the others: they run meanwhile
    f_real = ex.submit(vlib.run_driver, GO_PKG, [{"prefix": cases[i]["prefix"], "events": cases[i]["events"]} for i in real_idx],
                       "C15x_" + tier[0], DRIVER_TIMEOUT, None, "^TestVerifRealDriver$") if real_idx else None
    f_res = ex.submit(vlib.run_driver, GO_PKG_RES,
                      [{k: cases[i].get(k) or ([] if k != "second" else "") for k in ("prefix", "pre", "during", "mid", "second", "post")}
                       for i in res_idx], "C15r_" + tier[0], DRIVER_TIMEOUT) if res_idx else None
    if hist_idx:
        inp = []
        for i in hist_idx:
            c = cases[i]
            inp.append({"prefixes": c.get("prefixes") or [c["prefix"]], "events": c["events"]})
        hobs, l1 = vlib.run_driver(GO_PKG, inp, name="C15h_" + tier[0], timeout=DRIVER_TIMEOUT)
        log += l1
        if hobs is None:
            return None, log
    xobs = []
    if f_real is not None:
        xobs, lx = f_real.result()
        log += lx
        if xobs is None:
            return None, log
    per_case = {}
    cont_in = []
    for i, ho in zip(hist_idx, hobs):
        bad = "driver_panic" in ho or "error" in ho
        projs = [] if bad else _projections(cases[i], ho)
        for pr in projs:
            pr["subs"] = _cont_cases_of(pr)
            for s_ in pr["subs"]:
                s_["slot"] = len(cont_in)
                cont_in.append({"excl": s_["excl"], "ops": s_["ops"]})
        per_case[i] = {"projs": projs, "panic": ho.get("driver_panic") or ho.get("error")}
    for i, ho in zip(real_idx, xobs):
        bad = "driver_panic" in ho or "error" in ho
        projs = [] if bad else [_real_projection(cases[i], ho)]
        for pr in projs:
            pr["subs"] = _cont_cases_of(pr)
            for s_ in pr["subs"]:
                s_["slot"] = len(cont_in)
                cont_in.append({"excl": s_["excl"], "ops": s_["ops"]})
        per_case[i] = {"projs": projs, "panic": ho.get("driver_panic") or ho.get("error")}
    for i, c in enumerate(cases):
        if c["kind"] == "cont":
            per_case[i] = {"projs": [{"prefix": None, "events": [], "steps": [],
                                      "subs": [{"excl": c["excl"], "start": 0, "ops": c["ops"], "slot": len(cont_in)}]}]}
            cont_in.append({"excl": c["excl"], "ops": c["ops"]})
    pub_slot = {}
    for i, c in enumerate(cases):
        if c["kind"] == "pub":
            pub_slot[i] = len(cont_in)
            cont_in.append({"kind": "pub", "key": c["key"], "value": c["value"], "id": c["id"], "pops": c["pops"]})
    robs = {}
    if f_res is not None:
        ro, l3 = f_res.result()
        log += l3
        if ro is None:
            return None, log
        robs = dict(zip(res_idx, ro))
    cobs = []
    if cont_in:
        cobs, l2 = vlib.run_driver(GO_PKG_CONT, cont_in, name="C15c_" + tier[0], timeout=DRIVER_TIMEOUT)
        log += l2
        if cobs is None:
            return None, log
    out = []
    for i, c in enumerate(cases):
        if c["kind"] == "res":
            out.append({"res": robs[i]})
            continue
        if c["kind"] == "pub":
            out.append({"pub": cobs[pub_slot[i]]})
            continue
        pc = per_case[i]
        projs = []
        for pr in pc["projs"]:
            conts = []
            for s_ in pr["subs"]:
                co = cobs[s_["slot"]]
                conts.append({"excl": s_["excl"], "start": s_["start"], "ops": s_["ops"], "samples": co.get("samples"),
                              "panic": co.get("driver_panic")})
            projs.append({"prefix": pr["prefix"], "events": pr["events"], "steps": pr["steps"], "conts": conts})
        o = {"proj": projs}
        if pc.get("panic"):
            o["panic"] = pc["panic"]
        out.append(o)
    return out, log


# ----------------------------------------------------------------------------- encoding
class _Ids:
    def __init__(self):
        self.k, self.v = {}, {}

    def key(self, s):
        return cnat(self.k.setdefault(s, len(self.k) + 1))

    def val(self, s):
        return cnat(self.v.setdefault(s, len(self.v) + 1))


def _call(ids, c):
    return "CAdd %s %s" % (ids.key(c[1]), ids.val(c[2])) if c[0] == "+" else "CDel %s" % ids.key(c[1])


def _keys(ids, calls, sign):
    out = []
    for c in calls:
        if c[0] == sign and c[1] not in out:
            out.append(c[1])
    return clist([ids.key(k) for k in out])


def _item(ids, it):
    return "BPut %s %s" % (ids.key(it["k"]), ids.val(it["v"])) if it["t"] == "put" else "BDel %s" % ids.key(it["k"])


def _encode_res_one(prefix, events_in, states, fine):
    ids = _Ids()
    events = []
    for ev in events_in:
        if ev["t"] == "put":
            events.append("Put %s %s %s" % (ids.key(ev["k"]), ids.val(ev["v"]), cbool(ev["d"])))
        elif ev["t"] == "del":
            events.append("Del %s %s" % (ids.key(ev["k"]), cbool(ev["d"])))
        else:
            events.append("Subscribe [] [] []")
    under = [ids.key(k) for k in sorted(ids.k) if k.startswith(prefix + "/")]
    q = "mkres %s %s" % (clist([clist([ids.val(v) for v in st]) for st in states]), cbool(fine))
    return "mkcase %s %s [] [] (Some (%s)) false" % (clist(under), clist(events), q)


def _encode_res(case, obs):
    r = obs.get("res") or {}
    second = case.get("second") or ""
    mid = case.get("mid") or []
    ok = bool(r) and r.get("stuck") == "" and r.get("streams") == (2 if second else 1)
    sub = [{"t": "sub"}]
    out = [_encode_res_one(case["prefix"], case["pre"] + sub + case["during"] + mid + case["post"],
                           r.get("states") or [], bool(ok and r.get("gated")))]
    if second:
        # the second target, built by the same builder after `mid`: its own subscriber, its own ClientConn
        out.append(_encode_res_one(second, case["pre"] + case["during"] + mid + sub + case["post"],
                                   r.get("states2") or [], bool(ok)))
    return "CHist %s" % clist(out)


POPS = {"start": "OStart", "lose": "OLose false", "losex": "OLose true", "pause": "OPause", "resume": "OResume", "stop": "OStop"}


def _encode_pub(case, obs):
    r = obs.get("pub") or {}
    rows = []
    for row in r.get("rows") or []:
        store = []
        for k, lease in row["store"]:
            tail = k[len(case["key"]) + 1:] if k.startswith(case["key"] + "/") else ""
            n = int(tail) if tail.isdigit() else None
            if n is None:
                code = 0
            elif case["id"] > 0:
                code = 2 * n
            else:
                code = 2 * n + 1
            store.append(cpair(cnat(code), cnat(lease)))
        vals = [cnat(1) if v == case["value"] else cnat(2) for v in row["values"]]
        rows.append("mkrow %s %s %s" % (clist(store), clist(vals), cbool(row["stuck"] == "")))
    idt = "(Some %s)" % cnat(case["id"]) if case["id"] > 0 else "None"
    return "CPub (mkpub %s %s %s %s)" % (idt, cnat(1), clist([POPS[o] for o in case["pops"]]), clist(rows))


def _encode_proj(prefix, pr, loose=False):
    ids = _Ids()
    events, steps = [], []
    sts = pr.get("steps") or []
    nl = 0
    for j, ev in enumerate(pr.get("events") or []):
        st = sts[j] if j < len(sts) else None
        calls = st["calls"] if st else []
        if ev["t"] == "put":
            events.append("Put %s %s %s" % (ids.key(ev["k"]), ids.val(ev["v"]), cbool(ev["d"])))
        elif ev["t"] == "del":
            events.append("Del %s %s" % (ids.key(ev["k"]), cbool(ev["d"])))
        elif ev["t"] == "batch":
            events.append("Batch %s" % clist([_item(ids, it) for it in ev["items"]]))
        elif ev["t"] == "getfail":
            events.append("GetFail")
        elif ev["t"] == "rewatch":
            events.append("Rewatch")
        elif ev["t"] == "reload":
            first = calls[0] if calls else []
            events.append("Reload %s %s" % (_keys(ids, first, "+"), _keys(ids, first, "-")))
        else:
            new = calls[-1] if calls else []
            n = len(sts[j - 1]["cvals"]) if (st and j > 0 and nl > 0) else 0
            events.append("Subscribe %s %s %s" % (_keys(ids, new[:n], "+"), _keys(ids, new[n:], "+"), _keys(ids, new[n:], "-")))
            nl += 1
        if st is not None:
            fine = st["stuck"] == "" and (st["opened"] == 0 or st["watch_pfx"] == prefix + "/")
            cv = copt(clist([cpair(ids.key(k), ids.val(v)) for k, v in st["cvals"]])) if st["has_cvals"] else "None"
            steps.append("mkstep %s %s %s %s %s %s %s %s" % (
                clist([clist([_call(ids, c) for c in l]) for l in calls]), cv, cnat(st["watchers"]), cnat(st["gets"]),
                cnat(st["opened"]), cnat(max(st["get_rev"], 0)), cnat(max(st["watch_rev"], 0)), cbool(fine)))
    conts = []
    for t in pr.get("conts") or []:
        ops = []
        for o in t["ops"]:
            if o["op"] == "add":
                ops.append("OCall (CAdd %s %s)" % (ids.key(o["k"]), ids.val(o["v"])))
            elif o["op"] == "del":
                ops.append("OCall (CDel %s)" % ids.key(o["k"]))
            elif o["op"] == "listen":
                ops.append("OListen")
            else:
                ops.append("OGet")
        samples = []
        for p in t.get("samples") or []:
            samples.append("mksample %s %s %s %s %s %s" % (
                cbool(p["dirty_before"]), clist([ids.val(v) for v in p["get"]]),
                clist([cpair(ids.val(e["v"]), clist([ids.key(k) for k in e["keys"]])) for e in p["values"]]),
                clist([cpair(ids.key(k), ids.val(v)) for k, v in p["mapping"]]),
                clist([cnat(n) for n in p["lst"]]), cbool(p["dirty_after"])))
        conts.append("mkcont %s %s %s %s" % (cbool(t["excl"]), cnat(t["start"]), clist(ops), clist(samples)))
    under = []
    if prefix is not None:
        under = [ids.key(k) for k in sorted(ids.k) if k.startswith(prefix + "/")]
    return "mkcase %s %s %s %s None %s" % (clist(under), clist(events), clist(steps), clist(conts), cbool(loose))


def encode(case, obs):
    if case["kind"] == "res":
        return _encode_res(case, obs)
    if case["kind"] == "pub":
        return _encode_pub(case, obs)
    projs = obs.get("proj") or []
    if case["kind"] == "real" and not projs:
        projs = [{"prefix": case["prefix"], "events": _real_events(case), "steps": [], "conts": []}]
    if case["kind"] == "hist" and not projs:
        # the driver gave nothing: a history without observations never matches the model
        prefixes = case.get("prefixes") or [case["prefix"]]
        projs = [{"prefix": prefixes[0], "events": [e for e in case["events"] if e["t"] != "sub" or e.get("p", 0) == 0],
                  "steps": [], "conts": []}]
    return "CHist %s" % clist([_encode_proj(pr.get("prefix"), pr, loose=(case["kind"] == "real")) for pr in projs])


# ----------------------------------------------------------------------------- evidence helpers
def nontrivial(case, obs):
    if case["kind"] == "res":
        return len(case["during"]) > 0
    if case["kind"] == "pub":
        return any(o in ("lose", "losex") for o in case["pops"]) and case["pops"][-1] in ("stop", "pause")
    if case["kind"] == "real":
        return any(e["t"] == "online" for e in case["events"])
    if case["kind"] != "hist":
        return False
    seen_sub = missed = repaired = dele = False
    for ev in case["events"]:
        if ev["t"] == "sub":
            repaired = repaired or (seen_sub and missed)
            seen_sub = True
        elif ev["t"] == "reload":
            repaired = repaired or (seen_sub and missed)
        elif seen_sub:
            if not ev.get("d", True):
                missed = True
            if ev["t"] == "del":
                dele = True
    return seen_sub and repaired and dele


def bucket(case, obs):
    if case["kind"] == "res":
        return ["kind:res", "res-during=%d" % len(case["during"]), "res-post=%d" % len(case["post"])] + (["res-two-targets"] if case.get("second") else []) + (
            ["STUCK"] if (obs.get("res") or {}).get("stuck") else [])
    if case["kind"] == "pub":
        return ["kind:pub", "pub-id" if case["id"] else "pub-lease-key", "pub-losses=%d" % sum(o.startswith("lose") for o in case["pops"])] + (
            ["STUCK"] if any(r.get("stuck") for r in ((obs.get("pub") or {}).get("rows") or [])) else [])
    if case["kind"] == "cont":
        return ["kind:cont", "cont-excl" if case["excl"] else "cont-shared", "cont-ops=%d" % (len(case["ops"]) // 10 * 10)]
    ev = case["events"]
    out = ["kind:" + case["kind"], "events=%d+" % (len(ev) // 10 * 10), "reloads=%d" % sum(e["t"] == "reload" for e in ev),
           "subs=%d" % sum(e["t"] == "sub" for e in ev)]
    if any(e["t"] == "sub" and e.get("x") for e in ev):
        out.append("has-exclusive")
    if any(e["t"] in ("put", "del") and not e["d"] for e in ev):
        out.append("has-missed")
    first_sub = next((i for i, e in enumerate(ev) if e["t"] == "sub"), None)
    if first_sub is not None and any(e["t"] == "sub" for e in ev[first_sub + 1:]):
        out.append("late-join")
    vals = {}
    for e in ev:
        if e["t"] == "put":
            vals.setdefault(e["v"], set()).add(e["k"])
    if any(len(s) > 1 for s in vals.values()):
        out.append("shared-value")
    if any(e["t"] == "batch" for e in ev):
        out.append("has-batch")
    if any(e["t"] == "reload" and e.get("fast") for e in ev):
        out.append("fast-reconnect")
    if len(case.get("prefixes") or []) > 1:
        out.append("prefixes=%d" % len(case["prefixes"]))
    if any(st.get("stuck") for pr in (obs.get("proj") or []) for st in (pr.get("steps") or [])):
        out.append("STUCK")
    return out


def explain(case, obs):
    return ("observed behaviour contradicts C15.Exec.spec_ok: at a point where everything delivered was processed and "
            "nothing was missed since the last (re)load, a subscriber's getValues() is not the set of distinct values of "
            "the keys present under the prefix (c15_converges) or cluster.values is not the store under the prefix "
            "(c15_cluster_tracks); or a value is shown that the calls received do not justify / an exclusive value is kept "
            "under a key that is not the most recent publisher (c15_exclusive_latest); or a delivered change did not reach "
            "a listener / a change listener ran fewer times than updates (c15_listeners_every_update)")
