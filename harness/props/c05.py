"""C05 unmarshalling: struct shapes (reflect.StructOf) x documents (JSON / YAML / re-spelled config keys).

Interface: see props/c13.py.  A case is
  {"shape": T, "json": text, "yaml": text|"" , "conf": text|"", "keys": [...], "doc": D, "cdoc": D|None, "label": [...]}
where T is the type description understood by internal/verifdrv.Shape and D the abstract document
(tagged lists: ["n"] null, ["b",bool], ["num",token], ["s",str], ["a",[..]], ["o",[[k,D]..]]).
"""
import hashlib
import json
import math
import os

import vlib
from vlib import cZ, cbool, clist, copt, cpair, run_driver

def cstr(s):
    """Coq string literal; printable ASCII plus tab / newline (a Coq string may span lines)"""
    for ch in s:
        if not (32 <= ord(ch) < 127 or ch in "\t\n"):
            raise ValueError("cstr: %r" % s)
    return '"' + s.replace('"', '""') + '"%string'


ID = "C05"
GO_PKG = "./lib/mapping"
GEN_SPEC = {"items": [
    {"kind": "const", "file": "lib/mapping/utils.go", "name": "optionalOption"},
    {"kind": "const", "file": "lib/mapping/utils.go", "name": "defaultOption"},
    {"kind": "const", "file": "lib/mapping/utils.go", "name": "optionsOption"},
    {"kind": "const", "file": "lib/mapping/utils.go", "name": "rangeOption"},
    {"kind": "const", "file": "lib/mapping/utils.go", "name": "stringOption"},
    {"kind": "const", "file": "lib/mapping/utils.go", "name": "optionSeparator"},
    {"kind": "const", "file": "lib/mapping/jsonunmarshal.go", "name": "jsonTagKey"},
    {"kind": "const", "file": "lib/conf/config.go", "name": "distanceBetweenUpperAndLower"},
    {"kind": "calls", "file": "lib/mapping/unmarshaler.go", "func": "Unmarshaler.processFieldPrimitiveWithJSONNumber", "as": "json_number_calls"},
    {"kind": "calls", "file": "lib/mapping/utils.go", "func": "setMatchedPrimitiveValue", "as": "set_matched_calls"},
    {"kind": "calls", "file": "lib/mapping/unmarshaler.go", "func": "Unmarshaler.fillSlice", "as": "fill_slice_calls"},
]}
QUICK_N = 600
THOROUGH_N = 16000
SHARD = 150
RULE = ("struct shapes of 1-6 fields over bool/int8..int64/int/uint8..uint64/uint/float32/float64/string/Duration, "
        "pointers to scalars and structs, slices, string-keyed maps, nested and embedded (anonymous) structs, tags "
        "optional/optional=dep/optional=!dep/default=/options=/range=/string; slices also as a string holding a JSON array "
        "(null / nested / ill-typed elements); documents 70% well-typed, else boundary numerics "
        "(min-1,min,max,max+1,2^63,2^64-1,1e400,1.5,1e3,-0), every JSON kind at every position, null/missing/extra "
        "fields; each case is unmarshalled from JSON text, from YAML text when all numbers are in the common subset, "
        "and through conf.LoadFromJsonBytes with re-spelled keys when the keys are identifiers; 12% of the cases are "
        "'outside' shapes/documents (arbitrary pointer/slice/map nesting, JSON texts inside strings) checked for "
        "panic-freedom only; 6% 'confnest' cases (lists of lists of structs, maps of lists of structs, lists of maps with "
        "re-spelled keys at every struct level, loaded by conf as JSON and YAML); 8 cases + 4 corpus cases of the four "
        "KNOWN_FINDINGS classes (classified in Coq by masked checkers Exec.spec_mask_*); 60 (thorough: all ~1300) from-string "
        "numeric cases: every int/uint width x 26 spellings (beyond int64, float syntax, blanks, sign, 0x, leading zeros) x "
        "{`,string`, WithStringValues() mode, default=, string and number-token elements of slices and maps}; 6% float tokens "
        "through {JSON, YAML} x {float32, float64} compared by bit pattern with strconv.ParseFloat; 6% direct Marshal; "
        "round trips include optional members with/without default= explicitly set to zero and form strings with leading/"
        "trailing blanks, blank-only, tabs and newlines; every case also runs the reader entry points against the bytes "
        "entry points (15% also on the empty / blank document, a drained and a one-byte-at-a-time reader); 8% + 25 fixed "
        "'direct' cases call httpx.Parse on a constructed GET query / POST form / programmatic header map (empty, nil and "
        "several-value lists); 7% 'history' cases (struct with snake_case / upper-initial json keys; two- and three-step "
        "histories in the conf driver's process mixing conf.Load* / WithCanonicalKeyFunc calls with option-less "
        "UnmarshalJson{Bytes,Reader,Map}, UnmarshalYaml{Bytes,Reader}, httpx.ParseJsonBody, each compared with the same call "
        "in the mapping driver's process); 20% of the fully tagged ordinary cases also go through httpx.Parse as the JSON "
        "body of a POST/PUT/PATCH/DELETE/OPTIONS request (GET/HEAD without body); round trips use every method; integer "
        "literals up to 2^64-1 and down to -2^63 are in the YAML and conf-YAML variants; options= near-misses (other letter case, "
        "surrounding blanks, prefix, superstring; numbers by their text) on the JSON, YAML, `,string`, string-mode, form/header "
        "and env= routes (fixed set + mixed stream); 7% 'inherit' cases (a section declared at the top and tagged inherit "
        "in a child and a grandchild: written in full, in part, as a scalar, or left out); 6% + 17 fixed env= cases; JSON "
        "documents of exactly 4095, 4096, 4097, 5000, 65536 and 1048576 bytes (bytes / reader / one-byte reader / YAML / "
        "httpx.Parse body) and round trips with bodies of 4 KiB..1 MiB in every run (long strings compared by SHA-1); "
        "dependent-optional members with a null own key / null dependency; 4 'defaults' histories per run (slice members "
        "filled from default=[...]: load, overwrite the result's slices in place, load again through JSON / YAML / conf; of "
        "two list elements only the first is overwritten); 6 'concurrent' cases per run (request A held inside its handler "
        "while request B with other path values is routed and answered on the same route); a fixed directed set "
        "(D1/D9 reproductions, tag-option clauses) is part of every run; non-trivial = the document sets at least one "
        "field and is not the directed prefix only; distinct = distinct canonical case JSON")
TRUSTED = ["encoding/json tokenisation with UseNumber, yaml.v2 scalar resolution, reflect (Set*, Overflow*, StructOf)",
           "strconv.ParseFloat / float32 range test: supplied per number token by the Python encoder (finfo oracle)",
           "encoding/json decoding of a string's text (fillSliceFromString): the denoted value is attached to the string "
           "token by the Python encoder (payload oracle, json.loads with tokens kept)",
           "struct-tag text -> options (parseSegments/parseOption): the generator renders tags from the model's fopts; "
           "option keywords are tied by Link.v"]
ASSUMPTIONS = [
    "64-bit platform: int/uint are modelled as int64/uint64",
    "floats are opaque: a float field keeps the number token; value comparison only for tokens that are their own "
    "shortest 'f' rendering; no default/options/range/string option on float fields",
    "out of model (generator stays inside; panic-freedom of these is checked by the 'outside' stream only): env=, inherit, "
    "optional=dep on embedded fields or on members of an optional embedded struct, dotted keys, default= on slices, options=/range= on Duration and on container fields, "
    "TextUnmarshaler fields, arrays, non-string map keys, map[string]any, pointers to slices/maps, named scalar types",
    "strings destined for MAP fields are not JSON texts (fillMapFromString hands the text to encoding/json; slices "
    "given as JSON-array text ARE modelled); strings for float elements are not numerals; Duration strings have no fraction",
    "object keys are distinct; range bounds are integers of magnitude <= 2^53",
    "inside a partially filled optional embedded struct absent fields keep zero even when they declare a default "
    "(processAnonymousFieldOptional): generator declares no defaults there",
    "conf: empty arrays become nil slices (toCamelCaseInterface) and map keys are camel-cased too: conf variants use "
    "documents without empty arrays and with lower-case map keys",
    "KNOWN FINDINGS (spec_ok strict, model faithful, classify() decided by Exec.spec_mask_*): options=/range= not "
    "enforced on time.Duration without ,string, on slice elements, on map values, on default= values; these constructs "
    "appear only in the dedicated 'known' stream and corpus/C05/known_*.json",
    "observation: a slice given as JSON-array text treats elements differently from a direct array (null element, "
    "pointer elements, struct elements and nested arrays are type mismatches there)",
    "floats: a float32 field is reached through float64 on both routes (json.Number.Float64 / yaml float64, then "
    "SetFloat), so a token within half a float64 ulp of a float32 midpoint is rounded twice (finding candidate, "
    "c05_float32_double_rounding_witness: 1.0000000596046447753906250000001 -> 1.0 instead of 1+2^-23); such tokens are "
    "not generated; a token between MaxFloat32 and MaxFloat32 + half ulp is rejected (OverflowFloat) although "
    "ParseFloat(.,32) accepts it -- a rejection is allowed",
    "round trip, zero values: a form-tagged string member set to \"\" comes back as its default (or fails when required) "
    "because GetFormValues drops empty values (c05_roundtrip_form_zero: finding candidate); every other member kind/part/"
    "default combination round-trips and is generated",
    "Marshal model: fmt.Sprint modelled for ints, bools, strings (options=/`string` on other kinds: outside)",
    "inherit, as HEAD behaves (pinned: Model.inh_lookup / inherit_doc, c05_inherit, c05_inherit_shallow_example): the value "
    "under the inherit key is merged ONE level deep with the enclosing objects' values under that key (child entries win, "
    "missing top-level entries are filled, nearest enclosing object first); a sub-section nested inside it is taken as "
    "the child wrote it unless it is itself tagged inherit, in which case ITS key is looked up in the enclosing objects; "
    "the merge is done IN PLACE on the decoded maps, so the outcome depends on the declaration order of the members "
    "(c05_inherit_order_dependent) -- modelled by processing members in order on the progressively rewritten object; "
    "sharing of sub-maps copied by reference from a parent section is not modelled (no effect found in 8000 stress cases)",
    "env=: int64 / Duration members go through time.ParseDuration (reflect.Int64 == durationType.Kind()) -- not modelled, "
    "not generated; pointer members with env= (panicked before /repo 0ecc4e6, D21) are generated",
    "observation: an untagged member of a request struct is claimed by every part of httpx.Parse (path first), so "
    "Parse fails on it for any method; the JSON-body comparison uses fully tagged shapes",
    "default= on slice members is outside the model (expected values of the 'defaults' stream are computed by the "
    "generator: [a,b,c] / [3,1,2]); default= on map members is not supported by the code (convertType: unsupported kind)",
    "round trips run behind handler.LogHandler / DetailedLogHandler / ContentSecurityHandler (not strict, no decryptors: "
    "unsigned requests pass through; validly signed requests are NOT generated) with bodies up to 1 MiB (70 and 300 KiB "
    "fixed in every run)",
    "floats: Spec.val_finite (no +Inf / -Inf / NaN in a result) is part of obs_ok on every route; float32 values above "
    "MaxFloat32 are directed cases on the `,string`, string-mode, default=, slice / map element and from-string-array routes",
    "c05_roundtrip (httpc.buildRequest -> httpx.Parse): correspondence only (12% of the cases: request structs with "
    "path/form/header/json parts sent through an httptest server); well-formedness: path/form/header strings non-empty "
    "(an optional form string may be empty), no '/' and no '.'/'..' in path values, header values trimmed, header names "
    "not managed by net/http, required pointers/slices/maps non-empty, no Duration members (encoding/json writes "
    "them as numbers, which Parse rejects), no []uint8 members (written as base64 text, which Parse rejects), "
    "uint64 below 2^63, floats exactly representable",
]
DRIVER_TIMEOUT = 900

INT_KINDS = {"int8": (True, 8), "int16": (True, 16), "int32": (True, 32), "int64": (True, 64), "int": (True, 64),
             "uint8": (False, 8), "uint16": (False, 16), "uint32": (False, 32), "uint64": (False, 64), "uint": (False, 64)}
PRIMS = ["bool", "str", "dur", "f32", "f64"] + list(INT_KINDS)
KEYS = ["a", "b", "name", "userName", "id", "x1", "maxConns", "timeout", "flag", "size", "nodeId", "zed", "port", "lvl"]
MAPKEYS = ["ab", "k1", "k2", "zz"]
STRS = ["", "a", "abc", "hello world", "x-y", "A1", "true", "5", "300", "-1", "1s", "TRUE", "0", "b"]
NONNUM = ["abc", "x", "zz", "hello world"]
CANON_FLOATS = ["1.5", "0.25", "-2.5", "3", "100.125", "0", "-7", "16777215", "0.015625"]
MAXF32 = 3.4028234663852886e38


# ----------------------------------------------------------------------------- types
def P(k):
    return {"k": k}


def mkopts(optional=False, default=None, options=None, rng=None, string=False, dep=None, inherit=False, env=None):
    """dep: None | (negated, key) for optional=key / optional=!key (implies optional); env: variable name (tag only)"""
    return {"optional": optional or dep is not None, "default": default, "options": options or [], "range": rng,
            "string": string, "dep": dep, "inherit": inherit, "env": env}


def render_tag(key, o, tagged=True):
    if not tagged:
        return ""
    segs = [key]
    if o.get("dep"):
        segs.append("optional=%s%s" % ("!" if o["dep"][0] else "", o["dep"][1]))
    elif o["optional"]:
        segs.append("optional")
    if o["default"] is not None:
        segs.append("default=" + o["default"])
    if o["options"]:
        segs.append("options=" + "|".join(o["options"]))
    if o["range"] is not None:
        l, li, r, ri = o["range"]
        segs.append("range=%s%s:%s%s" % ("[" if li else "(", "" if l is None else l, "" if r is None else r, "]" if ri else ")"))
    if o["string"]:
        segs.append("string")
    if o.get("inherit"):
        segs.append("inherit")
    if o.get("env"):
        segs.append("env=" + o["env"])
    return 'json:"%s"' % ",".join(segs)


def field(name, key, t, o=None, anon=False, tagged=True):
    o = o or mkopts()
    if anon:
        tag = 'json:",optional"' if o["optional"] else ""
        key = name
    else:
        tag = render_tag(key, o, tagged)
        if not tagged:
            key = name
    return {"n": name, "tag": tag, "t": t, "anon": anon, "key": key, "o": o}


def struct(fields):
    return {"k": "struct", "f": fields}


def int_bounds(k):
    signed, bits = INT_KINDS[k]
    return (-(1 << (bits - 1)), (1 << (bits - 1)) - 1) if signed else (0, (1 << bits) - 1)


def gen_prim_opts(rng, k, in_opt_anon=False):
    o = mkopts()
    if rng.random() < 0.3:
        o["optional"] = True
    if k in ("f32", "f64"):
        return o
    if rng.random() < 0.2 and not in_opt_anon:
        if k == "bool":
            o["default"] = rng.choice(["true", "false", "1", "0", "x" if rng.random() < 0.3 else "true"])
        elif k == "str":
            o["default"] = rng.choice(["dflt", "abc", "a"])
        elif k == "dur":
            o["default"] = rng.choice(["1s", "5m", "100ms", "1h30m", "bad" if rng.random() < 0.3 else "2h"])
        else:
            lo, hi = int_bounds(k)
            o["default"] = str(rng.choice([5, 3, 0, hi, lo, 77, 1, hi + 1 if rng.random() < 0.3 else 2]))
            if rng.random() < 0.03:
                o["default"] = "abc"
    if k == "dur":
        if rng.random() < 0.1:
            o["string"] = True
        return o
    if rng.random() < 0.15:
        if k == "bool":
            o["options"] = ["true"]
        elif k == "str":
            o["options"] = rng.choice([["a", "b", "abc"], ["abc"], ["dflt", "a", "5"], ["dev", "test", "prod"], ["Info", "warn"]])
        else:
            o["options"] = rng.choice([["1", "2", "3"], ["5", "77"], ["0", "5", "300"]])
    if k in INT_KINDS and rng.random() < 0.25:
        lo, hi = int_bounds(k)
        l = rng.choice([None, 0, 1, -5, lo if abs(lo) <= (1 << 53) else -1000])
        r = rng.choice([None, 5, 10, 100, hi if hi <= (1 << 53) else 1000])
        if l is None and r is None:
            r = 10
        if l is not None and r is not None and l >= r:
            l = None
        if l is not None and l < 0 and not INT_KINDS[k][0]:
            l = 0
        o["range"] = (l, rng.random() < 0.6, r, rng.random() < 0.6)
    if rng.random() < 0.15:
        o["string"] = True
    # a default outside its own options=/range= is a known finding (options_range_unenforced_default): not here
    if o["default"] is not None:
        if o["options"] and o["default"] not in o["options"]:
            o["default"] = rng.choice(o["options"])
        if o["range"] is not None and k in INT_KINDS:
            try:
                z = int(o["default"])
                l, li, r, ri = o["range"]
                inside = (l is None or (z >= l if li else z > l)) and (r is None or (z <= r if ri else z < r))
            except ValueError:
                inside = True          # unparsable default: an error anyway
            if not inside:
                o["default"] = None
    return o


def gen_elem_type(rng, depth, for_map):
    r = rng.random()
    if r < 0.5:
        return P(rng.choice(PRIMS))
    if r < 0.6 and not for_map:
        return {"k": "ptr", "e": P(rng.choice(PRIMS))}
    if r < 0.72 and depth > 0:
        return gen_struct(rng, depth - 1, small=True)
    if r < 0.8 and depth > 0:
        return {"k": "ptr", "e": gen_struct(rng, depth - 1, small=True)}
    if r < 0.88:
        return {"k": "slice", "e": P(rng.choice(PRIMS))}
    if r < 0.94 and depth > 0:
        # depth >= 2 containers: [][]struct, map[string][]struct, []map[string]T
        inner = gen_struct(rng, depth - 1, small=True)
        if for_map:
            return {"k": "slice", "e": inner}
        return rng.choice([{"k": "slice", "e": inner}, {"k": "map", "e": inner}, {"k": "map", "e": P(rng.choice(PRIMS))}])
    if for_map:
        return {"k": "map", "e": P(rng.choice(PRIMS))}
    return P(rng.choice(PRIMS))


def gen_struct(rng, depth, small=False, keys=None, in_opt_anon=False):
    top = keys is None
    keys = keys if keys is not None else list(KEYS)
    if top:
        rng.shuffle(keys)
    n = rng.randint(1, 3 if small else 6)
    fs = []
    for i in range(n):
        if not keys:
            break
        name = "F%d" % len(keys)
        r = rng.random()
        if r < 0.08 and depth > 0 and not in_opt_anon:
            opt = rng.random() < 0.35
            sub = gen_struct(rng, depth - 1, small=True, keys=keys, in_opt_anon=opt or in_opt_anon)
            t = sub if rng.random() < 0.6 else {"k": "ptr", "e": sub}
            fs.append(field("Emb%d" % len(keys), None, t, mkopts(optional=opt), anon=True))
            continue
        key = keys.pop()
        if r < 0.55:
            k = rng.choice(PRIMS)
            fs.append(field(name, key, P(k), gen_prim_opts(rng, k, in_opt_anon), tagged=rng.random() < 0.93))
            if not fs[-1]["tag"]:
                fs[-1]["o"] = mkopts()
        elif r < 0.65:
            k = rng.choice(PRIMS)
            fs.append(field(name, key, {"k": "ptr", "e": P(k)}, gen_prim_opts(rng, k, in_opt_anon)))
        elif r < 0.78:
            fs.append(field(name, key, {"k": "slice", "e": gen_elem_type(rng, depth, False)}, mkopts(optional=rng.random() < 0.4)))
        elif r < 0.88:
            fs.append(field(name, key, {"k": "map", "e": gen_elem_type(rng, depth, True)}, mkopts(optional=rng.random() < 0.4)))
        elif depth > 0:
            sub = gen_struct(rng, depth - 1, small=True)
            t = sub if rng.random() < 0.7 else {"k": "ptr", "e": sub}
            fs.append(field(name, key, t, mkopts(optional=rng.random() < 0.3)))
        else:
            fs.append(field(name, key, P("str"), mkopts(optional=True)))
    # optional=dep / optional=!dep on a scalar member, depending on a sibling key of the same object
    named = [f for f in fs if not f["anon"] and f["tag"]]
    if len(named) >= 2 and not in_opt_anon and rng.random() < 0.12:
        a, b = rng.sample(named, 2)
        if deref(a["t"])["k"] in PRIMS and not a["o"].get("dep"):
            a["o"]["optional"] = True
            a["o"]["dep"] = (rng.random() < 0.4, b["key"])
            a["tag"] = render_tag(a["key"], a["o"])
    return struct(fs)


# ----------------------------------------------------------------------------- documents
def N(tok):
    return ["num", str(tok)]


def S(s):
    return ["s", s]


def O(pairs):
    return ["o", [[k, v] for k, v in pairs]]


def A(xs):
    return ["a", list(xs)]


NULL = ["n"]


def deref(t):
    return t["e"] if t["k"] == "ptr" else t


def near_miss(rng, opt):
    """a value that differs from a declared option only in letter case, by surrounding blanks, or is a prefix / superstring"""
    return rng.choice([opt.upper(), opt.capitalize(), opt.swapcase(), " " + opt, opt + " ", " " + opt + " ", opt[:-1], opt + "x",
                       "x" + opt, opt + opt, opt + "\t"])


def gen_scalar(rng, k, o, lenient, good=True):
    """well-typed scalar for kind k. lenient: text coercions are accepted at this position (slice/map elems, string option)."""
    if k == "bool":
        if o and o["string"]:
            return rng.choice([S("true"), S("0"), N(1), N(0), S("FALSE"), S("1")])
        if lenient and rng.random() < 0.4:
            return rng.choice([S("true"), S("0"), N(1), N(0), S("FALSE")])
        return ["b", rng.random() < 0.5]
    if k == "str":
        if o and o["options"] and not good and rng.random() < 0.5:
            return S(near_miss(rng, rng.choice(o["options"])))
        if o and o["options"] and rng.random() < 0.8:
            return S(rng.choice(o["options"]))
        return S(rng.choice(STRS))
    if k == "dur":
        if lenient:
            return rng.choice([N(5), N(1000000000), S("7")])
        return S(rng.choice(["1s", "5m", "100ms", "1h30m", "0", "-2s", "15ns", "2h45m30s"]))
    if k in ("f32", "f64"):
        return N(rng.choice(CANON_FLOATS + ["1e3", "12.50", "2.5"]))
    lo, hi = int_bounds(k)
    if o and o["options"] and rng.random() < 0.8:
        v = rng.choice(o["options"])
    elif o and o["range"] is not None and rng.random() < 0.85:
        l, li, r, ri = o["range"]
        a = lo if l is None else l
        b = hi if r is None else r
        a, b = max(a, lo), min(b, hi)
        v = rng.choice([a, b, a + 1, b - 1, rng.randint(a, min(b, a + 50)) if a <= b else a] + ([] if good else [b + 1, a - 1]))
        if good:
            v = min(max(v, a + (0 if li else 1)), b - (0 if ri else 1))
    else:
        v = rng.choice([0, 1, 5, 77, rng.randint(lo, min(hi, (1 << 63) - 1)), rng.randint(max(lo, -100), min(hi, 100)), min(hi, (1 << 63) - 1), lo])
    if lenient and rng.random() < 0.5:
        return S(str(v))
    return N(v)


def boundary_num(rng, k):
    if k in INT_KINDS:
        lo, hi = int_bounds(k)
        return N(rng.choice([lo - 1, lo, hi, hi + 1, 1 << 63, (1 << 64) - 1, "1e400", "1.5", "1e3", "-0", 300, -129, 4294967297, 256, 65536]))
    if k == "f32":
        return N(rng.choice(["1e400", "1e300", "1e39", "-1e39", "3.4e38", "1e38", "16777216", "-0"]))
    if k == "f64":
        return N(rng.choice(["1e400", "-1e400", "1e300", "1e308", "123456789012345678901234567890"]))
    if k == "dur":
        return rng.choice([N(5), S("5"), S("1x"), S(""), S("9223372036s"), S("s")])
    if k == "bool":
        return rng.choice([N(1), S("true"), N(2)])
    return rng.choice([N(5), S("")])


def ill_typed(rng, t):
    """a document value of an arbitrary JSON kind (strings never parse as JSON containers / floats / fractions)."""
    base = deref(t)
    strs = NONNUM if base["k"] in ("f32", "f64") or (base["k"] in ("slice", "map") and deref(base["e"])["k"] in ("f32", "f64")) else STRS
    return rng.choice([
        ["b", True], N(1), N(300), N("1.5"), S(rng.choice(strs)), A([]), A([N(1)]), A([["b", False]]),
        A([S(rng.choice(strs))]), A([O([("a", N(1))])]), A([A([N(1)])]), A([NULL]), O([]), O([("a", N(1))]),
        S("[1,null,3]"), S("[[1]]"), S('["a",1]'), S("[true,null]"), S('[{"a":1}]'), S("[]"),
        O([("a", S(rng.choice(strs)))]), O([("k1", A([N(1)]))]), O([("k1", O([("a", N(1))]))]), O([("k1", NULL)]), NULL])


def gen_value(rng, t, o, mode, lenient=False):
    """mode: 'good' | 'mixed' (occasional boundary / ill-typed below this point)"""
    if mode == "mixed":
        r = rng.random()
        if r < 0.12:
            return ill_typed(rng, t)
        if r < 0.3 and deref(t)["k"] in PRIMS:
            return boundary_num(rng, deref(t)["k"])
    k = t["k"]
    if k == "ptr":
        return gen_value(rng, t["e"], o, mode, lenient)
    if k in PRIMS:
        return gen_scalar(rng, k, o, lenient or bool(o and o["string"]), good=(mode == "good"))
    if k == "slice" and rng.random() < (0.07 if mode == "good" else 0.15):
        return from_string_slice(rng, t["e"], mode)
    if k == "slice":
        n = rng.choice([0, 1, 1, 2, 3])
        xs = []
        for _ in range(n):
            if rng.random() < 0.06:
                xs.append(NULL)
            else:
                xs.append(gen_value(rng, t["e"], None, mode, lenient=deref(t["e"])["k"] in PRIMS))
        return A(xs)
    if k == "map":
        ks = sorted(rng.sample(MAPKEYS, rng.choice([0, 1, 2, 3])))
        et = t["e"]
        out = []
        for key in ks:
            if deref(et)["k"] in PRIMS:
                kk = deref(et)["k"]
                # maps take numbers for every scalar kind, bool for bool, string for string only
                if kk == "str":
                    v = rng.choice([S(rng.choice(STRS)), N(5)])
                elif kk == "bool":
                    v = rng.choice([["b", True], ["b", False], N(1)])
                elif kk in ("f32", "f64"):
                    v = N(rng.choice(CANON_FLOATS))
                elif kk == "dur":
                    v = N(rng.choice([5, 1000000000]))
                else:
                    lo, hi = int_bounds(kk)
                    v = N(rng.choice([0, 5, min(hi, (1 << 63) - 1), lo, rng.randint(lo, min(hi, (1 << 63) - 1))]))
                if mode == "mixed" and rng.random() < 0.15:
                    v = rng.choice([ill_typed(rng, et), boundary_num(rng, kk)])
            else:
                v = gen_value(rng, et, None, mode)
            out.append((key, v))
        return O(out)
    if k == "struct":
        return gen_obj(rng, t, mode)
    raise ValueError(k)


def from_string_slice(rng, et, mode):
    """a slice given as a STRING holding a JSON array (fillSliceFromString): int/string/bool/pointer/struct elements,
    null elements, nested arrays and ill-typed elements in mixed mode"""
    k = deref(et)["k"]
    n = rng.choice([0, 1, 2, 3])
    xs = []
    for _ in range(n):
        if k == "bool":
            x = rng.choice([["b", True], ["b", False], N(1), S("true")])
        elif k == "str":
            x = rng.choice([S(rng.choice(NONNUM)), S("5"), N(7)])
        elif k in INT_KINDS:
            lo, hi = int_bounds(k)
            x = rng.choice([N(0), N(5), N(min(hi, 100)), S("3"), N(lo)])
        elif k in ("f32", "f64"):
            x = N(rng.choice(CANON_FLOATS))
        elif k == "dur":
            x = N(rng.choice([5, 1000000000]))
        else:
            x = rng.choice([O([("a", N(1))]), A([N(1)]), N(1)])
        if mode == "mixed" and rng.random() < 0.3:
            x = rng.choice([NULL, A([N(1)]), O([("a", N(1))]), ["b", True], N(300), S("abc"), N("1.5")])
        xs.append(x)
    if mode == "mixed" and rng.random() < 0.1:
        return S("null")
    return S(to_json(A(xs)))


def flat_fields(t):
    """named fields reachable through embedded structs (they read the same object)."""
    out = []
    for f in t["f"]:
        if f["anon"]:
            out.extend(flat_fields(deref(f["t"])))
        else:
            out.append(f)
    return out


def gen_obj(rng, t, mode):
    pairs = []
    for f in flat_fields(t):
        o = f["o"]
        required = not o["optional"] and o["default"] is None
        p_present = 1.0 if required else 0.6
        if mode == "mixed":
            p_present -= 0.1
        if rng.random() >= p_present:
            continue
        if rng.random() < 0.05 and (mode == "mixed" or o["optional"]):
            pairs.append((f["key"], NULL))
            continue
        pairs.append((f["key"], gen_value(rng, f["t"], o, mode)))
    if mode == "good":
        # optional=dep: both or neither; optional=!dep: exactly one
        by_key = {f["key"]: f for f in flat_fields(t)}
        for f in flat_fields(t):
            dep = f["o"].get("dep")
            if not dep:
                continue
            present = {kv[0] for kv in pairs}
            want_self = (dep[1] in present) != dep[0]
            if want_self and f["key"] not in present:
                pairs.append((f["key"], gen_value(rng, f["t"], f["o"], mode)))
            elif want_self and rng.random() < 0.15:
                pairs = [kv if kv[0] != f["key"] else (kv[0], NULL) for kv in pairs]   # own key present but null
            elif not want_self and f["key"] in present:
                pairs = [kv for kv in pairs if kv[0] != f["key"]]
    if rng.random() < 0.1:
        pairs.append(("extraKey", rng.choice([N(1), S("x"), O([]), NULL])))
    rng.shuffle(pairs)
    return O(pairs)


# ----------------------------------------------------------------------------- rendering
def to_json(d):
    k = d[0]
    if k == "n":
        return "null"
    if k == "b":
        return "true" if d[1] else "false"
    if k == "num":
        return d[1]
    if k == "s":
        return json.dumps(d[1])
    if k == "a":
        return "[" + ",".join(to_json(x) for x in d[1]) + "]"
    return "{" + ",".join(json.dumps(kv[0]) + ":" + to_json(kv[1]) for kv in d[1]) + "}"


def num_is_int(tok):
    s = tok[1:] if tok[:1] == "-" else tok
    return s.isdigit()


def yaml_ok(d):
    """document is in the JSON/YAML common subset (yaml.v2 keeps every number token)."""
    k = d[0]
    if k == "num":
        tok = d[1]
        if num_is_int(tok):
            return tok != "-0" and -(1 << 63) <= int(tok) < (1 << 64)      # yaml.v2: int64, else uint64 (beyond: float)
        return tok in CANON_FLOATS
    if k == "a":
        return all(yaml_ok(x) for x in d[1])
    if k == "o":
        return all(yaml_ok(kv[1]) for kv in d[1])
    return True


def to_yaml(d, ind=0):
    """block style; keys and strings double-quoted."""
    k = d[0]
    pad = "  " * ind
    if k == "o":
        if not d[1]:
            return pad + "{}\n"
        out = ""
        for key, v in d[1]:
            if v[0] in ("o", "a") and v[1]:
                out += pad + json.dumps(key) + ":\n" + to_yaml(v, ind + 1)
            else:
                out += pad + json.dumps(key) + ": " + to_yaml(v, 0)
        return out
    if k == "a":
        if not d[1]:
            return pad + "[]\n"
        out = ""
        for v in d[1]:
            if v[0] in ("o", "a") and v[1]:
                body = to_yaml(v, ind + 1)
                out += pad + "- " + body[len(pad) + 2:]
            else:
                out += pad + "- " + to_yaml(v, 0)
        return out
    if k == "n":
        return "null\n"
    if k == "b":
        return ("true" if d[1] else "false") + "\n"
    if k == "num":
        return d[1] + "\n"
    return json.dumps(d[1]) + "\n"


def snake(key):
    out = ""
    for ch in key:
        out += "_" + ch.lower() if ch.isupper() else ch
    return out


def respell(rng, key):
    r = rng.random()
    if r < 0.4:
        return snake(key)
    if r < 0.75:
        return key[:1].upper() + key[1:]
    return key


def conf_doc(rng, t, d):
    """re-spell the struct-field keys (not map keys) of d, following the type; None if not applicable."""
    k = t["k"]
    if k == "ptr":
        return conf_doc(rng, t["e"], d)
    if k == "struct" and d[0] == "o":
        fk = {f["key"]: f for f in flat_fields(t)}
        out = []
        for key, v in d[1]:
            if key in fk:
                v2 = conf_doc(rng, fk[key]["t"], v)
                if v2 is None:
                    return None
                out.append([respell(rng, key), v2])
            else:
                out.append([key, v])
        return ["o", out]
    if k == "slice" and d[0] == "a":
        if not d[1]:
            return None
        xs = [conf_doc(rng, t["e"], x) for x in d[1]]
        return None if any(x is None for x in xs) else ["a", xs]
    if k == "map" and d[0] == "o":
        out = []
        for key, v in d[1]:
            v2 = conf_doc(rng, t["e"], v)
            if v2 is None:
                return None
            out.append([key, v2])
        return ["o", out]
    if d[0] == "a" and not d[1]:
        return None
    return d


def has_null(d):
    if d[0] == "n":
        return True
    if d[0] == "a":
        return any(has_null(x) for x in d[1])
    if d[0] == "o":
        return any(has_null(kv[1]) for kv in d[1])
    return False


def has_empty_array(d):
    if d[0] == "a":
        return not d[1] or any(has_empty_array(x) for x in d[1])
    if d[0] == "o":
        return any(has_empty_array(kv[1]) for kv in d[1])
    return False


def mkcase(rng, shape, doc, label, with_yaml=True, with_conf=True):
    c = {"shape": shape, "doc": doc, "json": to_json(doc), "yaml": "", "conf": "", "cyaml": "", "cdoc": None, "keys": [], "label": label}
    if with_yaml and yaml_ok(doc):
        c["yaml"] = to_yaml(doc)
    if with_conf and not has_empty_array(doc) and all(f["tag"] for f in all_named(shape)):
        cd = conf_doc(rng, shape, doc)
        if cd is not None:
            c["cdoc"] = cd
            c["conf"] = to_json(cd)
            if yaml_ok(cd) and not has_null(cd):
                c["cyaml"] = to_yaml(cd)
    ks = [kv[0] for kv in (c["cdoc"] or doc)[1]][:4]
    c["keys"] = ks + [rng.choice(["user_name", "UserName", "userName", "max_conns", "a_b_c", "x1_y", "ID", "node id", "a-b", "Ab_cd9"])]
    return c


def all_named(t):
    out = []
    k = t["k"]
    if k in ("ptr", "slice", "map"):
        return all_named(t["e"])
    if k == "struct":
        for f in t["f"]:
            if not f["anon"]:
                out.append(f)
            out.extend(all_named(f["t"]))
    return out


# ----------------------------------------------------------------------------- directed cases
def directed(rng):
    out = []

    def one(t, o, doc, label, key="v"):
        shape = struct([field("V", key, t, o)])
        out.append(mkcase(rng, shape, doc, ["directed", label]))

    # D1: narrowing must be an error, never a wrapped value
    one(P("int8"), None, O([("v", N(300))]), "d1")
    one(P("int8"), None, O([("v", N(-129))]), "d1")
    one(P("int32"), None, O([("v", N(4294967297))]), "d1")
    one(P("int8"), mkopts(string=True), O([("v", S("300"))]), "d1")
    one(P("uint8"), None, O([("v", N(256))]), "d1")
    one(P("uint16"), mkopts(string=True), O([("v", S("65536"))]), "d1")
    one(P("f32"), None, O([("v", N("1e300"))]), "d1")
    one({"k": "slice", "e": P("int8")}, None, O([("v", A([N(300)]))]), "d1")
    one({"k": "map", "e": P("int8")}, None, O([("v", O([("k1", N(300))]))]), "d1")
    one(P("uint8"), mkopts(default="256"), O([]), "d1")
    one({"k": "ptr", "e": P("int16")}, None, O([("v", N(40000))]), "d1")
    one(P("int8"), None, O([("v", N(127))]), "d1-ok")
    one(P("int8"), None, O([("v", N(-128))]), "d1-ok")
    one(P("uint64"), mkopts(string=True), O([("v", S("18446744073709551615"))]), "d1-ok")
    # D9: ill-typed documents must be errors, never panics
    inner = struct([field("A", "a", P("int"))])
    one({"k": "slice", "e": inner}, None, O([("v", A([N(1)]))]), "d9")
    one({"k": "slice", "e": {"k": "ptr", "e": inner}}, None, O([("v", A([S("x")]))]), "d9")
    one({"k": "slice", "e": {"k": "slice", "e": P("int")}}, None, O([("v", A([N(1)]))]), "d9")
    one({"k": "map", "e": {"k": "slice", "e": P("int")}}, None, O([("v", O([("k1", N(1))]))]), "d9")
    one({"k": "map", "e": {"k": "slice", "e": P("int")}}, None, O([("v", O([("k1", NULL)]))]), "d9")
    one({"k": "map", "e": {"k": "slice", "e": P("int")}}, None, O([("v", O([("k1", ["b", True])]))]), "d9")
    one({"k": "slice", "e": P("int")}, None, O([("v", A([O([("a", N(1))])]))]), "d9")
    one(P("dur"), None, O([("v", N(5))]), "d9")
    one({"k": "ptr", "e": P("dur")}, None, O([("v", N(5))]), "d9")
    one(P("int"), mkopts(string=True, options=["1", "2"]), O([("v", N(1))]), "d9")
    one(P("int"), mkopts(string=True, options=["1", "2"]), O([("v", N(3))]), "d9")
    # tag-option clauses
    one(P("int"), mkopts(optional=True), O([]), "optional-absent")
    one(P("str"), mkopts(optional=True), O([("other", N(1))]), "optional-absent")
    one({"k": "ptr", "e": P("int")}, mkopts(optional=True), O([]), "optional-absent")
    one({"k": "slice", "e": P("int")}, mkopts(optional=True), O([]), "optional-absent")
    one(inner, mkopts(optional=True), O([]), "optional-absent")
    one(P("int"), None, O([]), "required-absent")
    one({"k": "map", "e": P("int")}, None, O([]), "required-absent")
    one({"k": "slice", "e": P("int")}, None, O([]), "required-absent")
    one(struct([field("M", "m", {"k": "map", "e": P("str")})]), None, O([("v", O([]))]), "required-absent")
    one(P("int"), mkopts(default="5"), O([]), "default-absent")
    one(P("int"), mkopts(default="5"), O([("v", N(9))]), "default-present")
    one(P("str"), mkopts(default="dflt"), O([("v", S("abc"))]), "default-present")
    one(P("bool"), mkopts(default="true"), O([("v", ["b", False])]), "default-present")
    one(P("dur"), mkopts(default="1s"), O([("v", S("5m"))]), "default-present")
    one(P("int"), mkopts(rng=(1, True, 5, True)), O([("v", N(5))]), "range")
    one(P("int"), mkopts(rng=(1, True, 5, True)), O([("v", N(6))]), "range")
    one(P("int"), mkopts(rng=(1, True, 5, False)), O([("v", N(5))]), "range")
    one(P("int"), mkopts(rng=(1, False, 5, True)), O([("v", N(1))]), "range")
    one(P("int"), mkopts(rng=(1, True, 5, True)), O([("v", N(0))]), "range")
    one(P("int"), mkopts(rng=(None, True, 5, True)), O([("v", N(100))]), "range")
    one(P("int64"), mkopts(rng=(0, True, 10, True), string=True), O([("v", S("11"))]), "range")
    one(P("str"), mkopts(options=["a", "b"]), O([("v", S("c"))]), "options")
    one(P("str"), mkopts(options=["a", "b"]), O([("v", S("a"))]), "options")
    one(P("int"), mkopts(options=["1", "2"]), O([("v", N(3))]), "options")
    # optional=dep / optional=!dep (D13: the range must survive the resolution of the optional flag)
    def two(o, doc, label, t=None):
        shape = struct([field("V", "v", t or P("int"), o), field("B", "b", P("int"), mkopts(optional=True))])
        out.append(mkcase(rng, shape, doc, ["directed", label]))
    r15 = (1, True, 5, True)
    two(mkopts(dep=(False, "b"), rng=r15), O([("v", N(7)), ("b", N(1))]), "dep")
    two(mkopts(dep=(False, "b"), rng=r15), O([("v", N(3)), ("b", N(1))]), "dep")
    two(mkopts(dep=(False, "b"), rng=r15), O([]), "dep")
    two(mkopts(dep=(False, "b"), rng=r15), O([("v", N(3))]), "dep")
    two(mkopts(dep=(False, "b"), rng=r15), O([("b", N(1))]), "dep")
    two(mkopts(dep=(True, "b"), rng=r15), O([("v", N(7))]), "dep")
    two(mkopts(dep=(True, "b"), rng=r15), O([("v", N(3))]), "dep")
    two(mkopts(dep=(True, "b"), rng=r15), O([("b", N(1))]), "dep")
    two(mkopts(dep=(True, "b"), rng=r15), O([("v", N(3)), ("b", N(1))]), "dep")
    two(mkopts(dep=(True, "b"), rng=r15), O([]), "dep")
    two(mkopts(dep=(False, "b"), options=["1", "2"]), O([("v", N(7)), ("b", N(1))]), "dep")
    two(mkopts(dep=(False, "b"), default="4", rng=r15), O([]), "dep")
    # the member's OWN key present but null: present for the both-or-neither / either-or rule, and a null value
    # is accepted only when the RESOLVED flag is optional
    two(mkopts(dep=(False, "b")), O([("b", N(1)), ("v", NULL)]), "dep-null")        # required (b present): must fail
    two(mkopts(dep=(False, "b")), O([("v", NULL)]), "dep-null")                      # v present, b absent: mismatch
    two(mkopts(dep=(True, "b")), O([("v", NULL)]), "dep-null")                       # !b, b absent: required: must fail
    two(mkopts(dep=(True, "b")), O([("b", N(1)), ("v", NULL)]), "dep-null")          # both present: mismatch
    two(mkopts(dep=(False, "b"), default="4"), O([("b", N(1)), ("v", NULL)]), "dep-null")
    two(mkopts(dep=(False, "b")), O([("b", NULL), ("v", N(3))]), "dep-null")         # the dependency itself null: present
    two(mkopts(dep=(True, "b")), O([("b", NULL)]), "dep-null")                       # !b with b null: b present: v optional
    for t2 in (P("str"), {"k": "ptr", "e": P("int")}, {"k": "slice", "e": P("int")}):
        two(mkopts(dep=(False, "b")), O([("b", N(1)), ("v", NULL)]), "dep-null", t=t2)
        two(mkopts(dep=(True, "b")), O([("v", NULL)]), "dep-null", t=t2)
    # slices given as a string holding a JSON array (fillSliceFromString)
    one({"k": "slice", "e": P("int")}, None, O([("v", S("[1,2,3]"))]), "fromstring")
    one({"k": "slice", "e": P("int")}, None, O([("v", S("[1,null,3]"))]), "fromstring")
    one({"k": "slice", "e": P("int8")}, None, O([("v", S("[300]"))]), "fromstring")
    one({"k": "slice", "e": P("str")}, None, O([("v", S('["a",1]'))]), "fromstring")
    one({"k": "slice", "e": P("bool")}, None, O([("v", S("[true,1]"))]), "fromstring")
    one({"k": "slice", "e": {"k": "ptr", "e": P("int")}}, None, O([("v", S("[1,2]"))]), "fromstring")
    one({"k": "slice", "e": {"k": "ptr", "e": P("int")}}, None, O([("v", S("null"))]), "fromstring")
    one({"k": "slice", "e": {"k": "slice", "e": P("int")}}, None, O([("v", S("[[1]]"))]), "fromstring")
    one({"k": "slice", "e": inner}, None, O([("v", S('[{"a":1}]'))]), "fromstring")
    one({"k": "slice", "e": P("int")}, None, O([("v", S("null"))]), "fromstring")
    one({"k": "slice", "e": P("int")}, None, O([("v", S("[]"))]), "fromstring")
    one({"k": "slice", "e": P("int")}, None, O([("v", S("abc"))]), "fromstring")
    # options= are exact: letter case, blanks, prefixes, superstrings -- JSON, YAML, `,string`, form/path/header mode
    env3 = ["dev", "test", "prod"]
    for v in ("DEV", "Prod", " dev", "dev ", "de", "devel", "dev\t", "prod", "test"):
        one(P("str"), mkopts(options=env3), O([("v", S(v))]), "options-exact")
        out[-1]["strmode"] = True
    for v in ("DEV", " dev", "devx", "dev"):
        one({"k": "ptr", "e": P("str")}, mkopts(options=env3, optional=True), O([("v", S(v))]), "options-exact")
        one(P("str"), mkopts(options=env3, string=True), O([("v", S(v))]), "options-exact")
    for tok in ("1", "10", "100", "1.0", "1e0", "-1", "01"):
        if tok != "01":
            one(P("int"), mkopts(options=["1", "10"]), O([("v", N(tok))]), "options-exact")
        one(P("int"), mkopts(options=["1", "10"], string=True), O([("v", S(tok))]), "options-exact")
        one(P("int"), mkopts(options=["1", "10"]), O([("v", S(tok + " "))]), "options-exact")
        out[-1]["strmode"] = True
    for v in ("true", "True", "TRUE", "1", " true"):
        one(P("bool"), mkopts(options=["true"], string=True), O([("v", S(v))]), "options-exact")
    # a proper prefix / superstring of a numeric option, by the number's text
    for tok in ("1", "2", "10", "100", "250", "25"):
        one(P("int"), mkopts(options=["10", "25"]), O([("v", N(tok))]), "options-exact")
        one({"k": "ptr", "e": P("uint16")}, mkopts(options=["10", "25"]), O([("v", N(tok))]), "options-exact")
        one(P("int"), mkopts(options=["10", "25"], string=True), O([("v", N(tok))]), "options-exact")
    for tok in ("1.5", "1", "15", "1.50"):
        one(P("f64"), mkopts(options=["1.5", "2"]), O([("v", N(tok))]), "options-exact")
    # float32 above MaxFloat32 (and float64 above MaxFloat64): rejected on every route, never stored as +-Inf
    for tok in ("1e39", "-1e39", "3.5e38", "340282356779733661637539395458142568448"):
        one(P("f32"), mkopts(string=True), O([("v", S(tok))]), "float-overflow")
        one(P("f32"), mkopts(string=True), O([("v", N(tok))]), "float-overflow")
        one(P("f32"), None, O([("v", S(tok))]), "float-overflow")
        out[-1]["strmode"] = True
        one({"k": "ptr", "e": P("f32")}, mkopts(string=True, optional=True), O([("v", S(tok))]), "float-overflow")
        one(P("f32"), mkopts(default=tok), O([]), "float-overflow")
        one({"k": "slice", "e": P("f32")}, None, O([("v", A([S(tok)]))]), "float-overflow")
        one({"k": "slice", "e": P("f32")}, None, O([("v", A([N(tok)]))]), "float-overflow")
        one({"k": "slice", "e": {"k": "ptr", "e": P("f32")}}, None, O([("v", A([N(tok)]))]), "float-overflow")
        one({"k": "map", "e": P("f32")}, None, O([("v", O([("k1", N(tok))]))]), "float-overflow")
        one({"k": "slice", "e": P("f32")}, None, O([("v", S("[%s]" % tok))]), "float-overflow")
    for tok in ("1e400", "-1e400"):
        one(P("f64"), mkopts(string=True), O([("v", S(tok))]), "float-overflow")
        one(P("f64"), mkopts(default=tok), O([]), "float-overflow")
        one({"k": "slice", "e": P("f64")}, None, O([("v", A([S(tok)]))]), "float-overflow")
        one({"k": "map", "e": P("f64")}, None, O([("v", O([("k1", N(tok))]))]), "float-overflow")
    # integer literals at and beyond the int64 edge: JSON, YAML and conf (JSON + YAML) must agree, never a wrapped number
    for k in ("int64", "int", "uint64", "f64", "uint", "str"):
        for tok in ("9223372036854775807", "9223372036854775808", "18446744073709551615", "-9223372036854775808"):
            one(P(k), None, O([("v", N(tok))]), "yaml-int-edge")
    one({"k": "slice", "e": P("int64")}, None, O([("v", A([N("9223372036854775808")]))]), "yaml-int-edge")
    one({"k": "map", "e": P("uint64")}, None, O([("v", O([("k1", N("18446744073709551615"))]))]), "yaml-int-edge")
    return out


# ----------------------------------------------------------------------------- known findings (KNOWN_FINDINGS.txt)
KNOWN_CLASSES = {"spec_mask_dur": "options_range_unenforced_duration", "spec_mask_slice": "options_range_unenforced_slice_elem",
                 "spec_mask_map": "options_range_unenforced_map_elem", "spec_mask_default": "options_range_unenforced_default"}
R15 = (1, True, 5, True)


def known_templates():
    """(class, type, options, document): a value outside the declared options=/range= at a position where the code
    does not enforce them; the property (spec_ok) rejects the accepted struct, the model reproduces the code"""
    sl = lambda k: {"k": "slice", "e": P(k)}
    mp = lambda k: {"k": "map", "e": P(k)}
    return [
        ("options_range_unenforced_duration", P("dur"), mkopts(options=["1s", "2s"]), O([("v", S("3s"))])),
        ("options_range_unenforced_duration", P("dur"), mkopts(rng=R15), O([("v", S("7s"))])),
        ("options_range_unenforced_duration", {"k": "ptr", "e": P("dur")}, mkopts(options=["1s", "2s"]), O([("v", S("5m"))])),
        ("options_range_unenforced_slice_elem", sl("str"), mkopts(options=["a", "b"]), O([("v", A([S("c")]))])),
        ("options_range_unenforced_slice_elem", sl("int"), mkopts(options=["1", "2"]), O([("v", A([N(1), N(3)]))])),
        ("options_range_unenforced_slice_elem", sl("int"), mkopts(rng=R15), O([("v", A([N(7)]))])),
        ("options_range_unenforced_slice_elem", sl("uint8"), mkopts(rng=R15), O([("v", A([N(2), N(9)]))])),
        ("options_range_unenforced_map_elem", mp("str"), mkopts(options=["a", "b"]), O([("v", O([("k1", S("c"))]))])),
        ("options_range_unenforced_map_elem", mp("int"), mkopts(rng=R15), O([("v", O([("k1", N(7))]))])),
        ("options_range_unenforced_map_elem", mp("int"), mkopts(options=["1", "2"]), O([("v", O([("ab", N(1)), ("k1", N(3))]))])),
        ("options_range_unenforced_default", P("int"), mkopts(default="7", rng=R15), O([])),
        ("options_range_unenforced_default", P("str"), mkopts(default="c", options=["a", "b"]), O([])),
        ("options_range_unenforced_default", P("uint16"), mkopts(default="9", options=["1", "2"]), O([("other", N(1))])),
    ]


def known_case(rng, tpl):
    cls, t, o, doc = tpl
    shape = struct([field("V", "v", t, o)])
    return mkcase(rng, shape, doc, ["known", cls], with_yaml=False, with_conf=False)


# ----------------------------------------------------------------------------- conf: nested containers, depth >= 2
CONF_KEYS = ["userName", "maxConns", "nodeId", "logLevel", "retryCount", "dbHost"]


def confnest_case(rng):
    """lists of lists of structs, maps of lists of structs, lists of maps: every struct level is re-spelled
    (snake_case / UpperCamel / lowerCamel) on the document side; loaded as JSON and as YAML"""
    for _ in range(20):
        keys = list(CONF_KEYS)
        rng.shuffle(keys)
        leaf = struct([field("L%d" % i, keys.pop(), P(rng.choice(["int", "str", "bool", "uint16", "int64"])),
                             mkopts(optional=rng.random() < 0.3)) for i in range(rng.randint(1, 2))])
        mid = rng.choice([
            {"k": "slice", "e": {"k": "slice", "e": leaf}},
            {"k": "map", "e": {"k": "slice", "e": leaf}},
            {"k": "slice", "e": {"k": "map", "e": leaf}},
            {"k": "slice", "e": {"k": "slice", "e": {"k": "ptr", "e": leaf}}},
            {"k": "map", "e": {"k": "map", "e": P("int")}},
            {"k": "slice", "e": struct([field("M0", keys.pop(), {"k": "slice", "e": leaf})])},
        ])
        shape = struct([field("T0", keys.pop(), mid), field("T1", keys.pop(), P("str"), mkopts(optional=True))])
        doc = gen_obj(rng, shape, "good")
        c = mkcase(rng, shape, doc, ["confnest"])
        if c["conf"] and c["conf"] != c["json"]:
            return c
    return c


def required_map_absent_UNUSED(rng):
    return None


# ----------------------------------------------------------------------------- httpc -> httpx round trip
RT_PATH_STR = ["abc", "a b", "x-1", "A_z.~", "100%", "q?x", "a#b", "a+b", "a%2Fb", "v1", "0"]
RT_FORM_STR = ["abc", "a b", "x&y=z", "100%", "a+b", "/p/q", "0", "true", " a", "a ", "  a b  ", " ", "   ", "\t", "a\tb",
               "a\nb", "\n", " \t ", "x \n"]
BLANKS = [" ", "   ", "\t", "\n", " \t "]
RT_HDR_STR = ["abc", "a b", "tok;en=1", "x, y", "0"]
RT_HDR_KEYS = ["X-Token", "X-Trace-Id", "x-lower", "Accept-Language", "X-Count"]
RT_SCALARS = ["str", "bool"] + list(INT_KINDS)


def rt_scalar(rng, k, strs):
    """(type, value in Dump format) of a scalar that survives fmt.Sprint -> parse"""
    if k == "str":
        return ["s", rng.choice(strs)]
    if k == "bool":
        return ["b", rng.random() < 0.5]
    if k in ("f32", "f64"):
        return ["f", rng.choice(CANON_FLOATS)]
    lo, hi = int_bounds(k)
    hi = min(hi, (1 << 63) - 1)          # uint64 above 2^63-1 is not accepted back (json.Number.Int64)
    return ["i", str(rng.choice([0, 1, 5, hi, lo, rng.randint(lo, hi), rng.randint(max(lo, -1000), min(hi, 1000))]))]


def rt_json_value(rng, depth):
    """(type, opts, value) for a json-tagged member"""
    r = rng.random()
    ks = RT_SCALARS + ["f32", "f64"]
    if r < 0.55 or depth <= 0:
        k = rng.choice(ks)
        v = rt_scalar(rng, k, STRS)
        o = mkopts(optional=rng.random() < 0.3)
        if k in INT_KINDS and rng.random() < 0.15:
            o["string"] = True
        return P(k), o, v
    if r < 0.65:
        k = rng.choice(ks)
        if rng.random() < 0.25:
            return {"k": "ptr", "e": P(k)}, mkopts(optional=True), ["np"]
        return {"k": "ptr", "e": P(k)}, mkopts(optional=rng.random() < 0.3), ["p", rt_scalar(rng, k, STRS)]
    if r < 0.8:
        k = rng.choice([x for x in ks if x != "uint8"])     # []uint8 is []byte: encoding/json writes base64, Parse refuses
        n = rng.randint(1, 3)
        return {"k": "slice", "e": P(k)}, mkopts(optional=rng.random() < 0.3), ["sl", [rt_scalar(rng, k, NONNUM if k == "str" else STRS) for _ in range(n)]]
    if r < 0.9:
        k = rng.choice([x for x in ks if x != "str"] + ["str"])
        keys = sorted(rng.sample(MAPKEYS, rng.randint(1, 3)))
        return {"k": "map", "e": P(k)}, mkopts(optional=rng.random() < 0.3), ["m", [[key, rt_scalar(rng, k, STRS)] for key in keys]]
    fs, vs = [], []
    for i, key in enumerate(rng.sample(["a", "b", "name", "size"], rng.randint(1, 3))):
        t, o, v = rt_json_value(rng, 0)
        fs.append(field("N%d" % i, key, t, o))
        vs.append(v)
    return struct(fs), mkopts(), ["st", vs]


def part_tag(part, key, o):
    return part + render_tag(key, o)[4:]


def rt_zero(k):
    return {"str": ["s", ""], "bool": ["b", False]}.get(k, ["i", "0"])


def rt_member_opts(rng, k, part):
    """optional / default= for a scalar member of a request struct (default implies the member may be left out)"""
    o = mkopts(optional=rng.random() < 0.35)
    if rng.random() < 0.3:
        if k == "str":
            o["default"] = rng.choice(["dflt", "abc"])
        elif k == "bool":
            o["default"] = "true"
        else:
            o["default"] = rng.choice(["5", "77", "1"])
    return o


def rt_scalar_member(rng, k, part, strs):
    """(opts, value): explicit zero values included.  Not generated (does not round-trip, c05_roundtrip_form_zero):
    a form-tagged string "" unless optional without default; path values are never empty."""
    o = rt_member_opts(rng, k, part) if part != "path" else mkopts()
    v = rt_scalar(rng, k, strs)
    if part != "path" and rng.random() < 0.35:
        v = rt_zero(k)
    if part == "form" and k == "str" and v[1] == "" and not (o["optional"] and o["default"] is None):
        v = ["s", rng.choice(strs)]
    if part == "form" and k == "str" and rng.random() < 0.25:
        v = ["s", rng.choice(BLANKS)]            # blank is not empty: present, no default substituted
    return o, v


def rt_case(rng):
    fs, vs, segs = [], [], ["api"]
    pnames = rng.sample(["id", "name", "kind"], rng.choice([0, 1, 1, 2]))
    for i, nm in enumerate(pnames):
        k = rng.choice(RT_SCALARS)
        o, v = rt_scalar_member(rng, k, "path", RT_PATH_STR)
        f = field("P%d" % i, nm, P(k), o)
        f["tag"] = part_tag("path", nm, o)
        fs.append(f)
        vs.append(v)
        segs += [":" + nm, rng.choice(["items", "x", "v2"])]
    for i, nm in enumerate(rng.sample(["q", "page", "sort", "flag"], rng.choice([0, 1, 2, 3]))):
        k = rng.choice(RT_SCALARS)
        o, v = rt_scalar_member(rng, k, "form", RT_FORM_STR)
        f = field("Q%d" % i, nm, P(k), o)
        f["tag"] = part_tag("form", nm, o)
        fs.append(f)
        vs.append(v)
    for i, nm in enumerate(rng.sample(RT_HDR_KEYS, rng.choice([0, 1, 2]))):
        k = rng.choice(["str", "str", "int", "uint16", "bool"])
        o, v = rt_scalar_member(rng, k, "header", RT_HDR_STR)
        f = field("H%d" % i, nm, P(k), o)
        f["tag"] = part_tag("header", nm, o)
        fs.append(f)
        vs.append(v)
    njson = rng.choice([0, 1, 2, 3, 4])
    for i, nm in enumerate(rng.sample(["a", "b", "name", "userName", "size", "tags"], njson)):
        t, o, v = rt_json_value(rng, 1)
        if t["k"] in RT_SCALARS and not o["string"]:
            o2, v = rt_scalar_member(rng, t["k"], "json", STRS)
            o["optional"], o["default"] = o2["optional"], o2["default"]
        elif t["k"] == "slice" and o["optional"] and rng.random() < 0.3:
            v = ["sl", []]                       # an optional slice explicitly set to empty
        fs.append(field("J%d" % i, nm, t, o))
        vs.append(v)
    if not fs:
        return rt_case(rng)
    # every method that may carry a body carries the JSON part; GET / HEAD travel without one
    method = rng.choice(["POST", "PUT", "PATCH", "DELETE", "OPTIONS"]) if njson else rng.choice(["GET", "HEAD", "POST", "DELETE", "OPTIONS", "PUT", "PATCH"])
    c = mkcase(rng, struct([]), O([]), ["roundtrip"], with_yaml=False, with_conf=False)
    c.update({"rt": True, "rt_shape": struct(fs), "value": ["st", vs], "method": method, "pattern": "/" + "/".join(segs),
              "chain": rng.choice(["", "", "log", "detailed", "security", "all"])})
    return c


# ----------------------------------------------------------------------------- httpx.Parse on a constructed request
def direct_fixed(rng):
    """the situations of the form / header clauses, in every run"""
    out = []

    def mk(kind, members, pairs, label):
        fs = []
        for i, (nm, t, o) in enumerate(members):
            f = field("M%d" % i, nm, t, o)
            f["tag"] = part_tag("header" if kind == "header" else "form", nm, o)
            fs.append(f)
        c = mkcase(rng, struct([]), O([]), ["direct", kind, label], with_yaml=False, with_conf=False)
        c["direct"] = {"kind": kind, "pairs": [{"k": k, "v": v} for k, v in pairs]}
        c["direct_shape"] = struct(fs)
        out.append(c)
    sl = lambda k: {"k": "slice", "e": P(k)}
    for kind in ("query", "postform"):
        mk(kind, [("q", P("str"), mkopts())], [("q", ["  padded  "])], "padded")
        mk(kind, [("q", P("str"), mkopts())], [("q", [" "])], "blank-required")
        mk(kind, [("q", P("str"), mkopts(default="dflt"))], [("q", [" "])], "blank-default")
        mk(kind, [("q", P("str"), mkopts(optional=True, default="dflt"))], [("q", ["\t"])], "tab-default")
        mk(kind, [("q", P("str"), mkopts())], [("q", ["a\nb\tc "])], "newline-tab")
        mk(kind, [("q", P("str"), mkopts(default="dflt"))], [("q", [""])], "empty-default")
        mk(kind, [("q", P("str"), mkopts())], [("q", [" first", "second"])], "repeated")
        mk(kind, [("n", P("int"), mkopts())], [("n", [" 7"])], "padded-int")
    mk("header", [("X-A", sl("str"), mkopts())], [("X-A", [])], "empty-list")
    mk("header", [("X-A", sl("str"), mkopts(optional=True))], [("X-A", None)], "nil-list")
    mk("header", [("X-A", P("str"), mkopts())], [("X-A", [])], "empty-list-scalar")
    mk("header", [("X-A", P("str"), mkopts(optional=True))], [("X-A", None)], "nil-list-scalar")
    mk("header", [("X-A", P("int"), mkopts(default="1"))], [("X-A", [])], "empty-list-default")
    mk("header", [("X-A", sl("str"), mkopts())], [("X-A", ["a", "b"])], "several")
    mk("header", [("X-A", P("str"), mkopts())], [("X-A", ["a", "b"])], "several-scalar")
    mk("header", [("X-A", sl("int"), mkopts())], [("X-A", ["1", "x"])], "several-illtyped")
    mk("header", [("X-A", P("str"), mkopts()), ("X-B", sl("str"), mkopts(optional=True))], [("X-A", ["one"]), ("X-B", [])], "mixed")
    return out


def direct_case(rng):
    """GET query / POST form with exact (blank, tab, newline, padded, empty, repeated) values; programmatic header maps
    whose keys carry no value (nil / empty list), one value or several"""
    kind = rng.choice(["query", "postform", "header", "header"])
    fs, pairs = [], []
    if kind != "header":
        for i, nm in enumerate(rng.sample(["q", "page", "sort", "flag", "name"], rng.randint(1, 4))):
            k = rng.choice(["str", "str", "str", "int", "bool", "uint8"])
            o = rt_member_opts(rng, k, "form")
            t = P(k)
            if rng.random() < 0.15:
                t, o = {"k": "slice", "e": P(k)}, mkopts(optional=rng.random() < 0.5)
            f = field("Q%d" % i, nm, t, o)
            f["tag"] = part_tag("form", nm, o)
            fs.append(f)
            r = rng.random()
            if r < 0.12:
                continue                                            # key absent
            if t["k"] == "slice":
                vals = [rng.choice(["[1,2]", '["a"," b "]', "[true]", "[]", " [1]", "abc", "null"])]
            elif k == "str":
                vals = [rng.choice(RT_FORM_STR + BLANKS + ["", ""])]
            elif k == "bool":
                vals = [rng.choice(["true", "0", " true", "false ", "", "TRUE"])]
            else:
                vals = [rng.choice(["7", " 7", "7 ", "0", "", "300", "\t1", "-1"])]
            if rng.random() < 0.15:
                vals.append(rng.choice(["second", "9", ""]))            # repeated key: the first value counts
            if rng.random() < 0.05:
                vals = []
            pairs.append({"k": nm, "v": vals})
    else:
        for i, nm in enumerate(rng.sample(["X-A", "X-Token", "X-Count", "X-List", "Accept-Language"], rng.randint(1, 4))):
            r = rng.random()
            if r < 0.45:
                t = {"k": "slice", "e": P(rng.choice(["str", "str", "int", "bool"]))}
            elif r < 0.5:
                t = {"k": "slice", "e": {"k": "ptr", "e": P("str")}}
            else:
                t = P(rng.choice(["str", "str", "int", "bool"]))
            o = mkopts(optional=rng.random() < 0.75)
            if t["k"] != "slice" and rng.random() < 0.2:
                o["default"] = "1"
            f = field("H%d" % i, nm, t, o)
            f["tag"] = part_tag("header", nm, o)
            fs.append(f)
            r = rng.random()
            if r < 0.1:
                continue
            if t["k"] != "slice" and r < 0.8:
                r = 0.5 + r / 4                                       # scalar members mostly get exactly one value
            if r < 0.3:
                vals = []
            elif r < 0.45:
                vals = None
            elif r < 0.75:
                vals = [rng.choice(["a", "1", "true", " padded ", "", "[1,2]", '["x"]'])]
            else:
                vals = [rng.choice(["a", "1", "true", "", " "]) for _ in range(rng.randint(2, 3))]
            pairs.append({"k": nm, "v": vals})
    c = mkcase(rng, struct([]), O([]), ["direct", kind], with_yaml=False, with_conf=False)
    c["direct"] = {"kind": kind, "pairs": pairs}
    c["direct_shape"] = struct(fs)
    return c


# ----------------------------------------------------------------------------- histories: no state leaks between calls
HIST_KEYS = ["user_name", "UserName", "max_conns", "ID", "node_id", "Port", "log_level", "X1", "Retry_Count", "dbHost"]
OPT_SHAPE = None
OPT_EXPECT = {"r": "ok", "v": ["st", [["s", "x"], ["i", "7"]]]}
OPT_TEXT = {"conf-json": '{"user_name":"x","MaxConns":7}', "conf-yaml": "user_name: x\nMaxConns: 7\n",
            "map-canon": '{"userName":"x","maxConns":7}'}


def opt_shape():
    return struct([field("U", "userName", P("str")), field("M", "maxConns", P("int"), mkopts(default="3"))])


def hist_case(rng):
    """a struct whose json keys are snake_case / upper-initial, unmarshalled by option-less entry points after and
    before a call WITH options in the same process; reference = the same call in the mapping driver's process"""
    keys = list(HIST_KEYS)
    rng.shuffle(keys)
    shape = gen_struct(rng, 1, keys=keys)
    doc = gen_obj(rng, shape, "good" if rng.random() < 0.75 else "mixed")
    c = mkcase(rng, shape, doc, ["history"], with_conf=False)
    plain = ["json-bytes", "json-reader", "json-map", "parse-body"] + (["yaml-bytes", "yaml-reader"] if c["yaml"] else [])
    hist = []
    for _ in range(2):
        op, pl = rng.choice(list(OPT_TEXT)), rng.choice(plain)
        ost = {"op": op, "shape": opt_shape(), "text": OPT_TEXT[op]}
        if rng.random() < 0.4:       # the optioned call on the SAME struct and keys (its own outcome is not compared)
            ost = {"op": rng.choice(["conf-json", "map-canon"]), "shape": shape, "text": c["json"], "ignore": True}
        pst = {"op": pl, "shape": shape, "text": c["yaml"] if pl.startswith("yaml") else c["json"]}
        hist.append([ost, pst] if rng.random() < 0.5 else [pst, ost, pst])
    c["hist"] = hist
    return c


DEF_TAGS, DEF_NUMS, DEF_ITEM = ["a", "b", "c"], [3, 1, 2], ["x", "y"]


def defaults_case(rng):
    """slice members filled from default=[...]: load, overwrite the result's slices in place, load again with the
    members left out (JSON / YAML / conf): the second result has the declared defaults; of two list elements only the
    first is overwritten, the second keeps its own default slice"""
    item = struct([field("T", "tags", {"k": "slice", "e": P("str")}, mkopts(default="[%s]" % ",".join(DEF_ITEM)))])
    shape = struct([field("N", "name", P("str")),
                    field("T", "tags", {"k": "slice", "e": P("str")}, mkopts(default="[%s]" % ",".join(DEF_TAGS))),
                    field("U", "nums", {"k": "slice", "e": P("int")}, mkopts(default="[%s]" % ",".join(map(str, DEF_NUMS)))),
                    field("I", "items", {"k": "slice", "e": item}, mkopts(optional=True))])
    doc = O([("name", S("n")), ("items", A([O([]), O([])]))])
    c = mkcase(rng, struct([]), O([]), ["defaults"], with_yaml=False, with_conf=False)
    ops = ["json-bytes", "yaml-bytes", "conf-json", "conf-yaml", "json-reader", "json-map"]
    first, second = rng.choice(ops), rng.choice(ops)
    text = lambda op: to_yaml(doc) if "yaml" in op else to_json(doc)
    c["hist"] = [[{"op": first, "shape": shape, "text": text(first), "mutate": True, "defaults": True},
                  {"op": second, "shape": shape, "text": text(second), "mutate": True, "defaults": True}]]
    return c


def defaults_expected(after):
    sl = lambda xs: ["sl", [["s", x] for x in xs]]
    m = lambda xs: ["MUTATED"] * len(xs)
    tags = sl(m(DEF_TAGS) if after else DEF_TAGS)
    nums = ["sl", [["i", "-1" if after else str(x)] for x in DEF_NUMS]]
    items = ["sl", [["st", [sl(m(DEF_ITEM) if after else DEF_ITEM)]], ["st", [sl(DEF_ITEM)]]]]
    return {"r": "ok", "v": ["st", [["s", "n"], tags, nums, items]]}


def hist_pairs(case, obs):
    """(reference, observed) for every step of every history"""
    out = []
    for h, hr in zip(case.get("hist") or [], obs.get("hist") or []):
        for st, r in zip(h, hr):
            if st.get("defaults"):
                out.append((st["op"] + ":loaded", defaults_expected(False), {k: v for k, v in r.items() if k != "after"}))
                out.append((st["op"] + ":after-overwriting-in-place", defaults_expected(True),
                            {"r": "ok", "v": r["after"]} if "after" in r else r))
    if out:
        return out
    for h, hr in zip(case.get("hist") or [], obs.get("hist") or []):
        for st, r in zip(h, hr):
            if st.get("ignore"):
                continue
            if st["op"] in OPT_TEXT:
                out.append((st["op"], OPT_EXPECT, r))
            else:
                out.append((st["op"], obs["y"] if st["op"].startswith("yaml") else obs["j"], r))
    return out


# ----------------------------------------------------------------------------- inherit with nested sections
def inherit_case(rng):
    """sections declared at the top and again, tagged inherit, inside a nested struct (and its child).
    Shape 1: the inherited section is flat (tls = {cert, key, min}).
    Shape 2: the inherited section (etcd) CONTAINS a nested sub-section (etcd.tls) that is not tagged: HEAD fills only the
             top-level entries of etcd the child lacks; etcd.tls is taken exactly as the child wrote it (absent optional ->
             zero, default -> default, absent required -> failure).
    Shape 3: the nested sub-section is tagged inherit as well: its key is looked up in the enclosing OBJECTS (the child's
             section, rpc, the top), not inside the parent's section.
    The child writes a section in full, in part, as a scalar, or not at all; scalars are inherited too."""
    def tls(extra=False):
        fs = [field("C", "cert", P("str")), field("K", "key", P("str"), mkopts(optional=True)),
              field("M", "min", P("int"), mkopts(default="12"))]
        if extra:
            fs.append(field("X", "ciphers", {"k": "slice", "e": P("str")}, mkopts(optional=True)))
        return struct(fs)
    extra = rng.random() < 0.4
    inh = lambda **kw: mkopts(inherit=True, **kw)
    nested = rng.random() < 0.6                  # shapes 2 / 3
    nested_inh = nested and rng.random() < 0.4   # shape 3

    def etcd():
        sub_o = inh(optional=rng.random() < 0.3) if nested_inh else mkopts(optional=rng.random() < 0.3)
        fs = [field("H", "hosts", P("str"), mkopts(optional=True)), field("T", "tls", tls(extra), sub_o)]
        if rng.random() < 0.4:
            fs.append(field("A", "auth", struct([field("U", "user", P("str")), field("W", "pass", P("str"), mkopts(optional=True)),
                                                 field("D", "ttl", P("int"), mkopts(default="30"))]), mkopts(optional=rng.random() < 0.5)))
        return struct(fs)
    etcd_t = etcd() if nested else None
    grand_fs = [field("T", "tls", tls(extra), inh()), field("N", "name", P("str"), inh(optional=rng.random() < 0.5))]
    if nested and rng.random() < 0.5:
        grand_fs.append(field("E", "etcd", etcd_t, inh(optional=rng.random() < 0.5)))
    grand = struct(grand_fs)
    child_fs = [field("T", "tls", tls(extra), inh(optional=rng.random() < 0.3)), field("N", "name", P("str"), inh()),
                field("O", "timeout", P("int"), inh(optional=True))]
    if nested:
        child_fs.append(field("E", "etcd", etcd_t, inh(optional=rng.random() < 0.3)))
    has_sub = rng.random() < 0.5
    if has_sub:
        child_fs.append(field("G", "sub", grand, mkopts(optional=rng.random() < 0.5)))
    has_peers = rng.random() < 0.3
    if has_peers:
        child_fs.append(field("L", "peers", {"k": "slice", "e": struct([field("T", "tls", tls(extra), inh(optional=True))])}, mkopts(optional=True)))
    top_fs = [field("T", "tls", tls(extra), mkopts(optional=rng.random() < 0.2)), field("N", "name", P("str"), mkopts(optional=rng.random() < 0.3)),
              field("O", "timeout", P("int"), mkopts(optional=True))]
    if nested:
        top_fs.append(field("E", "etcd", etcd_t, mkopts(optional=rng.random() < 0.2)))
    top_fs.append(field("R", "rpc", struct(child_fs), mkopts(optional=rng.random() < 0.2)))
    shape = struct(top_fs)

    def section(full):
        pairs = []
        if full or rng.random() < 0.7:
            pairs.append(("cert", S(rng.choice(["pc", "cc", "gc"]))))
        if rng.random() < (0.8 if full else 0.35):
            pairs.append(("key", S(rng.choice(["pk", "ck"]))))
        if rng.random() < (0.8 if full else 0.35):
            pairs.append(("min", N(rng.choice([10, 11, 13]))))
        if extra and rng.random() < 0.4:
            pairs.append(("ciphers", A([S("a")])))
        return O(pairs)

    def maybe_section():
        r = rng.random()
        if r < 0.55:
            return [("tls", section(False))]
        if r < 0.65:
            return [("tls", section(True))]
        if r < 0.72:
            return [("tls", rng.choice([S("x"), N(1), NULL, A([]), O([])]))]
        return []

    def etcd_doc(full):
        pairs = []
        if rng.random() < (0.8 if full else 0.4):
            pairs.append(("hosts", S(rng.choice(["ph", "ch"]))))
        r = rng.random()
        if full or r < 0.75:
            pairs.append(("tls", section(full and rng.random() < 0.8)))
        elif r < 0.8:
            pairs.append(("tls", rng.choice([S("x"), NULL, O([])])))
        if any(f["key"] == "auth" for f in etcd_t["f"]) and rng.random() < (0.8 if full else 0.5):
            a = [("user", S(rng.choice(["pu", "cu"])))] if (full or rng.random() < 0.6) else []
            if rng.random() < (0.7 if full else 0.3):
                a.append(("pass", S("pw")))
            if rng.random() < (0.7 if full else 0.3):
                a.append(("ttl", N(rng.choice([5, 60]))))
            pairs.append(("auth", O(a)))
        return O(pairs)

    def maybe_etcd():
        if not nested:
            return []
        r = rng.random()
        if r < 0.65:
            return [("etcd", etcd_doc(False))]
        if r < 0.72:
            return [("etcd", rng.choice([S("x"), NULL, O([])]))]
        return []
    top = ([("tls", section(rng.random() < 0.7))] if rng.random() < 0.9 else []) + ([("name", S("top"))] if rng.random() < 0.85 else [])
    if nested and rng.random() < 0.92:
        top.append(("etcd", etcd_doc(True)))
    if rng.random() < 0.5:
        top.append(("timeout", N(5)))
    rpc = maybe_section() + maybe_etcd() + ([("name", S("child"))] if rng.random() < 0.3 else []) + ([("timeout", N(9))] if rng.random() < 0.2 else [])
    if has_sub and rng.random() < 0.8:
        rpc.append(("sub", O(maybe_section() + (maybe_etcd() if any(f["key"] == "etcd" for f in grand_fs) else []) +
                            ([("name", S("grand"))] if rng.random() < 0.3 else []))))
    if has_peers and rng.random() < 0.7:
        rpc.append(("peers", A([O(maybe_section()) for _ in range(rng.randint(1, 2))])))
    if rng.random() < 0.9:
        top.append(("rpc", O(rpc)))
    rng.shuffle(top)
    return mkcase(rng, shape, O(top), ["inherit", "nested-inherit" if nested_inh else ("nested" if nested else "flat")], with_conf=False)


def inherit_fixed(rng):
    """the probed situations, in every run (A1-A4: nested sub-section not tagged; B/C: tagged as well)"""
    out = []
    tls = lambda: struct([field("C", "cert", P("str")), field("K", "key", P("str"), mkopts(optional=True)), field("M", "min", P("int"), mkopts(default="12"))])
    inh = mkopts(inherit=True)
    etcd = lambda sub_o: struct([field("H", "hosts", P("str"), mkopts(optional=True)), field("T", "tls", tls(), sub_o)])
    ptls = O([("cert", S("pc")), ("key", S("pk")), ("min", N(13))])
    petcd = ("etcd", O([("hosts", S("ph")), ("tls", ptls)]))

    def mk(shape, pairs, label):
        out.append(mkcase(rng, shape, O(pairs), ["inherit", "fixed", label], with_conf=False))
    shA = struct([field("E", "etcd", etcd(mkopts())), field("R", "rpc", struct([field("E", "etcd", etcd(mkopts()), inh)]))])
    mk(shA, [petcd, ("rpc", O([("etcd", O([("tls", O([("cert", S("cc"))]))]))]))], "A1")
    mk(shA, [petcd, ("rpc", O([("etcd", O([("tls", O([("key", S("ck"))]))]))]))], "A2")
    mk(shA, [petcd, ("rpc", O([("etcd", O([("hosts", S("ch"))]))]))], "A3")
    mk(shA, [petcd, ("rpc", O([]))], "A4")
    mk(shA, [petcd, ("rpc", O([("etcd", O([("tls", O([("cert", S("cc")), ("min", N(1))]))]))]))], "A5")
    shB = struct([field("E", "etcd", etcd(mkopts())), field("T", "tls", tls(), mkopts(optional=True)),
                  field("R", "rpc", struct([field("E", "etcd", etcd(inh), inh)]))])
    mk(shB, [petcd, ("rpc", O([("etcd", O([("tls", O([("cert", S("cc"))]))]))]))], "B1")
    mk(shB, [petcd, ("tls", O([("cert", S("tc")), ("key", S("tk")), ("min", N(9))])), ("rpc", O([("etcd", O([("tls", O([("cert", S("cc"))]))]))]))], "B2")
    shC = struct([field("T", "tls", tls()), field("R", "rpc", struct([field("T", "tls", tls(), mkopts(optional=True)), field("E", "etcd", etcd(inh))]))])
    ttls = ("tls", O([("cert", S("tc")), ("key", S("tk")), ("min", N(9))]))
    mk(shC, [ttls, ("rpc", O([("etcd", O([("tls", O([("cert", S("cc"))]))]))]))], "C1")
    mk(shC, [ttls, ("rpc", O([("tls", O([("cert", S("rc")), ("key", S("rk"))])), ("etcd", O([("tls", O([("cert", S("cc"))]))]))]))], "C2")
    mk(shC, [ttls, ("rpc", O([("etcd", O([]))]))], "C3")
    # the merge is done in place on the decoded maps: the same document gives rpc.etcd.tls.key = "pk" when `etcd` is
    # declared before `rpc` (top.etcd.tls was already filled from top.tls) and "" when it is declared after; the null
    # under rpc.tls stops the lookup there
    tls2 = lambda: struct([field("C", "cert", P("str")), field("K", "key", P("str"), mkopts(optional=True))])
    etcd2 = lambda: struct([field("T", "tls", tls2(), inh)])
    rpc2 = lambda: struct([field("T", "tls", tls2(), mkopts(optional=True, inherit=True)), field("E", "etcd", etcd2(), mkopts(optional=True, inherit=True))])
    doc2 = [("tls", O([("cert", S("cc")), ("key", S("pk"))])), ("etcd", O([("tls", O([("cert", S("pc"))]))])), ("rpc", O([("tls", NULL)]))]
    mk(struct([field("T", "tls", tls2()), field("E", "etcd", etcd2()), field("R", "rpc", rpc2())]), doc2, "order-etcd-first")
    mk(struct([field("T", "tls", tls2()), field("R", "rpc", rpc2()), field("E", "etcd", etcd2())]), doc2, "order-rpc-first")
    return out


# ----------------------------------------------------------------------------- env= members
_ENV_SEQ = [0]


def env_case(rng):
    """a one-member struct whose member reads an environment variable (fresh name: proc.Env remembers values)"""
    _ENV_SEQ[0] += 1
    name = "C05E_%d_%d_%d" % (os.getpid(), rng.randrange(10 ** 9), _ENV_SEQ[0])
    k = rng.choice(["str", "str", "int", "uint8", "int32", "bool"])
    # pointer members: repaired by /repo 0ecc4e6 (D21: the env path did not allocate the pointer and panicked)
    t = P(k) if rng.random() < 0.75 else {"k": "ptr", "e": P(k)}
    o = mkopts(optional=rng.random() < 0.5)
    if k == "str":
        o["options"] = rng.choice([["dev", "test", "prod"], ["Info", "warn"], []])
        base = rng.choice(o["options"] or ["abc"])
        val = rng.choice([base, base, near_miss(rng, base)])
    elif k == "bool":
        val = rng.choice(["true", "false", "1", "0", "TRUE", "yes", " true"])
    else:
        if rng.random() < 0.5:
            o["options"] = ["1", "10"]
        if rng.random() < 0.4:
            o["range"] = (1, True, 50, True)
        val = rng.choice(["1", "10", "100", "1 ", "01", "300", "7", "-1", "1.0"])
    key = "v"
    tag_o = dict(o)
    tag_o["env"] = name
    f = field("V", key, t, o)
    f["tag"] = render_tag(key, tag_o)
    c = mkcase(rng, struct([]), O([]), ["env"], with_yaml=False, with_conf=False)
    c["env"] = {"name": name, "value": val}
    c["env_shape"] = struct([f])
    return c


def env_fixed(rng):
    """options= on the env route, in every run: letter case, blanks, prefix, superstring; numbers by their text"""
    out = []

    def mk(k, o, val, ptr=False):
        _ENV_SEQ[0] += 1
        name = "C05E_%d_%d_%d" % (os.getpid(), rng.randrange(10 ** 9), _ENV_SEQ[0])
        tag_o = dict(o)
        tag_o["env"] = name
        f = field("V", "v", {"k": "ptr", "e": P(k)} if ptr else P(k), o)
        f["tag"] = render_tag("v", tag_o)
        c = mkcase(rng, struct([]), O([]), ["env", "fixed"], with_yaml=False, with_conf=False)
        c["env"] = {"name": name, "value": val}
        c["env_shape"] = struct([f])
        out.append(c)
    for val in ("dev", "DEV", "Prod", " dev", "dev ", "de", "devel"):
        mk("str", mkopts(options=["dev", "test", "prod"]), val)
    for val in ("10", "1", "2", "100", "25 ", "025"):
        mk("int", mkopts(options=["10", "25"]), val)
    mk("int32", mkopts(rng=(1, True, 50, True)), "51")
    mk("uint8", mkopts(), "256")
    mk("int", mkopts(optional=True), "300", ptr=True)          # D21
    mk("int8", mkopts(optional=True), "300", ptr=True)
    mk("uint16", mkopts(options=["10", "25"]), "10", ptr=True)
    mk("str", mkopts(optional=True), "abc", ptr=True)
    mk("bool", mkopts(optional=True), "true", ptr=True)
    return out


# ----------------------------------------------------------------------------- the size dimension
BIG_SIZES = [4095, 4096, 4097, 5000, 65536, 1 << 20]


def big_case(rng, size):
    """a JSON document of exactly `size` bytes: bytes vs reader vs one-byte reader vs YAML vs httpx.Parse body"""
    shape = struct([field("H", "head", P("int")), field("P", "pad", P("str")), field("L", "list", {"k": "slice", "e": P("int")}, mkopts(optional=True)),
                    field("T", "tail", P("str"))])
    lst = [N(rng.randint(0, 99999)) for _ in range(min(2000, size // 12))]
    doc = O([("head", N(7)), ("list", A(lst)), ("pad", S("")), ("tail", S("end-" + str(size)))])
    room = size - len(to_json(doc))
    if room < 0:
        doc = O([("head", N(7)), ("pad", S("")), ("tail", S("e"))])
        room = size - len(to_json(doc))
    alphabet = "abcdefghijklmnopqrstuvwxyz0123456789 -_."
    doc[1][[kv[0] for kv in doc[1]].index("pad")][1] = S("".join(rng.choice(alphabet) for _ in range(room)))
    assert len(to_json(doc)) == size
    c = mkcase(rng, shape, doc, ["big", str(size)], with_conf=False)
    c["readers"] = True
    c["jsonbody"] = rng.choice(["POST", "PUT", "PATCH", "DELETE", "OPTIONS"])
    return c


def big_rt_case(rng, size, chain=None):
    """the httpc -> httpx round trip of a request whose JSON body is about `size` bytes"""
    c = mkcase(rng, struct([]), O([]), ["roundtrip", "big"], with_yaml=False, with_conf=False)
    alphabet = "abcdefghijklmnopqrstuvwxyz0123456789 -_."
    pad = "".join(rng.choice(alphabet) for _ in range(size))
    fs = [field("J0", "pad", P("str")), field("J1", "n", P("int")), field("Q0", "q", P("str"))]
    fs[2]["tag"] = part_tag("form", "q", mkopts())
    c.update({"rt": True, "rt_shape": struct(fs), "value": ["st", [["s", pad], ["i", "7"], ["s", "x"]]],
              "method": rng.choice(["POST", "PUT", "DELETE"]), "pattern": "/api/big",
              "chain": chain if chain is not None else rng.choice(["", "log", "detailed", "security", "all"])})
    return c


# ----------------------------------------------------------------------------- two overlapping requests to one route
def conc_case(rng):
    """request A is held inside its handler while request B (other path / form / json values) is routed and answered:
    each httpx.Parse must yield its own request's values (path variables are per request)"""
    a = rt_case(rng)
    while not any(f["tag"].startswith("path") for f in a["rt_shape"]["f"]):
        a = rt_case(rng)
    fs = a["rt_shape"]["f"]
    vb = []
    for f, va in zip(fs, a["value"][1]):
        part, k = f["tag"].split(":")[0], f["t"]["k"]
        if part == "path" and k in RT_SCALARS:
            v = rt_scalar(rng, k, RT_PATH_STR)
            for _ in range(5):
                if v != va:
                    break
                v = rt_scalar(rng, k, RT_PATH_STR)
            vb.append(v)
        else:
            vb.append(va)
    c = mkcase(rng, struct([]), O([]), ["concurrent"], with_yaml=False, with_conf=False)
    c["conc"] = {"a": a["value"], "b": ["st", vb]}
    c.update({"rt_shape": a["rt_shape"], "method": a["method"], "pattern": a["pattern"]})
    return c


# ----------------------------------------------------------------------------- direct Marshal (lib/mapping/marshaler.go)
def marshal_case(rng):
    """a request-like struct value through mapping.Marshal; 30% carry one member that validation must reject"""
    base = rt_case(rng)
    shape, vals = base["rt_shape"], list(base["value"][1])
    fs = shape["f"]
    if rng.random() < 0.3:                                    # an untagged member: part "" under its field name
        f = field("Plain", "Plain", P("int"), tagged=False)
        fs.append(f)
        vals.append(["i", "3"])
    if rng.random() < 0.3:
        kind = rng.choice(["nilptr", "emptyslice", "emptymap", "options", "range", "optzero"])
        if kind == "nilptr":
            fs.append(field("X", "x", {"k": "ptr", "e": P("int")})); vals.append(["np"])
        elif kind == "emptyslice":
            fs.append(field("X", "x", {"k": "slice", "e": P("int")})); vals.append(rng.choice([["ns"], ["sl", []]]))
        elif kind == "emptymap":
            fs.append(field("X", "x", {"k": "map", "e": P("int")})); vals.append(rng.choice([["nm"], ["m", []]]))
        elif kind == "options":
            fs.append(field("X", "x", P(rng.choice(["str", "int"])), mkopts(options=["1", "a"])))
            vals.append(["s", "zz"] if fs[-1]["t"]["k"] == "str" else ["i", "9"])
        elif kind == "range":
            fs.append(field("X", "x", P("int"), mkopts(rng=(1, True, 5, rng.random() < 0.5)))); vals.append(["i", rng.choice(["0", "5", "6", "3"])])
        else:                                                 # optional zero values skip options=/range=
            fs.append(field("X", "x", P("int"), mkopts(optional=True, options=["1", "2"], rng=(1, True, 5, True)))); vals.append(["i", "0"])
    c = mkcase(rng, struct([]), O([]), ["marshal"], with_yaml=False, with_conf=False)
    c["marshal"] = {"shape": struct(fs), "value": ["st", vals]}
    return c


# ----------------------------------------------------------------------------- from-string numerics (convertType)
NUM_STRINGS = ["9223372036854775807", "9223372036854775808", "18446744073709551615", "18446744073709551616", "1e19", "-1e30",
               "9007199254740993.0", "1.0", "1e3", " 7", "+7", "0x10", "007", "-0", "-9223372036854775808", "-9223372036854775809",
               "255", "256", "-129", "65536", "4294967296", "7 ", "1_000", "", "+", "-"]
JSON_NUM_TOKENS = ["9223372036854775808", "18446744073709551616", "1e19", "-1e30", "9007199254740993.0", "1.0", "1e3", "-0",
                   "256", "-129", "4294967296", "9223372036854775807"]


def numstr_cases(rng):
    """every int/uint width x every spelling x every from-string path: `,string` member, WithStringValues() mode
    (form/path/header), default=, string element of a slice, number-token element of a slice and of a map"""
    out = []
    for k in INT_KINDS:
        for sv in NUM_STRINGS:
            paths = ["string", "strmode", "slice"]
            if sv and sv == sv.strip() and "," not in sv:
                paths.append("default")
            for path in paths:
                if path == "string":
                    shape, doc = struct([field("V", "v", P(k), mkopts(string=True))]), O([("v", S(sv))])
                elif path == "strmode":
                    shape, doc = struct([field("V", "v", P(k))]), O([("v", S(sv))])
                elif path == "slice":
                    shape, doc = struct([field("V", "v", {"k": "slice", "e": P(k)})]), O([("v", A([S(sv)]))])
                else:
                    shape, doc = struct([field("V", "v", P(k), mkopts(default=sv))]), O([])
                c = mkcase(rng, shape, doc, ["numstr", path], with_conf=False)
                c["strmode"] = path == "strmode"
                out.append(c)
        for tok in JSON_NUM_TOKENS:
            for path in ("slicetok", "maptok", "stringtok"):
                if path == "slicetok":
                    shape, doc = struct([field("V", "v", {"k": "slice", "e": P(k)})]), O([("v", A([N(tok)]))])
                elif path == "maptok":
                    shape, doc = struct([field("V", "v", {"k": "map", "e": P(k)})]), O([("v", O([("k1", N(tok))]))])
                else:
                    shape, doc = struct([field("V", "v", P(k), mkopts(string=True))]), O([("v", N(tok))])
                out.append(mkcase(rng, shape, doc, ["numstr", path], with_conf=False))
    return out


# ----------------------------------------------------------------------------- floats: JSON x YAML x {float32, float64}
FLOAT_TOKENS = ["39.9041999", "0.123456789012", "1234567.891", "1e-7", "9007199254740993.0", "9007199254740993", "0.1", "0.3",
                "16777217", "16777216.5", "3.4028234663852886e38", "3.4028235677973366e38", "1e38", "1e39", "1e308", "1e309", "1e400",
                "5e-324", "1e-400", "2.2250738585072014e-308", "1.17549435e-38", "1e-46", "123456789.123456789", "-0.0", "0.0",
                "9223372036854775807", "9223372036854775808", "18446744073709551615", "18446744073709551616",
                "-9223372036854775808", "-9223372036854775809", "100", "1e22", "1e23", "4.35", "2.675", "1.0000001", "8.41e21", "-39.9041999", "6.02214076e23"]
# float32 is reached through float64 (json.Number.Float64 / yaml float64 -> SetFloat): a token within half a float64 ulp
# of a float32 midpoint is rounded twice (finding; c05_float32_double_rounding_witness) -- kept out of the stream
FLOAT32_DOUBLE_ROUNDING = ["1.0000000596046447753906250000001"]


def float_case(rng):
    if rng.random() < 0.5:
        tok = rng.choice(FLOAT_TOKENS)
    else:
        digits = rng.randint(1, 17)
        m = str(rng.randint(1, 10 ** digits - 1))
        pos = rng.randint(0, len(m))
        tok = (m[:pos] or "0") + ("." + m[pos:] if pos < len(m) else "")
        if rng.random() < 0.4:
            tok += "e%d" % rng.randint(-40, 40)
        if rng.random() < 0.3:
            tok = "-" + tok
        if tok.startswith("0") and len(tok) > 1 and tok[1].isdigit():
            tok = tok.lstrip("0") or "0"
            if tok.startswith(".") or tok.startswith("e"):
                tok = "0" + tok
    c = mkcase(rng, struct([]), O([]), ["float"], with_yaml=False, with_conf=False)
    c["float"] = tok
    return c


# ----------------------------------------------------------------------------- outside the modelled universe
# ----------------------------------------------------------------------------- outside the modelled universe
def wild_type(rng, depth):
    r = rng.random()
    if depth <= 0 or r < 0.3:
        return P(rng.choice(PRIMS))
    if r < 0.5:
        return {"k": "ptr", "e": wild_type(rng, depth - 1)}
    if r < 0.7:
        return {"k": "slice", "e": wild_type(rng, depth - 1)}
    if r < 0.85:
        return {"k": "map", "e": wild_type(rng, depth - 1)}
    return struct([field("A", "a", wild_type(rng, depth - 1), mkopts(optional=rng.random() < 0.5)),
                   field("B", "b", wild_type(rng, depth - 2), mkopts(optional=rng.random() < 0.5, string=rng.random() < 0.3))])


def wild_doc(rng, depth):
    r = rng.random()
    if depth <= 0 or r < 0.45:
        return rng.choice([NULL, ["b", True], N(1), N(300), N("1.5"), N("1e400"), S("abc"), S("5"), S("1s"), S("[1,2]"),
                           S("[null]"), S('{"a":1}'), S("null"), S("[[1]]"), S(""), S("[1,null,3]"), S('["a",null]'),
                           S("[true,null]"), S('[{"a":1},null]'), S("[[1],null]"), S('[1,"x",true,{},[]]')])
    if r < 0.7:
        return A([wild_doc(rng, depth - 1) for _ in range(rng.randint(0, 3))])
    return O([(k, wild_doc(rng, depth - 1)) for k in rng.sample(["a", "b", "k1", "zz"], rng.randint(0, 3))])


def outside_case(rng):
    """pointer-to-container, pointer map elements, ** pointers, options on containers, JSON texts in strings, ..."""
    o = mkopts(optional=rng.random() < 0.3, string=rng.random() < 0.2)
    if rng.random() < 0.15:
        o["default"] = rng.choice(["5", "[1,2]", "abc", "{}", "1s"])
    if rng.random() < 0.1:
        o["options"] = ["1", "a"]
    if rng.random() < 0.1:
        o["range"] = (1, True, 5, True)
    shape = struct([field("V", "v", wild_type(rng, 4), o)])
    doc = O([("v", wild_doc(rng, 4))] if rng.random() < 0.9 else [])
    return mkcase(rng, shape, doc, ["outside"], with_yaml=False, with_conf=False)


def absent_required_map(t, d):
    """does unmarshalling d at type t meet a struct object that lacks a required map field (known finding)?"""
    k = t["k"]
    if k == "ptr":
        return absent_required_map(t["e"], d)
    if k == "struct" and d[0] == "o":
        present = {kv[0]: kv[1] for kv in d[1]}
        for f in flat_fields(t):
            ft = deref(f["t"])
            if f["key"] in present:
                if absent_required_map(f["t"], present[f["key"]]):
                    return True
            elif ft["k"] == "map" and not f["o"]["optional"] and f["o"]["default"] is None:
                return True
            elif ft["k"] == "struct" and not f["o"]["optional"] and absent_required_map(ft, ["o", []]):
                return True
        return False
    if k == "slice" and d[0] == "a":
        return any(absent_required_map(t["e"], x) for x in d[1])
    if k == "map" and d[0] == "o":
        return any(absent_required_map(t["e"], kv[1]) for kv in d[1])
    return False


def required_map_absent(rng):
    return mkcase(rng, struct([field("V", "v", {"k": "map", "e": P("int")})]), O([]), ["finding", "required-map-absent"])


# ----------------------------------------------------------------------------- generate
def generate(rng, tier, n):
    cases = directed(rng)
    if tier != "search":
        tpls = known_templates()
        for tpl in rng.sample(tpls, 8):          # small dedicated stream of known findings (classified, never new)
            cases.append(known_case(rng, tpl))
        cases.extend(direct_fixed(rng))
        cases.extend(env_fixed(rng))
        cases.extend(inherit_fixed(rng))
        for _ in range(4):                          # defaults are fresh per result (4 route pairs per run)
            cases.append(defaults_case(rng))
        for _ in range(6):                          # overlapping requests to one route
            cases.append(conc_case(rng))
        for size in BIG_SIZES:                      # the size dimension: every size in every run (1 MB once)
            cases.append(big_case(rng, size))
        cases.append(big_rt_case(rng, rng.choice([4096, 4097, 65536])))
        cases.append(big_rt_case(rng, 1 << 20))
        # bodies beyond 64 KiB behind the log middlewares (body duplicated for logging) and the content-security handler
        for size, chain in ((70 << 10, "log"), (70 << 10, "detailed"), (300 << 10, "all"), (300 << 10, rng.choice(["log", "detailed", "security"]))):
            cases.append(big_rt_case(rng, size, chain))
        ns = numstr_cases(rng)                   # systematic from-string numerics: all in the thorough tier
        cases.extend(ns if tier == "thorough" else rng.sample(ns, 60))
    depth = 2
    while len(cases) < n:
        r0 = rng.random()
        if r0 < 0.12:
            cases.append(outside_case(rng))
            continue
        if r0 < 0.24:
            cases.append(rt_case(rng))
            continue
        if r0 < 0.30:
            cases.append(confnest_case(rng))
            continue
        if r0 < 0.36:
            cases.append(float_case(rng))
            continue
        if r0 < 0.42:
            cases.append(marshal_case(rng))
            continue
        if r0 < 0.50:
            cases.append(direct_case(rng))
            continue
        if r0 < 0.57:
            cases.append(hist_case(rng))
            continue
        if r0 < 0.64:
            cases.append(inherit_case(rng))
            continue
        if r0 < 0.70:
            cases.append(env_case(rng))
            continue
        shape = gen_struct(rng, depth)
        r = rng.random()
        mode = "good" if r < 0.7 else "mixed"
        doc = gen_obj(rng, shape, mode)
        cases.append(mkcase(rng, shape, doc, [mode]))
        cases[-1]["readers"] = rng.random() < 0.15        # extra reader situations: empty / blank / drained / one byte
        # the document as the JSON body of a request, any method (an untagged member belongs to every part of a request:
        # httpx.Parse then demands it from the path first -- not a json member, so only fully tagged shapes)
        if rng.random() < 0.2 and all(f["tag"] for f in flat_fields(shape)):
            empty = not doc[1]
            cases[-1]["jsonbody"] = rng.choice(["GET", "HEAD"] if empty and rng.random() < 0.5 else ["POST", "PUT", "PATCH", "DELETE", "OPTIONS"])
    return cases


def search(rng, problems):
    return directed(rng) + direct_fixed(rng) + env_fixed(rng) + inherit_fixed(rng)


def drive(cases, tier):
    m_in = [{"shape": c["shape"], "json": c["json"], "yaml": c["yaml"], "strmode": bool(c.get("strmode")),
             "float": c.get("float", ""), "marshal": c.get("marshal"), "readers": bool(c.get("readers"))} if not c.get("env") else
            {"shape": c["env_shape"], "json": "{}", "yaml": "", "env": c["env"]} for c in cases]
    c_in = [{"shape": c["shape"], "conf": c["conf"], "cyaml": c.get("cyaml", ""), "keys": c["keys"], "hist": c.get("hist") or []} for c in cases]
    mo, log1 = run_driver("./lib/mapping", m_in, name="C05m_" + tier, timeout=DRIVER_TIMEOUT)
    if mo is None:
        return None, log1
    co, log2 = run_driver("./lib/conf", c_in, name="C05c_" + tier, timeout=DRIVER_TIMEOUT)
    if co is None:
        return None, log2
    r_in = [{"conc": c["conc"], "shape": c["rt_shape"], "method": c["method"], "pattern": c["pattern"]} if c.get("conc") else
            {"rt": True, "shape": c["rt_shape"], "value": c["value"], "method": c["method"], "pattern": c["pattern"],
             "chain": c.get("chain", "")}
            if c.get("rt") else ({"direct": c["direct"], "shape": c["direct_shape"]} if c.get("direct") else
                                 ({"direct": {"kind": "jsonbody", "method": c["jsonbody"],
                                              "body": "" if c["jsonbody"] in ("GET", "HEAD") else c["json"]}, "shape": c["shape"]}
                                  if c.get("jsonbody") else {"rt": False})) for c in cases]
    ro, log3 = run_driver("./api/httpc", r_in, name="C05r_" + tier, timeout=DRIVER_TIMEOUT)
    if ro is None:
        return None, log3
    obs = []
    for a, b, r in zip(mo, co, ro):
        if "error" in a or "error" in b or "error" in r:
            return None, "driver error: %r %r %r" % (a, b, r)
        if r and "error" in (r.get("conc") or {}):
            return None, "driver error (conc): %r" % (r["conc"],)
        if "e" in a and "j" not in a:
            a["j"] = {"r": "ok", "v": ["st", []]}          # env case: the ordinary run is not made
        if "error" in (a.get("m") or {}):
            return None, "driver error (marshal): %r" % (a["m"],)
        obs.append({"j": a["j"], "y": a.get("y"), "c": b.get("c"), "cy": b.get("cy"), "camel": b["camel"],
                    "rt": r if (r and "d" not in r and "conc" not in r) else None, "conc": (r or {}).get("conc"),
                    "s": a.get("s"), "f": a.get("f"), "m": a.get("m"), "rd": a.get("rd"), "d": (r or {}).get("d"), "hist": b.get("hist"), "e": a.get("e")})
    # known findings: which single unenforced clause (if any) is the sole reason spec_ok fails -- decided in Coq
    idx = [i for i, c in enumerate(cases) if c["label"][0] == "known"]
    if idx:
        try:
            decide_known([cases[i] for i in idx], [obs[i] for i in idx])
        except RuntimeError as ex:
            return None, "known-finding masks: " + str(ex)[-2000:]
    return obs, log1 + log2 + log3


_KNOWN = {}


def decide_known(cs, os_):
    """class of each case: spec_ok fails and exactly the masked checker of that class accepts it (Exec.spec_mask_*)"""
    checks = ("spec_ok",) + tuple(KNOWN_CLASSES)
    res = vlib.coq_eval(ID, "C05.Exec", [encode(c, o) for c, o in zip(cs, os_)], shard=400, checks=checks, tag="k")
    for i, (c, o) in enumerate(zip(cs, os_)):
        cls = None
        if i in res["spec_ok"]:
            ok = [KNOWN_CLASSES[m] for m in KNOWN_CLASSES if i not in res[m]]
            if len(ok) == 1:
                cls = ok[0]
        _KNOWN[vlib.canon(c)] = cls


def classify(case, obs):
    key = vlib.canon(case)
    if key not in _KNOWN:
        decide_known([case], [obs])
    return _KNOWN[key]


# ----------------------------------------------------------------------------- encode
def c_kind(k):
    if k == "bool":
        return "KBool"
    if k == "str":
        return "KStr"
    if k == "dur":
        return "KDur"
    if k == "f32":
        return "KF32"
    if k == "f64":
        return "KF64"
    signed, bits = INT_KINDS[k]
    return "(%s W%d)" % ("KInt" if signed else "KUint", bits)


def c_opts(o):
    rg = None
    if o["range"] is not None:
        l, li, r, ri = o["range"]
        rg = "(mkrange %s %s %s %s)" % (copt(None if l is None else cZ(l)), cbool(li), copt(None if r is None else cZ(r)), cbool(ri))
    dep = None
    if o.get("dep"):
        dep = cpair(cbool(o["dep"][0]), cstr(o["dep"][1]))
    return "(mkopts %s %s %s %s %s %s %s)" % (cbool(o["optional"]), copt(None if o["default"] is None else cstr(o["default"])),
                                              clist([cstr(x) for x in o["options"]]), copt(rg), cbool(o["string"]), copt(dep),
                                              cbool(bool(o.get("inherit"))))


def c_ty(t):
    k = t["k"]
    if k in PRIMS:
        return "(Prim %s)" % c_kind(k)
    if k == "ptr":
        return "(Ptr %s)" % c_ty(t["e"])
    if k == "slice":
        return "(Slice %s)" % c_ty(t["e"])
    if k == "map":
        return "(Map %s)" % c_ty(t["e"])
    return "(Struct %s)" % clist(["(mkfield %s %s %s %s)" % (cstr(f["key"]), c_opts(f["o"]), cbool(f["anon"]), c_ty(f["t"])) for f in t["f"]])


def finfo(tok):
    try:
        x = float(tok)
    except ValueError:
        return "(mkfi false false false)"
    fits64 = math.isfinite(x)
    fits32 = fits64 and abs(x) <= MAXF32
    canon = tok in CANON_FLOATS or (num_is_int(tok) and tok != "-0" and abs(int(tok)) < (1 << 24))
    return "(mkfi %s %s %s)" % (cbool(fits64), cbool(fits32), cbool(canon))


def c_jv(d, depth=0):
    k = d[0]
    if k == "n":
        return "JNull"
    if k == "b":
        return "(JBool %s)" % cbool(d[1])
    if k == "num":
        return "(JNum %s %s)" % (cstr(d[1]), finfo(d[1]))
    if k == "s":
        return "(JStr %s %s)" % (cstr(d[1]), copt(None if depth > 2 else json_payload(d[1], depth)))
    if k == "a":
        return "(JArr %s)" % clist([c_jv(x, depth) for x in d[1]])
    return "(JObj %s)" % clist([cpair(cstr(kv[0]), c_jv(kv[1], depth)) for kv in d[1]])


class _Tok(str):
    pass


def _abstract(x):
    if x is None:
        return ["n"]
    if isinstance(x, bool):
        return ["b", x]
    if isinstance(x, _Tok):
        return ["num", str(x)]
    if isinstance(x, str):
        return ["s", x]
    if isinstance(x, list) and x and x[0] == "\0obj":
        return ["o", [[k, _abstract(v)] for k, v in x[1]]]
    if isinstance(x, list):
        return ["a", [_abstract(v) for v in x]]
    raise ValueError(x)


def json_payload(text, depth=0):
    """oracle for encoding/json: the value a string denotes when it is a JSON text (tokens kept), else None"""
    try:
        v = json.loads(text, parse_int=_Tok, parse_float=_Tok, parse_constant=lambda c: (_ for _ in ()).throw(ValueError(c)),
                       object_pairs_hook=lambda kvs: ["\0obj", kvs])
    except ValueError:
        return None
    return c_jv(_abstract(v), depth + 1)


def c_yv(d):
    k = d[0]
    if k == "n":
        return "YNull"
    if k == "b":
        return "(YBool %s)" % cbool(d[1])
    if k == "num":
        if num_is_int(d[1]):
            return "(YInt %s)" % cZ(int(d[1]))
        return "(YFloat %s %s)" % (cstr(d[1]), finfo(d[1]))
    if k == "s":
        return "(YStr %s %s)" % (cstr(d[1]), copt(json_payload(d[1])))
    if k == "a":
        return "(YSeq %s)" % clist([c_yv(x) for x in d[1]])
    return "(YMap %s)" % clist([cpair(cstr(kv[0]), c_yv(kv[1])) for kv in d[1]])


def digest(x):
    """strings beyond 300 bytes are compared by length and SHA-1 (size-dimension cases carry up to 1 MB)"""
    return x if len(x) <= 300 else "sha1:%s:%d" % (hashlib.sha1(x.encode()).hexdigest(), len(x))


def c_val(v):
    k = v[0]
    if k == "b":
        return "(VBool %s)" % cbool(v[1])
    if k == "i":
        return "(VInt %s)" % cZ(int(v[1]))
    if k == "f":
        return "(VFloat %s true)" % cstr(v[1])
    if k == "s":
        return "(VStr %s)" % cstr(digest(v[1]))
    if k == "np":
        return "VNilPtr"
    if k == "p":
        return "(VPtr %s)" % c_val(v[1])
    if k == "ns":
        return "VNilSlice"
    if k == "sl":
        return "(VSlice %s)" % clist([c_val(x) for x in v[1]])
    if k == "nm":
        return "VNilMap"
    if k == "m":
        return "(VMap %s)" % clist([cpair(cstr(kv[0]), c_val(kv[1])) for kv in v[1]])
    if k == "st":
        return "(VStruct %s)" % clist([c_val(x) for x in v[1]])
    raise ValueError("dump: %r" % (v,))


def c_obs(o):
    if o["r"] == "ok":
        return "(OOk %s)" % c_val(o["v"])
    if o["r"] == "err":
        return "OErr"
    return "OPanic"


def encode(case, obs):
    y = None
    if case["yaml"] and obs.get("y") is not None:
        y = cpair(c_yv(case["doc"]), c_obs(obs["y"]))
    c = None
    if case["conf"] and obs.get("c") is not None:
        cy = c_obs(obs["cy"]) if case.get("cyaml") and obs.get("cy") is not None else None
        c = cpair(c_jv(case["cdoc"]), c_obs(obs["c"]), copt(cy))
    keys = clist([cpair(cstr(k), cstr(v)) for k, v in zip(case["keys"], obs["camel"])])
    rt = None
    if case.get("rt"):
        r = obs["rt"]
        parsed = r["rt"] if r.get("build", {}).get("r") == "ok" and "rt" in r else {"r": "err"}
        rt = cpair(c_val(case["value"]), c_val(r["orig"]), c_obs(parsed))
    st = c_obs(obs["s"]) if case.get("strmode") and obs.get("s") is not None else None
    fl = []
    if case.get("float") and obs.get("f"):
        for bits in ("32", "64"):
            r = obs["f"][bits]
            if any(isinstance(r[x], str) and r[x].startswith("panic") for x in "jyo"):
                fl.append("(None, Some 0%N, Some 1%N)")          # a panic is never acceptable
            else:
                fl.append(cpair(*[copt(None if r[x] is None else "%s%%N" % r[x]) for x in "jyo"]))
    ma = None
    if case.get("marshal") and obs.get("m") is not None:
        m = obs["m"]
        mfs = []
        for f in case["marshal"]["shape"]["f"]:
            tg = f["tag"].split(":")[0] if f["tag"] else None
            mfs.append(cpair(copt(None if tg is None else cstr(tg)),
                             "(mkfield %s %s %s %s)" % (cstr(f["key"]), c_opts(f["o"]), cbool(f["anon"]), c_ty(f["t"]))))
        if m["r"] == "ok":
            mo = "(MRows %s)" % clist([cpair(cstr(r[0]), cstr(r[1]), c_val(r[2])) for r in m["rows"]])
        else:
            mo = "MErr" if m["r"] == "err" else "MPanic"
        ma = cpair(clist(mfs), clist([c_val(v) for v in case["marshal"]["value"][1]]), mo)
    prs = [(row[1], row[2]) for row in (obs.get("rd") or [])]
    prs += [(ref, got) for _, ref, got in hist_pairs(case, obs)]
    if case.get("jsonbody") and obs.get("d") is not None:
        prs.append((obs["j"], obs["d"]))
    if case.get("conc") and obs.get("conc"):
        cc = obs["conc"]
        prs.append(({"r": "ok", "v": case["conc"]["a"]}, {"r": "ok", "v": cc["orig_a"]}))
        prs.append(({"r": "ok", "v": cc["orig_a"]}, cc["a"]))
        prs.append(({"r": "ok", "v": cc["orig_b"]}, cc["b"]))
    rd = clist([cpair(c_obs(a), c_obs(b)) for a, b in prs])
    di = None
    if case.get("direct") and obs.get("d") is not None:
        d = case["direct"]
        if d["kind"] == "header":
            prs = clist([cpair(cstr(p["k"]), copt(None if p["v"] is None else clist([c_jv(["s", v]) for v in p["v"]]))) for p in d["pairs"]])
            di = cpair("(DHeader %s %s)" % (c_ty(case["direct_shape"]), prs), c_obs(obs["d"]))
        else:
            prs = clist([cpair(cstr(p["k"]), clist([c_jv(["s", v]) for v in p["v"]])) for p in d["pairs"]])
            di = cpair("(DForm %s %s)" % (c_ty(case["direct_shape"]), prs), c_obs(obs["d"]))
    en = None
    if case.get("env") and obs.get("e") is not None:
        f = case["env_shape"]["f"][0]
        en = cpair(c_ty(f["t"]), c_opts(f["o"]), cstr(case["env"]["value"]), c_obs(obs["e"]))
    if case["label"][0] == "big":
        # the size dimension is about transport, not about the model: only the "must agree" pairs are kept
        if obs.get("y") is not None:
            prs.append((obs["j"], obs["y"]))
        rd = clist([cpair(c_obs(a), c_obs(b)) for a, b in prs])
        return "(mkcase (Struct []) (JObj []) (OOk (VStruct [])) None None [] false None None [] None %s None None)" % rd
    return "(mkcase %s %s %s %s %s %s %s %s %s %s %s %s %s %s)" % (
        c_ty(case["shape"]), c_jv(case["doc"]), c_obs(obs["j"]), copt(y), copt(c), keys,
        cbool("outside" in case["label"]), copt(rt), copt(st), clist(fl), copt(ma), rd, copt(di), copt(en))


# ----------------------------------------------------------------------------- evidence helpers
def nontrivial(case, obs):
    if case.get("rt") or case.get("float") or case.get("marshal") or case.get("direct") or case.get("env") or case.get("conc") \
            or case["label"][0] == "defaults":
        return True
    return "directed" not in case["label"] and "outside" not in case["label"] and len(case["doc"][1]) > 0


def bucket(case, obs):
    if case.get("float"):
        f = obs["f"]
        return ["stream:float"] + ["float%s:%s" % (b, "ok" if f[b]["j"] is not None else "rejected") for b in ("32", "64")]
    if case.get("marshal"):
        return ["stream:marshal", "marshal:" + obs["m"]["r"]]
    if case.get("env"):
        return ["stream:env", "env:" + obs["e"]["r"]]
    if case.get("conc"):
        return ["stream:concurrent", "conc-a:" + obs["conc"]["a"]["r"], "conc-b:" + obs["conc"]["b"]["r"]]
    if case["label"][0] == "defaults":
        return ["stream:defaults"] + ["defaults-route:" + st["op"] for st in case["hist"][0]]
    if case["label"][0] == "big":
        return ["stream:big", "big:" + case["label"][1], "big-json:" + obs["j"]["r"]]
    if case.get("direct"):
        d = case["direct"]
        out = ["stream:direct", "direct:" + d["kind"], "direct-" + d["kind"] + ":" + obs["d"]["r"]]
        if any(p["v"] is None for p in d["pairs"]):
            out.append("direct:nil-value-list")
        if any(p["v"] == [] for p in d["pairs"]):
            out.append("direct:empty-value-list")
        if any(p["v"] and len(p["v"]) > 1 for p in d["pairs"]):
            out.append("direct:several-values")
        if any(p["v"] and p["v"][0] != p["v"][0].strip() for p in d["pairs"]):
            out.append("direct:padded-or-blank-value")
        return out
    if case["label"][0] == "numstr":
        return ["stream:numstr", "numstr-path:" + case["label"][1], "numstr:" + (obs["s"] if case.get("strmode") else obs["j"])["r"]]
    if case.get("rt"):
        r = obs["rt"]
        zeros = sum(1 for v in case["value"][1] if v in (["i", "0"], ["s", ""], ["b", False], ["sl", []]))
        dfl = sum(1 for f in case["rt_shape"]["f"] if f["o"].get("default") is not None)
        if zeros:
            return ["stream:roundtrip", "rt-zero-members", "rt-build:" + r.get("build", {}).get("r", "?"), "rt-parse:" + r.get("rt", {}).get("r", "none")] + (["rt-default-members"] if dfl else [])
        out = ["stream:roundtrip", "rt-chain:" + (case.get("chain") or "none"), "rt-method:%s%s" % (case["method"], "+json" if any(f["tag"].startswith("json") for f in case["rt_shape"]["f"]) else ""), "rt-build:" + r.get("build", {}).get("r", "?"), "rt-parse:" + r.get("rt", {}).get("r", "none")]
        for f in case["rt_shape"]["f"]:
            out.append("rt-part:" + f["tag"].split(":")[0])
        return out
    out = ["stream:" + case["label"][0], "json:" + obs["j"]["r"]]
    if obs.get("y") is not None and case["yaml"]:
        out.append("yaml:" + obs["y"]["r"])
    if obs.get("c") is not None and case["conf"]:
        out.append("conf:" + obs["c"]["r"])
    if obs.get("cy") is not None and case.get("cyaml"):
        out.append("conf-yaml:" + obs["cy"]["r"])
    if '"[' in case["json"] or '"null"' in case["json"]:
        out.append("doc:from-string-array")
    if "optional=" in json.dumps(case["shape"]):
        out.append("tag:optional=dep")
    if len(case["label"]) > 1:
        out.append("directed:" + case["label"][1])
    if case.get("readers"):
        out.append("readers:empty/blank/drained/onebyte")
    if case.get("jsonbody"):
        out.append("jsonbody:" + case["jsonbody"])
    for op, _, got in hist_pairs(case, obs):
        out.append("hist-step:" + op)
    kinds = set()

    def walk(t):
        kinds.add(t["k"])
        if t["k"] in ("ptr", "slice", "map"):
            walk(t["e"])
        if t["k"] == "struct":
            for f in t["f"]:
                if f["anon"]:
                    kinds.add("anon")
                walk(f["t"])
    walk(case["shape"])
    out.extend("kind:" + k for k in sorted(kinds))
    return out


def explain(case, obs):
    if case.get("float"):
        return ("float token %s: the JSON route, the YAML route and strconv.ParseFloat(token, bitsize) do not give the same "
                "bit pattern (Spec.json_yaml_float_agree): %s" % (case["float"], json.dumps(obs["f"])))
    if case.get("marshal"):
        return "mapping.Marshal panicked on %s" % json.dumps(case["marshal"]["value"])
    if case.get("conc") and obs.get("conc"):
        cc = obs["conc"]
        return ("two overlapping requests to %s %s: A (held in its handler while B was routed) sent %s and parsed %s; B sent %s and "
                "parsed %s" % (case["method"], case["pattern"], json.dumps(cc["orig_a"])[:200], json.dumps(cc["a"])[:200],
                               json.dumps(cc["orig_b"])[:200], json.dumps(cc["b"])[:200]))
    if case["label"][0] == "defaults":
        for what, ref, got in hist_pairs(case, obs):
            if ref.get("r") != got.get("r") or ref.get("v") != got.get("v"):
                return ("defaults are not fresh per result: history %s, step '%s' gives %s, expected %s"
                        % ([st["op"] for st in case["hist"][0]], what, json.dumps(got)[:300], json.dumps(ref)[:300]))
    if case.get("env"):
        return ("env= member %s with %s=%r: the outcome %s is not the environment value exactly / not one of options= / outside range="
                % (case["env_shape"]["f"][0]["tag"], case["env"]["name"], case["env"]["value"], json.dumps(obs["e"])[:300]))
    if case["label"][0] == "big":
        def brief(o):
            return json.dumps(o)[:160]
        return ("a JSON document of %s bytes: the bytes entry point, the reader entry points, the YAML equivalent and httpx.Parse of "
                "the body do not all give the same outcome: bytes %s; readers %s; yaml %s; body %s"
                % (case["label"][1], brief(obs["j"]), [brief(r[2]) for r in obs.get("rd") or []][:3], brief(obs.get("y")), brief(obs.get("d"))))
    if case.get("direct"):
        return ("httpx.Parse on a constructed %s request %s: a form value did not arrive unchanged / did not count as present, "
                "or a header map with an empty / nil / multiple value list was not handled (error or slice): %s"
                % (case["direct"]["kind"], json.dumps(case["direct"]["pairs"]), json.dumps(obs["d"])[:400]))
    for op, ref, got in hist_pairs(case, obs):
        if ref.get("r") != got.get("r") or ref.get("v") != got.get("v"):
            return ("state leak between calls: '%s' inside the history %s gives %s, the same call alone gives %s (document %s)"
                    % (op, json.dumps([[st["op"] for st in h] for h in case["hist"]]), json.dumps(got)[:200], json.dumps(ref)[:200], case["json"]))
    if case.get("jsonbody") and obs.get("d") is not None and (obs["d"].get("r") != obs["j"].get("r") or obs["d"].get("v") != obs["j"].get("v")):
        return ("httpx.Parse of a %s request with JSON body %s gives %s; mapping.UnmarshalJsonBytes of that body gives %s"
                % (case["jsonbody"], case["json"], json.dumps(obs["d"])[:200], json.dumps(obs["j"])[:200]))
    for row in obs.get("rd") or []:
        if row[1].get("r") != row[2].get("r") or row[1].get("v") != row[2].get("v"):
            return ("reader entry point differs from the bytes entry point on '%s' (document %s): bytes %s, reader %s"
                    % (row[0], case["json"], json.dumps(row[1])[:200], json.dumps(row[2])[:200]))
    if case.get("rt"):
        return ("round trip: the request struct %s sent with httpc.buildRequest/DoRequest to %s %s was not parsed back by "
                "httpx.Parse into an equal struct: %s" % (json.dumps(case["value"]), case["method"], case["pattern"],
                                                          json.dumps(obs["rt"])[:600]))
    for name, o in (("UnmarshalJsonBytes", obs["j"]), ("UnmarshalYamlBytes", obs.get("y")), ("conf.LoadFromJsonBytes", obs.get("c"))):
        if o is not None and o["r"] == "panic":
            return "%s panicked (%s) on %s: the property says it never panics (c05_never_panics)" % (name, o.get("msg", ""), case["json"])
    return ("observed struct contradicts C05.Exec.spec_ok: a field differs from the document's value (wrapped/truncated number, "
            "c05_exact), a default/optional/required/options=/range= clause is not respected, or the JSON, YAML and "
            "config-loader results differ; document " + case["json"])
