(* C11 Link: what is regenerated from lib/store/sqlx/{tx,conn,orm}.go on every run is what the model
   transcribes. The call skeleton of transactOnConn fixes the order begin -> defer{recover: Rollback |
   err: Rollback | Commit} -> fn; removing or reordering a Commit/Rollback call breaks these lemmas. *)
From God Require Import Base.Prelude C11.Model C11.Spec C11.Proofs C11.Exec C11.GenEnv.
From GodGen Require C11_Gen.
From Coq Require Import Strings.String QArith.
Local Open Scope string_scope.

(* tx.go:145-169. "b" = begin; first "return" = the early return on a begin error; inside the deferred
   function: recover, Rollback (+2 Errorf) in the panic branch, Rollback (+1 Errorf) in the error
   branch, Commit in the last branch; then fn and the final return.
   Model.transact_on_conn has exactly these three terminal branches in this order. *)
Lemma link_tx_skeleton :
  C11_Gen.tx_skeleton =
  ["b"; "return"; "defer:func"; "{"; "recover"; "tx.Rollback"; "fmt.Errorf"; "fmt.Errorf";
   "tx.Rollback"; "fmt.Errorf"; "tx.Commit"; "}"; "fn"; "return"].
Proof. reflexivity. Qed.

(* every branch of the deferred function ends in exactly one terminal call: 2 Rollback sites + 1 Commit site *)
Lemma link_tx_terminal_sites :
  List.length (filter (String.eqb "tx.Rollback") C11_Gen.tx_skeleton) = 2%nat /\
  List.length (filter (String.eqb "tx.Commit") C11_Gen.tx_skeleton) = 1%nat.
Proof. split; reflexivity. Qed.

(* tx.go:135-143: provider, (onError, return) on failure, otherwise transactOnConn *)
Lemma link_transact_skeleton :
  C11_Gen.transact_skeleton = ["db.provider"; "db.onError"; "return"; "transactOnConn"; "return"].
Proof. reflexivity. Qed.

(* conn.go:263-277: transact runs inside db.brk.DoWithAcceptable (Model.transact_ctx) *)
Lemma link_transactctx_skeleton :
  C11_Gen.transactctx_skeleton =
  ["startSpan"; "defer:func"; "{"; "endSpan"; "}"; "transact"; "return"; "db.brk.DoWithAcceptable";
   "metricReqErr.Inc"; "return"].
Proof. reflexivity. Qed.

(* conn.go:279-286: without a user accept function exactly nil, sql.ErrNoRows, sql.ErrTxDone and
   context.Canceled are acceptable to the breaker; with one, its verdict is or-ed in *)
Lemma link_acceptable_default : forall e, C11_Gen.acceptable go_nil e = acceptable_default e.
Proof.
  intro e. unfold C11_Gen.acceptable, acceptable_default, go_eqb, go_nil, sql_ErrNoRows, sql_ErrTxDone, context_Canceled.
  rewrite Z.eqb_refl. reflexivity.
Qed.

Lemma link_acceptable_custom : forall f e, f <> go_nil ->
  C11_Gen.acceptable f e = (acceptable_default e || ext_accept e)%bool.
Proof.
  intros f e Hf. unfold C11_Gen.acceptable, acceptable_default, go_eqb, go_nil, sql_ErrNoRows, sql_ErrTxDone, context_Canceled in *.
  destruct (Z.eqb_spec f 0); [contradiction|reflexivity].
Qed.

Lemma link_acceptable_set : forall e,
  C11_Gen.acceptable go_nil e = true <-> (e = go_nil \/ e = sql_ErrNoRows \/ e = sql_ErrTxDone \/ e = context_Canceled).
Proof.
  intro e. rewrite link_acceptable_default. unfold acceptable_default, go_nil, sql_ErrNoRows, sql_ErrTxDone, context_Canceled. lia.
Qed.

(* orm.go:10 *)
Lemma link_tag_name : C11_Gen.tagName = "db".
Proof. reflexivity. Qed.

(* ---- sqlc.CachedConn (cachedsql.go:215-227): TransactCtx only delegates to the sqlx conn's TransactCtx -
   no loop, no second call, no error inspection (Model.cached_transact_ctx); Transact wraps fn and
   delegates to TransactCtx, like commonConn.Transact. A retry wrapper breaks these lemmas. ---- *)
Lemma link_cached_transact :
  C11_Gen.cached_transactctx_skeleton = ["cc.db.TransactCtx"; "return"] /\
  C11_Gen.cached_transact_skeleton = ["fn"; "return"; "context.Background"; "cc.TransactCtx"; "return"] /\
  C11_Gen.conn_transact_skeleton = ["context.Background"; "fn"; "return"; "db.TransactCtx"; "return"].
Proof. repeat split; reflexivity. Qed.

(* ---- where the ctx of TransactCtx goes (Model.transact_ctx_with): handed down unchanged to fn and to
   nothing else - begin() is db.Begin() without arguments (no BeginTx(ctx, ...)), and TransactCtx's skeleton
   (link_transactctx_skeleton) has no ctx.Err / ctx.Done test before or after the transaction ---- *)
Lemma link_ctx_flow :
  C11_Gen.begin_skeleton = ["db.Begin"; "return"; "return"] /\
  C11_Gen.begin_args = [] /\
  C11_Gen.transact_args = ["ctx"; "db"; "db.beginTx"; "fn"] /\
  C11_Gen.transactonconn_args = ["ctx"; "conn"; "b"; "fn"] /\
  C11_Gen.fn_args = ["ctx"; "tx"] /\
  C11_Gen.cached_args = ["ctx"; "fn"].
Proof. repeat split; reflexivity. Qed.

(* ---- stmt.go plumbing (Model.stmt_result): guard := newGuard; start (early return only on a format
   error); the driver call; guard.finish(ctx, err) - a statement, not a value; return. The nil guard's
   finish is empty, its start returns nil; newGuard tests the two log switches. ---- *)
Definition guarded (drv_call : string) : list string :=
  ["newGuard"; "guard.start"; "return"; drv_call; "guard.finish"; "return"].
Lemma link_stmt_plumbing :
  C11_Gen.stmt_exec_skeleton = guarded "conn.ExecContext" /\
  C11_Gen.stmt_execstmt_skeleton = guarded "conn.ExecContext" /\
  C11_Gen.stmt_query_skeleton = (guarded "conn.QueryContext" ++ ["defer:rows.Close"; "scanner"; "return"])%list /\
  C11_Gen.stmt_querystmt_skeleton = (guarded "conn.QueryContext" ++ ["defer:rows.Close"; "scanner"; "return"])%list /\
  C11_Gen.nilguard_finish_skeleton = [] /\
  C11_Gen.nilguard_start_skeleton = ["return"] /\
  C11_Gen.newguard_skeleton = ["logSQL.True"; "logSlowSQL.True"; "return"; "return"] /\
  C11_Gen.tx_execctx_skeleton = ["startSpan"; "defer:func"; "{"; "endSpan"; "}"; "exec"; "return"].
Proof. repeat split; reflexivity. Qed.

(* ---- the query entry points: which `strict` literal each XxxCtx method hands to unmarshalRow(s)
   (arguments of that call, regenerated), and which Ctx form each plain form delegates to.
   A flipped flag, a swapped unmarshalRow/unmarshalRows or a wrong delegation breaks these lemmas. ---- *)
Definition flag_str (b : bool) : string := if b then "true" else "false".
Definition flag_args (r : recv) (m : meth) : list string := ["v"; "rows"; flag_str (strict_flag r m)].

Lemma link_strict_flags_conn :
  C11_Gen.flag_conn_QueryRow = flag_args RConn MQueryRow /\
  C11_Gen.flag_conn_QueryRowPartial = flag_args RConn MQueryRowPartial /\
  C11_Gen.flag_conn_QueryRows = flag_args RConn MQueryRows /\
  C11_Gen.flag_conn_QueryRowsPartial = flag_args RConn MQueryRowsPartial.
Proof. repeat split; reflexivity. Qed.

Lemma link_strict_flags_stmt :
  C11_Gen.flag_stmt_QueryRow = flag_args RStmt MQueryRow /\
  C11_Gen.flag_stmt_QueryRowPartial = flag_args RStmt MQueryRowPartial /\
  C11_Gen.flag_stmt_QueryRows = flag_args RStmt MQueryRows /\
  C11_Gen.flag_stmt_QueryRowsPartial = flag_args RStmt MQueryRowsPartial.
Proof. repeat split; reflexivity. Qed.

Lemma link_strict_flags_tx :
  C11_Gen.flag_tx_QueryRow = flag_args RTx MQueryRow /\
  C11_Gen.flag_tx_QueryRowPartial = flag_args RTx MQueryRowPartial /\
  C11_Gen.flag_tx_QueryRows = flag_args RTx MQueryRows /\
  C11_Gen.flag_tx_QueryRowsPartial = flag_args RTx MQueryRowsPartial.
Proof. repeat split; reflexivity. Qed.

(* gogen looks the flags up in the call of unmarshalRow for single-row methods and of unmarshalRows for
   multi-row methods (Model.rows_mode); the plain forms only add context.Background() *)
Definition plain_form (recv_name meth_name : string) : list string :=
  ["context.Background"; recv_name ++ "." ++ meth_name ++ "Ctx"; "return"].

Lemma link_plain_forms :
  C11_Gen.plain_conn_QueryRow = plain_form "db" "QueryRow" /\
  C11_Gen.plain_conn_QueryRowPartial = plain_form "db" "QueryRowPartial" /\
  C11_Gen.plain_conn_QueryRows = plain_form "db" "QueryRows" /\
  C11_Gen.plain_conn_QueryRowsPartial = plain_form "db" "QueryRowsPartial" /\
  C11_Gen.plain_stmt_QueryRow = plain_form "s" "QueryRow" /\
  C11_Gen.plain_stmt_QueryRowPartial = plain_form "s" "QueryRowPartial" /\
  C11_Gen.plain_stmt_QueryRows = plain_form "s" "QueryRows" /\
  C11_Gen.plain_stmt_QueryRowsPartial = plain_form "s" "QueryRowsPartial" /\
  C11_Gen.plain_tx_QueryRow = plain_form "t" "QueryRow" /\
  C11_Gen.plain_tx_QueryRowPartial = plain_form "t" "QueryRowPartial" /\
  C11_Gen.plain_tx_QueryRows = plain_form "t" "QueryRows" /\
  C11_Gen.plain_tx_QueryRowsPartial = plain_form "t" "QueryRowsPartial".
Proof. repeat split; reflexivity. Qed.

(* ---- orm.go keeps no state between calls (Model.fill_sequence): the column -> field mapping is recomputed
   from the destination's own reflect.Value on every call. The call skeletons contain reflection and
   mapping.Deref only - no cache lookup / store, no lock; a memo keyed by the type's name adds calls. ---- *)
Lemma link_orm_stateless :
  C11_Gen.taggedmap_skeleton =
    ["v.Type"; "mapping.Deref"; "rt.NumField"; "make"; "rt.Field"; "parseTagName"; "len"; "return";
     "reflect.Indirect(v).Field"; "valueField.Kind"; "valueField.CanInterface"; "return"; "valueField.IsNil";
     "valueField.Type"; "mapping.Deref"; "reflect.New"; "valueField.Set"; "valueField.Interface";
     "valueField.CanAddr"; "valueField.Addr().CanInterface"; "return"; "valueField.Addr().Interface"; "return"] /\
  C11_Gen.unwrapfields_skeleton =
    ["reflect.Indirect"; "indirect.NumField"; "indirect.Field"; "child.Kind"; "child.IsNil"; "child.Type";
     "mapping.Deref"; "reflect.New"; "child.Set"; "reflect.Indirect"; "indirect.Type().Field"; "child.Kind";
     "unwrapFields"; "append"; "append"; "return"] /\
  List.length C11_Gen.mapstruct_skeleton = 24%nat /\
  hd "" C11_Gen.mapstruct_skeleton = "unwrapFields" /\
  nth 4 C11_Gen.mapstruct_skeleton "" = "getTaggedFieldValueMap".
Proof. repeat split; reflexivity. Qed.

(* ---- the breaker around conn queries (Model part 4): the constants of the drop-ratio formula, doReq's
   accept / mark structure, and queryRows' acceptable closure (scanErr == err || db.acceptable(err)) ---- *)
Lemma link_breaker :
  C11_Gen.brk_k = (3 # 2)%Q /\ C11_Gen.brk_protection = 5%Z /\
  C11_Gen.doreq_skeleton =
    ["b.accept"; "fallback"; "return"; "return"; "defer:func"; "{"; "b.markFailure"; "}"; "req"; "acceptable";
     "b.markSuccess"; "b.markFailure"; "return"] /\
  C11_Gen.queryrows_skeleton =
    ["db.provider"; "db.onError"; "return"; "scanner"; "return"; "query"; "return"; "db.acceptable"; "return";
     "db.brk.DoWithAcceptable"; "metricReqErr.Inc"; "return"].
Proof. repeat split; reflexivity. Qed.

(* brk_may_reject is the sign of the drop ratio with those constants: (total - protection) - k * accepts > 0 *)
Lemma link_drop_ratio s :
  brk_may_reject s = true <->
  (0 < (inject_Z (Z.of_nat (bk_total s)) - inject_Z C11_Gen.brk_protection) - C11_Gen.brk_k * inject_Z (Z.of_nat (bk_accepts s)))%Q.
Proof.
  unfold brk_may_reject, C11_Gen.brk_k, C11_Gen.brk_protection. rewrite Z.ltb_lt.
  generalize (Z.of_nat (bk_total s)) (Z.of_nat (bk_accepts s)). intros t a.
  unfold Qlt, Qminus, Qplus, Qmult, Qopp, inject_Z. cbn -[Z.mul Z.add Z.sub Z.opp]. lia.
Qed.

(* ---- soundness of the executable checkers used by Exec.v ---- *)
Lemma fkind_eqb_eq : forall a b, fkind_eqb a b = true <-> a = b.
Proof. destruct a, b; simpl; split; intro H; try discriminate; reflexivity. Qed.

Lemma err_eqb_eq : forall a b, err_eqb a b = true <-> a = b.
Proof.
  induction a; destruct b; simpl; split; intro H; try discriminate; try reflexivity;
    try (apply fkind_eqb_eq in H; congruence); try (inversion H; subst; apply fkind_eqb_eq; reflexivity);
    try (apply Nat.eqb_eq in H; congruence); try (inversion H; subst; apply Nat.eqb_refl).
  - apply andb_true_iff in H as [H1 H2]. apply IHa1 in H1. apply IHa2 in H2. congruence.
  - inversion H; subst. apply andb_true_iff. split; [apply IHa1|apply IHa2]; reflexivity.
  - apply andb_true_iff in H as [H1 H2]. apply Nat.eqb_eq in H1. apply IHa in H2. congruence.
  - inversion H; subst. apply andb_true_iff. split; [apply Nat.eqb_refl|apply IHa; reflexivity].
Qed.

Lemma call_eqb_eq : forall a b, call_eqb a b = true <-> a = b.
Proof.
  destruct a, b; simpl; split; intro H; try discriminate; try (inversion H; subst);
    rewrite ?andb_true_iff, ?Nat.eqb_eq, ?Bool.eqb_true_iff in *; try tauto; try (f_equal; tauto);
    try (destruct ok; reflexivity); try (split; [reflexivity|destruct ok; reflexivity]).
  all: try (destruct H; subst; reflexivity).
Qed.

Lemma nodup_s_sound : forall l, nodup_s l = true -> NoDup l.
Proof.
  induction l as [|a l IH]; simpl; intro H; constructor.
  - apply andb_true_iff in H as [H _]. intro Hin. apply negb_true_iff in H.
    assert (existsb (String.eqb a) l = true) by (apply existsb_exists; exists a; split; [exact Hin|apply String.eqb_refl]).
    congruence.
  - apply andb_true_iff in H as [_ H]. apply IH. exact H.
Qed.

(* an observation the model reproduces satisfies the property checker (transactions): a model/observation
   agreement on every case therefore transfers c11_tx_refines_spec to the observed behaviour - through
   either wrapper and under every switch setting *)
Lemma option_err_eqb_eq (a b : option err) : option_eqb err_eqb a b = true -> a = b.
Proof. destruct a, b; simpl; intro H; try discriminate; [apply err_eqb_eq in H; congruence|reflexivity]. Qed.

Lemma model_ok_tx_implies_spec_ok cached sw cx bound f b r cs runs seen :
  model_ok (CTx cached sw cx bound f b r cs None runs seen) = true ->
  spec_ok (CTx cached sw cx bound f b r cs None runs seen) = true.
Proof.
  unfold model_ok, spec_ok, model_ok1, spec_ok1.
  assert (Hw : (if cached then cached_transact_ctx_with sw true cx bound f b else transact_ctx_with sw true cx bound f b)
               = transact sw f (body_under_ctx cx bound b)) by (destruct cached; reflexivity).
  assert (Hr : (if cached then cached_transact_ctx_runs true f else transact_ctx_runs true f) = transact_runs f)
    by (destruct cached; reflexivity).
  rewrite Hw, Hr. pose proof (tx_refines sw f (body_under_ctx cx bound b)) as HR.
  destruct (transact sw f (body_under_ctx cx bound b)) as [r0 cs0]. simpl in HR. intro H.
  apply andb_true_iff in H as [H Hseen]. apply andb_true_iff in H as [H Hruns].
  apply andb_true_iff in H as [H _]. apply andb_true_iff in H as [H1 H2].
  apply option_err_eqb_eq in H1. apply (list_eqb_eq call_eqb call_eqb_eq) in H2. apply Nat.eqb_eq in Hruns.
  subst. rewrite HR. exact Hseen.
Qed.

(* a query observed inside Transact that the model reproduces satisfies the transaction clause of spec_ok *)
Lemma model_ok_orm_tx_implies_tx_clause via m sh cols rows st ds r cs runs :
  model_ok (COrm via m sh cols rows st ds (Some (r, cs, false, runs))) = true ->
  tx_allowed no_faults (body_of_query st) r cs None runs = true.
Proof.
  unfold model_ok, model_ok1. destruct (run_query (rows_mode m) (strict_flag (recv_of via) m) sh cols rows) as [ds0 st0].
  intro H. apply andb_true_iff in H as [H Ht]. apply andb_true_iff in H as [Hs _].
  assert (Hb : body_of_query st0 = body_of_query st).
  { destruct st0 as [[]|n|], st as [[]|n'|]; simpl in Hs; try discriminate; try reflexivity.
    apply Nat.eqb_eq in Hs. subst. reflexivity. }
  destruct (in_tx via); [|discriminate]. unfold transact_ctx in Ht. rewrite Hb in Ht.
  pose proof (tx_refines default_switches no_faults (body_of_query st)) as HR.
  destruct (transact default_switches no_faults (body_of_query st)) as [r0 cs0]. simpl in HR.
  apply andb_true_iff in Ht as [Ht Hruns]. apply andb_true_iff in Ht as [Ht _]. apply andb_true_iff in Ht as [H1 H2].
  apply option_err_eqb_eq in H1. apply (list_eqb_eq call_eqb call_eqb_eq) in H2. apply Nat.eqb_eq in Hruns.
  subst. exact HR.
Qed.
