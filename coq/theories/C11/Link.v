(* C11 Link: what is regenerated from lib/store/sqlx/{tx,conn,orm}.go on every run is what the model
   transcribes. The call skeleton of transactOnConn fixes the order begin -> defer{recover: Rollback |
   err: Rollback | Commit} -> fn; removing or reordering a Commit/Rollback call breaks these lemmas. *)
From God Require Import Base.Prelude C11.Model C11.Spec C11.Proofs C11.Exec C11.GenEnv.
From GodGen Require C11_Gen.
From Coq Require Import Strings.String.
Local Open Scope string_scope.

(* tx.go:145-169. "b" = begin; first "return" = the early return on a begin error; inside the deferred
   function: recover, Rollback (+2 Errorf) in the panic branch, Rollback (+1 Errorf) in the error
   branch, Commit in the last branch; then fn and the final return.
   Model.transact_on_conn has exactly these three terminal branches in this order. *)
Lemma link_tx_skeleton :
  C11_Gen.tx_skeleton =
  ["b"; "return"; "defer:func"; "{"; "recover"; "tx.Rollback"; "fmt.Errorf"; "fmt.Errorf";
   "tx.Rollback"; "fmt.Errorf"; "tx.Commit"; "}"; "fn"; "return"].
Proof. reflexivity. Qed.

(* every branch of the deferred function ends in exactly one terminal call: 2 Rollback sites + 1 Commit site *)
Lemma link_tx_terminal_sites :
  List.length (filter (String.eqb "tx.Rollback") C11_Gen.tx_skeleton) = 2%nat /\
  List.length (filter (String.eqb "tx.Commit") C11_Gen.tx_skeleton) = 1%nat.
Proof. split; reflexivity. Qed.

(* tx.go:135-143: provider, (onError, return) on failure, otherwise transactOnConn *)
Lemma link_transact_skeleton :
  C11_Gen.transact_skeleton = ["db.provider"; "db.onError"; "return"; "transactOnConn"; "return"].
Proof. reflexivity. Qed.

(* conn.go:263-277: transact runs inside db.brk.DoWithAcceptable (Model.transact_ctx) *)
Lemma link_transactctx_skeleton :
  C11_Gen.transactctx_skeleton =
  ["startSpan"; "defer:func"; "{"; "endSpan"; "}"; "transact"; "return"; "db.brk.DoWithAcceptable";
   "metricReqErr.Inc"; "return"].
Proof. reflexivity. Qed.

(* conn.go:279-286: without a user accept function exactly nil, sql.ErrNoRows, sql.ErrTxDone and
   context.Canceled are acceptable to the breaker; with one, its verdict is or-ed in *)
Lemma link_acceptable_default : forall e, C11_Gen.acceptable go_nil e = acceptable_default e.
Proof.
  intro e. unfold C11_Gen.acceptable, acceptable_default, go_eqb, go_nil, sql_ErrNoRows, sql_ErrTxDone, context_Canceled.
  rewrite Z.eqb_refl. reflexivity.
Qed.

Lemma link_acceptable_custom : forall f e, f <> go_nil ->
  C11_Gen.acceptable f e = (acceptable_default e || ext_accept e)%bool.
Proof.
  intros f e Hf. unfold C11_Gen.acceptable, acceptable_default, go_eqb, go_nil, sql_ErrNoRows, sql_ErrTxDone, context_Canceled in *.
  destruct (Z.eqb_spec f 0); [contradiction|reflexivity].
Qed.

Lemma link_acceptable_set : forall e,
  C11_Gen.acceptable go_nil e = true <-> (e = go_nil \/ e = sql_ErrNoRows \/ e = sql_ErrTxDone \/ e = context_Canceled).
Proof.
  intro e. rewrite link_acceptable_default. unfold acceptable_default, go_nil, sql_ErrNoRows, sql_ErrTxDone, context_Canceled. lia.
Qed.

(* orm.go:10 *)
Lemma link_tag_name : C11_Gen.tagName = "db".
Proof. reflexivity. Qed.

(* ---- soundness of the executable checkers used by Exec.v ---- *)
Lemma err_eqb_eq : forall a b, err_eqb a b = true <-> a = b.
Proof.
  induction a; destruct b; simpl; split; intro H; try discriminate; try reflexivity;
    try (apply Nat.eqb_eq in H; congruence); try (inversion H; subst; apply Nat.eqb_refl).
  - apply andb_true_iff in H as [H1 H2]. apply IHa1 in H1. apply IHa2 in H2. congruence.
  - inversion H; subst. apply andb_true_iff. split; [apply IHa1|apply IHa2]; reflexivity.
  - apply andb_true_iff in H as [H1 H2]. apply Nat.eqb_eq in H1. apply IHa in H2. congruence.
  - inversion H; subst. apply andb_true_iff. split; [apply Nat.eqb_refl|apply IHa; reflexivity].
Qed.

Lemma call_eqb_eq : forall a b, call_eqb a b = true <-> a = b.
Proof.
  destruct a, b; simpl; split; intro H; try discriminate; try (inversion H; subst);
    rewrite ?andb_true_iff, ?Nat.eqb_eq, ?Bool.eqb_true_iff in *; try tauto; try (f_equal; tauto);
    try (destruct ok; reflexivity); try (split; [reflexivity|destruct ok; reflexivity]).
  all: try (destruct H; subst; reflexivity).
Qed.

Lemma nodup_s_sound : forall l, nodup_s l = true -> NoDup l.
Proof.
  induction l as [|a l IH]; simpl; intro H; constructor.
  - apply andb_true_iff in H as [H _]. intro Hin. apply negb_true_iff in H.
    assert (existsb (String.eqb a) l = true) by (apply existsb_exists; exists a; split; [exact Hin|apply String.eqb_refl]).
    congruence.
  - apply andb_true_iff in H as [_ H]. apply IH. exact H.
Qed.

(* an observation the model reproduces satisfies the property checker (transactions): a model/observation
   agreement on every case therefore transfers c11_tx_refines_spec to the observed behaviour *)
Lemma model_ok_tx_implies_spec_ok f b r cs : model_ok (CTx f b r cs None) = true -> spec_ok (CTx f b r cs None) = true.
Proof.
  unfold model_ok, spec_ok, transact_ctx. pose proof (tx_refines f b) as HR.
  destruct (transact f b) as [r0 cs0]. simpl in HR. intro H.
  apply andb_true_iff in H as [H _]. apply andb_true_iff in H as [H1 H2].
  assert (r0 = r).
  { destruct r0, r; simpl in H1; try discriminate; [apply err_eqb_eq in H1; congruence|reflexivity]. }
  apply (list_eqb_eq call_eqb call_eqb_eq) in H2. subst. exact HR.
Qed.
