(* C11 Exec: the checkers evaluated by vm_compute on every correspondence case
   (inputs AND what lib/store/sqlx was observed to do). *)
From God Require Export Base.Prelude C11.Model C11.Spec.
From Coq Require Import Strings.String.
Local Open Scope list_scope.

(* conn.QueryXxx | conn.Prepare -> stmt.QueryXxx | Transact(s => s.QueryXxx) | Transact(s => s.Prepare -> stmt.QueryXxx) *)
Inductive entry := VConn | VStmt | VTx | VTxStmt.
Definition recv_of (v : entry) : recv :=
  match v with VConn => RConn | VStmt | VTxStmt => RStmt | VTx => RTx end.
Definition in_tx (v : entry) : bool := match v with VTx | VTxStmt => true | _ => false end.

Inductive case :=
| CTx (cached : bool)                                (* through sqlc.CachedConn (true) or sqlx's conn (false) *)
      (sw : switches)                                (* sqlx log switches during the run *)
      (cx : ctxstate) (bound : bool)                 (* state of the ctx given to TransactCtx; body uses XxxCtx(ctx) *)
      (f : faults) (b : body)                        (* driver faults, transaction body script *)
      (o_res : option err)                           (* observed: error returned by Transact/TransactCtx *)
      (o_calls : list call)                          (* observed: calls that reached the SQL driver *)
      (o_escaped : option nat)                       (* observed: panic value that escaped, if any *)
      (o_runs : nat)                                 (* observed: how many times the body was entered *)
      (o_seen : list bool)                           (* observed: per issued statement, the body got an error *)
| COrm (via : entry) (m : meth) (sh : dshape)        (* entry point family, method, destination shape *)
       (cols : list string) (rows : list (list cell))(* the result set *)
       (o_status : result unit)                      (* observed: the query's nil / error class / panic *)
       (o_dest : list dst)                           (* observed: destination, one entry per element *)
       (o_tx : option (option err * list call * bool * nat))
| CRowErr (q : case)                                 (* q = a single-row COrm query whose result set fails on its
                                                        FIRST rows.Next() with the driver's error *)
| CPair (first second : case)
| CStream (ops : list (meth * bool))                 (* one breaker-guarded conn: queries that hit an EMPTY result,
                                                        (method, destination is a struct / an int64), in order *)
          (o_st : list (result unit))                (* observed: status of each of them *)
          (final : case).                            (* then a query for an existing row on the same conn *)                       (* two queries issued one after the other in one process
                                                        (destination types of the same NAME, different tags) *)
                                                     (* inside Transact: its result, begin/commit/rollback
                                                        log, whether a panic escaped Transact, body runs *)

Fixpoint all2 {A B} (f : A -> B -> bool) (l1 : list A) (l2 : list B) : bool :=
  match l1, l2 with
  | [], [] => true
  | a :: r1, b :: r2 => f a b && all2 f r1 r2
  | _, _ => false
  end.

Definition dst_eqb : dst -> dst -> bool := list_eqb oval_eqb.
Definition is_nil {A} (l : list A) : bool := match l with [] => true | _ => false end.

(* the zero value handed to the query method *)
Definition init_elem (e : eshape) : dst :=
  match e with
  | EPrim k => [Some (zero k)]
  | EStruct fs => init_dest (unwrap_fields fs)
  | EUnsup => []
  end.

(* model: destination dump (one entry per element) and status *)
Definition run_query (rows_mode strict : bool) (sh : dshape) (cols : list string) (rows : list (list cell))
  : list dst * result unit :=
  if rows_mode then
    match sh with
    | DSlice _ _ => unmarshal_rows sh strict cols rows []
    | DElem e => let (_, st) := unmarshal_rows sh strict cols rows [] in ([init_elem e], st)
    end
  else
    match sh with
    | DElem e => let (d, st) := unmarshal_row sh strict cols rows (init_elem e) in ([d], st)
    | DSlice _ _ => let (_, st) := unmarshal_row sh strict cols rows [] in ([], st)
    end.

(* --- model agreement: the transcription reproduces the observation exactly --- *)
Definition model_ok1 (c : case) : bool :=
  match c with
  | CTx cached sw cx bound f b o_res o_calls o_escaped o_runs o_seen =>
      let (r, cs) := if cached then cached_transact_ctx_with sw true cx bound f b
                     else transact_ctx_with sw true cx bound f b in
      option_eqb err_eqb r o_res && list_eqb call_eqb cs o_calls &&
      match o_escaped with None => true | Some _ => false end &&
      Nat.eqb o_runs (if cached then cached_transact_ctx_runs true f else transact_ctx_runs true f) &&
      seen_ok cs o_seen
  | COrm via m sh cols rows o_status o_dest o_tx =>
      let (ds, st) := run_query (rows_mode m) (strict_flag (recv_of via) m) sh cols rows in
      status_eqb st o_status &&
      match st with Panic => true | _ => list_eqb dst_eqb ds o_dest end &&
      match o_tx, in_tx via with
      | None, false => true
      | Some (r, cs, esc, runs), true =>
          let (r', cs') := transact_ctx default_switches true no_faults (body_of_query st) in
          option_eqb err_eqb r' r && list_eqb call_eqb cs' cs && negb esc &&
          Nat.eqb runs (transact_ctx_runs true no_faults)
      | _, _ => false
      end
  | CPair _ _ => false
  | CStream _ _ _ => false
  | CRowErr _ => false
  end.

(* a single-row query on a result set failing at its first Next: the driver's error, destination untouched;
   inside Transact the body returns that error: one Rollback, the error itself comes back *)
Definition rowerr_model_ok (c : case) : bool :=
  match c with
  | COrm via m sh cols rows o_status o_dest o_tx =>
      negb (rows_mode m) &&
      match sh with
      | DElem e =>
          let (d, st) := unmarshal_row_no_next (Some ERowDriver) (init_elem e) in
          status_eqb st o_status && list_eqb dst_eqb [d] o_dest &&
          match o_tx, in_tx via with
          | None, false => true
          | Some (r, cs, esc, runs), true =>
              let (r', cs') := transact_ctx default_switches true no_faults (body_of_query st) in
              option_eqb err_eqb r' r && list_eqb call_eqb cs' cs && negb esc &&
              Nat.eqb runs (transact_ctx_runs true no_faults)
          | _, _ => false
          end
      | _ => false
      end
  | _ => false
  end.

(* the two destinations of a stream: struct{A int64 `db:"a"`; B string `db:"b"`} and int64 *)
Definition stream_fs : list field := [FLeaf "a"%string false KInt; FLeaf "b"%string false KStr].
Definition stream_shape (m : meth) (is_struct : bool) : dshape :=
  let e := if is_struct then EStruct stream_fs else EPrim KInt in
  if rows_mode m then DSlice false e else DElem e.
(* the query's own outcome on an empty result set *)
Definition stream_own (op : meth * bool) : result unit :=
  snd (run_query (rows_mode (fst op)) (strict_flag RConn (fst op)) (stream_shape (fst op) (snd op)) ["a"%string; "b"%string] []).

(* the breaker's history is threaded through the run: an observed ErrServiceUnavailable is possible only
   where the drop ratio is positive; otherwise the query's own outcome must have been observed *)
Fixpoint stream_model (s : brk_state) (ops : list (meth * bool)) (obs : list (result unit)) : option brk_state :=
  match ops, obs with
  | [], [] => Some s
  | op :: ops', o :: obs' =>
      let rejected := status_eqb o (Err EUnavailableQ) in
      if (if rejected then brk_may_reject s else status_eqb o (stream_own op))
      then stream_model (snd (conn_query s (stream_own op) rejected)) ops' obs'
      else None
  | _, _ => None
  end.

(* the model keeps no state between queries: each query of a sequence is predicted on its own *)
Definition model_ok (c : case) : bool :=
  match c with
  | CRowErr q => rowerr_model_ok q
  | CPair a b => model_ok1 a && model_ok1 b
  | CStream ops o_st final =>
      match stream_model brk_fresh ops o_st with
      | Some s => negb (brk_may_reject s) && model_ok1 final
      | None => false
      end
  | _ => model_ok1 c
  end.

(* --- the property, on the observation alone --- *)
Definition fresh (lv : list (bool * kind)) : dst := map (fun pk : bool * kind => Some (zero (snd pk))) lv.

Definition prim_elem_ok (k : kind) (row : list cell) (d : dst) : bool :=
  match row with
  | [c] => let (v, ok) := conv k c None in ok && dst_eqb d [v]
  | _ => false
  end.

(* rows a query has to copy: all of them, or the first one only *)
Definition rows_used (rows_mode : bool) (rows : list (list cell)) : list (list cell) :=
  if rows_mode then rows else firstn 1 rows.

Definition elems_ok (rows_mode : bool) (rows : list (list cell)) (dest : list dst) (elem_ok : list cell -> dst -> bool) : bool :=
  if rows_mode then all2 elem_ok rows dest
  else match rows, dest with
       | row :: _, [d] => elem_ok row d
       | _, _ => false
       end.

(* strict mode, exactly as many columns as flattened fields, a nil result and no zero-valued cell:
   NO field is left zero. Applies whenever every column is destined to a field: shapes mapped by
   position (untagged and MIXED tagging alike), and fully tagged shapes whose columns all name fields. *)
Definition strict_exact_ok (rows_mode strict : bool) (fs : list field) (cols : list string) (rows : list (list cell))
           (ok_st : bool) (dest : list dst) : bool :=
  let lv := unwrap_fields fs in
  if strict && Nat.eqb (List.length cols) (List.length lv) && ok_st &&
     forallb (forallb cell_nonzero) (rows_used rows_mode rows) &&
     (negb (all_tagged fs) || (nodup_s (map tag_name fs) && nodup_s cols && names_only_fields fs cols))
  then elems_ok rows_mode rows dest (fun _ d => filled_from 0 lv d)
  else true.

Definition spec_orm (rows_mode strict : bool) (sh : dshape) (cols : list string) (rows : list (list cell))
           (st : result unit) (dest : list dst) : bool :=
  (* a single-row query reports ErrNotFound on an empty result *)
  (if negb rows_mode && is_nil rows then status_eqb st (Err ENotFound) else true) &&
  let elem := match rows_mode, sh with
              | true, DSlice _ e => Some e
              | false, DElem e => Some e
              | _, _ => None
              end in
  let nc := List.length cols in
  let ok_st := match st with Ok _ => true | _ => false end in
  match elem with
  | Some (EStruct fs) =>
      let lv := unwrap_fields fs in
      let nf := List.length lv in
      if is_nil rows then true
      else if strict && Nat.ltb nc nf then
        (* strict mode, fewer columns than destination fields: an error, nothing copied *)
        match st with Err _ => true | _ => false end &&
        (if rows_mode then is_nil dest else match dest with [d] => blank lv d | _ => false end)
      else if negb (strict_exact_ok rows_mode strict fs cols rows ok_st dest) then false
      else if all_tagged fs && nodup_s (map tag_name fs) && nodup_s cols then
        (* by column name, whatever the column order; a result that can be copied is copied *)
        if ok_st then elems_ok rows_mode rows dest (fun row d => by_name_ok fs cols row (fresh lv) d)
        else negb (forallb (by_name_copyable fs cols) (rows_used rows_mode rows))
      else if untagged fs && Nat.leb nc nf then
        (* by position over the flattened fields *)
        if ok_st then elems_ok rows_mode rows dest (fun row d => by_pos_ok 0 lv row (fresh lv) d)
        else negb (forallb (by_pos_copyable lv) (rows_used rows_mode rows))
      else true
  | Some (EPrim k) =>
      if negb (is_nil rows) && Nat.eqb nc 1 then
        if ok_st then elems_ok rows_mode rows dest (prim_elem_ok k)
        else negb (forallb (by_pos_copyable [(false, k)]) (rows_used rows_mode rows))
      else true
  | _ => true
  end.

Definition spec_ok1 (c : case) : bool :=
  match c with
  | CTx cached sw cx bound f b o_res o_calls o_escaped o_runs o_seen =>
      (* the outcome table (on the body as it runs under this ctx: only its own ctx-bound statements can be
         refused; Begin/Commit/Rollback and the result never depend on the ctx), the body entered exactly once, through either wrapper and under every switch
         setting; every failing statement was reported to the body *)
      tx_allowed f (body_under_ctx cx bound b) o_res o_calls o_escaped o_runs && seen_ok o_calls o_seen
  | COrm via m sh cols rows o_status o_dest o_tx =>
      (* the row-mapping clauses hold on every entry point; strictness is the method name's *)
      spec_orm (rows_mode m) (spec_strict m) sh cols rows o_status o_dest &&
      (* inside a transaction: a failing (or panicking) query leads to Rollback and is reported,
         a successful one to Commit *)
      match o_tx with
      | None => negb (in_tx via)
      | Some (r, cs, esc, runs) =>
          in_tx via &&
          tx_allowed no_faults (body_of_query o_status) r cs (if esc then Some 0 else None) runs
      end
  | CPair _ _ => false
  | CStream _ _ _ => false
  | CRowErr _ => false
  end.

(* a failing result set is reported as the driver's error - never as ErrNotFound, never as nil - on every
   entry point; inside Transact the transaction is rolled back and the error reaches the caller *)
Definition rowerr_spec_ok (c : case) : bool :=
  match c with
  | COrm via m sh cols rows o_status o_dest o_tx =>
      negb (rows_mode m) && status_eqb o_status (Err ERowDriver) &&
      match o_tx with
      | None => negb (in_tx via)
      | Some (r, cs, esc, runs) =>
          in_tx via && tx_allowed no_faults (body_of_query o_status) r cs (if esc then Some 0 else None) runs
      end
  | _ => false
  end.

(* the mapping is per destination TYPE: every query of a sequence satisfies the clauses for ITS OWN shape,
   whatever was queried before (into whatever type, of whatever name) *)
Definition spec_ok (c : case) : bool :=
  match c with
  | CRowErr q => rowerr_spec_ok q
  | CPair a b => spec_ok1 a && spec_ok1 b
  | CStream ops o_st final =>
      (* every single-row query on an empty result reports ErrNotFound - the 300th like the first, never
         ErrServiceUnavailable -, a multi-row query on an empty result is nil, and the following query for
         an existing row is answered like any other *)
      all2 (fun (op : meth * bool) o => status_eqb o (if rows_mode (fst op) then Ok tt else Err ENotFound)) ops o_st &&
      spec_ok1 final
  | _ => spec_ok1 c
  end.
