(* C11 Model: transcription of lib/store/sqlx/{tx.go,conn.go,orm.go} (executable definitions only,
   source order, Go line references in comments). The code modelled is the code as it is NOW
   (defect D3 repaired: the recover branch rolls back and sets a non-nil error). *)
From God Require Import Base.Prelude.
From Coq Require Import Strings.String Strings.Ascii DecimalString.
Local Open Scope string_scope.
Local Open Scope list_scope.

(* ===================================================================== part 1: transactions *)

(* what a faulty SQL driver may answer: an error of its own, or one of the sentinels that
   database/sql, sqlx's breaker and applications compare against *)
Inductive fkind := KBadConn | KConnDone | KTxDone | KCanceled | KDeadline | KNoRows.
   (* driver.ErrBadConn, sql.ErrConnDone, sql.ErrTxDone, context.Canceled, context.DeadlineExceeded,
      sql.ErrNoRows (= sqlx.ErrNotFound = sqlc.ErrNotFound; also what a body may hand back itself) *)
Inductive fault := FNone | FGen | FKind (k : fkind)
  | FCtx (k : fkind).   (* statements only: database/sql refuses it because the statement's OWN ctx is done
                           (k = KCanceled / KDeadline): ctx.Err() comes back, the driver is not called *)
Definition fails (x : fault) : bool := match x with FNone => false | _ => true end.

(* errors that can come out of Transact; the driver's own errors are atoms per call site, the
   sentinels are EKind, the two fmt.Errorf forms of tx.go:155-163 are constructors *)
Inductive err :=
| EBegin | ECommit | ERollback            (* the driver's own error for Begin/Commit/Rollback *)
| EExec (i : nat)                         (* the driver's own error for the i-th statement *)
| EKind (k : fkind)                       (* a sentinel returned by the driver, at whatever call *)
| EBody (n : nat)                         (* an error made up by the transaction body *)
| EUnavailable                            (* breaker.ErrServiceUnavailable *)
| EJoin (e r : err)                       (* "事务失败了：%s，回滚也失败了：%w" e r        tx.go:161 *)
| EPanic (p : nat)                        (* "事务发生恐慌：%v" p                        tx.go:157 *)
| EPanicJoin (p : nat) (r : err)          (* "事务发生恐慌：%v，回滚也失败了：%w" p r     tx.go:155 *)
| EOther.                                 (* anything else (never produced by the model) *)

(* the error value a call site hands back for fault x *)
Definition err_at (atom : err) (x : fault) : err := match x with FKind k | FCtx k => EKind k | _ => atom end.

(* driver faults at Begin (n_begin = for how many consecutive attempts), Commit, Rollback *)
Record faults := mkfaults { x_begin : fault; n_begin : nat; x_commit : fault; x_rollback : fault }.
Definition no_faults : faults := mkfaults FNone 0 FNone FNone.

(* calls reaching the SQL driver, with whether the driver answered without error;
   Exec i = the i-th statement of the body (Exec, prepared Exec or Query) *)
Inductive call := Begin (ok : bool) | Exec (i : nat) (ok : bool) | Commit (ok : bool) | Rollback (ok : bool).

(* database/sql, DB.BeginTx -> DB.retry (sql.go:1566-1576): the driver's Begin is attempted again while
   it answers driver.ErrBadConn, 3 attempts in all (2 on cached-or-new connections, 1 on a new one);
   any other error is final at once. The Begin calls seen by the driver and whether one succeeded. *)
Definition begin_calls (f : faults) : list call * bool :=
  match x_begin f with
  | FNone => ([Begin true], true)
  | FKind KBadConn =>
      if Nat.ltb (n_begin f) 3 then (repeat (Begin false) (n_begin f) ++ [Begin true], true)
      else (repeat (Begin false) 3, false)
  | _ => ([Begin false], false)
  end.
Definition f_begin (f : faults) : bool := negb (snd (begin_calls f)).      (* db.Begin() returns an error *)
Definition f_commit (f : faults) : bool := fails (x_commit f).
Definition f_rollback (f : faults) : bool := fails (x_rollback f).
Definition e_begin (f : faults) : err := err_at EBegin (x_begin f).
Definition e_commit (f : faults) : err := err_at ECommit (x_commit f).
Definition e_rollback (f : faults) : err := err_at ERollback (x_rollback f).

(* the transaction body fn(ctx, tx) as a script: statements in order (tx.Exec, tx.Prepare+stmt.Exec,
   tx.QueryRow), each of which the driver may fail, and the body's reaction to a statement that
   reported an error; then the final outcome *)
Inductive sop := SExec | SPrepExec | SQuery.
Inductive react := RReturn | RIgnore | RPanic (p : nat).
Inductive outcome := ONil | OErr (e : err) | OPanic (p : nat).
Record stmt := mkstmt { s_op : sop; s_fault : fault; s_react : react }.
Definition s_fail (s : stmt) : bool := fails (s_fault s).
Record body := mkbody { b_stmts : list stmt; b_final : outcome }.

(* global switches of lib/store/sqlx/stmt.go: logSQL, logSlowSQL (DisableStmtLog clears the first,
   DisableLog both) and whether the statement took longer than slowThreshold *)
Record switches := mkswitches { sw_log_sql : bool; sw_log_slow : bool; sw_is_slow : bool }.

(* newGuard, stmt.go:139-145: a real guard iff one of the two log switches is on *)
Definition real_guard (sw : switches) : bool := sw_log_sql sw || sw_log_slow sw.

(* exec / execStmt / query / queryStmt, stmt.go:36-94, all of one shape:
     guard := newGuard(cmd); if err := guard.start(q, args...); err != nil { return err }   (no args: nil)
     result, err := conn.XxxContext(ctx, ...); guard.finish(ctx, err); return result, err
   finish only logs (real guard) or does nothing (nil guard): what the driver answered reaches the caller *)
Definition stmt_result (sw : switches) (op : sop) (drv : option err) : option err :=
  if real_guard sw then
    (if sw_is_slow sw then drv (* Slowf *) else if sw_log_sql sw then drv (* Infof *) else drv)
  else drv.

Section WithSwitches.
  Variable sw : switches.

  (* what the driver answers to statement i *)
  Definition drv_answer (i : nat) (s : stmt) : option err :=
    if s_fail s then Some (err_at (EExec i) (s_fault s)) else None.

  (* the driver calls statement i gives rise to. database/sql, Stmt.ExecContext -> DB.retry (sql.go:2635-2653):
     a PREPARED statement answered with driver.ErrBadConn is executed again, 3 attempts in all, also inside
     a transaction; Tx.ExecContext / Tx.QueryContext are not retried *)
  Definition stmt_calls (i : nat) (s : stmt) : list call :=
    match s_op s, s_fault s with
    | _, FCtx _ => []                          (* Tx.grabConn / Tx.PrepareContext: ctx.Err() before any driver call *)
    | SPrepExec, FKind KBadConn => repeat (Exec i false) 3
    | _, _ => [Exec i (negb (s_fail s))]
    end.

  (* running fn: the statements it issues (numbered from i) and how it ends *)
  Fixpoint run_stmts (i : nat) (ss : list stmt) (final : outcome) : outcome * list call :=
    match ss with
    | [] => (final, [])
    | s :: r =>
        match stmt_result sw (s_op s) (drv_answer i s) with
        | Some e =>
            match s_react s with
            | RReturn => (OErr e, stmt_calls i s)
            | RPanic p => (OPanic p, stmt_calls i s)
            | RIgnore => let (o, cs) := run_stmts (S i) r final in (o, stmt_calls i s ++ cs)
            end
        | None => let (o, cs) := run_stmts (S i) r final in (o, stmt_calls i s ++ cs)
        end
    end.
  Definition run_body (b : body) : outcome * list call := run_stmts 0 (b_stmts b) (b_final b).

  (* transactOnConn, tx.go:145-169.
       tx, err = b(conn); if err != nil { return }                       147-150
       defer func() {                                                    152
         if p := recover(); p != nil {                                   153
           if e := tx.Rollback(); e != nil { err = Errorf(p, e) }        154-155
           else { err = Errorf(p) }                                      156-157
         } else if err != nil {                                          159
           if e := tx.Rollback(); e != nil { err = Errorf(err, e) }      160-162
         } else { err = tx.Commit() }                                    164-165
       }()
       return fn(ctx, tx)                                                168            *)
  Definition transact_on_conn (f : faults) (b : body) : option err * list call :=
    if f_begin f then (Some (e_begin f), fst (begin_calls f))
    else
      let (o, cs) := run_body b in
      match o with
      | OPanic p =>
          if f_rollback f then (Some (EPanicJoin p (e_rollback f)), fst (begin_calls f) ++ cs ++ [Rollback false])
          else (Some (EPanic p), fst (begin_calls f) ++ cs ++ [Rollback true])
      | OErr e =>
          if f_rollback f then (Some (EJoin e (e_rollback f)), fst (begin_calls f) ++ cs ++ [Rollback false])
          else (Some e, fst (begin_calls f) ++ cs ++ [Rollback true])
      | ONil =>
          if f_commit f then (Some (e_commit f), fst (begin_calls f) ++ cs ++ [Commit false])
          else (None, fst (begin_calls f) ++ cs ++ [Commit true])
      end.

  (* how many times fn is entered: tx.go:168 is its only call site, reached after a successful begin *)
  Definition runs_on_conn (f : faults) : nat := if f_begin f then 0 else 1.

  (* transact, tx.go:135-143: conn, err := db.provider(); NewConnFromDB's provider cannot fail *)
  Definition transact (f : faults) (b : body) : option err * list call := transact_on_conn f b.
  Definition transact_runs (f : faults) : nat := runs_on_conn f.

  Section Breaker.
    (* googleBreaker.doReq (lib/breaker/googlebreaker.go:60-82): either the request is rejected
       (ErrServiceUnavailable, req not run) or req runs ONCE and ITS error is returned unchanged;
       `acceptable` only feeds the breaker's statistics. Whether a call is let through depends on the
       breaker's history and a random draw: an explicit input. *)
    Variable passed : bool.

    (* commonConn.TransactCtx, conn.go:263-277 (Transact, 257-261, wraps fn and delegates) *)
    Definition transact_ctx (f : faults) (b : body) : option err * list call :=
      if passed then transact f b else (Some EUnavailable, []).
    Definition transact_ctx_runs (f : faults) : nat := if passed then transact_runs f else 0.

    (* sqlc.CachedConn.TransactCtx, cachedsql.go:225-227: return cc.db.TransactCtx(ctx, fn);
       CachedConn.Transact, 216-222, wraps fn and delegates to it *)
    Definition cached_transact_ctx (f : faults) (b : body) : option err * list call := transact_ctx f b.
    Definition cached_transact_ctx_runs (f : faults) : nat := transact_ctx_runs f.
  End Breaker.
End WithSwitches.

(* ---- the context handed to TransactCtx ----
   commonConn.TransactCtx(ctx, fn), conn.go:263-277: ctx goes to startSpan and, through transact /
   transactOnConn, to fn(ctx, tx) - nowhere else: begin() is db.Begin() (tx.go:124-133, no ctx), Commit and
   Rollback take none. So the only thing a finished ctx can change is a statement the BODY issues with
   that ctx (XxxCtx methods, `bound`); the plain Session methods use context.Background(). *)
Inductive ctxstate :=
| CLive                          (* never done during the call *)
| CDoneAfterBody (k : fkind)     (* cancelled / expired right after the body's last statement *)
| CDoneBefore (k : fkind).       (* already cancelled / expired when TransactCtx is called *)

Definition stmt_under_ctx (cx : ctxstate) (bound : bool) (s : stmt) : stmt :=
  match cx, bound with
  | CDoneBefore k, true => mkstmt (s_op s) (FCtx k) (s_react s)
  | _, _ => s
  end.
Definition body_under_ctx (cx : ctxstate) (bound : bool) (b : body) : body :=
  mkbody (map (stmt_under_ctx cx bound) (b_stmts b)) (b_final b).

Definition transact_ctx_with (sw : switches) (passed : bool) (cx : ctxstate) (bound : bool) (f : faults) (b : body)
  : option err * list call := transact_ctx sw passed f (body_under_ctx cx bound b).
Definition cached_transact_ctx_with (sw : switches) (passed : bool) (cx : ctxstate) (bound : bool) (f : faults) (b : body)
  : option err * list call := cached_transact_ctx sw passed f (body_under_ctx cx bound b).

(* commonConn.acceptable, conn.go:279-286, errors as small integers (see GenEnv.v):
   0 = nil, 1 = sql.ErrNoRows, 2 = sql.ErrTxDone, 3 = context.Canceled *)
Definition acceptable_default (e : Z) : bool :=
  (Z.eqb e 0 || Z.eqb e 1 || Z.eqb e 2 || Z.eqb e 3)%bool.

(* ===================================================================== part 2: rows -> destination *)

(* destination leaf types: int64, string, sql.NullInt64 (a Scanner accepting NULL) and a plain
   non-embedded struct field (database/sql cannot scan into it) *)
Inductive kind := KInt | KStr | KNInt | KOpaque.

(* struct fields: `tag` is the raw value of the `db:"..."` tag ("" = no tag) *)
Inductive field :=
| FLeaf (tag : string) (ptr : bool) (k : kind)             (* F T  or  F *T *)
| FEmb (tag : string) (ptr : bool) (sub : list field).     (* embedded struct{...} or *struct{...} *)

(* EPrim k: k is KInt (int64) or KStr (string); EUnsup: e.g. a map *)
Inductive eshape := EPrim (k : kind) | EStruct (fs : list field) | EUnsup.
Inductive dshape := DElem (e : eshape) | DSlice (ptr : bool) (e : eshape).   (* *T, *[]T / *[]*T *)

Inductive cell := CNull | CInt (z : Z) | CStr (s : string).    (* driver.Value: nil, int64, string *)
Inductive lval := LInt (z : Z) | LStr (s : string) | LNInt (valid : bool) (z : Z) | LOpaque.

(* a struct value, flattened: one entry per flattened field; None = behind a nil pointer *)
Definition dst := list (option lval).

(* error codes of `result` *)
Definition ENotFound : nat := 1.          (* sqlx.ErrNotFound = sql.ErrNoRows *)
Definition ENotMatch : nat := 2.          (* ErrNotMatchDestination *)
Definition EUnsupported : nat := 3.       (* ErrUnsupportedValueType *)
Definition EScan : nat := 4.              (* any error of sql.Rows.Scan *)

(* where Scan's i-th argument points: a flattened field, a top-level struct-typed field taken as a
   whole, or a throw-away `var anonymous any` *)
Inductive target := TLeaf (i : nat) | TOpaque | TDiscard.

(* parseTagName, orm.go:243-251: strings.Split(value, ",")[0] *)
Fixpoint parse_tag_name (s : string) : string :=
  match s with
  | EmptyString => EmptyString
  | String c r => if Ascii.eqb c ","%char then EmptyString else String c (parse_tag_name r)
  end.

(* unwrapFields, orm.go:253-273: nil pointers are allocated, embedded (anonymous) structs are
   flattened recursively, anything else is one field. (underptr, kind) per flattened field. *)
Fixpoint unwrap_field (underptr : bool) (f : field) : list (bool * kind) :=
  match f with
  | FLeaf _ p k => [(underptr || p, k)]
  | FEmb _ p sub =>
      (fix go (l : list field) : list (bool * kind) :=
         match l with [] => [] | x :: r => unwrap_field (underptr || p) x ++ go r end) sub
  end.
Definition unwrap_fields (fs : list field) : list (bool * kind) := flat_map (unwrap_field false) fs.

Definition zero (k : kind) : lval :=
  match k with KInt => LInt 0 | KStr => LStr "" | KNInt => LNInt false 0 | KOpaque => LOpaque end.

(* the zero value of the struct, and the effect of unwrapFields' allocations on a value *)
Definition init_dest (lv : list (bool * kind)) : dst :=
  map (fun pk : bool * kind => if fst pk then None else Some (zero (snd pk))) lv.
Fixpoint alloc_dest (lv : list (bool * kind)) (d : dst) : dst :=
  match lv, d with
  | pk :: lv', v :: d' => (match v with None => Some (zero (snd pk)) | Some _ => v end) :: alloc_dest lv' d'
  | _, _ => []
  end.

(* getTaggedFieldValueMap, orm.go:207-241: over the TOP-LEVEL fields; (nil, nil) as soon as one
   has no tag name; later duplicates overwrite earlier ones (the list is built newest first and
   read with alookup, i.e. last wins). `off` = flattened index of the current field. *)
Fixpoint tagged_map (off : nat) (fs : list field) (acc : list (string * target)) : option (list (string * target)) :=
  match fs with
  | [] => Some acc
  | FLeaf tag _ _ :: r =>
      let key := parse_tag_name tag in
      if String.eqb key "" then None else tagged_map (S off) r ((key, TLeaf off) :: acc)
  | FEmb tag p sub :: r =>
      let key := parse_tag_name tag in
      if String.eqb key "" then None
      else tagged_map (off + List.length (unwrap_field false (FEmb tag p sub))) r ((key, TOpaque) :: acc)
  end.

(* mapStructFieldsIntoSlice, orm.go:152-205 *)
Definition assign (fs : list field) (columns : list string) (strict : bool) : result (list target) :=
  let nf := List.length (unwrap_fields fs) in
  if strict && Nat.ltb (List.length columns) nf then Err ENotMatch                           (* 154-156 *)
  else
    match tagged_map 0 fs [] with
    | Some ((_ :: _) as m) =>                                                            (* 190-199 *)
        Ok (map (fun c => match alookup String.eqb c m with Some t => t | None => TDiscard end) columns)
    | _ =>                                                                               (* 164-189 *)
        if Nat.ltb nf (List.length columns) then Panic              (* fields[i], i = len(fields): index out of range *)
        else Ok (map TLeaf (seq 0 (List.length columns)))
    end.

(* ---- database/sql Rows.Scan and convertAssign, for the value/destination types above ---- *)
Definition dec (z : Z) : string := NilZero.string_of_int (Z.to_int z).

(* new field value and success; strings handed to integer fields are assumed non-numeric *)
Definition conv (k : kind) (c : cell) (old : option lval) : option lval * bool :=
  match k, c with
  | KInt, CInt z => (Some (LInt z), true)
  | KInt, _ => (old, false)
  | KStr, CInt z => (Some (LStr (dec z)), true)
  | KStr, CStr s => (Some (LStr s), true)
  | KStr, CNull => (old, false)
  | KNInt, CNull => (Some (LNInt false 0), true)
  | KNInt, CInt z => (Some (LNInt true z), true)
  | KNInt, CStr _ => (Some (LNInt true (match old with Some (LNInt _ z) => z | _ => 0%Z end)), false)
  | KOpaque, _ => (old, false)
  end.

Fixpoint upd {A} (i : nat) (v : A) (l : list A) : list A :=
  match l, i with
  | [], _ => []
  | _ :: r, O => v :: r
  | a :: r, S i' => a :: upd i' v r
  end.

Definition scan_one (lv : list (bool * kind)) (t : target) (c : cell) (d : dst) : dst * bool :=
  match t with
  | TDiscard => (d, true)
  | TOpaque => (d, false)
  | TLeaf i =>
      match nth_error lv i with
      | Some pk => let (v, ok) := conv (snd pk) c (nth i d None) in (upd i v d, ok)
      | None => (d, false)
      end
  end.

(* destinations are converted in column order; the first failure stops the scan, earlier
   destinations stay written *)
Fixpoint scan_cols (lv : list (bool * kind)) (ts : list target) (row : list cell) (d : dst) : dst * bool :=
  match ts, row with
  | t :: ts', c :: row' =>
      let (d', ok) := scan_one lv t c d in
      if ok then scan_cols lv ts' row' d' else (d', false)
  | _, _ => (d, true)
  end.

(* "sql: expected %d destination arguments in Scan, not %d" *)
Definition scan (lv : list (bool * kind)) (ts : list target) (row : list cell) (d : dst) : dst * bool :=
  if Nat.eqb (List.length ts) (List.length row) then scan_cols lv ts row d else (d, false).

(* one struct value: mapStructFieldsIntoSlice then Scan(values...) *)
Definition fill_struct (fs : list field) (strict : bool) (columns : list string) (row : list cell) (d : dst)
  : dst * result unit :=
  let lv := unwrap_fields fs in
  let d1 := alloc_dest lv d in
  match assign fs columns strict with
  | Err e => (d1, Err e)
  | Panic => (d1, Panic)
  | Ok ts => let (d2, ok) := scan lv ts row d1 in (d2, if ok then Ok tt else Err EScan)
  end.

(* unmarshalRow, orm.go:27-70: destination value d (one element) *)
Definition unmarshal_row (sh : dshape) (strict : bool) (columns : list string) (rows : list (list cell)) (d : dst)
  : dst * result unit :=
  match rows with
  | [] => (d, Err ENotFound)                                                              (* 28-34 *)
  | row :: _ =>
      match sh with
      | DElem (EPrim k) =>                                                                (* 44-53: scanner.Scan(v) *)
          let (d', ok) := scan [(false, k)] [TLeaf 0] row d in (d', if ok then Ok tt else Err EScan)
      | DElem (EStruct fs) => fill_struct fs strict columns row d                        (* 54-66 *)
      | _ => (d, Err EUnsupported)                                                        (* 67-68 *)
      end
  end.

(* unmarshalRows, orm.go:73-150: rows appended to the slice one by one; an error leaves the
   elements appended so far *)
Fixpoint rows_loop (fill : list cell -> dst * result unit) (rows : list (list cell)) (acc : list dst)
  : list dst * result unit :=
  match rows with
  | [] => (acc, Ok tt)
  | row :: r =>
      match fill row with
      | (d, Ok _) => rows_loop fill r (acc ++ [d])
      | (_, Err e) => (acc, Err e)
      | (_, Panic) => (acc, Panic)
      end
  end.

Definition unmarshal_rows (sh : dshape) (strict : bool) (columns : list string) (rows : list (list cell)) (acc : list dst)
  : list dst * result unit :=
  match sh with
  | DSlice _ (EPrim k) =>                                                                 (* 111-122 *)
      rows_loop (fun row => let (d', ok) := scan [(false, k)] [TLeaf 0] row [Some (zero k)] in
                            (d', if ok then Ok tt else Err EScan)) rows acc
  | DSlice _ (EStruct fs) =>                                                              (* 123-141 *)
      rows_loop (fun row => fill_struct fs strict columns row (init_dest (unwrap_fields fs))) rows acc
  | _ => (acc, Err EUnsupported)                                                          (* 142-148 *)
  end.

(* ===================================================================== part 3: the query entry points *)

(* receivers: commonConn (conn.go), statement (conn.go; what Prepare returns on a conn AND on a
   transaction session), txSession (tx.go). Every receiver has the four methods below, each as a plain
   form delegating to its XxxCtx form with context.Background(). *)
Inductive recv := RConn | RStmt | RTx.
Inductive meth := MQueryRow | MQueryRowPartial | MQueryRows | MQueryRowsPartial.

(* single-row methods call unmarshalRow, multi-row methods unmarshalRows *)
Definition rows_mode (m : meth) : bool :=
  match m with MQueryRows | MQueryRowsPartial => true | _ => false end.

(* the `strict` literal each XxxCtx method hands to unmarshalRow / unmarshalRows *)
Definition strict_flag (r : recv) (m : meth) : bool :=
  match r, m with
  | RConn, MQueryRow => true             (* conn.go:204 unmarshalRow(v, rows, true) *)
  | RConn, MQueryRowPartial => false     (* conn.go:219 *)
  | RConn, MQueryRows => true            (* conn.go:234 unmarshalRows(v, rows, true) *)
  | RConn, MQueryRowsPartial => false    (* conn.go:249 *)
  | RStmt, MQueryRow => true             (* conn.go:339 *)
  | RStmt, MQueryRowPartial => false     (* conn.go:354 *)
  | RStmt, MQueryRows => true            (* conn.go:369 *)
  | RStmt, MQueryRowsPartial => false    (* conn.go:384 *)
  | RTx, MQueryRow => true               (* tx.go:75 *)
  | RTx, MQueryRowPartial => false       (* tx.go:90 *)
  | RTx, MQueryRows => true              (* tx.go:105 *)
  | RTx, MQueryRowsPartial => false      (* tx.go:120 *)
  end.

(* a query issued as the whole body of Transact: the body returns the query's error (or panics with it) *)
Definition body_of_query (st : result unit) : body :=
  mkbody [] (match st with Ok _ => ONil | Err n => OErr (EBody n) | Panic => OPanic 0 end).
Definition default_switches : switches := mkswitches true true false.

(* ---- a process issues its queries one after the other. orm.go has no package-level state that a query
   writes (the errors and tagName are constants): mapStructFieldsIntoSlice recomputes unwrapFields and
   getTaggedFieldValueMap from the destination's own reflect.Value on every call. A query is therefore
   predicted from its own destination shape; the NAME of the destination type is not even an input. ---- *)
Definition fill_query := (list field * bool * list string * list cell)%type.
Definition fill_one (q : fill_query) : dst * result unit :=
  let '(fs, strict, cols, row) := q in fill_struct fs strict cols row (init_dest (unwrap_fields fs)).
Definition fill_sequence (qs : list fill_query) : list (dst * result unit) := map fill_one qs.

(* ===================================================================== part 4: the breaker around conn queries *)

Definition EUnavailableQ : nat := 5.       (* breaker.ErrServiceUnavailable as a query status *)

(* googleBreaker's history over its 10 s window (lib/breaker/googlebreaker.go): calls marked success, calls marked *)
Record brk_state := mkbrk { bk_accepts : nat; bk_total : nat }.
Definition brk_fresh : brk_state := mkbrk 0 0.

(* accept(), googlebreaker.go:36-50: dropRatio = max(0, ((total - protection) - k*accepts) / (total+1)) with
   k = 1.5, protection = 5; a call can be rejected (with that probability) only when dropRatio > 0,
   i.e. 2*(total - 5) > 3*accepts *)
Definition brk_may_reject (s : brk_state) : bool :=
  Z.ltb (3 * Z.of_nat (bk_accepts s)) (2 * (Z.of_nat (bk_total s) - 5)).

(* markSuccess / markFailure *)
Definition brk_mark (ok : bool) (s : brk_state) : brk_state :=
  mkbrk (bk_accepts s + (if ok then 1 else 0)) (S (bk_total s)).

(* commonConn.queryRows, conn.go:288-309: the request's error is acceptable when it is nil, the very error
   the scanner (unmarshalRow / unmarshalRows) produced - ErrNotFound, ErrNotMatchDestination, a Scan error... -
   or db.acceptable(err); a panic leaves doReq unfinished: markFailure (googlebreaker.go:71-76) *)
Definition query_marks_success (own : result unit) : bool :=
  match own with Panic => false | _ => true end.

(* doReq, googlebreaker.go:60-87: a rejected call returns ErrServiceUnavailable and marks nothing; a call let
   through returns the request's own result and marks it *)
Definition conn_query (s : brk_state) (own : result unit) (rejected : bool) : result unit * brk_state :=
  if rejected then (Err EUnavailableQ, s) else (own, brk_mark (query_marks_success own) s).

(* a run of queries none of which is rejected: could call i have been rejected?, and the final history *)
Fixpoint run_stream (s : brk_state) (owns : list (result unit)) : list bool * brk_state :=
  match owns with
  | [] => ([], s)
  | own :: r =>
      let (l, s') := run_stream (snd (conn_query s own false)) r in (brk_may_reject s :: l, s')
  end.

(* ---- a result set that FAILS while it is read ----
   unmarshalRow, orm.go:28-34: when scanner.Next() is false, scanner.Err() is consulted first: a failing
   result set (the driver's Next returned an error) yields THAT error; only a clean end of an empty result
   is ErrNotFound. The destination is not touched. *)
Definition ERowDriver : nat := 6.         (* the error the SQL driver reported for the result set *)
Definition unmarshal_row_no_next (next_err : option nat) (d : dst) : dst * result unit :=
  match next_err with
  | Some e => (d, Err e)
  | None => (d, Err ENotFound)
  end.
