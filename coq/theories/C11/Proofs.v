(* C11 Proofs: the transaction outcome table holds for every fault combination and every body script;
   the column -> field assignment is by name / by position, permutation invariant, and strict mode never
   fills a struct partially. *)
From God Require Import Base.Prelude C11.Model C11.Spec.
From Coq Require Import Strings.String Sorting.Permutation.
Local Open Scope list_scope.

(* ===================================================================== part 1: transactions *)

Lemma terminals_app a b : terminals (a ++ b) = terminals a ++ terminals b.
Proof. apply filter_app. Qed.

(* stmt.go's guard plumbing hands the driver's answer to the caller under every switch setting *)
Lemma stmt_result_transparent sw op drv : stmt_result sw op drv = drv.
Proof. unfold stmt_result. destruct (real_guard sw), (sw_is_slow sw), (sw_log_sql sw); reflexivity. Qed.

(* hence the body behaves as the Spec presupposes, whatever the switches *)
Lemma run_stmts_spec sw : forall ss i fin, run_stmts sw i ss fin = spec_stmts i ss fin.
Proof.
  induction ss as [|s r IH]; intros i fin; simpl; [reflexivity|].
  rewrite stmt_result_transparent. unfold drv_answer. destruct (s_fail s); simpl.
  - destruct (s_react s); try reflexivity. rewrite IH. reflexivity.
  - rewrite IH. reflexivity.
Qed.

Lemma run_body_spec sw b : run_body sw b = spec_body b.
Proof. apply run_stmts_spec. Qed.

Lemma stmt_calls_no_terminal i s : terminals (stmt_calls i s) = [].
Proof. unfold stmt_calls. destruct (s_op s), (s_fault s) as [| |[]|k]; reflexivity. Qed.

Lemma stmt_calls_no_begin i s ok : ~ In (Begin ok) (stmt_calls i s).
Proof.
  unfold stmt_calls. destruct (s_op s), (s_fault s) as [| |[]|k]; simpl; intuition discriminate.
Qed.

Lemma spec_stmts_no_terminal : forall ss i fin, terminals (snd (spec_stmts i ss fin)) = [].
Proof.
  induction ss as [|s r IH]; intros i fin; cbn [spec_stmts]; [reflexivity|].
  specialize (IH (S i) fin).
  destruct (s_fail s); [destruct (s_react s)|]; try destruct (spec_stmts (S i) r fin) as [o cs]; cbn [snd] in *;
    rewrite ?terminals_app, ?stmt_calls_no_terminal, ?IH; reflexivity.
Qed.

Lemma run_body_no_terminal sw b : terminals (snd (run_body sw b)) = [].
Proof. rewrite run_body_spec. apply spec_stmts_no_terminal. Qed.

(* the body's statements are Exec calls only *)
Lemma spec_stmts_no_begin : forall ss i fin ok, ~ In (Begin ok) (snd (spec_stmts i ss fin)).
Proof.
  induction ss as [|s r IH]; intros i fin ok; cbn [spec_stmts]; [simpl; tauto|].
  specialize (IH (S i) fin ok).
  destruct (s_fail s); [destruct (s_react s)|]; try destruct (spec_stmts (S i) r fin) as [o cs]; cbn [snd] in *;
    try (apply stmt_calls_no_begin);
    (intro H; apply in_app_or in H as [H|H]; [eapply stmt_calls_no_begin; exact H|tauto]).
Qed.

(* ---- Begin and database/sql's retry ---- *)
Lemma terminals_repeat_begin n : terminals (repeat (Begin false) n) = [].
Proof. induction n; simpl; auto. Qed.

Lemma begin_calls_no_terminal f : terminals (fst (begin_calls f)) = [].
Proof.
  unfold begin_calls. destruct (x_begin f) as [| |[]|k]; try reflexivity.
  destruct (Nat.ltb (n_begin f) 3); cbn [fst]; [rewrite terminals_app|]; rewrite terminals_repeat_begin; reflexivity.
Qed.

Lemma strip_repeat n rest : strip_begin_fails (repeat (Begin false) n ++ rest) = strip_begin_fails rest.
Proof. induction n; simpl; auto. Qed.

(* a successful begin: failed attempts (at most 2, bad connections only), then exactly one Begin true *)
Lemma begin_calls_ok f : f_begin f = false ->
  exists n, n <= 2 /\ fst (begin_calls f) = repeat (Begin false) n ++ [Begin true].
Proof.
  unfold f_begin, begin_calls. destruct (x_begin f) as [| |[]|k]; simpl; try discriminate.
  - intros _. exists 0. split; [lia|reflexivity].
  - destruct (Nat.ltb_spec (n_begin f) 3); simpl; [|discriminate]. intros _. exists (n_begin f). split; [lia|reflexivity].
Qed.

(* a failed begin: only failed attempts, 3 of them for a persistently bad connection, 1 otherwise *)
Lemma begin_calls_fail f : f_begin f = true ->
  exists n, (n = 1 \/ n = 3) /\ fst (begin_calls f) = repeat (Begin false) n.
Proof.
  unfold f_begin, begin_calls. destruct (x_begin f) as [| |[]|k]; simpl; try discriminate;
    try (intros _; exists 1; split; [auto|reflexivity]).
  destruct (Nat.ltb (n_begin f) 3); simpl; [discriminate|]. intros _. exists 3. split; [auto|reflexivity].
Qed.

Lemma in_repeat_begin n ok : In (Begin ok) (repeat (Begin false) n) -> ok = false.
Proof. intro H. apply repeat_spec in H. congruence. Qed.

Section TX.
Variable sw : switches.

(* the terminal call and the result, as a function of the body's outcome and the faults *)
Definition terminal_of (f : faults) (o : outcome) : call * option err :=
  match o with
  | ONil => (Commit (negb (f_commit f)), if f_commit f then Some (e_commit f) else None)
  | OErr e => (Rollback (negb (f_rollback f)), if f_rollback f then Some (EJoin e (e_rollback f)) else Some e)
  | OPanic p => (Rollback (negb (f_rollback f)), if f_rollback f then Some (EPanicJoin p (e_rollback f)) else Some (EPanic p))
  end.

Lemma transact_table f b : f_begin f = false ->
  transact sw f b = (snd (terminal_of f (fst (run_body sw b))),
                     (fst (begin_calls f) ++ snd (run_body sw b)) ++ [fst (terminal_of f (fst (run_body sw b)))]).
Proof.
  intro Hb. unfold transact, transact_on_conn. rewrite Hb.
  destruct (run_body sw b) as [o cs]. simpl. rewrite <- !app_assoc.
  destruct o; simpl; [destruct (f_commit f)|destruct (f_rollback f)|destruct (f_rollback f)]; reflexivity.
Qed.

Lemma transact_begin_error f b : f_begin f = true ->
  transact sw f b = (Some (e_begin f), fst (begin_calls f)) /\
  (forall c, In c (fst (begin_calls f)) -> c = Begin false) /\ transact_runs f = 0.
Proof.
  intro Hb. unfold transact, transact_on_conn, transact_runs, runs_on_conn. rewrite Hb. split; [reflexivity|].
  split; [|reflexivity]. destruct (begin_calls_fail f Hb) as [n [_ E]]. rewrite E. intros c Hc. apply repeat_spec in Hc. exact Hc.
Qed.

Lemma terminal_of_is_terminal f o : is_terminal (fst (terminal_of f o)) = true.
Proof. destruct o; reflexivity. Qed.

Definition ends_with (calls : list call) (t : call) : Prop :=
  exists pre, calls = pre ++ [t] /\ terminals pre = [].

Lemma ends_with_unique calls t t' : ends_with calls t -> ends_with calls t' -> t = t'.
Proof.
  intros [p [E _]] [p' [E' _]]. rewrite E in E'. apply app_inj_tail in E' as [_ E']. congruence.
Qed.

Lemma transact_ends f b : f_begin f = false ->
  ends_with (snd (transact sw f b)) (fst (terminal_of f (fst (run_body sw b)))).
Proof.
  intro Hb. rewrite (transact_table f b Hb). simpl. exists (fst (begin_calls f) ++ snd (run_body sw b)). split; [reflexivity|].
  rewrite terminals_app, begin_calls_no_terminal, run_body_no_terminal. reflexivity.
Qed.

Lemma ends_with_terminals calls t : ends_with calls t -> is_terminal t = true -> terminals calls = [t].
Proof.
  intros [p [E Hp]] Ht. subst. rewrite terminals_app, Hp. unfold terminals. simpl. rewrite Ht. reflexivity.
Qed.

Lemma not_ends_with_begins n t : is_terminal t = true -> ~ ends_with (repeat (Begin false) n) t.
Proof.
  intros Ht [p [E _]]. assert (Hin : In t (repeat (Begin false) n)) by (rewrite E; apply in_or_app; right; left; reflexivity).
  apply repeat_spec in Hin. subst. discriminate.
Qed.

(* result = nil  <=>  the calls end with one successful Commit and contain no other Commit/Rollback *)
Lemma nil_iff_commit adm f b :
  fst (transact_ctx sw adm f b) = None <-> ends_with (snd (transact_ctx sw adm f b)) (Commit true).
Proof.
  unfold transact_ctx. destruct adm; simpl.
  2:{ split; [discriminate|]. intros [p [E _]]. destruct p; discriminate. }
  destruct (f_begin f) eqn:Hb.
  - destruct (transact_begin_error f b Hb) as [E _]. rewrite E. simpl. split; [discriminate|].
    destruct (begin_calls_fail f Hb) as [n [_ En]]. rewrite En. intro H. exfalso. eapply not_ends_with_begins; [|exact H]. reflexivity.
  - pose proof (transact_ends f b Hb) as He. rewrite (transact_table f b Hb) in *. simpl in *.
    split.
    + intro Hn. destruct (fst (run_body sw b)); simpl in *.
      * destruct (f_commit f); [discriminate|exact He].
      * destruct (f_rollback f); discriminate.
      * destruct (f_rollback f); discriminate.
    + intro Hc. pose proof (ends_with_unique _ _ _ He Hc) as Hu.
      destruct (fst (run_body sw b)); simpl in *; try discriminate.
      destruct (f_commit f); [discriminate|reflexivity].
Qed.

Lemma begun_iff f b : In (Begin true) (snd (transact sw f b)) <-> f_begin f = false.
Proof.
  destruct (f_begin f) eqn:Hb.
  - destruct (transact_begin_error f b Hb) as [E [Hall _]]. rewrite E. simpl. split; [|discriminate].
    intro Hin. apply Hall in Hin. discriminate.
  - split; [reflexivity|]. intros _. rewrite (transact_table f b Hb). simpl.
    destruct (begin_calls_ok f Hb) as [n [_ En]]. rewrite En. rewrite <- !app_assoc.
    apply in_or_app. right. left. reflexivity.
Qed.

(* a begun transaction gets exactly one of Commit/Rollback, as its last driver call;
   a transaction that did not begin gets none *)
Lemma exactly_one_terminal adm f b :
  (In (Begin true) (snd (transact_ctx sw adm f b)) ->
     exists t, is_terminal t = true /\ ends_with (snd (transact_ctx sw adm f b)) t /\ terminals (snd (transact_ctx sw adm f b)) = [t]) /\
  (~ In (Begin true) (snd (transact_ctx sw adm f b)) -> terminals (snd (transact_ctx sw adm f b)) = []).
Proof.
  unfold transact_ctx. destruct adm; simpl.
  2:{ split; [intros []|reflexivity]. }
  destruct (f_begin f) eqn:Hb.
  - split.
    + intro Hin. apply begun_iff in Hin. congruence.
    + intros _. destruct (transact_begin_error f b Hb) as [E _]. rewrite E. simpl. apply begin_calls_no_terminal.
  - pose proof (transact_ends f b Hb) as He. split.
    + intros _. eexists. split; [apply terminal_of_is_terminal|]. split; [exact He|].
      apply ends_with_terminals; [exact He|apply terminal_of_is_terminal].
    + intro Hn. exfalso. apply Hn. apply begun_iff. exact Hb.
Qed.

Lemma commit_iff_body_nil f b : f_begin f = false ->
  (fst (run_body sw b) = ONil <-> exists ok, In (Commit ok) (snd (transact sw f b))) /\
  (fst (run_body sw b) = ONil -> fst (transact sw f b) = if f_commit f then Some (e_commit f) else None) /\
  (fst (run_body sw b) <> ONil -> exists ok, terminals (snd (transact sw f b)) = [Rollback ok]).
Proof.
  intro Hb. pose proof (transact_ends f b Hb) as He.
  pose proof (ends_with_terminals _ _ He (terminal_of_is_terminal _ _)) as Ht.
  rewrite (transact_table f b Hb) in *. simpl in *. split; [split|split].
  - intro Ho. rewrite Ho. simpl. exists (negb (f_commit f)). apply in_or_app. right. left. reflexivity.
  - intros [ok Hin]. assert (Hin' : In (Commit ok) (terminals ((fst (begin_calls f) ++ snd (run_body sw b)) ++ [fst (terminal_of f (fst (run_body sw b)))]))).
    { unfold terminals. apply filter_In. split; [exact Hin|reflexivity]. }
    rewrite Ht in Hin'. destruct Hin' as [E|[]].
    destruct (fst (run_body sw b)); simpl in E; try discriminate. reflexivity.
  - intro Ho. rewrite Ho. reflexivity.
  - intro Ho. destruct (fst (run_body sw b)) eqn:E; [contradiction| |]; simpl in Ht; eexists; exact Ht.
Qed.

Lemma panic_rolls_back_and_reports f b p : f_begin f = false -> fst (run_body sw b) = OPanic p ->
  fst (transact sw f b) <> None /\
  terminals (snd (transact sw f b)) = [Rollback (negb (f_rollback f))] /\
  ends_with (snd (transact sw f b)) (Rollback (negb (f_rollback f))) /\
  fst (transact sw f b) = Some (if f_rollback f then EPanicJoin p (e_rollback f) else EPanic p).
Proof.
  intros Hb Ho. pose proof (transact_ends f b Hb) as He.
  pose proof (ends_with_terminals _ _ He (terminal_of_is_terminal _ _)) as Ht.
  rewrite (transact_table f b Hb) in *. rewrite Ho in *. simpl in *.
  repeat split; try assumption; destruct (f_rollback f); try discriminate; reflexivity.
Qed.

Lemma error_passthrough f b e : f_begin f = false -> fst (run_body sw b) = OErr e ->
  (fst (transact sw f b) = Some e \/ (f_rollback f = true /\ fst (transact sw f b) = Some (EJoin e (e_rollback f)))) /\
  (f_rollback f = false -> fst (transact sw f b) = Some e) /\
  terminals (snd (transact sw f b)) = [Rollback (negb (f_rollback f))].
Proof.
  intros Hb Ho. pose proof (transact_ends f b Hb) as He.
  pose proof (ends_with_terminals _ _ He (terminal_of_is_terminal _ _)) as Ht.
  rewrite (transact_table f b Hb) in *. rewrite Ho in *. simpl in *.
  repeat split; try assumption; destruct (f_rollback f); auto; discriminate.
Qed.

(* the body is entered once by a begun transaction and never otherwise *)
Lemma body_runs_once adm f b :
  transact_ctx_runs adm f = (if existsb (call_eqb (Begin true)) (snd (transact_ctx sw adm f b)) then 1 else 0).
Proof.
  unfold transact_ctx_runs, transact_ctx. destruct adm; [|reflexivity].
  unfold transact_runs, runs_on_conn. destruct (f_begin f) eqn:Hb.
  - destruct (existsb (call_eqb (Begin true)) (snd (transact sw f b))) eqn:E; [|reflexivity].
    apply existsb_exists in E as [c [Hin Hc]]. destruct c; simpl in Hc; try discriminate. destruct ok; [|discriminate].
    apply begun_iff in Hin. congruence.
  - assert (Hin : In (Begin true) (snd (transact sw f b))) by (apply begun_iff; exact Hb).
    replace (existsb (call_eqb (Begin true)) (snd (transact sw f b))) with true; [reflexivity|].
    symmetry. apply existsb_exists. exists (Begin true). split; [exact Hin|reflexivity].
Qed.

(* refinement: what the model does is allowed by the Spec's outcome table (the checker run on observations) *)
Lemma fkind_eqb_refl k : fkind_eqb k k = true.
Proof. destruct k; reflexivity. Qed.
Lemma err_eqb_refl e : err_eqb e e = true.
Proof. induction e; simpl; rewrite ?Nat.eqb_refl, ?fkind_eqb_refl, ?IHe1, ?IHe2, ?IHe; reflexivity. Qed.
Lemma call_eqb_refl c : call_eqb c c = true.
Proof. destruct c; simpl; rewrite ?Nat.eqb_refl; destruct ok; reflexivity. Qed.
Lemma calls_eqb_refl l : list_eqb call_eqb l l = true.
Proof. induction l; simpl; [reflexivity|]. rewrite call_eqb_refl, IHl. reflexivity. Qed.

Lemma tx_refines f b :
  tx_allowed f b (fst (transact sw f b)) (snd (transact sw f b)) None (transact_runs f) = true.
Proof.
  unfold tx_allowed, transact_runs, runs_on_conn. destruct (f_begin f) eqn:Hb.
  - destruct (transact_begin_error f b Hb) as [E _]. rewrite E. destruct (spec_body b). cbn [fst snd].
    destruct (begin_calls_fail f Hb) as [n [_ En]]. rewrite En.
    rewrite <- (app_nil_r (repeat (Begin false) n)), strip_repeat. reflexivity.
  - rewrite (transact_table f b Hb). rewrite run_body_spec. destruct (spec_body b) as [o cs]. cbn [fst snd].
    destruct (begin_calls_ok f Hb) as [n [_ En]]. rewrite En. rewrite <- !app_assoc, strip_repeat.
    cbn [app strip_begin_fails Nat.eqb andb].
    destruct o; cbn [fst snd terminal_of]; rewrite calls_eqb_refl; cbn [andb].
    + destruct (f_commit f); cbn [option_eqb]; rewrite ?err_eqb_refl; reflexivity.
    + destruct (f_rollback f); cbn [option_eqb andb orb]; rewrite ?err_eqb_refl; cbn [orb andb]; rewrite ?orb_true_r; reflexivity.
    + destruct (f_rollback f); reflexivity.
Qed.

(* sqlc.CachedConn adds nothing: same result, same driver calls, same number of body executions *)
Lemma wrapper_transparent adm f b :
  cached_transact_ctx sw adm f b = transact_ctx sw adm f b /\
  cached_transact_ctx_runs adm f = transact_ctx_runs adm f.
Proof. split; reflexivity. Qed.

End TX.

(* ===================================================================== part 2: rows -> destination *)

Lemma upd_length {A} i (v : A) l : List.length (upd i v l) = List.length l.
Proof. revert i; induction l; intros [|i]; simpl; auto. Qed.

Lemma nth_upd_same {A} i (v dflt : A) l : i < List.length l -> nth i (upd i v l) dflt = v.
Proof. revert i; induction l; intros [|i] H; simpl in *; try lia; auto. apply IHl. lia. Qed.

Lemma nth_upd_other {A} i j (v dflt : A) l : i <> j -> nth j (upd i v l) dflt = nth j l dflt.
Proof.
  revert i j; induction l; intros [|i] [|j] H; simpl; auto; try congruence.
Qed.

Lemma upd_comm {A} i j (a b : A) l : i <> j -> upd i a (upd j b l) = upd j b (upd i a l).
Proof.
  revert i j; induction l as [|x l IH]; intros [|i] [|j] H; simpl; auto; try congruence.
  f_equal. apply IH. congruence.
Qed.

Lemma conv_ok_indep k c o1 o2 v : conv k c o1 = (v, true) -> conv k c o2 = (v, true).
Proof. destruct k, c; simpl; intro H; inversion H; reflexivity. Qed.

Lemma lval_eqb_refl v : lval_eqb v v = true.
Proof. destruct v; simpl; rewrite ?Z.eqb_refl, ?String.eqb_refl; try reflexivity. destruct valid; reflexivity. Qed.
Lemma oval_eqb_refl v : oval_eqb v v = true.
Proof. destruct v; simpl; [apply lval_eqb_refl|reflexivity]. Qed.

(* Scan over (target, cell) pairs *)
Fixpoint scan_tc (lv : list (bool * kind)) (l : list (target * cell)) (d : dst) : dst * bool :=
  match l with
  | [] => (d, true)
  | (t, c) :: r => let (d', ok) := scan_one lv t c d in if ok then scan_tc lv r d' else (d', false)
  end.

Lemma scan_cols_tc lv : forall ts row d, scan_cols lv ts row d = scan_tc lv (combine ts row) d.
Proof.
  induction ts as [|t ts IH]; intros [|c row] d; simpl; try reflexivity.
  destruct (scan_one lv t c d) as [d' ok]. destruct ok; [apply IH|reflexivity].
Qed.

Definition leaf_idx (tc : target * cell) : list nat := match fst tc with TLeaf i => [i] | _ => [] end.
Definition leaf_idxs (l : list (target * cell)) : list nat := flat_map leaf_idx l.

Lemma scan_one_leaf lv i c d d' : scan_one lv (TLeaf i) c d = (d', true) ->
  exists pk v, nth_error lv i = Some pk /\ conv (snd pk) c (nth i d None) = (v, true) /\ d' = upd i v d.
Proof.
  simpl. destruct (nth_error lv i) as [pk|] eqn:E; [|intro H; inversion H].
  destruct (conv (snd pk) c (nth i d None)) as [v ok] eqn:Ec. intro H; inversion H; subst.
  exists pk, v. auto.
Qed.

(* pointwise description of a successful Scan whose destinations are pairwise different fields *)
Lemma scan_tc_nth lv : forall l d d', scan_tc lv l d = (d', true) -> NoDup (leaf_idxs l) ->
  List.length d = List.length lv ->
  List.length d' = List.length d /\
  (forall i, ~ In i (leaf_idxs l) -> nth i d' None = nth i d None) /\
  (forall i c, In (TLeaf i, c) l ->
     exists pk v, nth_error lv i = Some pk /\ conv (snd pk) c None = (v, true) /\ nth i d' None = v).
Proof.
  induction l as [|[t c] l IH]; intros d d' H Hnd Hlen.
  - inversion H; subst. split; [reflexivity|]. split; [reflexivity|]. intros i c [].
  - simpl in H. destruct (scan_one lv t c d) as [d1 ok] eqn:E1. destruct ok; [|inversion H].
    destruct t as [i0| |].
    + apply scan_one_leaf in E1 as [pk [v [Hpk [Hc Hd1]]]]. subst d1.
      unfold leaf_idxs in Hnd. simpl in Hnd. fold (leaf_idxs l) in Hnd. inversion Hnd as [|? ? Hni Hnd']; subst.
      assert (Hlen1 : List.length (upd i0 v d) = List.length lv) by (rewrite upd_length; exact Hlen).
      destruct (IH _ _ H Hnd' Hlen1) as [L [U W]].
      assert (Hi0 : i0 < List.length d). { rewrite Hlen. apply nth_error_Some. congruence. }
      split; [rewrite L; apply upd_length|]. split.
      * intros i Hi. unfold leaf_idxs in Hi. simpl in Hi. fold (leaf_idxs l) in Hi.
        rewrite U by tauto. apply nth_upd_other. tauto.
      * intros i c' [Eq|Hin].
        -- inversion Eq; subst. exists pk, v. split; [exact Hpk|]. split; [eapply conv_ok_indep; exact Hc|].
           rewrite U by exact Hni. apply nth_upd_same. exact Hi0.
        -- apply W. exact Hin.
    + simpl in E1. inversion E1.
    + simpl in E1. inversion E1; subst. unfold leaf_idxs in Hnd. simpl in Hnd. fold (leaf_idxs l) in Hnd.
      destruct (IH _ _ H Hnd Hlen) as [L [U W]]. split; [exact L|]. split.
      * intros i Hi. apply U. exact Hi.
      * intros i c' [Eq|Hin]; [inversion Eq|apply W; exact Hin].
Qed.

Lemma nodup_app_r {A} : forall (a b : list A), NoDup (a ++ b) -> NoDup b.
Proof. induction a; simpl; intros b H; [exact H|]. inversion H; subst. apply IHa. assumption. Qed.

(* a successful Scan does not depend on the order of its (destination, value) pairs *)
Lemma scan_tc_perm lv : forall l l', Permutation l l' -> NoDup (leaf_idxs l) ->
  forall d d', scan_tc lv l d = (d', true) -> scan_tc lv l' d = (d', true).
Proof.
  induction 1 as [| [t c] l l' HP IH | [t1 c1] [t2 c2] l | l l' l'' HP1 IH1 HP2 IH2]; intros Hnd d d' H.
  - exact H.
  - simpl in *. destruct (scan_one lv t c d) as [d1 ok]. destruct ok; [|inversion H].
    apply IH; [|exact H]. unfold leaf_idxs in *. simpl in Hnd. apply nodup_app_r in Hnd. exact Hnd.
  - cbn [scan_tc] in *.
    destruct (scan_one lv t2 c2 d) as [d1 ok1] eqn:E1. destruct ok1; [|inversion H].
    destruct (scan_one lv t1 c1 d1) as [d2 ok2] eqn:E2. destruct ok2; [|inversion H].
    destruct t2 as [i2| |]; [|simpl in E1; inversion E1|].
    + destruct t1 as [i1| |]; [|simpl in E2; inversion E2|].
      * apply scan_one_leaf in E1 as [pk2 [v2 [Hpk2 [Hc2 Hd1]]]]. subst d1.
        apply scan_one_leaf in E2 as [pk1 [v1 [Hpk1 [Hc1 Hd2]]]]. subst d2.
        assert (Hne : i2 <> i1).
        { unfold leaf_idxs in Hnd. simpl in Hnd. inversion Hnd as [|? ? Hni _]; subst. simpl in Hni. intro Eq. apply Hni. left. congruence. }
        rewrite nth_upd_other in Hc1 by exact Hne.
        cbn [scan_one]. rewrite Hpk1, Hc1. rewrite Hpk2. rewrite nth_upd_other by congruence. rewrite Hc2.
        rewrite upd_comm by congruence. exact H.
      * cbn [scan_one] in E2. inversion E2; subst.
        change (scan_one lv TDiscard c1 d) with (d, true). cbv iota beta. rewrite E1. exact H.
    + cbn [scan_one] in E1. inversion E1; subst.
      change (scan_one lv TDiscard c2 d1) with (d1, true). rewrite E2. cbv iota beta. exact H.
  - assert (Hnd' : NoDup (leaf_idxs l')).
    { eapply Permutation_NoDup; [|exact Hnd]. unfold leaf_idxs. apply Permutation_flat_map. exact HP1. }
    apply IH2; [exact Hnd'|]. apply IH1; assumption.
Qed.

(* ---- the tag map ---- *)
Lemma alookup_in : forall (m : list (string * target)) c t, alookup String.eqb c m = Some t -> In (c, t) m.
Proof.
  induction m as [|[k v] m IH]; simpl; intros c t H; [discriminate|].
  destruct (String.eqb_spec c k); [inversion H; subst; auto|right; auto].
Qed.

Definition tm_inv (off : nat) (acc : list (string * target)) : Prop :=
  (forall t i, In (t, TLeaf i) acc -> i < off) /\
  (forall t1 t2 i, In (t1, TLeaf i) acc -> In (t2, TLeaf i) acc -> t1 = t2).

Lemma tagged_map_inv : forall fs off acc m, tagged_map off fs acc = Some m -> tm_inv off acc ->
  forall t1 t2 i, In (t1, TLeaf i) m -> In (t2, TLeaf i) m -> t1 = t2.
Proof.
  induction fs as [|f fs IH]; intros off acc m H [I1 I2].
  - simpl in H. inversion H; subst. exact I2.
  - destruct f as [tag p k|tag p sub]; simpl in H.
    + destruct (String.eqb (parse_tag_name tag) ""); [discriminate|].
      apply (IH _ _ _ H). split.
      * intros t i [E|Hin]; [inversion E; lia|]. apply I1 in Hin. lia.
      * intros t1 t2 i [E1|H1] [E2|H2].
        -- congruence.
        -- inversion E1; subst. apply I1 in H2. lia.
        -- inversion E2; subst. apply I1 in H1. lia.
        -- eapply I2; eauto.
    + destruct (String.eqb (parse_tag_name tag) ""); [discriminate|].
      apply (IH _ _ _ H). split.
      * intros t i [E|Hin]; [inversion E|]. apply I1 in Hin. lia.
      * intros t1 t2 i [E1|H1] [E2|H2]; try (inversion E1; fail); try (inversion E2; fail). eapply I2; eauto.
Qed.

Definition look (m : list (string * target)) (c : string) : target :=
  match alookup String.eqb c m with Some t => t | None => TDiscard end.

Lemma look_inj fs m : tagged_map 0 fs [] = Some m ->
  forall a b i, look m a = TLeaf i -> look m b = TLeaf i -> a = b.
Proof.
  intros H a b i Ha Hb. unfold look in *.
  destruct (alookup String.eqb a m) eqn:Ea; [|discriminate]. destruct (alookup String.eqb b m) eqn:Eb; [|discriminate].
  subst. apply alookup_in in Ea, Eb.
  eapply (tagged_map_inv fs 0 [] m H); [|exact Ea|exact Eb].
  split; intros; contradiction.
Qed.

Lemma tagged_map_other : forall fs off acc m t, tagged_map off fs acc = Some m -> ~ In t (map tag_name fs) ->
  alookup String.eqb t m = alookup String.eqb t acc.
Proof.
  induction fs as [|f fs IH]; intros off acc m t H Hn.
  - simpl in H. inversion H. reflexivity.
  - destruct f as [tag p k|tag p sub]; simpl in H, Hn;
      (destruct (String.eqb (parse_tag_name tag) ""); [discriminate|]);
      rewrite (IH _ _ _ t H) by tauto; simpl;
      (destruct (String.eqb_spec t (parse_tag_name tag)); [subst; tauto|reflexivity]).
Qed.

Lemma tagged_map_named : forall fs off acc m, tagged_map off fs acc = Some m -> NoDup (map tag_name fs) ->
  forall t i k, In (t, i, k) (named_fields off fs) -> alookup String.eqb t m = Some (TLeaf i).
Proof.
  induction fs as [|f fs IH]; intros off acc m H Hnd t i k Hin; [contradiction|].
  inversion Hnd as [|? ? Hni Hnd']; subst.
  destruct f as [tag p k0|tag p sub]; simpl in H, Hin, Hni.
  - destruct (String.eqb (parse_tag_name tag) ""); [discriminate|].
    destruct Hin as [E|Hin].
    + inversion E; subst. rewrite (tagged_map_other _ _ _ _ _ H Hni). simpl. rewrite String.eqb_refl. reflexivity.
    + eapply IH; eauto.
  - destruct (String.eqb (parse_tag_name tag) ""); [discriminate|]. eapply IH; eauto.
Qed.

Lemma named_fields_kind : forall fs off t i k, In (t, i, k) (named_fields off fs) ->
  off <= i /\ exists p, nth_error (unwrap_fields fs) (i - off) = Some (p, k).
Proof.
  induction fs as [|f fs IH]; intros off t i k Hin; [contradiction|].
  destruct f as [tag p k0|tag p sub].
  - simpl in Hin. destruct Hin as [E|Hin].
    + inversion E; subst. split; [lia|]. rewrite Nat.sub_diag. eexists. reflexivity.
    + apply IH in Hin as [Hle [q Hq]]. split; [lia|]. exists q.
      replace (i - off) with (S (i - S off)) by lia. exact Hq.
  - cbn [named_fields] in Hin. apply IH in Hin as [Hle [q Hq]]. split; [lia|]. exists q.
    unfold unwrap_fields. cbn [flat_map]. fold (unwrap_fields fs).
    rewrite nth_error_app2 by lia.
    replace (i - off - List.length (unwrap_field false (FEmb tag p sub)))
      with (i - (off + List.length (unwrap_field false (FEmb tag p sub)))) by lia.
    exact Hq.
Qed.

Lemma tagged_map_all : forall fs off acc,
  forallb (fun f => negb (String.eqb (tag_name f) "")) fs = true ->
  exists m, tagged_map off fs acc = Some m /\ List.length m = List.length fs + List.length acc.
Proof.
  induction fs as [|f fs IH]; intros off acc H.
  - exists acc. split; reflexivity.
  - simpl in H. apply andb_true_iff in H as [H1 H2].
    destruct f as [tag p k|tag p sub]; simpl in *;
      (destruct (String.eqb (parse_tag_name tag) ""); [discriminate|]);
      (edestruct IH as [m [Hm Hl]]; [exact H2|]; exists m; split; [exact Hm|rewrite Hl; simpl; lia]).
Qed.

Lemma tagged_map_untagged : forall fs off acc,
  forallb (fun f => negb (String.eqb (tag_name f) "")) fs = false -> tagged_map off fs acc = None.
Proof.
  induction fs as [|f fs IH]; intros off acc H; [discriminate|].
  simpl in H. destruct f as [tag p k|tag p sub]; simpl in *;
    (destruct (String.eqb (parse_tag_name tag) ""); [reflexivity|]); simpl in H; apply IH; exact H.
Qed.

(* assign, once the tag situation is known *)
Lemma assign_tagged fs cols strict : all_tagged fs = true ->
  exists m, tagged_map 0 fs [] = Some m /\
    assign fs cols strict =
      if strict && Nat.ltb (List.length cols) (List.length (unwrap_fields fs)) then Err ENotMatch
      else Ok (map (look m) cols).
Proof.
  intro H. unfold all_tagged in H. destruct fs as [|f fs]; [discriminate|].
  destruct (tagged_map_all (f :: fs) 0 [] H) as [m [Hm Hl]]. exists m. split; [exact Hm|].
  unfold assign. rewrite Hm. destruct m; [simpl in Hl; lia|]. reflexivity.
Qed.

Lemma assign_untagged fs cols strict : all_tagged fs = false ->
  assign fs cols strict =
    if strict && Nat.ltb (List.length cols) (List.length (unwrap_fields fs)) then Err ENotMatch
    else if Nat.ltb (List.length (unwrap_fields fs)) (List.length cols) then Panic
    else Ok (map TLeaf (seq 0 (List.length cols))).
Proof.
  intro H. unfold assign. destruct fs as [|f fs].
  - reflexivity.
  - unfold all_tagged in H. rewrite (tagged_map_untagged _ 0 [] H). reflexivity.
Qed.

(* ---- by name ---- *)
Lemma combine_map_l {A B C} (f : A -> C) : forall (a : list A) (b : list B),
  combine (map f a) b = map (fun p => (f (fst p), snd p)) (combine a b).
Proof. induction a; intros [|x b]; simpl; auto. f_equal. apply IHa. Qed.

Lemma map_fst_combine {A B} : forall (a : list A) (b : list B), List.length a = List.length b -> map fst (combine a b) = a.
Proof. induction a; intros [|x b] H; simpl in *; try discriminate; auto. f_equal. apply IHa. lia. Qed.

Lemma leaf_idxs_cols m : forall cols row i, In i (leaf_idxs (combine (map (look m) cols) row)) ->
  exists c, In c cols /\ look m c = TLeaf i.
Proof.
  induction cols as [|c cols IH]; intros [|x row] i H; simpl in H; try contradiction.
  unfold leaf_idxs in H. simpl in H. apply in_app_or in H as [H|H].
  - unfold leaf_idx in H. simpl in H. destruct (look m c) eqn:E; try contradiction. destruct H as [<-|[]]. exists c. split; [left; reflexivity|exact E].
  - apply IH in H as [c' [Hin Hl]]. exists c'. split; [right; exact Hin|exact Hl].
Qed.

Lemma leaf_idxs_nodup fs m : tagged_map 0 fs [] = Some m -> forall cols row, NoDup cols ->
  NoDup (leaf_idxs (combine (map (look m) cols) row)).
Proof.
  intros Hm. induction cols as [|c cols IH]; intros [|x row] Hnd; simpl; try constructor.
  inversion Hnd as [|? ? Hni Hnd']; subst. unfold leaf_idxs. simpl. fold (leaf_idxs (combine (map (look m) cols) row)).
  unfold leaf_idx. simpl. destruct (look m c) eqn:E; simpl; try (apply IH; exact Hnd').
  constructor; [|apply IH; exact Hnd'].
  intro Hin. apply leaf_idxs_cols in Hin as [c' [Hc' Hl]]. rewrite (look_inj fs m Hm c c' i E Hl) in Hni. contradiction.
Qed.

Lemma find_col_some : forall cols t j, find_col t cols = Some j -> nth_error cols j = Some t.
Proof.
  induction cols as [|c cols IH]; simpl; intros t j H; [discriminate|].
  destruct (String.eqb_spec t c); [inversion H; subst; reflexivity|].
  destruct (find_col t cols) eqn:E; [|discriminate]. inversion H; subst. simpl. apply IH. exact E.
Qed.

Lemma find_col_none : forall cols t, find_col t cols = None -> ~ In t cols.
Proof.
  induction cols as [|c cols IH]; simpl; intros t H; [tauto|].
  destruct (String.eqb_spec t c); [discriminate|].
  destruct (find_col t cols) eqn:E; [discriminate|]. intros [Ec|Hin]; [congruence|]. eapply IH; eauto.
Qed.

Lemma in_combine_nth {A B} : forall (a : list A) (b : list B) j x y,
  nth_error a j = Some x -> nth_error b j = Some y -> In (x, y) (combine a b).
Proof.
  induction a as [|x0 a IH]; intros [|y0 b] [|j] x y Ha Hb; simpl in *; try discriminate.
  - inversion Ha; inversion Hb; subst. auto.
  - right. eapply IH; eauto.
Qed.

Lemma alloc_dest_length : forall lv d, List.length d = List.length lv -> List.length (alloc_dest lv d) = List.length lv.
Proof. induction lv; intros [|v d] H; simpl in *; try discriminate; auto. Qed.

(* unpacking a successful fill_struct *)
Lemma fill_struct_ok fs strict cols row d0 d : fill_struct fs strict cols row d0 = (d, Ok tt) ->
  exists ts, assign fs cols strict = Ok ts /\
             scan (unwrap_fields fs) ts row (alloc_dest (unwrap_fields fs) d0) = (d, true).
Proof.
  unfold fill_struct. destruct (assign fs cols strict) as [ts|e|]; try (intro H; inversion H; fail).
  destruct (scan (unwrap_fields fs) ts row (alloc_dest (unwrap_fields fs) d0)) as [d2 ok] eqn:E.
  destruct ok; intro H; inversion H; subst. exists ts. auto.
Qed.

Lemma by_name_refines fs strict cols row d0 d :
  all_tagged fs = true -> NoDup (map tag_name fs) -> NoDup cols ->
  List.length cols = List.length row -> List.length d0 = List.length (unwrap_fields fs) ->
  fill_struct fs strict cols row d0 = (d, Ok tt) ->
  by_name_ok fs cols row (alloc_dest (unwrap_fields fs) d0) d = true.
Proof.
  intros Hat Hndt Hndc Hlen Hd0 H.
  apply fill_struct_ok in H as [ts [Ha Hs]].
  destruct (assign_tagged fs cols strict Hat) as [m [Hm Hassign]]. rewrite Hassign in Ha.
  destruct (strict && Nat.ltb (List.length cols) (List.length (unwrap_fields fs))); [discriminate|].
  inversion Ha; subst ts. unfold scan in Hs. rewrite map_length, Hlen, Nat.eqb_refl in Hs.
  rewrite scan_cols_tc in Hs.
  destruct (scan_tc_nth _ _ _ _ Hs (leaf_idxs_nodup fs m Hm cols row Hndc)
              (alloc_dest_length _ _ Hd0)) as [_ [U W]].
  unfold by_name_ok. apply forallb_forall. intros [[t i] k] Hin. unfold by_name_field_ok.
  pose proof (tagged_map_named fs 0 [] m Hm Hndt t i k Hin) as Hlook.
  destruct (named_fields_kind fs 0 t i k Hin) as [_ [p Hk]]. rewrite Nat.sub_0_r in Hk.
  assert (Hlt : look m t = TLeaf i) by (unfold look; rewrite Hlook; reflexivity).
  destruct (find_col t cols) as [j|] eqn:Ef.
  - apply find_col_some in Ef.
    assert (Hj : j < List.length row). { rewrite <- Hlen. apply nth_error_Some. congruence. }
    destruct (nth_error row j) as [c|] eqn:Er; [|apply nth_error_None in Er; lia].
    assert (Hin' : In (TLeaf i, c) (combine (map (look m) cols) row)).
    { rewrite <- Hlt. eapply in_combine_nth; [|exact Er]. rewrite nth_error_map, Ef. reflexivity. }
    destruct (W i c Hin') as [pk [v [Hpk [Hc Hv]]]]. rewrite Hk in Hpk. inversion Hpk; subst pk. simpl in Hc.
    rewrite Hc, Hv. simpl. apply oval_eqb_refl.
  - apply find_col_none in Ef. rewrite U; [apply oval_eqb_refl|].
    intro Hi. apply leaf_idxs_cols in Hi as [c' [Hc' Hl]].
    rewrite (look_inj fs m Hm c' t i Hl Hlt) in Hc'. contradiction.
Qed.

(* permuting (column, value) pairs of a row leaves a successfully filled destination unchanged *)
Lemma by_name_perm_invariant fs strict cols row cols' row' d0 d :
  all_tagged fs = true -> NoDup cols ->
  List.length cols = List.length row -> List.length cols' = List.length row' ->
  Permutation (combine cols row) (combine cols' row') ->
  fill_struct fs strict cols row d0 = (d, Ok tt) ->
  fill_struct fs strict cols' row' d0 = (d, Ok tt).
Proof.
  intros Hat Hndc Hlen Hlen' HP H.
  assert (Hl : List.length cols' = List.length cols).
  { apply Permutation_length in HP. rewrite !combine_length in HP. lia. }
  apply fill_struct_ok in H as [ts [Ha Hs]].
  destruct (assign_tagged fs cols strict Hat) as [m [Hm Hassign]]. rewrite Hassign in Ha.
  destruct (assign_tagged fs cols' strict Hat) as [m' [Hm' Hassign']]. rewrite Hm in Hm'. inversion Hm'; subst m'.
  unfold fill_struct. rewrite Hassign', Hl.
  destruct (strict && Nat.ltb (List.length cols) (List.length (unwrap_fields fs))); [discriminate|].
  inversion Ha; subst ts. unfold scan in *. rewrite map_length in *. rewrite Hlen, Nat.eqb_refl in Hs. rewrite Hlen', Nat.eqb_refl.
  rewrite scan_cols_tc in *.
  assert (HP' : Permutation (combine (map (look m) cols) row) (combine (map (look m) cols') row')).
  { rewrite !combine_map_l. apply Permutation_map. exact HP. }
  rewrite (scan_tc_perm _ _ _ HP' (leaf_idxs_nodup fs m Hm cols row Hndc) _ _ Hs). reflexivity.
Qed.

(* ---- by position ---- *)
Lemma leaf_idxs_seq : forall n s (row : list cell), List.length row = n ->
  leaf_idxs (combine (map TLeaf (seq s n)) row) = seq s n.
Proof.
  induction n as [|n IH]; intros s [|c row] H; simpl in *; try discriminate; [reflexivity|].
  unfold leaf_idxs. simpl. f_equal. apply IH. lia.
Qed.

Lemma in_combine_seq : forall n s (row : list cell) j c, List.length row = n -> nth_error row j = Some c ->
  In (TLeaf (s + j), c) (combine (map TLeaf (seq s n)) row).
Proof.
  induction n as [|n IH]; intros s [|c0 row] [|j] c H Hj; simpl in *; try discriminate.
  - inversion Hj; subst. rewrite Nat.add_0_r. auto.
  - right. replace (s + S j) with (S s + j) by lia. apply IH; [lia|exact Hj].
Qed.

Lemma by_pos_from_pointwise : forall lvs i row d1 d,
  (forall j c, nth_error row j = Some c ->
     exists pk v, nth_error lvs j = Some pk /\ conv (snd pk) c None = (v, true) /\ nth (i + j) d None = v) ->
  (forall j, List.length row <= j -> j < List.length lvs -> nth (i + j) d None = nth (i + j) d1 None) ->
  by_pos_ok i lvs row d1 d = true.
Proof.
  induction lvs as [|pk lvs IH]; intros i row d1 d H1 H2; [reflexivity|].
  destruct row as [|c row]; cbn [by_pos_ok].
  - rewrite <- (Nat.add_0_r i) at 1 2. rewrite H2 by (simpl; lia). rewrite oval_eqb_refl. simpl.
    apply IH.
    + intros j c Hj. destruct j; discriminate.
    + intros j _ Hj. replace (S i + j) with (i + S j) by lia. apply H2; simpl; lia.
  - destruct (H1 0 c eq_refl) as [pk' [v [Hpk [Hc Hv]]]]. simpl in Hpk. inversion Hpk; subst pk'.
    rewrite Hc. rewrite Nat.add_0_r in Hv. rewrite Hv, oval_eqb_refl. simpl.
    apply IH.
    + intros j c' Hj. destruct (H1 (S j) c' Hj) as [pk' [v' [Hpk' [Hc' Hv']]]].
      exists pk', v'. simpl in Hpk'. replace (S i + j) with (i + S j) by lia. auto.
    + intros j Hj1 Hj2. replace (S i + j) with (i + S j) by lia. apply H2; simpl; lia.
Qed.

Lemma by_position_refines fs strict cols row d0 d :
  all_tagged fs = false ->
  List.length cols <= List.length (unwrap_fields fs) ->
  List.length cols = List.length row -> List.length d0 = List.length (unwrap_fields fs) ->
  fill_struct fs strict cols row d0 = (d, Ok tt) ->
  by_pos_ok 0 (unwrap_fields fs) row (alloc_dest (unwrap_fields fs) d0) d = true.
Proof.
  intros Hat Hle Hlen Hd0 H.
  apply fill_struct_ok in H as [ts [Ha Hs]]. rewrite (assign_untagged fs cols strict Hat) in Ha.
  destruct (strict && Nat.ltb (List.length cols) (List.length (unwrap_fields fs))); [discriminate|].
  destruct (Nat.ltb (List.length (unwrap_fields fs)) (List.length cols)) eqn:E; [discriminate|].
  inversion Ha; subst ts. unfold scan in Hs. rewrite map_length, seq_length, Hlen, Nat.eqb_refl in Hs.
  rewrite scan_cols_tc in Hs.
  assert (Hnd : NoDup (leaf_idxs (combine (map TLeaf (seq 0 (List.length row))) row))).
  { rewrite leaf_idxs_seq by reflexivity. apply seq_NoDup. }
  destruct (scan_tc_nth _ _ _ _ Hs Hnd (alloc_dest_length _ _ Hd0)) as [_ [U W]].
  apply by_pos_from_pointwise.
  - intros j c Hj. apply (in_combine_seq (List.length row) 0 row j c eq_refl) in Hj.
    destruct (W _ _ Hj) as [pk [v [Hpk [Hc Hv]]]]. exists pk, v. auto.
  - intros j Hj1 Hj2. apply U. rewrite leaf_idxs_seq by reflexivity. rewrite in_seq. simpl. lia.
Qed.

(* ---- strict mode, empty results, the panic observation ---- *)
Lemma assign_strict_short fs cols : List.length cols < List.length (unwrap_fields fs) -> assign fs cols true = Err ENotMatch.
Proof. intro H. unfold assign. apply Nat.ltb_lt in H. rewrite H. reflexivity. Qed.

Lemma blank_alloc_init : forall lv, blank lv (alloc_dest lv (init_dest lv)) = true.
Proof.
  intro lv. unfold blank. rewrite alloc_dest_length by (unfold init_dest; apply map_length). rewrite Nat.eqb_refl. simpl.
  induction lv as [|[p k] lv IH]; [reflexivity|]. simpl. destruct p; simpl; rewrite lval_eqb_refl; exact IH.
Qed.

Lemma strict_short_row fs cols row rows d0 : List.length cols < List.length (unwrap_fields fs) ->
  unmarshal_row (DElem (EStruct fs)) true cols (row :: rows) d0 = (alloc_dest (unwrap_fields fs) d0, Err ENotMatch).
Proof. intro H. simpl. unfold fill_struct. rewrite (assign_strict_short _ _ H). reflexivity. Qed.

Lemma strict_short_rows fs p cols row rows acc : List.length cols < List.length (unwrap_fields fs) ->
  unmarshal_rows (DSlice p (EStruct fs)) true cols (row :: rows) acc = (acc, Err ENotMatch).
Proof. intro H. simpl. unfold fill_struct. rewrite (assign_strict_short _ _ H). reflexivity. Qed.

Lemma untagged_overflow fs cols strict : all_tagged fs = false ->
  List.length (unwrap_fields fs) < List.length cols -> assign fs cols strict = Panic.
Proof.
  intros Hat H. rewrite (assign_untagged _ _ _ Hat).
  replace (Nat.ltb (List.length cols) (List.length (unwrap_fields fs))) with false by (symmetry; apply Nat.ltb_ge; lia).
  rewrite andb_false_r. apply Nat.ltb_lt in H. rewrite H. reflexivity.
Qed.

Lemma by_name_perm_iff fs strict cols row cols' row' d0 d :
  all_tagged fs = true -> NoDup cols ->
  List.length cols = List.length row -> List.length cols' = List.length row' ->
  Permutation (combine cols row) (combine cols' row') ->
  (fill_struct fs strict cols row d0 = (d, Ok tt) <-> fill_struct fs strict cols' row' d0 = (d, Ok tt)).
Proof.
  intros Hat Hnd Hl Hl' HP. split.
  - apply by_name_perm_invariant; assumption.
  - apply by_name_perm_invariant; try assumption; [|apply Permutation_sym; exact HP].
    rewrite <- (map_fst_combine cols' row' Hl'). eapply Permutation_NoDup.
    + apply Permutation_map. exact HP.
    + rewrite (map_fst_combine cols row Hl). exact Hnd.
Qed.

(* unmarshalRows: a nil result means every row was filled on its own and appended in order *)
Lemma rows_loop_ok fill : forall rows acc ds, rows_loop fill rows acc = (ds, Ok tt) ->
  ds = acc ++ map (fun row => fst (fill row)) rows /\ forall row, In row rows -> snd (fill row) = Ok tt.
Proof.
  induction rows as [|row rows IH]; intros acc ds H; simpl in H.
  - inversion H; subst. split; [rewrite app_nil_r; reflexivity|intros ? []].
  - destruct (fill row) as [d st] eqn:E. destruct st as [[]|e|]; try (inversion H; fail).
    apply IH in H as [H1 H2]. split.
    + rewrite H1, <- app_assoc. simpl. rewrite E. reflexivity.
    + intros r [<-|Hin]; [rewrite E; reflexivity|apply H2; exact Hin].
Qed.

(* ---- a row that can be copied is copied (no spurious error) ---- *)
Lemma conv_snd_indep k c o1 o2 : snd (conv k c o1) = snd (conv k c o2).
Proof. destruct k, c; reflexivity. Qed.

Definition tc_ok (lv : list (bool * kind)) (tc : target * cell) : Prop :=
  match fst tc with
  | TDiscard => True
  | TOpaque => False
  | TLeaf i => exists pk, nth_error lv i = Some pk /\ snd (conv (snd pk) (snd tc) None) = true
  end.

Lemma scan_tc_succeeds lv : forall l d, Forall (tc_ok lv) l -> exists d', scan_tc lv l d = (d', true).
Proof.
  induction l as [|[t c] l IH]; intros d H; [exists d; reflexivity|].
  inversion H as [|? ? H1 H2]; subst. unfold tc_ok in H1. cbn [fst snd] in H1. cbn [scan_tc].
  destruct t as [i| |]; [|contradiction|].
  - destruct H1 as [pk [Hpk Hc]]. cbn [scan_one]. rewrite Hpk.
    destruct (conv (snd pk) c (nth i d None)) as [v ok] eqn:E.
    assert (ok = true). { rewrite (conv_snd_indep _ _ None (nth i d None)) in Hc. rewrite E in Hc. exact Hc. }
    subst ok. apply IH. exact H2.
  - cbn [scan_one]. apply IH. exact H2.
Qed.

Lemma by_pos_copyable_tc lv : forall row lvs s, by_pos_copyable lvs row = true ->
  (forall j pk, nth_error lvs j = Some pk -> nth_error lv (s + j) = Some pk) ->
  Forall (tc_ok lv) (combine (map TLeaf (seq s (List.length row))) row).
Proof.
  induction row as [|x row IH]; intros lvs s H Hn; [constructor|].
  destruct lvs as [|pk lvs]; [discriminate|]. cbn [by_pos_copyable] in H. apply andb_true_iff in H as [H1 H2].
  simpl. constructor.
  - unfold tc_ok. cbn [fst snd]. exists pk. split; [|exact H1]. rewrite <- (Nat.add_0_r s). apply Hn. reflexivity.
  - apply (IH lvs (S s) H2). intros j pk' Hj. replace (S s + j) with (s + S j) by lia. apply Hn. exact Hj.
Qed.

Lemma by_position_succeeds fs strict cols row d0 :
  all_tagged fs = false -> List.length cols <= List.length (unwrap_fields fs) ->
  List.length cols = List.length row ->
  (strict = true -> List.length (unwrap_fields fs) <= List.length cols) ->
  by_pos_copyable (unwrap_fields fs) row = true ->
  exists d, fill_struct fs strict cols row d0 = (d, Ok tt).
Proof.
  intros Hat Hle Hlen Hs Hc. unfold fill_struct. rewrite (assign_untagged _ _ _ Hat).
  replace (strict && Nat.ltb (List.length cols) (List.length (unwrap_fields fs))) with false.
  2:{ destruct strict; [|reflexivity]. simpl. symmetry. apply Nat.ltb_ge. auto. }
  replace (Nat.ltb (List.length (unwrap_fields fs)) (List.length cols)) with false by (symmetry; apply Nat.ltb_ge; exact Hle).
  unfold scan. rewrite map_length, seq_length, Hlen, Nat.eqb_refl, scan_cols_tc.
  destruct (scan_tc_succeeds (unwrap_fields fs) _ (alloc_dest (unwrap_fields fs) d0)
              (by_pos_copyable_tc (unwrap_fields fs) row (unwrap_fields fs) 0 Hc (fun j pk H => H))) as [d' Hd].
  rewrite Hd. exists d'. reflexivity.
Qed.

Lemma field_named_none : forall fs t, field_named t fs = None -> ~ In t (map tag_name fs).
Proof.
  induction fs as [|f fs IH]; simpl; intros t H; [tauto|].
  destruct (String.eqb_spec t (tag_name f)); [discriminate|]. intros [E|Hin]; [congruence|]. eapply IH; eauto.
Qed.

Lemma field_named_leaf : forall fs off t tag p k, field_named t fs = Some (FLeaf tag p k) ->
  exists i, In (t, i, k) (named_fields off fs).
Proof.
  induction fs as [|f fs IH]; simpl; intros off t tag p k H; [discriminate|].
  destruct (String.eqb_spec t (tag_name f)).
  - inversion H; subst. simpl. exists off. left. reflexivity.
  - destruct f as [tag0 p0 k0|tag0 p0 sub]; cbn [named_fields].
    + destruct (IH (S off) _ _ _ _ H) as [i Hi]. exists i. right. exact Hi.
    + apply IH with (off := off + List.length (unwrap_field false (FEmb tag0 p0 sub))) in H. exact H.
Qed.

Lemma by_name_copyable_tc fs m : tagged_map 0 fs [] = Some m -> NoDup (map tag_name fs) ->
  forall cols row, by_name_copyable fs cols row = true ->
  Forall (tc_ok (unwrap_fields fs)) (combine (map (look m) cols) row).
Proof.
  intros Hm Hnd. induction cols as [|c cols IH]; intros [|x row] H; simpl; try constructor.
  - cbn [by_name_copyable] in H. apply andb_true_iff in H as [H1 _].
    unfold tc_ok. cbn [fst snd]. destruct (field_named c fs) as [[tag p k|tag p sub]|] eqn:E.
    + destruct (field_named_leaf fs 0 _ _ _ _ E) as [i Hi].
      pose proof (tagged_map_named fs 0 [] m Hm Hnd c i k Hi) as Hl.
      destruct (named_fields_kind fs 0 c i k Hi) as [_ [q Hq]]. rewrite Nat.sub_0_r in Hq.
      unfold look. rewrite Hl. exists (q, k). split; [exact Hq|exact H1].
    + discriminate.
    + apply field_named_none in E. unfold look. rewrite (tagged_map_other fs 0 [] m c Hm E). simpl. exact I.
  - cbn [by_name_copyable] in H. apply andb_true_iff in H as [_ H2]. apply IH. exact H2.
Qed.

Lemma by_name_succeeds fs strict cols row d0 :
  all_tagged fs = true -> NoDup (map tag_name fs) ->
  List.length cols = List.length row ->
  (strict = true -> List.length (unwrap_fields fs) <= List.length cols) ->
  by_name_copyable fs cols row = true ->
  exists d, fill_struct fs strict cols row d0 = (d, Ok tt).
Proof.
  intros Hat Hnd Hlen Hs Hc. unfold fill_struct.
  destruct (assign_tagged fs cols strict Hat) as [m [Hm Ha]]. rewrite Ha.
  replace (strict && Nat.ltb (List.length cols) (List.length (unwrap_fields fs))) with false.
  2:{ destruct strict; [|reflexivity]. simpl. symmetry. apply Nat.ltb_ge. auto. }
  unfold scan. rewrite map_length, Hlen, Nat.eqb_refl, scan_cols_tc.
  destruct (scan_tc_succeeds (unwrap_fields fs) _ (alloc_dest (unwrap_fields fs) d0)
              (by_name_copyable_tc fs m Hm Hnd cols row Hc)) as [d' Hd].
  rewrite Hd. exists d'. reflexivity.
Qed.

(* ---- strict mode with exactly matching arity leaves no field blank (untagged AND mixed tagging) ---- *)
Lemma dec_nonempty z : z <> 0%Z -> dec z <> EmptyString.
Proof.
  intro Hz. unfold dec. destruct z as [|p|p]; [contradiction| |]; simpl.
  - destruct (Pos.to_uint p) eqn:E; simpl; discriminate.
  - discriminate.
Qed.

Lemma conv_nonzero k c v : conv k c None = (v, true) -> cell_nonzero c = true -> nonblank k v = true.
Proof.
  destruct k, c; simpl; intros H Hn; inversion H; subst; simpl; try discriminate; try exact Hn; try reflexivity.
  all: apply negb_true_iff in Hn; apply Z.eqb_neq in Hn; apply dec_nonempty in Hn;
    apply negb_true_iff; destruct (String.eqb_spec (dec z) ""); [contradiction|reflexivity].
Qed.

Lemma by_pos_filled : forall lv i row d1 d, by_pos_ok i lv row d1 d = true ->
  List.length row = List.length lv -> forallb cell_nonzero row = true -> filled_from i lv d = true.
Proof.
  induction lv as [|pk lv IH]; intros i row d1 d H Hl Hn; [reflexivity|].
  destruct row as [|c row]; [discriminate|]. cbn [by_pos_ok] in H. cbn [filled_from forallb] in *.
  apply andb_true_iff in H as [H1 H2]. apply andb_true_iff in Hn as [Hc Hn].
  destruct (conv (snd pk) c None) as [v ok] eqn:E. apply andb_true_iff in H1 as [Hok Hv]. subst ok.
  apply andb_true_iff. split; [|eapply IH; eauto].
  pose proof (conv_nonzero _ _ _ E Hc) as Hnb.
  destruct (nth i d None) as [x|], v as [y|]; simpl in Hv, Hnb |- *; try discriminate.
  assert (x = y).
  { destruct x, y; simpl in Hv; try discriminate; try reflexivity.
    - apply Z.eqb_eq in Hv. congruence.
    - apply String.eqb_eq in Hv. congruence.
    - apply andb_true_iff in Hv as [Hb Hz]. apply Bool.eqb_prop in Hb. apply Z.eqb_eq in Hz. congruence. }
  subst. exact Hnb.
Qed.

Lemma strict_exact_fills fs cols row d0 d :
  all_tagged fs = false -> List.length cols = List.length (unwrap_fields fs) ->
  List.length cols = List.length row -> List.length d0 = List.length (unwrap_fields fs) ->
  forallb cell_nonzero row = true ->
  fill_struct fs true cols row d0 = (d, Ok tt) ->
  filled_from 0 (unwrap_fields fs) d = true.
Proof.
  intros Hat Hnc Hl Hd Hn H.
  apply (by_pos_filled (unwrap_fields fs) 0 row (alloc_dest (unwrap_fields fs) d0) d); [|lia|exact Hn].
  eapply by_position_refines; try eassumption. lia.
Qed.

(* ---- the context handed to TransactCtx ---- *)
Definition ctx_harmless (cx : ctxstate) (bound : bool) : Prop :=
  bound = false \/ cx = CLive \/ exists k, cx = CDoneAfterBody k.

Lemma body_under_ctx_id cx bound b : ctx_harmless cx bound -> body_under_ctx cx bound b = b.
Proof.
  intro H. unfold body_under_ctx. destruct b as [ss fin]. simpl. f_equal.
  assert (Hs : forall s, stmt_under_ctx cx bound s = s).
  { intro s. unfold stmt_under_ctx. destruct H as [->|[->|[k ->]]]; [destruct cx|..]; reflexivity. }
  induction ss as [|s ss IH]; simpl; [reflexivity|]. rewrite Hs, IH. reflexivity.
Qed.

Lemma ctx_end_keeps_outcome sw adm cx bound f b : ctx_harmless cx bound ->
  transact_ctx_with sw adm cx bound f b = transact_ctx sw adm f b /\
  cached_transact_ctx_with sw adm cx bound f b = transact_ctx sw adm f b.
Proof.
  intro H. unfold transact_ctx_with, cached_transact_ctx_with, cached_transact_ctx. rewrite (body_under_ctx_id _ _ _ H). split; reflexivity.
Qed.

Lemma ctx_done_body_nil_commits sw cx bound f b : ctx_harmless cx bound ->
  f_begin f = false -> fst (run_body sw b) = ONil ->
  fst (transact_ctx_with sw true cx bound f b) = (if f_commit f then Some (e_commit f) else None) /\
  terminals (snd (transact_ctx_with sw true cx bound f b)) = [Commit (negb (f_commit f))].
Proof.
  intros H Hb Ho. destruct (ctx_end_keeps_outcome sw true cx bound f b H) as [E _]. rewrite E.
  unfold transact_ctx. pose proof (transact_ends sw f b Hb) as He.
  pose proof (ends_with_terminals _ _ He (terminal_of_is_terminal _ _)) as Ht.
  rewrite (transact_table sw f b Hb) in *. rewrite Ho in *. simpl in *. split; [reflexivity|exact Ht].
Qed.

(* ---- the breaker never trips on acceptable outcomes ---- *)
Lemma brk_all_accepted_no_reject s : bk_accepts s = bk_total s -> brk_may_reject s = false.
Proof. intro H. unfold brk_may_reject. rewrite H. apply Z.ltb_ge. lia. Qed.

Lemma run_stream_never_rejects : forall owns s,
  forallb query_marks_success owns = true -> bk_accepts s = bk_total s ->
  forallb negb (fst (run_stream s owns)) = true /\
  bk_accepts (snd (run_stream s owns)) = bk_total (snd (run_stream s owns)) /\
  bk_total (snd (run_stream s owns)) = bk_total s + List.length owns.
Proof.
  induction owns as [|own r IH]; intros s Hall Hs; simpl.
  - repeat split; auto.
  - simpl in Hall. apply andb_true_iff in Hall as [H1 H2]. rewrite H1.
    assert (Hs' : bk_accepts (brk_mark true s) = bk_total (brk_mark true s)) by (simpl; lia).
    destruct (IH (brk_mark true s) H2 Hs') as [A [B C]].
    destruct (run_stream (brk_mark true s) r) as [l s'] eqn:E. simpl in *.
    rewrite (brk_all_accepted_no_reject s Hs). simpl. repeat split; auto. lia.
Qed.
