(* C11 Spec: what the property allows, as two small tables.
   (1) transaction outcome table over (begin fault, body outcome, commit fault, rollback fault);
   (2) which column feeds which destination field (by tag name / by position), independent of the
       order of the columns.
   Vocabulary (err, call, body scripts, field shapes, cells, database/sql's `conv`) comes from Model. *)
From God Require Import Base.Prelude C11.Model.
From Coq Require Import Strings.String.
Local Open Scope string_scope.
Local Open Scope list_scope.

(* ------------------------------------------------------------ decidable equalities *)
Definition fkind_eqb (a b : fkind) : bool :=
  match a, b with
  | KBadConn, KBadConn | KConnDone, KConnDone | KTxDone, KTxDone | KCanceled, KCanceled | KDeadline, KDeadline
  | KNoRows, KNoRows => true
  | _, _ => false
  end.
Fixpoint err_eqb (a b : err) : bool :=
  match a, b with
  | EKind k, EKind k' => fkind_eqb k k'
  | EBegin, EBegin | ECommit, ECommit | ERollback, ERollback | EUnavailable, EUnavailable | EOther, EOther => true
  | EExec i, EExec j | EBody i, EBody j | EPanic i, EPanic j => Nat.eqb i j
  | EJoin e r, EJoin e' r' => err_eqb e e' && err_eqb r r'
  | EPanicJoin p r, EPanicJoin p' r' => Nat.eqb p p' && err_eqb r r'
  | _, _ => false
  end.
Definition call_eqb (a b : call) : bool :=
  match a, b with
  | Begin x, Begin y | Commit x, Commit y | Rollback x, Rollback y => Bool.eqb x y
  | Exec i x, Exec j y => Nat.eqb i j && Bool.eqb x y
  | _, _ => false
  end.
Definition lval_eqb (a b : lval) : bool :=
  match a, b with
  | LInt x, LInt y => Z.eqb x y
  | LStr x, LStr y => String.eqb x y
  | LNInt v x, LNInt w y => Bool.eqb v w && Z.eqb x y
  | LOpaque, LOpaque => true
  | _, _ => false
  end.
Definition status_eqb (a b : result unit) : bool :=
  match a, b with
  | Ok _, Ok _ => true
  | Err x, Err y => Nat.eqb x y
  | Panic, Panic => true
  | _, _ => false
  end.

(* ------------------------------------------------------------ (1) transactions *)
Definition is_terminal (c : call) : bool := match c with Commit _ | Rollback _ => true | _ => false end.
Definition terminals (cs : list call) : list call := filter is_terminal cs.

(* what the body does when every failing statement reports its error to the body (the presupposition
   of "returns the function's error"): the statements it issues (Model.stmt_calls: one driver call each, database/sql's
   three attempts for a prepared statement on a bad connection) and how it ends - independent of the
   logging switches *)
Fixpoint spec_stmts (i : nat) (ss : list stmt) (final : outcome) : outcome * list call :=
  match ss with
  | [] => (final, [])
  | s :: r =>
      if s_fail s then
        match s_react s with
        | RReturn => (OErr (err_at (EExec i) (s_fault s)), stmt_calls i s)
        | RPanic p => (OPanic p, stmt_calls i s)
        | RIgnore => let (o, cs) := spec_stmts (S i) r final in (o, stmt_calls i s ++ cs)
        end
      else let (o, cs) := spec_stmts (S i) r final in (o, stmt_calls i s ++ cs)
  end.
Definition spec_body (b : body) : outcome * list call := spec_stmts 0 (b_stmts b) (b_final b).

(* failed Begin attempts (database/sql retries a bad connection) come first *)
Fixpoint strip_begin_fails (cs : list call) : list call :=
  match cs with Begin false :: r => strip_begin_fails r | _ => cs end.

(* Observed: result `res`, driver calls `calls`, a panic that escaped Transact (`escaped`), how many
   times the body was entered (`runs`). With begun := "a Begin succeeded":
   not begun        : only failed Begin attempts, body never entered, result non-nil
   begun            : exactly one successful Begin, the body is entered exactly ONCE, and
   body returns nil : ... Commit, nothing after; result = the commit's own error (nil if none)
   body returns e   : ... Rollback, nothing after; result = e (or e joined with the rollback's error
                      when the rollback itself failed)
   body panics p    : ... Rollback, nothing after; result non-nil or the panic p reaches the caller *)
Definition tx_allowed (f : faults) (b : body) (res : option err) (calls : list call) (escaped : option nat)
           (runs : nat) : bool :=
  let (o, execs) := spec_body b in
  if f_begin f then
    match strip_begin_fails calls, res, escaped, runs with [], Some _, None, O => true | _, _, _, _ => false end
  else
    Nat.eqb runs 1 &&
    match o with
    | ONil =>
        list_eqb call_eqb (strip_begin_fails calls) (Begin true :: execs ++ [Commit (negb (f_commit f))]) &&
        option_eqb err_eqb res (if f_commit f then Some (e_commit f) else None) &&
        match escaped with None => true | _ => false end
    | OErr e =>
        list_eqb call_eqb (strip_begin_fails calls) (Begin true :: execs ++ [Rollback (negb (f_rollback f))]) &&
        (option_eqb err_eqb res (Some e) || (f_rollback f && option_eqb err_eqb res (Some (EJoin e (e_rollback f))))) &&
        match escaped with None => true | _ => false end
    | OPanic p =>
        list_eqb call_eqb (strip_begin_fails calls) (Begin true :: execs ++ [Rollback (negb (f_rollback f))]) &&
        match escaped, res with
        | Some q, _ => Nat.eqb p q
        | None, Some _ => true
        | None, None => false
        end
    end.

(* every statement that reached the driver: the body saw a non-nil error iff its (last) driver answer was
   an error (seen: per issued statement, did the body get an error), whatever the log switches *)
Fixpoint stmt_results (cs : list call) : list (nat * bool) :=
  match cs with
  | [] => []
  | Exec i ok :: r =>
      match stmt_results r with
      | (j, ok') :: t => if Nat.eqb i j then (j, ok') :: t else (i, ok) :: (j, ok') :: t
      | [] => [(i, ok)]
      end
  | _ :: r => stmt_results r
  end.
Definition seen_ok (calls : list call) (seen : list bool) : bool :=
  forallb (fun p : nat * bool => match nth_error seen (fst p) with
                                 | Some saw => Bool.eqb saw (negb (snd p))
                                 | None => false
                                 end) (stmt_results calls).

(* ------------------------------------------------------------ (2) rows -> destination *)
Definition tag_name (f : field) : string :=
  match f with FLeaf t _ _ | FEmb t _ _ => parse_tag_name t end.

(* top-level non-struct fields: (tag name, index among the flattened fields, type) *)
Fixpoint named_fields (off : nat) (fs : list field) : list (string * nat * kind) :=
  match fs with
  | [] => []
  | FLeaf tag _ k :: r => (parse_tag_name tag, off, k) :: named_fields (S off) r
  | FEmb tag p sub :: r => named_fields (off + List.length (unwrap_field false (FEmb tag p sub))) r
  end.

Definition all_tagged (fs : list field) : bool :=
  match fs with [] => false | _ => forallb (fun f => negb (String.eqb (tag_name f) "")) fs end.

(* no `db` tag anywhere, embedded structs included *)
Fixpoint untagged_field (f : field) : bool :=
  match f with
  | FLeaf t _ _ => String.eqb t ""
  | FEmb t _ sub => String.eqb t "" && (fix go (l : list field) := match l with [] => true | x :: r => untagged_field x && go r end) sub
  end.
Definition untagged (fs : list field) : bool := forallb untagged_field fs.

Fixpoint nodup_s (l : list string) : bool :=
  match l with [] => true | a :: r => negb (existsb (String.eqb a) r) && nodup_s r end.

Fixpoint find_col (name : string) (cols : list string) : option nat :=
  match cols with
  | [] => None
  | c :: r => if String.eqb name c then Some 0 else option_map S (find_col name r)
  end.

Definition oval_eqb := option_eqb lval_eqb.

(* field (t, i, k) of a successfully filled struct value d (d1 = the value before the scan, pointers
   allocated): it holds the converted cell of the column called t; without such a column it is untouched *)
Definition by_name_field_ok (cols : list string) (row : list cell) (d1 d : dst) (tik : string * nat * kind) : bool :=
  let '(t, i, k) := tik in
  match find_col t cols with
  | Some j =>
      match nth_error row j with
      | Some c => let (v, ok) := conv k c None in ok && oval_eqb (nth i d None) v
      | None => false
      end
  | None => oval_eqb (nth i d None) (nth i d1 None)
  end.

Definition by_name_ok (fs : list field) (cols : list string) (row : list cell) (d1 d : dst) : bool :=
  forallb (by_name_field_ok cols row d1 d) (named_fields 0 fs).

(* by position: flattened field i holds the converted i-th cell, fields beyond the columns are untouched *)
Fixpoint by_pos_ok (i : nat) (lv : list (bool * kind)) (row : list cell) (d1 d : dst) : bool :=
  match lv with
  | [] => true
  | pk :: lv' =>
      match row with
      | c :: row' => (let (v, ok) := conv (snd pk) c None in ok && oval_eqb (nth i d None) v) && by_pos_ok (S i) lv' row' d1 d
      | [] => oval_eqb (nth i d None) (nth i d1 None) && by_pos_ok (S i) lv' [] d1 d
      end
  end.

(* can the row be copied at all? every column that names a field must name a non-struct field whose type
   accepts the cell (database/sql's conversion); by position: the i-th field accepts the i-th cell *)
Fixpoint field_named (t : string) (fs : list field) : option field :=
  match fs with
  | [] => None
  | f :: r => if String.eqb t (tag_name f) then Some f else field_named t r
  end.

Fixpoint by_name_copyable (fs : list field) (cols : list string) (row : list cell) : bool :=
  match cols, row with
  | c :: cols', x :: row' =>
      match field_named c fs with
      | None => true
      | Some (FLeaf _ _ k) => snd (conv k x None)
      | Some (FEmb _ _ _) => false
      end && by_name_copyable fs cols' row'
  | _, _ => true
  end.

Fixpoint by_pos_copyable (lv : list (bool * kind)) (row : list cell) : bool :=
  match lv, row with
  | pk :: lv', x :: row' => snd (conv (snd pk) x None) && by_pos_copyable lv' row'
  | _, [] => true
  | [], _ :: _ => false
  end.

(* no field silently left zero: every flattened field from index i on holds a non-zero value *)
Definition cell_nonzero (c : cell) : bool :=
  match c with CNull => false | CInt z => negb (Z.eqb z 0) | CStr s => negb (String.eqb s "") end.
Definition nonblank (k : kind) (v : option lval) : bool :=
  match v with Some x => negb (lval_eqb x (zero k)) | None => false end.
Fixpoint filled_from (i : nat) (lv : list (bool * kind)) (d : dst) : bool :=
  match lv with
  | [] => true
  | pk :: lv' => nonblank (snd pk) (nth i d None) && filled_from (S i) lv' d
  end.

(* every column carries the tag name of a top-level non-struct field *)
Definition names_only_fields (fs : list field) (cols : list string) : bool :=
  forallb (fun c => match field_named c fs with Some (FLeaf _ _ _) => true | _ => false end) cols.

(* the property's reading of the method names: XxxPartial forms are the partial (non-strict) ones *)
Definition spec_strict (m : meth) : bool :=
  match m with MQueryRow | MQueryRows => true | MQueryRowPartial | MQueryRowsPartial => false end.

(* nothing copied: every field is nil or zero *)
Definition blank (lv : list (bool * kind)) (d : dst) : bool :=
  Nat.eqb (List.length d) (List.length lv) &&
  forallb (fun pv => match snd pv with None => true | Some v => lval_eqb v (zero (snd (fst pv))) end) (combine lv d).
