(* C11 GenEnv: environment of the GoLite translation of commonConn.acceptable (conn.go).
   Go errors are small integers: 0 = nil, 1 = sql.ErrNoRows, 2 = sql.ErrTxDone,
   3 = context.Canceled, anything else = some other error. A nil function value is 0.
   ext_accept stands for one fixed user-supplied accept function (it accepts error 7). *)
From Coq Require Import ZArith Bool.
Definition go_value := Z.
Definition go_eqb : Z -> Z -> bool := Z.eqb.
Definition go_nil : Z := 0%Z.
Definition sql_ErrNoRows : Z := 1%Z.
Definition sql_ErrTxDone : Z := 2%Z.
Definition context_Canceled : Z := 3%Z.
Definition ext_accept (e : Z) : bool := Z.eqb e 7.
