(* C11 Props: the property theorems, nothing else.
   Part 1 - transactions. `transact_ctx adm f b` is commonConn.TransactCtx: adm = the breaker lets the call through,
   f = which of Begin/Commit/Rollback the SQL driver fails, b = the body script (statements, each
   possibly failing, the body returning / ignoring / panicking on a failure; final outcome nil / error /
   panic). It yields (returned error, calls that reached the driver). All statements hold for EVERY f
   and EVERY b (bodies of any length).
   Part 2 - rows -> destination. `fill_struct fs strict cols row d0` is mapStructFieldsIntoSlice + Scan for
   one struct value (d0 before, flattened), `unmarshal_row` / `unmarshal_rows` the two entry points. *)
From God Require Import Base.Prelude C11.Model C11.Spec C11.Proofs.
From Coq Require Import Strings.String Sorting.Permutation.
Local Open Scope string_scope.
Local Open Scope list_scope.

(* ------------------------------------------------------------------ part 1 *)
(* sw = the sqlx log switches in force (logSQL, logSlowSQL, statement slower than the threshold): every
   statement below holds for ALL of them. Faults carry their KIND (the driver's own error or one of
   driver.ErrBadConn, sql.ErrConnDone, sql.ErrTxDone, context.Canceled, context.DeadlineExceeded);
   database/sql's Begin retry on bad connections is part of the model (begin_calls). *)

(* result = nil <=> the driver calls end with one successful Commit and contain no other Commit/Rollback *)
Theorem c11_nil_iff_commit : forall sw adm f b,
  fst (transact_ctx sw adm f b) = None <->
  exists pre, snd (transact_ctx sw adm f b) = pre ++ [Commit true] /\ terminals pre = [].
Proof. exact nil_iff_commit. Qed.
Print Assumptions c11_nil_iff_commit.

(* a begun transaction gets exactly one of Commit/Rollback, and it is the last call; otherwise none *)
Theorem c11_exactly_one_terminal : forall sw adm f b,
  (In (Begin true) (snd (transact_ctx sw adm f b)) ->
     exists t, is_terminal t = true /\
       (exists pre, snd (transact_ctx sw adm f b) = pre ++ [t] /\ terminals pre = []) /\
       terminals (snd (transact_ctx sw adm f b)) = [t]) /\
  (~ In (Begin true) (snd (transact_ctx sw adm f b)) -> terminals (snd (transact_ctx sw adm f b)) = []).
Proof. exact exactly_one_terminal. Qed.
Print Assumptions c11_exactly_one_terminal.

(* the body is entered exactly once by a transaction that began (whatever database/sql retried before),
   and never otherwise - no fault kind makes Transact run it again *)
Theorem c11_body_runs_once : forall sw adm f b,
  transact_ctx_runs adm f = (if existsb (call_eqb (Begin true)) (snd (transact_ctx sw adm f b)) then 1 else 0) /\
  transact_ctx_runs adm f <= 1.
Proof.
  intros sw adm f b. split; [apply body_runs_once|].
  unfold transact_ctx_runs, transact_runs, runs_on_conn. destruct adm, (f_begin f); lia.
Qed.
Print Assumptions c11_body_runs_once.

(* commits iff the body returns nil, returning the commit's own error; otherwise exactly one Rollback *)
Theorem c11_commit_iff_body_nil : forall sw f b, f_begin f = false ->
  (fst (run_body sw b) = ONil <-> exists ok, In (Commit ok) (snd (transact sw f b))) /\
  (fst (run_body sw b) = ONil -> fst (transact sw f b) = if f_commit f then Some (e_commit f) else None) /\
  (fst (run_body sw b) <> ONil -> exists ok, terminals (snd (transact sw f b)) = [Rollback ok]).
Proof. exact commit_iff_body_nil. Qed.
Print Assumptions c11_commit_iff_body_nil.

(* a panicking body: Rollback called exactly once (last), result non-nil and describing the panic *)
Theorem c11_panic_rolls_back_and_reports : forall sw f b p, f_begin f = false -> fst (run_body sw b) = OPanic p ->
  fst (transact sw f b) <> None /\
  terminals (snd (transact sw f b)) = [Rollback (negb (f_rollback f))] /\
  (exists pre, snd (transact sw f b) = pre ++ [Rollback (negb (f_rollback f))] /\ terminals pre = []) /\
  fst (transact sw f b) = Some (if f_rollback f then EPanicJoin p (e_rollback f) else EPanic p).
Proof. exact panic_rolls_back_and_reports. Qed.
Print Assumptions c11_panic_rolls_back_and_reports.

(* a body error e comes back as e, or as e joined with the rollback's own error when the rollback failed *)
Theorem c11_error_passthrough : forall sw f b e, f_begin f = false -> fst (run_body sw b) = OErr e ->
  (fst (transact sw f b) = Some e \/ (f_rollback f = true /\ fst (transact sw f b) = Some (EJoin e (e_rollback f)))) /\
  (f_rollback f = false -> fst (transact sw f b) = Some e) /\
  terminals (snd (transact sw f b)) = [Rollback (negb (f_rollback f))].
Proof. exact error_passthrough. Qed.
Print Assumptions c11_error_passthrough.

(* Begin fails (after database/sql's retries, if the connection was bad): the begin error comes back,
   only failed Begin attempts reached the driver, the body is never entered *)
Theorem c11_begin_error : forall sw f b, f_begin f = true ->
  transact sw f b = (Some (e_begin f), fst (begin_calls f)) /\
  (forall c, In c (fst (begin_calls f)) -> c = Begin false) /\ transact_runs f = 0.
Proof. exact transact_begin_error. Qed.
Print Assumptions c11_begin_error.

(* a failing Exec / prepared Exec / Query reaches the body as the driver's error under every switch
   setting (stmt.go's guard only logs), so the body script behaves as the Spec presupposes *)
Theorem c11_stmt_error_reaches_body : forall sw,
  (forall op drv, stmt_result sw op drv = drv) /\ (forall b, run_body sw b = spec_body b).
Proof. intro sw. split; [intros; apply stmt_result_transparent|apply run_body_spec]. Qed.
Print Assumptions c11_stmt_error_reaches_body.

(* the breaker either rejects the call before anything reaches the driver or is transparent *)
Theorem c11_breaker_wrapping : forall sw f b,
  transact_ctx sw false f b = (Some EUnavailable, []) /\ transact_ctx sw true f b = transact sw f b.
Proof. intros; split; reflexivity. Qed.
Print Assumptions c11_breaker_wrapping.

(* sqlc.CachedConn.Transact(Ctx) = the sqlx conn's: same result, same driver calls, same body executions *)
Theorem c11_wrapper_transparent : forall sw adm f b,
  cached_transact_ctx sw adm f b = transact_ctx sw adm f b /\
  cached_transact_ctx_runs adm f = transact_ctx_runs adm f.
Proof. exact wrapper_transparent. Qed.
Print Assumptions c11_wrapper_transparent.

(* the ctx handed to TransactCtx (conn level and through sqlc.CachedConn) only reaches the body: unless the
   body itself issues statements with an already finished ctx, a ctx that is cancelled / expired - before
   the call or right after the body's last statement - changes NOTHING: same result, same driver calls *)
Theorem c11_ctx_end_keeps_outcome : forall sw adm cx bound f b,
  (bound = false \/ cx = CLive \/ exists k, cx = CDoneAfterBody k) ->
  transact_ctx_with sw adm cx bound f b = transact_ctx sw adm f b /\
  cached_transact_ctx_with sw adm cx bound f b = transact_ctx sw adm f b.
Proof. exact ctx_end_keeps_outcome. Qed.
Print Assumptions c11_ctx_end_keeps_outcome.

(* in particular a body returning nil under such a ctx COMMITS, and the result is the commit's own error
   (nil when the commit succeeds) - never ctx.Err() *)
Theorem c11_ctx_done_body_nil_commits : forall sw cx bound f b,
  (bound = false \/ cx = CLive \/ exists k, cx = CDoneAfterBody k) ->
  f_begin f = false -> fst (run_body sw b) = ONil ->
  fst (transact_ctx_with sw true cx bound f b) = (if f_commit f then Some (e_commit f) else None) /\
  terminals (snd (transact_ctx_with sw true cx bound f b)) = [Commit (negb (f_commit f))].
Proof. exact ctx_done_body_nil_commits. Qed.
Print Assumptions c11_ctx_done_body_nil_commits.

(* and under EVERY ctx state, also when the body's own statements are refused by database/sql:
   nil result <=> the calls end with the one successful Commit (a non-nil result: exactly one Rollback
   or the failed Commit, by c11_exactly_one_terminal on the same term) *)
Theorem c11_ctx_nil_iff_commit : forall sw adm cx bound f b,
  fst (transact_ctx_with sw adm cx bound f b) = None <->
  exists pre, snd (transact_ctx_with sw adm cx bound f b) = pre ++ [Commit true] /\ terminals pre = [].
Proof. intros. unfold transact_ctx_with. apply nil_iff_commit. Qed.
Print Assumptions c11_ctx_nil_iff_commit.

(* through sqlc.CachedConn.TransactCtx the body's error comes back ITSELF (the very value: err ==
   sqlc.ErrNotFound keeps working for a body that returned it) after exactly one - successful - Rollback *)
Theorem c11_cached_returns_body_error_itself : forall sw f b e,
  f_begin f = false -> f_rollback f = false -> fst (run_body sw b) = OErr e ->
  fst (cached_transact_ctx sw true f b) = Some e /\
  terminals (snd (cached_transact_ctx sw true f b)) = [Rollback true].
Proof.
  intros sw f b e Hb Hr Ho. unfold cached_transact_ctx, transact_ctx.
  destruct (error_passthrough sw f b e Hb Ho) as [_ [H1 H2]]. rewrite Hr in H2. split; [apply H1; exact Hr|exact H2].
Qed.
Print Assumptions c11_cached_returns_body_error_itself.

(* Model refines Spec: what the transcription does is allowed by the outcome table that spec_ok
   evaluates on the observations (which does not mention the switches) *)
Theorem c11_tx_refines_spec : forall sw f b,
  tx_allowed f b (fst (transact sw f b)) (snd (transact sw f b)) None (transact_runs f) = true.
Proof. exact tx_refines. Qed.
Print Assumptions c11_tx_refines_spec.

(* ------------------------------------------------------------------ part 2 *)

(* all top-level fields tagged, distinct tags, distinct column names: after a successful fill every
   top-level non-struct field holds the (converted) cell of the column carrying its tag name, and is
   untouched when there is no such column - whatever the order of the columns (Spec.by_name_ok) *)
Theorem c11_by_name : forall fs strict cols row d0 d,
  all_tagged fs = true -> NoDup (map tag_name fs) -> NoDup cols ->
  List.length cols = List.length row -> List.length d0 = List.length (unwrap_fields fs) ->
  fill_struct fs strict cols row d0 = (d, Ok tt) ->
  by_name_ok fs cols row (alloc_dest (unwrap_fields fs) d0) d = true.
Proof. exact by_name_refines. Qed.
Print Assumptions c11_by_name.

(* permuting (columns, row) together: same success, same destination *)
Theorem c11_by_name_perm_invariant : forall fs strict cols row cols' row' d0 d,
  all_tagged fs = true -> NoDup cols ->
  List.length cols = List.length row -> List.length cols' = List.length row' ->
  Permutation (combine cols row) (combine cols' row') ->
  (fill_struct fs strict cols row d0 = (d, Ok tt) <-> fill_struct fs strict cols' row' d0 = (d, Ok tt)).
Proof. exact by_name_perm_iff. Qed.
Print Assumptions c11_by_name_perm_invariant.

(* not all top-level fields tagged, no more columns than flattened fields (embedded structs flattened,
   pointers allocated): column i goes to flattened field i, later fields are untouched; the column
   names play no role *)
Theorem c11_by_position : forall fs strict cols row d0 d,
  all_tagged fs = false ->
  List.length cols <= List.length (unwrap_fields fs) ->
  List.length cols = List.length row -> List.length d0 = List.length (unwrap_fields fs) ->
  fill_struct fs strict cols row d0 = (d, Ok tt) ->
  assign fs cols strict = Ok (map TLeaf (seq 0 (List.length cols))) /\
  by_pos_ok 0 (unwrap_fields fs) row (alloc_dest (unwrap_fields fs) d0) d = true.
Proof.
  intros fs strict cols row d0 d Hat Hle Hl Hd H. split; [|eapply by_position_refines; eassumption].
  apply fill_struct_ok in H as [ts [Ha _]]. rewrite (assign_untagged _ _ _ Hat) in *.
  destruct (strict && Nat.ltb (List.length cols) (List.length (unwrap_fields fs))); [discriminate|].
  destruct (Nat.ltb (List.length (unwrap_fields fs)) (List.length cols)); [discriminate|reflexivity].
Qed.
Print Assumptions c11_by_position.

(* MIXED tagging (some top-level field untagged - including tagged fields next to an untagged embedded
   struct, and untagged outer fields around a tagged embedded struct) is mapped by position like the
   untagged case (c11_by_position needs only all_tagged fs = false). In strict mode with exactly as many
   columns as flattened fields and a nil result, no field is left zero unless its cell was zero. *)
Theorem c11_strict_exact_fills_every_field : forall fs cols row d0 d,
  all_tagged fs = false -> List.length cols = List.length (unwrap_fields fs) ->
  List.length cols = List.length row -> List.length d0 = List.length (unwrap_fields fs) ->
  forallb cell_nonzero row = true ->
  fill_struct fs true cols row d0 = (d, Ok tt) ->
  filled_from 0 (unwrap_fields fs) d = true.
Proof. exact strict_exact_fills. Qed.
Print Assumptions c11_strict_exact_fills_every_field.

(* no spurious errors: a row whose named columns all fit their fields (by name) / whose first cells fit
   the first fields (by position) IS copied, in partial mode and in strict mode with enough columns *)
Theorem c11_copyable_is_copied : forall fs strict cols row d0,
  List.length cols = List.length row ->
  (strict = true -> List.length (unwrap_fields fs) <= List.length cols) ->
  (all_tagged fs = true -> NoDup (map tag_name fs) -> by_name_copyable fs cols row = true ->
     exists d, fill_struct fs strict cols row d0 = (d, Ok tt)) /\
  (all_tagged fs = false -> List.length cols <= List.length (unwrap_fields fs) ->
     by_pos_copyable (unwrap_fields fs) row = true ->
     exists d, fill_struct fs strict cols row d0 = (d, Ok tt)).
Proof.
  intros fs strict cols row d0 Hl Hs. split.
  - intros Hat Hnd Hc. eapply by_name_succeeds; eassumption.
  - intros Hat Hle Hc. eapply by_position_succeeds; eassumption.
Qed.
Print Assumptions c11_copyable_is_copied.

(* a single-row query on an empty result reports ErrNotFound and leaves the destination alone *)
Theorem c11_not_found_on_empty : forall sh strict cols d0,
  unmarshal_row sh strict cols [] d0 = (d0, Err ENotFound).
Proof. reflexivity. Qed.
Print Assumptions c11_not_found_on_empty.

(* strict mode, fewer columns than (flattened) destination fields: ErrNotMatchDestination, and no cell
   reaches the destination (pointers are allocated, every field keeps its value; a fresh struct stays
   blank; no element is appended to a slice) *)
Theorem c11_strict_short_is_error : forall fs cols row rows,
  List.length cols < List.length (unwrap_fields fs) ->
  (forall d0, unmarshal_row (DElem (EStruct fs)) true cols (row :: rows) d0 =
              (alloc_dest (unwrap_fields fs) d0, Err ENotMatch)) /\
  blank (unwrap_fields fs) (alloc_dest (unwrap_fields fs) (init_dest (unwrap_fields fs))) = true /\
  (forall p acc, unmarshal_rows (DSlice p (EStruct fs)) true cols (row :: rows) acc = (acc, Err ENotMatch)).
Proof.
  intros fs cols row rows H. split; [intro d0; apply strict_short_row; exact H|].
  split; [apply blank_alloc_init|intros p acc; apply strict_short_rows; exact H].
Qed.
Print Assumptions c11_strict_short_is_error.

(* multi-row queries: a nil result means each row was filled on its own (so c11_by_name / c11_by_position
   apply to every element) and the elements were appended in row order *)
Theorem c11_rows_elementwise : forall fs p strict cols rows acc ds,
  unmarshal_rows (DSlice p (EStruct fs)) strict cols rows acc = (ds, Ok tt) ->
  ds = acc ++ map (fun row => fst (fill_struct fs strict cols row (init_dest (unwrap_fields fs)))) rows /\
  forall row, In row rows -> snd (fill_struct fs strict cols row (init_dest (unwrap_fields fs))) = Ok tt.
Proof. intros fs p strict cols rows acc ds H. apply rows_loop_ok in H. exact H. Qed.
Print Assumptions c11_rows_elementwise.

(* observation outside the property's clauses (DESIGN section 7): an untagged destination with MORE
   columns than flattened fields indexes fields[len(fields)] - a panic, in strict and partial mode *)
Theorem c11_untagged_extra_columns_panic : forall fs cols strict,
  all_tagged fs = false -> List.length (unwrap_fields fs) < List.length cols -> assign fs cols strict = Panic.
Proof. exact untagged_overflow. Qed.
Print Assumptions c11_untagged_extra_columns_panic.

(* the mapping is per destination TYPE: in a sequence of queries issued by one process each query is filled
   as if it were alone - by the tags of ITS destination (c11_by_name, c11_by_position apply to it) - whatever
   was queried before, in particular into a different struct type that happens to have the same name *)
Theorem c11_mapping_per_type : forall before q after,
  nth_error (fill_sequence (before ++ q :: after)) (List.length before) = Some (fill_one q) /\
  nth_error (fill_sequence [q]) 0 = Some (fill_one q).
Proof.
  intros before q after. split; [|reflexivity].
  unfold fill_sequence. rewrite map_app. rewrite nth_error_app2 by (rewrite map_length; lia).
  rewrite map_length, Nat.sub_diag. reflexivity.
Qed.
Print Assumptions c11_mapping_per_type.

(* two struct types of one name, tags swapped: each gets its own columns *)
Example c11_same_name_types :
  let t1 := [FLeaf "a" false KInt; FLeaf "b" false KInt] in
  let t2 := [FLeaf "b" false KInt; FLeaf "a" false KInt] in
  map fst (fill_sequence [(t1, true, ["a"; "b"], [CInt 1; CInt 2]); (t2, true, ["a"; "b"], [CInt 1; CInt 2])]) =
  [[Some (LInt 1); Some (LInt 2)]; [Some (LInt 2); Some (LInt 1)]].
Proof. reflexivity. Qed.

(* ------------------------------------------------------------------ entry points *)

(* on every receiver (conn, prepared statement, transaction session) the strict forms pass strict = true
   and the Partial forms strict = false, single-row forms go to unmarshalRow and multi-row forms to
   unmarshalRows: the theorems of part 2 apply verbatim to all 12 (24 with the plain forms) methods *)
Theorem c11_entry_points_strictness : forall r m, strict_flag r m = spec_strict m.
Proof. intros [] []; reflexivity. Qed.
Print Assumptions c11_entry_points_strictness.

(* a query issued as the body of Transact: nil => [Begin; Commit] and nil; an error (e.g. ErrNotFound,
   ErrNotMatchDestination, a Scan error) => [Begin; Rollback] and that very error; a panic (the
   untagged-overflow observation) => [Begin; Rollback] and a non-nil error *)
Theorem c11_query_in_transaction : forall st,
  transact default_switches no_faults (body_of_query st) =
  match st with
  | Ok _ => (None, [Begin true; Commit true])
  | Err n => (Some (EBody n), [Begin true; Rollback true])
  | Panic => (Some (EPanic 0), [Begin true; Rollback true])
  end.
Proof. intros [[]|n|]; reflexivity. Qed.
Print Assumptions c11_query_in_transaction.

(* a result set that fails on its first Next is NOT an empty result: the driver's error comes back (whatever it
   is), ErrNotFound only for a clean empty result; the destination is untouched either way. Issued as the body
   of Transact, the failing query rolls the transaction back and its error reaches the caller. *)
Theorem c11_failing_result_is_not_not_found : forall e d,
  unmarshal_row_no_next (Some e) d = (d, Err e) /\
  unmarshal_row_no_next None d = (d, Err ENotFound) /\
  (forall sh strict cols, unmarshal_row sh strict cols [] d = unmarshal_row_no_next None d) /\
  transact default_switches no_faults (body_of_query (Err e)) = (Some (EBody e), [Begin true; Rollback true]).
Proof. intros e d. repeat split. Qed.
Print Assumptions c11_failing_result_is_not_not_found.

(* ------------------------------------------------------------------ the breaker around conn queries *)

(* ErrNotFound stays ErrNotFound under repetition: on one breaker-guarded conn, a run of ANY length of
   queries that end in nil or in an error of the scanner (ErrNotFound on an empty result,
   ErrNotMatchDestination, a Scan error - everything but a panic) is marked success call by call, so the
   drop ratio stays 0: none of them can be rejected with ErrServiceUnavailable, each reports its own
   error, and the history afterwards still lets every following query through *)
Theorem c11_not_found_never_trips_breaker : forall owns s,
  forallb query_marks_success owns = true -> bk_accepts s = bk_total s ->
  forallb negb (fst (run_stream s owns)) = true /\
  brk_may_reject (snd (run_stream s owns)) = false /\
  bk_total (snd (run_stream s owns)) = bk_total s + List.length owns.
Proof.
  intros owns s H1 H2. destruct (run_stream_never_rejects owns s H1 H2) as [A [B C]].
  split; [exact A|]. split; [apply brk_all_accepted_no_reject; exact B|exact C].
Qed.
Print Assumptions c11_not_found_never_trips_breaker.

Example c11_not_found_stream_example :
  query_marks_success (Err ENotFound) = true /\
  snd (run_stream brk_fresh (repeat (Err ENotFound) 300)) = mkbrk 300 300 /\
  (* whereas 300 failures would open the breaker *)
  brk_may_reject (mkbrk 0 300) = true.
Proof. repeat split; vm_compute; reflexivity. Qed.

(* ------------------------------------------------------------------ non-vacuity *)
Example c11_tx_examples :
  let sw := mkswitches false false true in
  (* clean body, no faults: nil and [Begin; Exec 0; Commit] *)
  transact sw no_faults (mkbody [mkstmt SExec FNone RReturn] ONil) = (None, [Begin true; Exec 0 true; Commit true]) /\
  (* panicking body with a rollback failing on a bad connection *)
  transact sw (mkfaults FNone 0 FNone (FKind KBadConn)) (mkbody [mkstmt SQuery FGen RIgnore] (OPanic 9)) =
    (Some (EPanicJoin 9 (EKind KBadConn)), [Begin true; Exec 0 false; Rollback false]) /\
  (* a prepared Exec failing with sql.ErrTxDone, returned by the body *)
  transact sw (mkfaults FNone 0 FGen FNone) (mkbody [mkstmt SExec FNone RReturn; mkstmt SPrepExec (FKind KTxDone) RReturn] ONil) =
    (Some (EKind KTxDone), [Begin true; Exec 0 true; Exec 1 false; Rollback true]) /\
  (* a connection that is bad twice and then fine: two failed attempts, then an ordinary transaction *)
  transact sw (mkfaults (FKind KBadConn) 2 FNone FNone) (mkbody [] ONil) =
    (None, [Begin false; Begin false; Begin true; Commit true]) /\
  (* persistently bad: three attempts, driver.ErrBadConn comes back, nothing else *)
  transact sw (mkfaults (FKind KBadConn) 5 FNone FNone) (mkbody [mkstmt SExec FNone RReturn] ONil) =
    (Some (EKind KBadConn), [Begin false; Begin false; Begin false]) /\
  (* a body whose ctx-bound statements meet an already expired ctx: no statement reaches the driver, the
     body returns ctx.Err(), one Rollback *)
  transact_ctx_with sw true (CDoneBefore KDeadline) true no_faults (mkbody [mkstmt SExec FNone RReturn] ONil) =
    (Some (EKind KDeadline), [Begin true; Rollback true]) /\
  (* the same body with the plain Session methods: commits, nil *)
  transact_ctx_with sw true (CDoneBefore KDeadline) false no_faults (mkbody [mkstmt SExec FNone RReturn] ONil) =
    (None, [Begin true; Exec 0 true; Commit true]) /\
  (* a cancelled context at Begin is not retried *)
  transact sw (mkfaults (FKind KCanceled) 1 FNone FNone) (mkbody [] ONil) = (Some (EKind KCanceled), [Begin false]).
Proof. repeat split. Qed.

Definition ex_fs : list field :=
  [FLeaf "a" false KInt; FLeaf "b,omitempty" true KStr; FLeaf "c" false KNInt].
Example c11_by_name_example :
  all_tagged ex_fs = true /\ NoDup (map tag_name ex_fs) /\
  fill_struct ex_fs true ["c"; "x"; "b"; "a"] [CNull; CInt 1; CStr "s"; CInt 5] (init_dest (unwrap_fields ex_fs)) =
    ([Some (LInt 5); Some (LStr "s"); Some (LNInt false 0)], Ok tt) /\
  fill_struct ex_fs true ["a"; "b"; "c"; "x"] [CInt 5; CStr "s"; CNull; CInt 1] (init_dest (unwrap_fields ex_fs)) =
    ([Some (LInt 5); Some (LStr "s"); Some (LNInt false 0)], Ok tt) /\
  Permutation (combine ["c"; "x"; "b"; "a"] [CNull; CInt 1; CStr "s"; CInt 5])
              (combine ["a"; "b"; "c"; "x"] [CInt 5; CStr "s"; CNull; CInt 1]).
Proof.
  split; [reflexivity|]. split.
  { repeat constructor; simpl; intuition discriminate. }
  split; [reflexivity|]. split; [reflexivity|].
  simpl.
  apply Permutation_trans with (("a", CInt 5) :: [("c", CNull); ("x", CInt 1); ("b", CStr "s")]).
  { apply Permutation_sym. change [("c", CNull); ("x", CInt 1); ("b", CStr "s"); ("a", CInt 5)] with ([("c", CNull); ("x", CInt 1); ("b", CStr "s")] ++ [("a", CInt 5)]).
    apply Permutation_cons_append. }
  apply perm_skip.
  apply Permutation_trans with (("b", CStr "s") :: [("c", CNull); ("x", CInt 1)]).
  { apply Permutation_sym. change [("c", CNull); ("x", CInt 1); ("b", CStr "s")] with ([("c", CNull); ("x", CInt 1)] ++ [("b", CStr "s")]).
    apply Permutation_cons_append. }
  apply Permutation_refl.
Qed.

(* mixed tagging: tagged outer fields with an untagged embedded struct, untagged outer with tagged embedded *)
Definition ex_mixed1 : list field := [FLeaf "a" false KInt; FEmb "" false [FLeaf "" false KStr]; FLeaf "c" false KInt].
Definition ex_mixed2 : list field := [FLeaf "" false KInt; FEmb "" true [FLeaf "x" false KStr; FLeaf "y" false KInt]].
Example c11_mixed_example :
  all_tagged ex_mixed1 = false /\ all_tagged ex_mixed2 = false /\
  (* column names are ignored: by position *)
  fill_struct ex_mixed1 true ["c"; "a"; "zz"] [CInt 1; CStr "s"; CInt 3] (init_dest (unwrap_fields ex_mixed1)) =
    ([Some (LInt 1); Some (LStr "s"); Some (LInt 3)], Ok tt) /\
  fill_struct ex_mixed2 true ["y"; "x"; "q"] [CInt 1; CStr "s"; CInt 3] (init_dest (unwrap_fields ex_mixed2)) =
    ([Some (LInt 1); Some (LStr "s"); Some (LInt 3)], Ok tt).
Proof. repeat split. Qed.

(* tag OPTIONS (lib/store/builder style): the column name is the part before the first comma *)
Example c11_tag_options :
  parse_tag_name "id,type=char,length=16" = "id" /\ parse_tag_name "name, optional" = "name" /\
  parse_tag_name ",type=char" = "" /\
  let fs := [FLeaf "id,type=char,length=16" false KInt; FLeaf "name,range=[1:10]" true KStr] in
  all_tagged fs = true /\
  fill_struct fs true ["name"; "id"] [CStr "n"; CInt 7] (init_dest (unwrap_fields fs)) =
    ([Some (LInt 7); Some (LStr "n")], Ok tt).
Proof. repeat split. Qed.

(* tags and column names are compared exactly as written: case matters *)
Example c11_mixed_case_names :
  let fs := [FLeaf "userId" false KInt; FLeaf "userid" false KInt; FLeaf "User_ID" false KStr] in
  fill_struct fs true ["User_ID"; "userid"; "userId"; "USERID"] [CStr "u"; CInt 2; CInt 1; CInt 9] (init_dest (unwrap_fields fs)) =
    ([Some (LInt 1); Some (LInt 2); Some (LStr "u")], Ok tt).
Proof. reflexivity. Qed.

(* strict mode counts the FLATTENED fields: an untagged struct embedding a two-field struct (by value or by
   pointer) has 3 fields; 2 columns - as many as top-level fields - are refused, nothing is copied *)
Example c11_strict_embedded_short :
  let byval := [FLeaf "" false KInt; FEmb "" false [FLeaf "" false KInt; FLeaf "" false KStr]] in
  let byptr := [FLeaf "" false KInt; FEmb "" true [FLeaf "" false KInt; FLeaf "" false KStr]] in
  fill_struct byval true ["x"; "y"] [CInt 1; CInt 2] (init_dest (unwrap_fields byval)) =
    ([Some (LInt 0); Some (LInt 0); Some (LStr "")], Err ENotMatch) /\
  fill_struct byptr true ["x"; "y"] [CInt 1; CInt 2] (init_dest (unwrap_fields byptr)) =
    ([Some (LInt 0); Some (LInt 0); Some (LStr "")], Err ENotMatch) /\
  snd (fill_struct byval false ["x"; "y"] [CInt 1; CInt 2] (init_dest (unwrap_fields byval))) = Ok tt.
Proof. repeat split. Qed.

(* embedded structs are flattened, pointers allocated; fewer columns in partial mode leave the tail alone *)
Definition ex_untagged : list field :=
  [FLeaf "" false KInt; FEmb "" true [FLeaf "" true KStr; FLeaf "" false KInt]; FLeaf "" false KStr].
Example c11_by_position_example :
  all_tagged ex_untagged = false /\
  unwrap_fields ex_untagged = [(false, KInt); (true, KStr); (true, KInt); (false, KStr)] /\
  fill_struct ex_untagged false ["z"; "y"; "x"] [CInt 1; CStr "s"; CInt 3] (init_dest (unwrap_fields ex_untagged)) =
    ([Some (LInt 1); Some (LStr "s"); Some (LInt 3); Some (LStr "")], Ok tt) /\
  fst (fill_struct ex_untagged true ["z"; "y"; "x"] [CInt 1; CStr "s"; CInt 3] (init_dest (unwrap_fields ex_untagged))) =
    [Some (LInt 0); Some (LStr ""); Some (LInt 0); Some (LStr "")] /\
  snd (fill_struct ex_untagged true ["z"; "y"; "x"] [CInt 1; CStr "s"; CInt 3] (init_dest (unwrap_fields ex_untagged))) = Err ENotMatch /\
  snd (fill_struct ex_untagged false ["a"; "b"; "c"; "d"; "e"] [CInt 1; CStr "s"; CInt 3; CStr "t"; CInt 5] (init_dest (unwrap_fields ex_untagged))) = Panic.
Proof. repeat split. Qed.
