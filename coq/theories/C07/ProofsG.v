(* C07 ProofsG: cancel(err) beats a reducer value.  Once the cancel error is recorded (retErr.Set) while
   the caller has not yet loaded it, the call can no longer return a reducer value or ErrReduceNoOutput,
   whatever the reducer writes and however the rest is interleaved.  All configs, all schedules. *)
From God Require Import Base.Prelude C07.Model C07.ProofsB C07.ProofsD.

Definition cancelled_shape (e : err) (o : outcome) : Prop :=
  o = OErr e \/ o = OErr EDeadline \/ (exists p, o = OPanic p) \/ o = OPanicTwice.

Definition invG (e : err) (s : state) : Prop :=
  reterr s = Some e /\
  match c s with
  | CDefer o | CDone o => cancelled_shape e o
  | _ => True
  end.

Lemma invG_step : forall cf e s l s',
  reachable cf s -> invG e s -> step cf s l = Some s' -> invG e s'.
Proof.
  intros cf e s l s' R [Hr Hc] H. unfold invG, cancelled_shape in *.
  destruct (invA_reach cf s R) as (_ & _ & IA3 & _).
  destruct s; sproj. subst.
  open_step' l H.
  all: try solve [split; [reflexivity | assumption]].
  all: try solve [split; [reflexivity | exact I]].
  all: try solve [assert (X : Some e = None) by (apply IA3; reflexivity); discriminate X].
  all: split; try reflexivity.
  all: try solve [auto | right; right; left; eauto | right; right; right; reflexivity].
  all: try contradiction.
Qed.

Theorem cancel_beats_value : forall cf s ls s' e o, reachable cf s -> reterr s = Some e ->
  (c s = CSelect \/ exists got, c s = COut got) -> run cf s ls = Some s' -> caller_outcome s' = Some o ->
  o = OErr e \/ o = OErr EDeadline \/ (exists p, o = OPanic p) \/ o = OPanicTwice.
Proof.
  intros cf s ls s' e o R Hr Hc Hrun Ho.
  assert (G : invG e s').
  { apply (run_ind2 cf (invG e)) with (ls := ls) (s := s); auto.
    - intros s0 l s1 R0 P0 St. eapply invG_step; eauto.
    - split; [exact Hr|]. destruct Hc as [-> | [got ->]]; exact I. }
  destruct G as [_ G]. unfold caller_outcome in Ho.
  destruct (c s'); try discriminate Ho; inversion Ho; subst; exact G.
Qed.

Corollary cancel_beats_value_no : forall cf s ls s' e o, reachable cf s -> reterr s = Some e ->
  (c s = CSelect \/ exists got, c s = COut got) -> run cf s ls = Some s' -> caller_outcome s' = Some o ->
  (forall k, o <> ORet k) /\ o <> ONoOutput.
Proof.
  intros cf s ls s' e o R Hr Hc Hrun Ho.
  destruct (cancel_beats_value cf s ls s' e o R Hr Hc Hrun Ho) as [-> | [-> | [[p ->] | ->]]];
    split; intros; discriminate.
Qed.
