(* C07 ProofsC: stuck-freedom, termination and leak-freedom for the CLEAN family
   (mappers only write, generator and reducer do not panic, the reducer writes at most twice,
   the context is never cancelled), for all item counts, all worker counts >= 1 and all schedules. *)
From God Require Import Base.Prelude C07.Model C07.ProofsA.

Definition clean_cfg (cf : cfg) : Prop :=
  1 <= workers cf /\ gpanic cf = None /\ ctx0 cf = false /\
  (forall i a, In a (beh cf i) -> exists k, a = AWrite k) /\
  (forall p, ~ In (RPanic p) (rafter cf)) /\ List.length (rafter cf) <= 2.
Definition env_free (ls : list label) : Prop := ~ In LEnv ls.     (* the context is never cancelled *)

(* ------------------------------------------------------------------ *)
(* the invariant of clean env-free runs                                *)
(* ------------------------------------------------------------------ *)
Definition isw (a : mact) : bool := match a with AWrite _ => true | _ => false end.
Definition wokb (w : item * wpc) : bool :=
  match snd w with WRun a | WSend _ a => forallb isw a | WExit => true | _ => false end.
Definition gok (p : gpc) : bool := match p with GSend _ | GClose | GDone => true | _ => false end.
Definition isrw (a : ract) : bool := match a with RWrite _ => true | _ => false end.
Definition rclean (p : rpc) : bool :=
  match p with
  | RRecv _ a | RRun a | RSend _ a => forallb isrw a
  | RDrain None | RFinish | RDone => true
  | _ => false
  end.
Definition cok (p : cpc) : bool := match p with CSelect | COut _ | CDefer _ | CDone _ => true | _ => false end.
Definition rdone (p : rpc) : bool := match p with RDone => true | _ => false end.
Definition dl (p : cpc) : nat := match p with COut _ | CDefer _ => 1 | CDone _ => 2 | _ => 0 end.
Definition rem (p : rpc) : nat :=
  match p with RRecv _ a | RRun a => List.length a | RSend _ a => S (List.length a) | _ => 0 end.
Definition gdone (p : gpc) : bool := match p with GDone => true | _ => false end.
Definition xdone (p : xpc) : bool := match p with XDone => true | _ => false end.
Definition rlate (p : rpc) : bool := match p with RFinish | RDone => true | _ => false end.
Definition xdr (p : xpc) : bool := match p with XDrain | XDone => true | _ => false end.

Definition cinv (s : state) : Prop :=
  ctxd s = false /\
  conce s = ONone /\
  forallb wokb (ws s) = true /\
  gok (g s) = true /\
  rclean (r s) = true /\
  cok (c s) = true /\
  fin s = rdone (r s) /\
  (fin s = false -> dl (c s) + rem (r s) <= 2) /\
  srcc s = gdone (g s) /\
  (xdone (x s) = true -> srcc s = true) /\
  (rlate (r s) = true -> collc s = true) /\
  collc s = xdr (x s) /\
  wrote s = false.

Lemma clean_beh : forall cf i, clean_cfg cf -> forallb isw (beh cf i) = true.
Proof.
  intros cf i (_ & _ & _ & Hb & _). apply forallb_forall. intros a Ha.
  destruct (Hb i a Ha) as [k ->]. reflexivity.
Qed.

Lemma clean_rafter : forall cf, clean_cfg cf -> forallb isrw (rafter cf) = true.
Proof.
  intros cf (_ & _ & _ & _ & Hr & _). apply forallb_forall. intros a Ha.
  destruct a; auto. exfalso. eapply Hr; eauto.
Qed.

Lemma cinv_init : forall cf, clean_cfg cf -> cinv (init cf).
Proof.
  intros cf Hc. pose proof (clean_rafter cf Hc) as Hr.
  destruct Hc as (_ & _ & Hx & _ & _ & Hl).
  unfold cinv, init. simpl. rewrite Hx.
  destruct (rtake cf) as [[|n]|]; simpl; repeat split; auto; try discriminate.
Qed.

Lemma forallb_upd : forall {A} (f : A -> bool) l i w',
  forallb f l = true -> f w' = true -> forallb f (upd_nth i w' l) = true.
Proof.
  intros A f. induction l as [|h t IH]; intros [|i] w' H Hw; simpl in *; auto;
    apply andb_true_iff in H; destruct H as [H1 H2]; apply andb_true_iff; split; auto.
Qed.

Ltac nth_ok :=
  try match goal with
  | Ha : forallb wokb ?l = true, E : nth_error ?l _ = Some _ |- _ =>
      let K := fresh "K" in
      pose proof (forallb_nth _ _ _ _ Ha E) as K; unfold wokb in K; simpl in K
  end.

Lemma cinv_step : forall cf s l s',
  clean_cfg cf -> reachable cf s -> cinv s -> l <> LEnv -> step cf s l = Some s' -> cinv s'.
Proof.
  intros cf s l s' Hc R I Hl H.
  pose proof (clean_beh cf) as Hbeh. specialize (fun i => Hbeh i Hc).
  destruct Hc as (_ & Hgp & _). unfold cinv in *.
  destruct I as (I1 & I2 & I3 & I4 & I5 & I6 & I7 & I8 & I9 & I10 & I11 & I12 & I13).
  destruct l; try congruence; clear Hl; simpl in H; unf_step H; unfold r_next in H; rewrite ?Hgp in H.
  all: inv_step H.
  all: psend_spec.
  all: try (match goal with
            | E : nth_error (ws _) _ = Some (_, WSend _ _), Ec : collc _ = true |- _ =>
                pose proof (no_send_on_closed_collector _ _ _ _ _ _ R E); congruence
            end).
  all: nth_ok.
  all: simpl in *; try discriminate; try congruence.
  all: repeat (apply conj); try assumption; try reflexivity; try (intros; congruence).
  all: try (apply forallb_upd; [assumption | unfold wokb; simpl; assumption || reflexivity]).
  all: try (rewrite forallb_app; simpl; unfold wokb at 2; simpl; rewrite I3, Hbeh; reflexivity).
  all: rw_eqs; simpl; intros;
       repeat match goal with Hi : ?a = ?a -> _ |- _ => specialize (Hi eq_refl) end;
       repeat match goal with Hi : ?P -> _, Hp : ?P |- _ => specialize (Hi Hp) end;
       try assumption; try congruence; try lia.
Qed.

Lemma cinv_run : forall cf ls s s',
  clean_cfg cf -> env_free ls -> reachable cf s -> cinv s -> run cf s ls = Some s' ->
  cinv s' /\ reachable cf s'.
Proof.
  intros cf ls. induction ls as [|l t IH]; simpl; intros s s' Hc He R I H.
  - inversion H; subst. auto.
  - destruct (step cf s l) as [s1|] eqn:E; try discriminate.
    apply (IH s1 s' Hc); auto.
    + intro Hin. apply He. right. exact Hin.
    + eapply reachable_step; eauto.
    + eapply cinv_step; eauto. intro Hl. apply He. left. auto.
Qed.

Lemma inv_pool_reach : forall cf s, reachable cf s -> inv_pool cf s.
Proof.
  intros cf. apply reachable_ind'.
  - unfold inv_pool; simpl. lia.
  - intros s l s' _ I H. eapply inv_pool_step; eauto.
Qed.

Lemma all_exited_filter : forall l, forallb w_exited l = true -> filter nexited l = [].
Proof.
  induction l as [|h t IH]; simpl; intro H; auto.
  apply andb_true_iff in H. destruct H as [H1 H2]. unfold nexited at 1. rewrite H1. simpl. auto.
Qed.

Lemma forallb_false_nth : forall {A} (f : A -> bool) l,
  forallb f l = false -> exists i w, nth_error l i = Some w /\ f w = false.
Proof.
  intros A f. induction l as [|h t IH]; simpl; intro H; try discriminate.
  destruct (f h) eqn:Eh.
  - simpl in H. destruct (IH H) as (i & w & Hn & Hw). exists (S i), w. auto.
  - exists 0, h. auto.
Qed.

Ltac enabled L := exists L; split; [discriminate|]; simpl.

(* ------------------------------------------------------------------ *)
(* the reducer (with the caller's help) can always take from the collector *)
(* ------------------------------------------------------------------ *)
Lemma r_progress : forall cf s,
  cinv s -> (coll s <> [] \/ collc s = true) -> r s <> RDone ->
  exists l, l <> LEnv /\ exists s', step cf s l = Some s'.
Proof.
  intros cf s I Hc Hr.
  destruct I as (I1 & I2 & I3 & I4 & I5 & I6 & I7 & I8 & I9 & I10 & I11 & I12 & I13).
  destruct (r s) eqn:Er; simpl in *; try discriminate; try congruence.
  - enabled LR. unfold step_r. rewrite Er.
    destruct (coll s); [destruct Hc as [Hc|Hc]; [congruence | rewrite Hc]|]; eauto.
  - enabled LR. unfold step_r. rewrite Er.
    destruct acts as [|[] a]; eauto. destruct (ctxd s || fin s); eauto.
  - destruct (c s) eqn:Ec; simpl in *; try discriminate.
    + enabled LCOut. unfold step_cout. rewrite Ec, I7, Er. eauto.
    + enabled LC. unfold step_c. rewrite Ec, I13. eauto.
    + enabled LC. unfold step_c. rewrite Ec, I7, Er. eauto.
    + specialize (I8 I7). lia.
  - enabled LR. unfold step_r. rewrite Er.
    destruct (coll s); [destruct Hc as [Hc|Hc]; [congruence | rewrite Hc]|]; eauto.
  - enabled LR. unfold step_r. rewrite Er. eauto.
Qed.

Lemma no_stuck_state : forall cf s,
  clean_cfg cf -> reachable cf s -> cinv s -> final s = false ->
  exists l, l <> LEnv /\ exists s', step cf s l = Some s'.
Proof.
  intros cf s Hc R I Hfin.
  pose proof (inv_pool_reach cf s R) as [P1 P2].
  pose proof I as (I1 & I2 & I3 & I4 & I5 & I6 & I7 & I8 & I9 & I10 & I11 & I12 & I13).
  destruct Hc as (Hw & _).
  destruct (forallb w_exited (ws s)) eqn:Hex.
  - (* every mapper has exited *)
    assert (Hp : x s = XSel -> (pool s <? workers cf) = true).
    { intro Ex. rewrite Ex in P1. rewrite (all_exited_filter _ Hex) in P1. simpl in P1.
      apply Nat.ltb_lt. lia. }
    destruct (g s) eqn:Eg; simpl in *; try discriminate.
    + destruct rest as [|i rest].
      * enabled LG. unfold step_g. rewrite Eg. eauto.
      * destruct (x s) eqn:Ex; simpl in *.
        -- enabled LX. unfold step_x. rewrite Ex. eauto.
        -- enabled LXAcq. unfold step_xacq. rewrite Ex, Hp; eauto.
        -- enabled LGSendX. unfold step_gsx. rewrite Eg, Ex. eauto.
        -- enabled LX. unfold step_x. rewrite Ex, Hex. eauto.
        -- enabled LGSendX. unfold step_gsx. rewrite Eg, Ex. eauto.
        -- specialize (I10 eq_refl). congruence.
    + enabled LG. unfold step_g. rewrite Eg. eauto.
    + destruct (x s) eqn:Ex; simpl in *.
      * enabled LX. unfold step_x. rewrite Ex. eauto.
      * enabled LXAcq. unfold step_xacq. rewrite Ex, Hp; eauto.
      * enabled LX. unfold step_x. rewrite Ex, I9. eauto.
      * enabled LX. unfold step_x. rewrite Ex, Hex. eauto.
      * enabled LX. unfold step_x. rewrite Ex, I9. eauto.
      * destruct (rdone (r s)) eqn:Erd.
        -- destruct (r s) eqn:Er; simpl in Erd; try discriminate. simpl in *.
           destruct (c s) eqn:Ec; simpl in *; try discriminate.
           ++ enabled LCOut. unfold step_cout. rewrite Ec, I7. eauto.
           ++ enabled LC. unfold step_c. rewrite Ec, I13. eauto.
           ++ enabled LC. unfold step_c. rewrite Ec, I7. eauto.
           ++ unfold final in Hfin. rewrite Eg, Ex, Er, Ec, Hex in Hfin. discriminate.
        -- apply r_progress; auto. intro Hr. rewrite Hr in Erd. discriminate.
  - (* some mapper has not exited *)
    destruct (forallb_false_nth _ _ Hex) as (i & [it p] & En & Hne).
    pose proof (forallb_nth _ _ _ _ I3 En) as K. unfold wokb in K. unfold w_exited in Hne.
    destruct p; simpl in *; try discriminate.
    + enabled (LW i). unfold step_w. rewrite En.
      destruct acts as [|[] a]; simpl in K; try discriminate; eauto.
      destruct (ctxd s || fin s); eauto.
    + pose proof (no_send_on_closed_collector _ _ _ _ _ _ R En) as Hcl.
      destruct (List.length (coll s) <? workers cf) eqn:El.
      * enabled (LW i). unfold step_w. rewrite En, Hcl, El. eauto.
      * apply Nat.ltb_ge in El.
        destruct (rdone (r s)) eqn:Erd.
        -- destruct (r s) eqn:Er; simpl in Erd; try discriminate. simpl in *.
           specialize (I11 eq_refl). congruence.
        -- apply r_progress; auto.
           ++ left. intro Hnil. rewrite Hnil in El. simpl in El. lia.
           ++ intro Hr. rewrite Hr in Erd. discriminate.
Qed.

(* ------------------------------------------------------------------ *)
(* C1: stuck-freedom                                                   *)
(* ------------------------------------------------------------------ *)
Lemma clean_run_inv : forall cf ls s,
  clean_cfg cf -> env_free ls -> run cf (init cf) ls = Some s -> cinv s /\ reachable cf s.
Proof.
  intros cf ls s Hc He H.
  eapply cinv_run; eauto using reachable_init, cinv_init.
Qed.

Theorem no_stuck_partial : forall cf ls s,
  clean_cfg cf -> env_free ls -> run cf (init cf) ls = Some s -> final s = false ->
  exists l, l <> LEnv /\ exists s', step cf s l = Some s'.
Proof.
  intros cf ls s Hc He H Hf.
  destruct (clean_run_inv cf ls s Hc He H) as [I R].
  apply no_stuck_state; auto.
Qed.

(* ------------------------------------------------------------------ *)
(* C2: termination (every clean env-free run can be extended to a final state;
   with ProofsA.no_infinite_run every such run is moreover finite)      *)
(* ------------------------------------------------------------------ *)
Lemma terminates_from : forall cf n s,
  clean_cfg cf -> reachable cf s -> cinv s -> measure cf s < n ->
  exists ls' s', env_free ls' /\ run cf s ls' = Some s' /\ final s' = true.
Proof.
  intros cf n. induction n as [|n IH]; intros s Hc R I Hm; [lia|].
  destruct (final s) eqn:Hf.
  - exists [], s. repeat split; auto. intros [].
  - destruct (no_stuck_state cf s Hc R I Hf) as (l & Hl & s1 & Hs).
    pose proof (variant _ _ _ _ Hs) as Hv.
    destruct (IH s1 Hc) as (ls' & s' & He & Hr & Hfin).
    + eapply reachable_step; eauto.
    + eapply cinv_step; eauto.
    + lia.
    + exists (l :: ls'), s'. repeat split; auto.
      * intros [Hin|Hin]; [congruence | exact (He Hin)].
      * simpl. rewrite Hs. exact Hr.
Qed.

Theorem terminates_partial : forall cf ls s,
  clean_cfg cf -> env_free ls -> run cf (init cf) ls = Some s ->
  exists ls' s', env_free ls' /\ run cf s ls' = Some s' /\ final s' = true.
Proof.
  intros cf ls s Hc He H.
  destruct (clean_run_inv cf ls s Hc He H) as [I R].
  eapply (terminates_from cf (S (measure cf s))); eauto.
Qed.

(* a maximal clean env-free run (one that cannot be extended by a non-environment step) ends in a final state *)
Theorem maximal_run_final : forall cf ls s,
  clean_cfg cf -> env_free ls -> run cf (init cf) ls = Some s ->
  (forall l, l <> LEnv -> step cf s l = None) -> final s = true.
Proof.
  intros cf ls s Hc He H Hmax. destruct (final s) eqn:Hf; auto.
  destruct (no_stuck_partial cf ls s Hc He H Hf) as (l & Hl & s' & Hs).
  rewrite (Hmax l Hl) in Hs. discriminate.
Qed.

(* ------------------------------------------------------------------ *)
(* C3: leak-freedom: in a final state every goroutine has exited       *)
(* ------------------------------------------------------------------ *)
Lemma final_all_exited : forall s, final s = true ->
  g s = GDone /\ x s = XDone /\ r s = RDone /\ forallb w_exited (ws s) = true /\ exists o, c s = CDone o.
Proof.
  intros s H. unfold final in H.
  destruct (g s), (x s), (r s), (c s); try discriminate.
  repeat split; auto. eexists; reflexivity.
Qed.

Theorem no_leak_partial : forall cf ls s,
  clean_cfg cf -> env_free ls -> run cf (init cf) ls = Some s ->
  exists ls' s', env_free ls' /\ run cf s ls' = Some s' /\
    g s' = GDone /\ x s' = XDone /\ r s' = RDone /\ forallb w_exited (ws s') = true /\
    (exists o, c s' = CDone o) /\ running s' = 0.
Proof.
  intros cf ls s Hc He H.
  destruct (terminates_partial cf ls s Hc He H) as (ls' & s' & He' & Hr & Hf).
  destruct (final_all_exited s' Hf) as (A & B & C & D & E).
  exists ls', s'. repeat split; auto.
  unfold running. fold nexited. rewrite (all_exited_filter _ D). reflexivity.
Qed.

(* every run (clean or not) is bounded by the initial measure: no schedule runs forever *)
Corollary run_length_bounded : forall cf ls s,
  run cf (init cf) ls = Some s -> List.length ls <= measure cf (init cf).
Proof. intros cf ls s H. apply no_infinite_run in H. lia. Qed.
