(* C07 Proofs: corollaries assembled from ProofsA (worker bound, conservation, variant), ProofsB (first cancel,
   result soundness, clean-run invariants) and ProofsC (stuck-freedom / termination of the clean family). *)
From Coq Require Import Permutation.
From God Require Import Base.Prelude C07.Model C07.ProofsA C07.ProofsB C07.ProofsC C07.ProofsF.

Lemma pending_nil_of_exited l :
  forallb w_exited l = true ->
  flat_map (fun w : item * wpc => match snd w with WSend v _ => [v] | _ => [] end) l = [].
Proof.
  induction l as [|[it p] t IH]; simpl; [reflexivity|].
  intro H. apply andb_true_iff in H as [H1 H2]. unfold w_exited in H1. simpl in H1.
  destruct p; try discriminate. simpl. apply IH. exact H2.
Qed.

Lemma nodup_app_l {A} (l1 l2 : list A) : NoDup (l1 ++ l2) -> NoDup l1.
Proof.
  induction l1 as [|a t IH]; simpl; intro H; [constructor|].
  inversion H; subst. constructor; [|apply IH; assumption].
  intro Hin. apply H2. apply in_or_app. left. exact Hin.
Qed.

(* each generated item is passed to a mapper at most once (items are identified by distinct ids) *)
Lemma at_most_once cf s : NoDup (items cf) -> reachable cf s ->
  NoDup (map fst (ws s)) /\ (forall i, In i (map fst (ws s)) -> In i (items cf)) /\
  (forall i, In i (map fst (ws s)) -> ~ In i (drained s)).
Proof.
  intros Hnd R. destruct (conservation_items cf s R) as [sent [E P]].
  assert (Hs : NoDup sent).
  { rewrite E in Hnd. apply nodup_app_l in Hnd. exact Hnd. }
  assert (Hall : NoDup (map fst (ws s) ++ drained s)) by (eapply Permutation_NoDup; eauto).
  split; [apply nodup_app_l in Hall; exact Hall|]. split.
  - intros i Hi. rewrite E. apply in_or_app. left. eapply Permutation_in; [apply Permutation_sym; exact P|].
    apply in_or_app. left. exact Hi.
  - intros i Hi Hd. revert Hall Hi Hd. generalize (map fst (ws s)) as l1, (drained s) as l2.
    induction l1 as [|a t IH]; simpl; intros l2 Hall Hi Hd; [contradiction|].
    inversion Hall; subst. destruct Hi as [->|Hi].
    + apply H1. apply in_or_app. right. exact Hd.
    + eapply IH; eauto.
Qed.

(* without cancellation, panic and ctx, at termination: every item was mapped exactly once, nothing was dropped or
   drained, and with a range-reducer the reducer received exactly the multiset of written values *)
Lemma exactly_once_clean cf s : reachable cf s -> clean s -> final s = true ->
  Permutation (items cf) (map fst (ws s)) /\
  drained s = [] /\ dropped s = [] /\
  forallb w_exited (ws s) = true /\
  (rtake cf = None -> Permutation (written s) (recvd s)).
Proof.
  intros R C F.
  destruct (clean_all_mapped cf s R C F) as [Hd [Hp Hc]].
  destruct (final_all_exited s F) as [Hg [Hx [Hr [Hw _]]]].
  destruct (conservation_items cf s R) as [sent [E P]].
  unfold g_rest in E. rewrite Hg in E. rewrite app_nil_r in E. subst sent. rewrite Hd, app_nil_r in P.
  split; [exact P|]. split; [exact Hd|]. split; [exact Hp|]. split; [exact Hw|].
  intro Hn. pose proof (conservation_values cf s R) as PV.
  unfold pending in PV. rewrite (pending_nil_of_exited _ Hw) in PV. rewrite Hp, (Hc Hn) in PV. simpl in PV.
  destruct (invN_reach cf s R Hn) as [[[a Ha]|[Hcoll _]] _]; [congruence|].
  rewrite Hcoll, app_nil_r in PV. simpl in PV. exact PV.
Qed.

(* ---- the clean family in terms of Spec.v ---- *)
From God Require Import C07.Spec C07.ProofsE.

Lemma clean_run_clean cf ls s : clean_cfg cf -> env_free ls -> run cf (init cf) ls = Some s -> clean s.
Proof.
  intros Hc He H. destruct (clean_run_inv cf ls s Hc He H) as [I R].
  destruct I as (I1 & I2 & _ & _ & _ & _ & _ & _ & _ & _ & _ & _ & I13).
  split; [exact I1|]. split; [exact I2|exact I13].
Qed.

Lemma rwrites_writes a : rwrites a = writes a.
Proof. induction a as [|[k|p] t IH]; simpl; congruence. Qed.

Lemma clean_cfg_no_rpanic cf : clean_cfg cf -> no_rpanic (rafter cf).
Proof. intros (_ & _ & _ & _ & H & _). exact H. Qed.

(* every complete clean run satisfies the Spec's clean clause *)
Lemma clean_family_spec cf ls s : clean_cfg cf -> env_free ls -> run cf (init cf) ls = Some s -> final s = true ->
  all_exited s /\ exists o, c s = CDone o /\ clean_spec cf (map fst (ws s)) (recvd s) o.
Proof.
  intros Hc He H F.
  pose proof (clean_run_clean cf ls s Hc He H) as C.
  destruct (clean_run_inv cf ls s Hc He H) as [_ R].
  pose proof (final_all_exited s F) as A. split; [exact A|].
  destruct A as (_ & _ & _ & _ & o & Ho). exists o. split; [exact Ho|].
  destruct (clean_final_written_all cf ls s Hc He H F) as [PW PI].
  destruct (exactly_once_clean cf s R C F) as (_ & _ & _ & _ & PR).
  constructor.
  - exact PI.
  - intro Hn. eapply Permutation_trans; [apply Permutation_sym; exact PW|exact (PR Hn)].
  - unfold spec_result. rewrite rwrites_writes.
    exact (clean_result cf s o R C (clean_cfg_no_rpanic cf Hc) Ho).
Qed.

(* the clean family is a sub-family of the live one *)
Lemma clean_cfg_live cf : clean_cfg cf -> live_cfg cf.
Proof.
  intros (Hw & _ & _ & Hb & _ & Hl). split; [exact Hw|]. split.
  - intros i Hin. destruct (Hb i AWaitRet Hin) as [k Hk]. discriminate.
  - rewrite nwrites_rwrites. eapply Nat.le_trans; [|exact Hl].
    clear. induction (rafter cf) as [|[k|p] t IH]; simpl; lia.
Qed.
