(* C07 Proofs: corollaries assembled from ProofsA (worker bound, conservation, variant), ProofsB (first cancel,
   result soundness, clean-run invariants) and ProofsC (stuck-freedom / termination of the clean family). *)
From Coq Require Import Permutation.
From God Require Import Base.Prelude C07.Model C07.ProofsA C07.ProofsB C07.ProofsC.

Lemma pending_nil_of_exited l :
  forallb w_exited l = true ->
  flat_map (fun w : item * wpc => match snd w with WSend v _ => [v] | _ => [] end) l = [].
Proof.
  induction l as [|[it p] t IH]; simpl; [reflexivity|].
  intro H. apply andb_true_iff in H as [H1 H2]. unfold w_exited in H1. simpl in H1.
  destruct p; try discriminate. simpl. apply IH. exact H2.
Qed.

Lemma nodup_app_l {A} (l1 l2 : list A) : NoDup (l1 ++ l2) -> NoDup l1.
Proof.
  induction l1 as [|a t IH]; simpl; intro H; [constructor|].
  inversion H; subst. constructor; [|apply IH; assumption].
  intro Hin. apply H2. apply in_or_app. left. exact Hin.
Qed.

(* each generated item is passed to a mapper at most once (items are identified by distinct ids) *)
Lemma at_most_once cf s : NoDup (items cf) -> reachable cf s ->
  NoDup (map fst (ws s)) /\ (forall i, In i (map fst (ws s)) -> In i (items cf)) /\
  (forall i, In i (map fst (ws s)) -> ~ In i (drained s)).
Proof.
  intros Hnd R. destruct (conservation_items cf s R) as [sent [E P]].
  assert (Hs : NoDup sent).
  { rewrite E in Hnd. apply nodup_app_l in Hnd. exact Hnd. }
  assert (Hall : NoDup (map fst (ws s) ++ drained s)) by (eapply Permutation_NoDup; eauto).
  split; [apply nodup_app_l in Hall; exact Hall|]. split.
  - intros i Hi. rewrite E. apply in_or_app. left. eapply Permutation_in; [apply Permutation_sym; exact P|].
    apply in_or_app. left. exact Hi.
  - intros i Hi Hd. revert Hall Hi Hd. generalize (map fst (ws s)) as l1, (drained s) as l2.
    induction l1 as [|a t IH]; simpl; intros l2 Hall Hi Hd; [contradiction|].
    inversion Hall; subst. destruct Hi as [->|Hi].
    + apply H1. apply in_or_app. right. exact Hd.
    + eapply IH; eauto.
Qed.

(* without cancellation, panic and ctx, at termination: every item was mapped exactly once, nothing was dropped or
   drained, and with a range-reducer the reducer received exactly the multiset of written values *)
Lemma exactly_once_clean cf s : reachable cf s -> clean s -> final s = true ->
  Permutation (items cf) (map fst (ws s)) /\
  drained s = [] /\ dropped s = [] /\
  forallb w_exited (ws s) = true /\
  (rtake cf = None -> Permutation (written s) (recvd s)).
Proof.
  intros R C F.
  destruct (clean_all_mapped cf s R C F) as [Hd [Hp Hc]].
  destruct (final_all_exited s F) as [Hg [Hx [Hr [Hw _]]]].
  destruct (conservation_items cf s R) as [sent [E P]].
  unfold g_rest in E. rewrite Hg in E. rewrite app_nil_r in E. subst sent. rewrite Hd, app_nil_r in P.
  split; [exact P|]. split; [exact Hd|]. split; [exact Hp|]. split; [exact Hw|].
  intro Hn. pose proof (conservation_values cf s R) as PV.
  unfold pending in PV. rewrite (pending_nil_of_exited _ Hw) in PV. rewrite Hp, (Hc Hn) in PV. simpl in PV.
  destruct (invN_reach cf s R Hn) as [[[a Ha]|[Hcoll _]] _]; [congruence|].
  rewrite Hcoll, app_nil_r in PV. simpl in PV. exact PV.
Qed.
