(* C07 Tests: computed witnesses for the clauses of the property that are still FALSE of the model after the
   repairs d413f58 (buffered panic channel), 1af3580 (re-check of the panic channel in the output arm) and e753473
   (re-check after the deferred range over output): each is a
   concrete schedule (found with Explore.explore) replayed here step by step.  The exhaustive small-bound
   explorations are in ExploreTests.v (kept out of the cone of Props.v: they are tests, and coqchk has no VM). *)
From God Require Import Base.Prelude C07.Model C07.Explore.

(* W7: the reducer writes twice and then panics: the caller's deferred loop receives the second value and panics
   "written twice" before it reaches the re-check of the panic buffer: the reducer's own panic (9) is not the one
   raised in the caller.  (Two clauses of the property collide: "writing twice panics in the caller" wins.) *)
Definition cf_w7 : cfg := mkcfg 1 [] None (fun _ => []) None [RWrite 1; RWrite 2; RPanic 9] false.
Definition sched_w7 : list label := [LX; LXAcq; LG; LG; LX; LX; LX; LR; LR; LCOut; LC; LR; LC; LR; LR; LR; LR].

Lemma w7_twice_wins_over_panic : exists s,
  run cf_w7 (init cf_w7) sched_w7 = Some s /\ final s = true /\
  c s = CDone OPanicTwice /\ fpanic s = Some (PUser 9) /\ ctxd s = false /\ conce s = ONone.
Proof.
  destruct (run cf_w7 (init cf_w7) sched_w7) as [s|] eqn:E; [|vm_compute in E; discriminate].
  exists s. split; [reflexivity|]. vm_compute in E. inversion E; subst; clear E. repeat split; reflexivity.
Qed.

(* W3: the reducer's guardedWriter has passed its `default` when a mapper's cancel closes `output`: the send
   panics ("send on closed channel", a panic no user code raised); the caller, in its output arm, finds it in the
   panic buffer and re-raises it instead of returning the cancel error. *)
Definition cf_w3 : cfg := mkcfg 1 [0] None (fun _ => [ACancel (Some 5)]) (Some 0) [RWrite 7] false.
Definition sched_w3 : list label :=
  [LX; LXAcq; LGSendX; LX; LG; LG; LR; LW 0; LW 0; LW 0; LW 0; LCOut; LXStop; LR; LW 0; LX; LX; LR; LR; LC; LC; LC; LR].

Lemma w3_send_on_closed_output : exists s,
  run cf_w3 (init cf_w3) sched_w3 = Some s /\ final s = true /\
  c s = CDone (OPanic PSendClosed) /\ reterr s = Some (EUser 5).
Proof.
  destruct (run cf_w3 (init cf_w3) sched_w3) as [s|] eqn:E; [|vm_compute in E; discriminate].
  exists s. split; [reflexivity|]. vm_compute in E. inversion E; subst; clear E. repeat split; reflexivity.
Qed.

(* W4: the context is done before the call, yet a caller that reaches its select late finds `output` closed as
   well and may take that arm: ErrReduceNoOutput instead of context.DeadlineExceeded. *)
Definition cf_w4 : cfg := mkcfg 1 [] None (fun _ => []) None [] true.
Definition sched_w4 : list label := [LX; LXStop; LX; LG; LG; LX; LR; LR; LR; LR; LCOut; LC; LC].

Lemma w4_ctx_done_other_result : exists s,
  run cf_w4 (init cf_w4) sched_w4 = Some s /\ ctxd (init cf_w4) = true /\ final s = true /\ c s = CDone ONoOutput.
Proof.
  destruct (run cf_w4 (init cf_w4) sched_w4) as [s|] eqn:E; [|vm_compute in E; discriminate].
  exists s. split; [reflexivity|]. vm_compute in E. inversion E; subst; clear E. repeat split; reflexivity.
Qed.

(* W6: necessity of the "at most two reducer writes" hypothesis of stuck-freedom: the third write finds nobody
   listening on `output` (the caller panicked on the second one) and blocks for ever. *)
Definition cf_w6 : cfg := mkcfg 1 [] None (fun _ => []) None [RWrite 1; RWrite 2; RWrite 3] false.
Definition sched_w6 : list label := [LG; LG; LX; LXAcq; LX; LX; LX; LR; LR; LCOut; LC; LR; LC; LR].

Lemma w6_third_write_blocks : exists s,
  run cf_w6 (init cf_w6) sched_w6 = Some s /\ c s = CDone OPanicTwice /\ r s = RSend 3 [] /\
  (forall l, l <> LEnv -> step cf_w6 s l = None).
Proof.
  destruct (run cf_w6 (init cf_w6) sched_w6) as [s|] eqn:E; [|vm_compute in E; discriminate].
  exists s. split; [reflexivity|]. vm_compute in E. inversion E; subst; clear E.
  repeat split; try reflexivity. apply stuck_spec. vm_compute. reflexivity.
Qed.

(* W8 (positive): cancel(err) racing with a reducer write.  The mapper's cancel has recorded its error and sits in
   drain(source) (the generator has not finished: done/output are still open); an early-stopping reducer hands its
   value 2 to the caller in exactly that window; the caller's load then sees the recorded error: (nil, err 3). *)
Definition cf_w8 : cfg := mkcfg 1 [7; 8] None (fun _ => [ACancel (Some 3)]) (Some 0) [RWrite 2] false.
Definition sched_w8a : list label := [LX; LXAcq; LGSendX; LW 0; LW 0; LR; LCOut].
Definition sched_w8b : list label := [LC; LGSendK; LG; LG; LW 0; LW 0; LW 0; LX; LXStop; LX; LX; LR; LR; LR; LC].

Lemma w8_cancel_beats_racing_value : exists s s',
  run cf_w8 (init cf_w8) sched_w8a = Some s /\
  c s = COut (Some 2) /\ reterr s = Some (EUser 3) /\ conce s = ORunning /\ fin s = false /\
  g s = GSend [8] /\ nth_error (ws s) 0 = Some (7, WCancel CcDrain (EUser 3) []) /\
  run cf_w8 s sched_w8b = Some s' /\ final s' = true /\ c s' = CDone (OErr (EUser 3)).
Proof.
  destruct (run cf_w8 (init cf_w8) sched_w8a) as [s|] eqn:E; [|vm_compute in E; discriminate].
  destruct (run cf_w8 s sched_w8b) as [s'|] eqn:E'; [|vm_compute in E; inversion E; subst; vm_compute in E'; discriminate].
  exists s, s'. split; [reflexivity|].
  vm_compute in E. inversion E; subst; clear E. vm_compute in E'. inversion E'; subst; clear E'.
  repeat split; reflexivity.
Qed.
