(* C07 Tests: computed witnesses for the clauses of the property that are FALSE of the model: each is a concrete
   schedule (found with Explore.explore) replayed here step by step.  The exhaustive small-bound explorations are
   in ExploreTests.v (kept out of the cone of Props.v: they are tests, and coqchk has no VM to re-run them). *)
From God Require Import Base.Prelude C07.Model C07.Explore.

Definition fuel : nat := N.to_nat 400000.

(* ---------------------------------------------------------------- witnesses *)
(* W1: item 1 panics and wins the CAS, item 0 cancels; the caller's select takes the closed output (error 5) and
   returns; the panicking mapper stays blocked in panicChan.channel <- v for ever, and with it X (wg.Wait) and the
   reducer (range over the never-closed collector). *)
Definition cf_w1 : cfg :=
  mkcfg 2 [0; 1] None (fun i => match i with 0 => [ACancel (Some 5)] | _ => [APanic 3] end) None [] false.
Definition sched_w1 : list label :=
  [LX; LXAcq; LGSendX; LX; LXAcq; LGSendX; LX; LG; LG; LW 1; LW 1; LW 0; LW 0; LW 0; LW 0; LCOut; LC; LXStop; LW 0].

Lemma w1_late_panic_leak : exists s,
  run cf_w1 (init cf_w1) sched_w1 = Some s /\
  c s = CDone (OErr (EUser 5)) /\ g s = GDone /\                      (* the call returned, the generator returned *)
  nth_error (ws s) 1 = Some (1, WPSend (PUser 3)) /\ x s = XWait /\ r s = RRecv None [] /\   (* three goroutines left *)
  (forall l, l <> LEnv -> step cf_w1 s l = None).                     (* for ever *)
Proof.
  destruct (run cf_w1 (init cf_w1) sched_w1) as [s|] eqn:E; [|vm_compute in E; discriminate].
  exists s. split; [reflexivity|].
  vm_compute in E. inversion E; subst; clear E.
  repeat split; try reflexivity. apply stuck_spec. vm_compute. reflexivity.
Qed.

(* W2: the reducer writes a value and then panics: the caller has the value and waits in its deferred
   `for range output` for the close that only the reducer's finish() would do - but the reducer is blocked in
   panicChan.write. The call never returns. *)
Definition cf_w2 : cfg := mkcfg 1 [0] None (fun _ => [AWrite 1]) (Some 0) [RWrite 7; RPanic 9] false.
Definition sched_w2 : list label :=
  [LX; LXAcq; LGSendX; LX; LG; LG; LR; LCOut; LR; LW 0; LW 0; LR; LW 0; LXAcq; LX; LX; LX; LR; LR].

Lemma w2_write_then_panic_hangs : exists s,
  run cf_w2 (init cf_w2) sched_w2 = Some s /\
  c s = CDefer (ORet 7) /\ r s = RPSend (PUser 9) /\ g s = GDone /\
  (forall l, l <> LEnv -> step cf_w2 s l = None).
Proof.
  destruct (run cf_w2 (init cf_w2) sched_w2) as [s|] eqn:E; [|vm_compute in E; discriminate].
  exists s. split; [reflexivity|].
  vm_compute in E. inversion E; subst; clear E.
  repeat split; try reflexivity. apply stuck_spec. vm_compute. reflexivity.
Qed.

(* W3: the reducer's guardedWriter has passed its `default` when a mapper's cancel closes `output`: the send
   panics (send on closed channel), the caller has already returned the cancel error, the reducer leaks in
   panicChan.write. *)
Definition cf_w3 : cfg := mkcfg 1 [0] None (fun _ => [ACancel (Some 5)]) (Some 0) [RWrite 7] false.
Definition sched_w3 : list label :=
  [LX; LXAcq; LGSendX; LX; LG; LG; LR; LW 0; LW 0; LW 0; LW 0; LCOut; LC; LXStop; LR; LW 0; LX; LX; LR; LR].

Lemma w3_send_on_closed_output : exists s,
  run cf_w3 (init cf_w3) sched_w3 = Some s /\
  c s = CDone (OErr (EUser 5)) /\ r s = RPSend PSendClosed /\ g s = GDone /\
  (forall l, l <> LEnv -> step cf_w3 s l = None).
Proof.
  destruct (run cf_w3 (init cf_w3) sched_w3) as [s|] eqn:E; [|vm_compute in E; discriminate].
  exists s. split; [reflexivity|].
  vm_compute in E. inversion E; subst; clear E.
  repeat split; try reflexivity. apply stuck_spec. vm_compute. reflexivity.
Qed.

(* W4: the context is done before the call, yet a caller that reaches its select late finds `output` closed as
   well and may take that arm: ErrReduceNoOutput instead of context.DeadlineExceeded. *)
Definition cf_w4 : cfg := mkcfg 1 [] None (fun _ => []) None [] true.
Definition sched_w4 : list label := [LX; LXStop; LX; LG; LG; LX; LR; LR; LR; LR; LCOut; LC].

Lemma w4_ctx_done_other_result : exists s,
  run cf_w4 (init cf_w4) sched_w4 = Some s /\ ctxd (init cf_w4) = true /\ final s = true /\ c s = CDone ONoOutput.
Proof.
  destruct (run cf_w4 (init cf_w4) sched_w4) as [s|] eqn:E; [|vm_compute in E; discriminate].
  exists s. split; [reflexivity|].
  vm_compute in E. inversion E; subst; clear E. repeat split; reflexivity.
Qed.

(* W5 (found by exploration): generator panic + mapper panic. If the generator wins the CAS, the mapper's
   `failed` makes X leave its loop without the source being closed; the collector closes, the reducer finishes,
   output closes, and a caller whose select sees both panicChan and the closed output may take the latter:
   ErrReduceNoOutput, the generator goroutine and X (drain(source)) stay blocked for ever. *)
Definition cf_w5 : cfg :=
  mkcfg 2 [0; 1] (Some 8) (fun i => match i with 0 => [AWrite 1; APanic 4] | _ => [AWrite 1] end) (Some 1) [] false.
Definition sched_w5 : list label :=
  [LX; LXAcq; LGSendX; LX; LXAcq; LGSendX; LG; LG; LW 1; LW 1; LR; LR; LW 1; LW 0; LW 0; LR; LW 0; LW 0; LX; LW 0; LX;
   LR; LR; LCOut; LC].
Lemma w5_two_panics_select_race : exists s,
  run cf_w5 (init cf_w5) sched_w5 = Some s /\
  c s = CDone ONoOutput /\ g s = GPanicSend 8 /\ x s = XDrain /\
  (forall l, l <> LEnv -> step cf_w5 s l = None).
Proof.
  destruct (run cf_w5 (init cf_w5) sched_w5) as [s|] eqn:E; [|vm_compute in E; discriminate].
  exists s. split; [reflexivity|].
  vm_compute in E. inversion E; subst; clear E.
  repeat split; try reflexivity. apply stuck_spec. vm_compute. reflexivity.
Qed.
