(* C07 Tests: (1) computed witnesses for the clauses of the property that are FALSE of the model (each is a
   concrete schedule, replayed by vm_compute); (2) exhaustive exploration of SMALL configurations as a test of
   stuck-freedom for families beyond the clean one (cancels, context, slow mappers, deliverable panics).
   The explorations are tests over the listed configurations only, not theorems about all configurations. *)
From God Require Import Base.Prelude C07.Model C07.Explore.

Definition fuel : nat := N.to_nat 400000.

(* ---------------------------------------------------------------- witnesses *)
(* W1: item 1 panics and wins the CAS, item 0 cancels; the caller's select takes the closed output (error 5) and
   returns; the panicking mapper stays blocked in panicChan.channel <- v for ever, and with it X (wg.Wait) and the
   reducer (range over the never-closed collector). *)
Definition cf_w1 : cfg :=
  mkcfg 2 [0; 1] None (fun i => match i with 0 => [ACancel (Some 5)] | _ => [APanic 3] end) None [] false.
Definition sched_w1 : list label :=
  [LX; LXAcq; LGSendX; LX; LXAcq; LGSendX; LX; LG; LG; LW 1; LW 1; LW 0; LW 0; LW 0; LW 0; LCOut; LC; LXStop; LW 0].

Lemma w1_late_panic_leak : exists s,
  run cf_w1 (init cf_w1) sched_w1 = Some s /\
  c s = CDone (OErr (EUser 5)) /\ g s = GDone /\                      (* the call returned, the generator returned *)
  nth_error (ws s) 1 = Some (1, WPSend (PUser 3)) /\ x s = XWait /\ r s = RRecv None [] /\   (* three goroutines left *)
  (forall l, l <> LEnv -> step cf_w1 s l = None).                     (* for ever *)
Proof.
  destruct (run cf_w1 (init cf_w1) sched_w1) as [s|] eqn:E; [|vm_compute in E; discriminate].
  exists s. split; [reflexivity|].
  vm_compute in E. inversion E; subst; clear E.
  repeat split; try reflexivity. apply stuck_spec. vm_compute. reflexivity.
Qed.

(* W2: the reducer writes a value and then panics: the caller has the value and waits in its deferred
   `for range output` for the close that only the reducer's finish() would do - but the reducer is blocked in
   panicChan.write. The call never returns. *)
Definition cf_w2 : cfg := mkcfg 1 [0] None (fun _ => [AWrite 1]) (Some 0) [RWrite 7; RPanic 9] false.
Definition sched_w2 : list label :=
  [LX; LXAcq; LGSendX; LX; LG; LG; LR; LCOut; LR; LW 0; LW 0; LR; LW 0; LXAcq; LX; LX; LX; LR; LR].

Lemma w2_write_then_panic_hangs : exists s,
  run cf_w2 (init cf_w2) sched_w2 = Some s /\
  c s = CDefer (ORet 7) /\ r s = RPSend (PUser 9) /\ g s = GDone /\
  (forall l, l <> LEnv -> step cf_w2 s l = None).
Proof.
  destruct (run cf_w2 (init cf_w2) sched_w2) as [s|] eqn:E; [|vm_compute in E; discriminate].
  exists s. split; [reflexivity|].
  vm_compute in E. inversion E; subst; clear E.
  repeat split; try reflexivity. apply stuck_spec. vm_compute. reflexivity.
Qed.

(* W3: the reducer's guardedWriter has passed its `default` when a mapper's cancel closes `output`: the send
   panics (send on closed channel), the caller has already returned the cancel error, the reducer leaks in
   panicChan.write. *)
Definition cf_w3 : cfg := mkcfg 1 [0] None (fun _ => [ACancel (Some 5)]) (Some 0) [RWrite 7] false.
Definition sched_w3 : list label :=
  [LX; LXAcq; LGSendX; LX; LG; LG; LR; LW 0; LW 0; LW 0; LW 0; LCOut; LC; LXStop; LR; LW 0; LX; LX; LR; LR].

Lemma w3_send_on_closed_output : exists s,
  run cf_w3 (init cf_w3) sched_w3 = Some s /\
  c s = CDone (OErr (EUser 5)) /\ r s = RPSend PSendClosed /\ g s = GDone /\
  (forall l, l <> LEnv -> step cf_w3 s l = None).
Proof.
  destruct (run cf_w3 (init cf_w3) sched_w3) as [s|] eqn:E; [|vm_compute in E; discriminate].
  exists s. split; [reflexivity|].
  vm_compute in E. inversion E; subst; clear E.
  repeat split; try reflexivity. apply stuck_spec. vm_compute. reflexivity.
Qed.

(* W4: the context is done before the call, yet a caller that reaches its select late finds `output` closed as
   well and may take that arm: ErrReduceNoOutput instead of context.DeadlineExceeded. *)
Definition cf_w4 : cfg := mkcfg 1 [] None (fun _ => []) None [] true.
Definition sched_w4 : list label := [LX; LXStop; LX; LG; LG; LX; LR; LR; LR; LR; LCOut; LC].

Lemma w4_ctx_done_other_result : exists s,
  run cf_w4 (init cf_w4) sched_w4 = Some s /\ ctxd (init cf_w4) = true /\ final s = true /\ c s = CDone ONoOutput.
Proof.
  destruct (run cf_w4 (init cf_w4) sched_w4) as [s|] eqn:E; [|vm_compute in E; discriminate].
  exists s. split; [reflexivity|].
  vm_compute in E. inversion E; subst; clear E. repeat split; reflexivity.
Qed.

(* ---------------------------------------------------------------- exhaustive small-bound tests *)
Definition is_err (s : state) : bool := match c s with CDone (OErr _) => true | _ => false end.
Definition is_panic (s : state) : bool := match c s with CDone (OPanic _) => true | _ => false end.
Definition outcome_is (o : outcome) (s : state) : bool :=
  match c s, o with
  | CDone (ORet a), ORet b => Nat.eqb a b
  | CDone ONoOutput, ONoOutput => true
  | CDone OPanicTwice, OPanicTwice => true
  | _, _ => false
  end.

(* clean: 2 items x 2 workers, range reducer, one result *)
Definition cf_t1 : cfg := mkcfg 2 [0; 1] None (fun _ => [AWrite 1]) None [RWrite 7] false.
Example test_clean_2x2 :
  explore_ok cf_t1 false (fun s => outcome_is (ORet 7) s && Nat.eqb (List.length (recvd s)) 2) fuel = true.
Proof. vm_compute. reflexivity. Qed.

(* clean: 3 items x 1 worker, reducer stops after 1 value and writes twice: the caller panics *)
Definition cf_t2 : cfg := mkcfg 1 [0; 1; 2] None (fun _ => [AWrite 1; AWrite 2]) (Some 1) [RWrite 7; RWrite 8] false.
Example test_clean_stop_early_twice : explore_ok cf_t2 false (outcome_is OPanicTwice) fuel = true.
Proof. vm_compute. reflexivity. Qed.

(* cancels (two cancelling mappers, one of them with nil, writes around the cancel) and a mapper that only
   returns after the call has returned: every maximal run ends with all goroutines exited and an error outcome *)
Definition cf_t3 : cfg :=
  mkcfg 2 [0; 1; 2] None
        (fun i => match i with 0 => [AWrite 1; ACancel (Some 5); AWrite 2] | 1 => [ACancel None] | _ => [AWaitRet; AWrite 1] end)
        None [RWrite 7] false.
Example test_cancel_waitret : explore_ok cf_t3 false is_err fuel = true.
Proof. vm_compute. reflexivity. Qed.

(* double cancel in one mapper, reducer stops early without writing *)
Definition cf_t4 : cfg :=
  mkcfg 1 [0; 1] None (fun i => match i with 0 => [ACancel (Some 5); ACancel (Some 6)] | _ => [AWrite 1] end) (Some 1) [] false.
Example test_double_cancel :
  explore_ok cf_t4 false (fun s => match c s with CDone (OErr (EUser 5)) => true | _ => false end) fuel = true.
Proof. vm_compute. reflexivity. Qed.

(* the context may become done at any moment (environment step), no panics, reducer writes nothing
   (with a reducer write the race of witness W3 appears: see test_ctx_write_race below): no stuck state *)
Definition cf_t5 : cfg := mkcfg 2 [0; 1] None (fun _ => [AWrite 1]) None [] false.
Example test_ctx_any_time : explore_ok cf_t5 true (fun _ => true) fuel = true.
Proof. vm_compute. reflexivity. Qed.

(* ... and with a reducer write the exploration does find the stuck state (finish racing with the reducer's send) *)
Definition cf_t5w : cfg := mkcfg 2 [0; 1] None (fun _ => [AWrite 1]) None [RWrite 7] false.
Example test_ctx_write_race :
  match bad (explore cf_t5w true (fun _ => true) fuel) with
  | Some (_, s) => match r s with RPSend PSendClosed => negb (final s) | _ => false end
  | None => false
  end = true.
Proof. vm_compute. reflexivity. Qed.

(* context done before the call, plus a cancelling mapper *)
Definition cf_t6 : cfg :=
  mkcfg 2 [0; 1] None (fun i => match i with 0 => [AWrite 1; ACancel (Some 5)] | _ => [AWrite 1] end) None [] true.
Example test_ctx_pre_cancel : explore_ok cf_t6 false (fun _ => true) fuel = true.
Proof. vm_compute. reflexivity. Qed.

(* deliverable panics: two panicking mappers, reducer stops early without writing: one of them is re-raised *)
Definition cf_t7 : cfg :=
  mkcfg 2 [0; 1] None (fun i => match i with 0 => [AWrite 1; APanic 4] | _ => [APanic 5] end) (Some 1) [] false.
Example test_panics_reraised : explore_ok cf_t7 false is_panic fuel = true.
Proof. vm_compute. reflexivity. Qed.

(* a generator panic alone is re-raised *)
Definition cf_t7g : cfg := mkcfg 2 [0; 1] (Some 8) (fun _ => [AWrite 1]) None [RWrite 7] false.
Example test_generator_panic_reraised : explore_ok cf_t7g false is_panic fuel = true.
Proof. vm_compute. reflexivity. Qed.

(* W5 (found by this exploration): generator panic + mapper panic. If the generator wins the CAS, the mapper's
   `failed` makes X leave its loop without the source being closed; the collector closes, the reducer finishes,
   output closes, and a caller whose select sees both panicChan and the closed output may take the latter:
   ErrReduceNoOutput, the generator goroutine and X (drain(source)) stay blocked for ever. *)
Definition cf_w5 : cfg :=
  mkcfg 2 [0; 1] (Some 8) (fun i => match i with 0 => [AWrite 1; APanic 4] | _ => [AWrite 1] end) (Some 1) [] false.
Definition sched_w5 : list label :=
  [LX; LXAcq; LGSendX; LX; LXAcq; LGSendX; LG; LG; LW 1; LW 1; LR; LR; LW 1; LW 0; LW 0; LR; LW 0; LW 0; LX; LW 0; LX;
   LR; LR; LCOut; LC].
Lemma w5_two_panics_select_race : exists s,
  run cf_w5 (init cf_w5) sched_w5 = Some s /\
  c s = CDone ONoOutput /\ g s = GPanicSend 8 /\ x s = XDrain /\
  (forall l, l <> LEnv -> step cf_w5 s l = None).
Proof.
  destruct (run cf_w5 (init cf_w5) sched_w5) as [s|] eqn:E; [|vm_compute in E; discriminate].
  exists s. split; [reflexivity|].
  vm_compute in E. inversion E; subst; clear E.
  repeat split; try reflexivity. apply stuck_spec. vm_compute. reflexivity.
Qed.

(* reducer panics after consuming everything, nothing written before *)
Definition cf_t8 : cfg := mkcfg 1 [0; 1] None (fun _ => [AWrite 1]) None [RPanic 9] false.
Example test_reducer_panic : explore_ok cf_t8 false is_panic fuel = true.
Proof. vm_compute. reflexivity. Qed.
