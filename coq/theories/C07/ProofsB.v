(* C07 ProofsB: cancel-once (first cancel wins), outcome soundness, clean-case results.
   Everything is proved for all configs and all schedules (arbitrary label lists). *)
From God Require Import Base.Prelude C07.Model.

(* ------------------------------------------------------------------ *)
(* definitions                                                         *)
(* ------------------------------------------------------------------ *)
Definition clean (s : state) : Prop := ctxd s = false /\ conce s = ONone /\ wrote s = false.
Fixpoint writes (a : list ract) : list nat :=
  match a with [] => [] | RWrite k :: t => k :: writes t | RPanic _ :: t => writes t end.
Definition no_rpanic (a : list ract) : Prop := forall p, ~ In (RPanic p) a.
Definition caller_outcome (s : state) : option outcome :=
  match c s with CDefer o | CDone o => Some o | _ => None end.

(* ------------------------------------------------------------------ *)
(* generic induction principles over run                               *)
(* ------------------------------------------------------------------ *)
Lemma runB_app : forall cf l1 l2 s,
  run cf s (l1 ++ l2) = match run cf s l1 with Some s' => run cf s' l2 | None => None end.
Proof.
  induction l1 as [|a t IH]; simpl; intros; auto.
  destruct (step cf s a); auto.
Qed.

Lemma reachB_init : forall cf, reachable cf (init cf).
Proof. intros cf. exists []. reflexivity. Qed.

Lemma reachB_step : forall cf s l s',
  reachable cf s -> step cf s l = Some s' -> reachable cf s'.
Proof.
  intros cf s l s' [ls H] E. exists (ls ++ [l]).
  rewrite runB_app, H. simpl. rewrite E. reflexivity.
Qed.

Lemma reachB_run : forall cf ls s s',
  reachable cf s -> run cf s ls = Some s' -> reachable cf s'.
Proof.
  intros cf ls s s' [l0 H] E. exists (l0 ++ ls). rewrite runB_app, H. exact E.
Qed.

(* two-state version: a relation-free invariant preserved by every step is preserved by run;
   the step hypothesis may use reachability of the source state *)
Lemma run_ind2 : forall cf (P : state -> Prop),
  (forall s l s', reachable cf s -> P s -> step cf s l = Some s' -> P s') ->
  forall ls s s', reachable cf s -> P s -> run cf s ls = Some s' -> P s'.
Proof.
  intros cf P HS. induction ls as [|l t IH]; simpl; intros s s' R0 P0 E.
  - inversion E; subst; auto.
  - destruct (step cf s l) eqn:Es; try discriminate.
    eapply IH; [ eapply reachB_step; eauto | eapply HS; eauto | exact E ].
Qed.

Lemma reach_ind : forall cf (P : state -> Prop),
  P (init cf) ->
  (forall s l s', reachable cf s -> P s -> step cf s l = Some s' -> P s') ->
  forall s, reachable cf s -> P s.
Proof.
  intros cf P H0 HS s [ls H].
  eapply run_ind2; eauto using reachB_init.
Qed.

(* ------------------------------------------------------------------ *)
(* tactics                                                             *)
(* ------------------------------------------------------------------ *)
Ltac sproj :=
  cbn [g srcc x pool failed ws coll collc r c ctxd fin conce reterr wrote drained written dropped
       recvd cdrained ccalls fpanic
       set_g set_srcc set_x set_pool set_failed set_ws set_coll set_collc set_r set_c set_ctxd
       set_fin set_conce set_reterr set_wrote set_drained set_written set_dropped set_recvd
       set_cdrained set_ccalls set_fpanic] in *.

Ltac unf_step H :=
  unfold step_env, step_g, step_gsx, step_gsk, step_x, step_xstop, step_xacq, step_w, step_r,
         step_c, step_cctx, step_cpanic, step_cout, cas_panic, cancel_enter, cancel_fin,
         set_w, load_outcome, deferred_outcome in H.

(* case analysis on everything the step function matches on; H : .. = Some s' *)
Ltac inv_step H :=
  repeat (cbv beta iota zeta in H;
          match type of H with
          | context[match ?e with _ => _ end] =>
              lazymatch e with
              | context[match _ with _ => _ end] => fail
              | _ => idtac
              end;
              first [ is_var e; destruct e
                    | let E := fresh "E" in destruct e eqn:E ]
          end;
          try discriminate H);
  cbv beta iota zeta in H;
  try discriminate H;
  inversion H; subst; clear H.

(* the standard opening: all fields of s become variables *)
Ltac open_step' l H :=
  destruct l; simpl step in H; unf_step H; sproj; inv_step H; sproj.
Ltac open_step s l H := destruct s; open_step' l H.

(* ------------------------------------------------------------------ *)
(* list helpers                                                        *)
(* ------------------------------------------------------------------ *)
Lemma upd_filter_len : forall {A} (f : A -> bool) l i w w',
  nth_error l i = Some w ->
  List.length (filter f (upd_nth i w' l)) + (if f w then 1 else 0)
  = List.length (filter f l) + (if f w' then 1 else 0).
Proof.
  intros A f. induction l as [|h t IH]; intros [|i] w w' H; simpl in *; try discriminate.
  - inversion H; subst. destruct (f w), (f w'); simpl; lia.
  - specialize (IH _ _ w' H). destruct (f h); simpl; lia.
Qed.

Lemma In_upd : forall {A} (l : list A) i a b, In b (upd_nth i a l) -> b = a \/ In b l.
Proof.
  induction l as [|h t IH]; intros [|i] a b H; simpl in *; try tauto.
  - destruct H; auto.
  - destruct H; auto. apply IH in H. tauto.
Qed.

Lemma forallb_nth : forall {A} (f : A -> bool) l i w,
  forallb f l = true -> nth_error l i = Some w -> f w = true.
Proof.
  intros A f. induction l as [|h t IH]; intros [|i] w H E; simpl in *; try discriminate.
  - inversion E; subst. apply andb_true_iff in H. tauto.
  - apply andb_true_iff in H. eapply IH; [apply H | exact E].
Qed.

Lemma filter_len_app : forall {A} (f : A -> bool) l1 l2,
  List.length (filter f (l1 ++ l2)) = List.length (filter f l1) + List.length (filter f l2).
Proof. intros. rewrite filter_app, app_length. reflexivity. Qed.

Lemma hd_rev_cons : forall {A} (e : A) l, l <> [] -> hd_error (rev (e :: l)) = hd_error (rev l).
Proof.
  intros A e l H. simpl. destruct (rev l) eqn:E.
  - destruct l; [congruence|]. simpl in E. destruct (rev l); discriminate.
  - reflexivity.
Qed.

(* ------------------------------------------------------------------ *)
(* A. the cancel once                                                  *)
(* ------------------------------------------------------------------ *)
Definition w_incancel (w : item * wpc) : bool :=
  match snd w with WCancel CcDrain _ _ | WCancel CcFin _ _ => true | _ => false end.
Definition c_incancel (p : cpc) : bool :=
  match p with CCancel CcDrain | CCancel CcFin => true | _ => false end.
Definition ncancel (s : state) : nat :=
  List.length (filter w_incancel (ws s)) + (if c_incancel (c s) then 1 else 0).

Definition invA (s : state) : Prop :=
  reterr s = hd_error (rev (ccalls s)) /\
  (conce s = ONone <-> ccalls s = []) /\
  (conce s = ONone <-> reterr s = None) /\
  ncancel s = (match conce s with ORunning => 1 | _ => 0 end) /\
  (conce s = ODone -> fin s = true).

(* relate the filter count before/after an update of mapper i *)
Ltac use_upd f :=
  match goal with
  | H : nth_error ?l ?i = Some ?w |- context[upd_nth ?i ?w' ?l] =>
      let Hn := fresh "Hn" in
      pose proof (upd_filter_len f l i w w' H) as Hn; simpl in Hn
  end.

Lemma invA_init : forall cf, invA (init cf).
Proof. intros cf. unfold invA, ncancel, init. simpl. intuition congruence. Qed.

Lemma invA_step : forall cf s l s', invA s -> step cf s l = Some s' -> invA s'.
Proof.
  intros cf s l s' I H. unfold invA, ncancel in *. destruct I as (I1 & I2 & I3 & I4 & I5).
  open_step s l H.
  all: try use_upd w_incancel.
  all: try rewrite filter_len_app; cbn [c_incancel w_incancel snd filter length] in *.
  all: try match goal with
       | I : ONone = ONone <-> ?cc = [] |- _ =>
           assert (cc = []) by (apply I; reflexivity); subst cc; simpl rev; simpl app
       | I : ODone = ONone <-> ?cc = [] |- _ =>
           assert (cc <> []) by (intro; assert (ODone = ONone) by (apply I; assumption); discriminate);
           try rewrite hd_rev_cons by assumption
       end.
  all: try solve [intuition (try congruence; try lia)].
  all: try solve [destruct conce; intuition (try congruence; try lia)].
Qed.

Lemma invA_reach : forall cf s, reachable cf s -> invA s.
Proof.
  intros cf. apply reach_ind; [apply invA_init | intros; eapply invA_step; eauto].
Qed.

(* B1 *)
Theorem first_cancel_wins : forall cf s, reachable cf s -> reterr s = hd_error (rev (ccalls s)).
Proof. intros cf s R. apply (invA_reach cf s R). Qed.

Theorem once_states : forall cf s, reachable cf s ->
  (conce s = ONone <-> ccalls s = []) /\ (conce s = ONone <-> reterr s = None).
Proof. intros cf s R. destruct (invA_reach cf s R) as (_ & H2 & H3 & _). split; assumption. Qed.

Lemma reterr_stable_step : forall cf s l s' e,
  invA s -> step cf s l = Some s' -> reterr s = Some e -> reterr s' = Some e.
Proof.
  intros cf s l s' e I H. unfold invA in I. destruct I as (_ & _ & I3 & _).
  open_step s l H; intros; try assumption.
  all: assert (X : reterr = None) by (apply I3; reflexivity); congruence.
Qed.

Theorem reterr_stable : forall cf s ls s' e,
  run cf s ls = Some s' -> reachable cf s -> reterr s = Some e -> reterr s' = Some e.
Proof.
  intros cf s ls s' e H R E.
  apply (run_ind2 cf (fun t => reterr t = Some e)) with (ls := ls) (s := s); auto.
  intros s0 l s1 R0 P0 St. eapply reterr_stable_step; eauto using invA_reach.
Qed.

Lemma drains_ncancel : forall l, existsb w_draining l = true -> 1 <= List.length (filter w_incancel l).
Proof.
  induction l as [|[it p] t IH]; simpl; intro H; try discriminate.
  unfold w_draining, w_incancel in *; simpl in *.
  destruct p; simpl in *; try (apply IH in H; lia).
  destruct k; simpl in *; try lia; apply IH in H; lia.
Qed.

Theorem J6 : forall cf s, reachable cf s -> someone_drains s = true -> conce s = ORunning.
Proof.
  intros cf s R H. destruct (invA_reach cf s R) as (_ & _ & _ & I4 & _).
  unfold ncancel, someone_drains in *. apply orb_true_iff in H.
  destruct (conce s); auto; exfalso.
  all: destruct H as [H|H]; [apply drains_ncancel in H; lia|].
  all: destruct (c s); try discriminate; destruct k; try discriminate; simpl in I4; lia.
Qed.


(* ------------------------------------------------------------------ *)
(* S. structural invariants                                            *)
(* ------------------------------------------------------------------ *)
Definition r_late (p : rpc) : bool :=
  match p with RFinish | RDone | RPanicCas _ => true | _ => false end.
Definition x_late (p : xpc) : bool :=
  match p with XWait | XDrain | XDone => true | _ => false end.

Definition c_cancel (p : cpc) : bool := match p with CCancel _ => true | _ => false end.

Definition invS (s : state) : Prop :=
  (fin s = true -> conce s = ODone \/ r s = RDone) /\
  (r_late (r s) = true -> collc s = true) /\
  (collc s = true -> x s = XDrain \/ x s = XDone) /\
  (collc s = true -> forallb w_exited (ws s) = true) /\
  (srcc s = true <-> g s = GDone) /\
  (failed s = true -> wrote s = true) /\
  (c_cancel (c s) = true -> ctxd s = true) /\
  (x_late (x s) = true -> srcc s = true \/ ctxd s = true \/ wrote s = true \/ conce s <> ONone).

Ltac w_contra :=
  match goal with
  | Hf : forallb w_exited ?l = true, E : nth_error ?l _ = Some _ |- _ =>
      let Hx := fresh in pose proof (forallb_nth _ _ _ _ Hf E) as Hx; discriminate Hx
  end.

Ltac splits := repeat match goal with |- _ /\ _ => split end.
Ltac leaf := try congruence; try discriminate; try w_contra.

Lemma invS_init : forall cf, invS (init cf).
Proof.
  intros cf. unfold invS, init. simpl.
  destruct (rtake cf) as [[|n]|]; simpl; intuition (try congruence; try discriminate).
Qed.

Lemma r_late_next : forall lft a, r_late (r_next lft a) = false /\ r_next lft a <> RDone.
Proof. intros [[|[|n]]|] a; simpl; split; congruence. Qed.

Lemma invS_step : forall cf s l s', invS s -> step cf s l = Some s' -> invS s'.
Proof.
  intros cf s l s' I H. unfold invS in *.
  destruct I as (I1 & I2 & I3 & I4 & I5 & I6 & I7 & I8).
  open_step s l H.
  all: cbn [r_late x_late c_cancel] in *.
  all: splits; try assumption.
  all: try match goal with |- context[r_next ?l ?a] => destruct (r_late_next l a) end.
  all: try solve [intuition leaf].
  intros _. apply orb_true_iff in E. destruct E as [E|E]; auto.
  destruct (I1 E) as [D|D]; [right; right; right; congruence|].
  subst r. simpl in I2. destruct (I3 (I2 eq_refl)); discriminate.
Qed.

Lemma invS_reach : forall cf s, reachable cf s -> invS s.
Proof.
  intros cf. apply reach_ind; [apply invS_init | intros; eapply invS_step; eauto].
Qed.


(* B3: J1, J4 *)
Theorem J1 : forall cf s, reachable cf s ->
  (r s = RFinish \/ r s = RDone \/ (exists p, r s = RPanicCas p)) ->
  collc s = true.
Proof.
  intros cf s R H. destruct (invS_reach cf s R) as (_ & I2 & _). apply I2.
  destruct H as [H|[H|[p H]]]; rewrite H; reflexivity.
Qed.

Theorem J4 : forall cf s, reachable cf s -> (srcc s = true <-> g s = GDone).
Proof. intros cf s R. apply (invS_reach cf s R). Qed.

(* ------------------------------------------------------------------ *)
(* P. the panic channel: one CAS winner                                *)
(* ------------------------------------------------------------------ *)
Definition invP (s : state) : Prop :=
  (wrote s = false -> fpanic s = None) /\
  (wrote s = true -> exists p, fpanic s = Some p) /\
  (forall p, c s = CDrainOut p -> fpanic s = Some p).

Ltac in_tac :=
  intros;
  repeat match goal with
  | H : In _ (upd_nth _ _ _) |- _ =>
      apply In_upd in H; destruct H as [H|H]; [inversion H; subst; clear H|]
  | H : In _ (_ ++ [_]) |- _ =>
      apply in_app_or in H; destruct H as [H|[H|[]]]; [|inversion H; subst; clear H]
  end.
Ltac use_in :=
  match goal with
  | H : forall it p, In _ _ -> _, H0 : In _ _ |- _ => specialize (H _ _ H0)
  end.

Ltac use_fa :=
  repeat match goal with
  | I : forall _, _ = _ -> _, H : _ = _ |- _ => specialize (I _ H)
  end.
Ltac inj_all :=
  repeat match goal with
  | H : CDrainOut _ = CDrainOut _ |- _ => inversion H; subst; clear H
  | H : CDefer _ = CDefer _ |- _ => inversion H; subst; clear H
  | H : CDone _ = CDone _ |- _ => inversion H; subst; clear H
  | H : Some _ = Some _ |- _ => inversion H; subst; clear H
  end.

Lemma invP_init : forall cf, invP (init cf).
Proof.
  intros cf. unfold invP, init. simpl.
  destruct (rtake cf) as [[|n]|]; simpl; intuition (try congruence; try discriminate).
Qed.

Lemma invP_step : forall cf s l s', invP s -> step cf s l = Some s' -> invP s'.
Proof.
  intros cf s l s' I H. unfold invP in *.
  destruct I as (I1 & I2 & I5).
  open_step s l H.
  all: splits; try assumption.
  all: try match goal with
       | I1 : false = false -> ?f = None |- _ =>
           assert (f = None) by (apply I1; reflexivity); subst f
       end.
  all: try match goal with |- context[r_next ?l ?a] => destruct l as [[|[|?]]|]; cbn [r_next] end.
  all: try solve [in_tac; try use_in; use_fa; inj_all; leaf; eauto].
Qed.

Lemma invP_reach : forall cf s, reachable cf s -> invP s.
Proof.
  intros cf. apply reach_ind; [apply invP_init | intros; eapply invP_step; eauto].
Qed.

(* ------------------------------------------------------------------ *)
(* N. `for v := range pipe` reducers leave nothing to the deferred drain *)
(* ------------------------------------------------------------------ *)
Definition invN (cf : cfg) (s : state) : Prop :=
  rtake cf = None ->
  ((exists a, r s = RRecv None a) \/ (coll s = [] /\ collc s = true)) /\ cdrained s = [].

Lemma invN_init : forall cf, invN cf (init cf).
Proof.
  intros cf Hn. unfold init. rewrite Hn. simpl. split; auto. left. eexists; reflexivity.
Qed.

Lemma invN_step : forall cf s l s', invN cf s -> step cf s l = Some s' -> invN cf s'.
Proof.
  intros cf s l s' I H Hn. specialize (I Hn). destruct s; sproj.
  destruct I as [[[a Ha]|[Hc1 Hc2]] Hd]; subst.
  all: open_step' l H.
  all: try discriminate.
  all: split; try reflexivity.
  all: try solve [left; eexists; reflexivity].
  all: try solve [right; split; reflexivity].
Qed.

Lemma invN_reach : forall cf s, reachable cf s -> invN cf s.
Proof.
  intros cf. apply reach_ind; [apply invN_init | intros; eapply invN_step; eauto].
Qed.

(* ------------------------------------------------------------------ *)
(* O. the reducer's script position and the caller's outcome           *)
(* ------------------------------------------------------------------ *)
Definition remaining (p : rpc) : list ract :=
  match p with RRecv _ a => a | RRun a => a | RSend k a => RWrite k :: a | _ => [] end.
(* the caller has taken its value (or the close) from `output` *)
Definition c_defer (p : cpc) : bool := match p with CDefer _ | COut _ => true | _ => false end.

Lemma writes_app : forall a b, writes (a ++ b) = writes a ++ writes b.
Proof. induction a as [|[k|p] t IH]; simpl; intros; rewrite ?IH; reflexivity. Qed.

Lemma remaining_next : forall lft a, remaining (r_next lft a) = a.
Proof. intros [[|[|n]]|] a; reflexivity. Qed.

(* pre = the part of the script the reducer has gone past; once the caller sits in the deferred
   range with `output` still open it has taken one value from `output` *)
Definition invO1 (cf : cfg) (s : state) : Prop :=
  exists pre post, rafter cf = pre ++ remaining (r s) ++ post /\
    (c_defer (c s) = true -> fin s = false -> 1 <= List.length (writes pre)).

Lemma invO1_init : forall cf, invO1 cf (init cf).
Proof.
  intros cf. exists [], []. unfold init. simpl. split; [|discriminate].
  destruct (rtake cf) as [[|n]|]; simpl; rewrite app_nil_r; reflexivity.
Qed.

Lemma invO1_step : forall cf s l s', invA s -> invO1 cf s -> step cf s l = Some s' -> invO1 cf s'.
Proof.
  intros cf s l s' IA I H. unfold invO1 in *. destruct IA as (_ & _ & _ & _ & IA5).
  destruct I as (pre & post & Hr & Hd).
  open_step s l H.
  all: cbn [remaining c_defer] in *; rewrite ?remaining_next.
  all: try solve [exists pre, post; split; [exact Hr | intros; leaf; auto]].
  all: try solve [exists pre; eexists; split;
                  [etransitivity; [exact Hr|]; cbn [app]; reflexivity | intros; leaf; auto]].
  all: try solve [match type of Hr with _ = _ ++ (RWrite ?k :: _) ++ _ =>
                    exists (pre ++ [RWrite k]), post end;
                  split; [rewrite Hr, <- app_assoc; reflexivity
                         | intros; rewrite writes_app, app_length; simpl; lia]].
  exists pre, post. split; [exact Hr|]. intros _ F. rewrite IA5 in F by reflexivity. discriminate.
Qed.

Lemma invO1_reach : forall cf s, reachable cf s -> invO1 cf s.
Proof.
  intros cf. apply reach_ind; [apply invO1_init |].
  intros; eapply invO1_step; eauto using invA_reach.
Qed.

Definition sound (cf : cfg) (s : state) (o : outcome) : Prop :=
  match o with
  | OErr e => (e = EDeadline /\ ctxd s = true) \/ reterr s = Some e
  | OPanic p => fpanic s = Some p
  | ORet k => In (RWrite k) (rafter cf)
  | ONoOutput => fin s = true
  | OPanicTwice => 2 <= List.length (writes (rafter cf))
  end.

(* what the caller holds between the output arm and retErr.Load *)
Definition invO3 (cf : cfg) (s : state) : Prop :=
  match c s with
  | COut (Some k) => In (RWrite k) (rafter cf)
  | COut None => fin s = true
  | _ => True
  end.

Lemma invO3_init : forall cf, invO3 cf (init cf).
Proof. intros cf. exact I. Qed.

Lemma invO3_step : forall cf s l s', invO1 cf s -> invO3 cf s -> step cf s l = Some s' -> invO3 cf s'.
Proof.
  intros cf s l s' IO I H. unfold invO3, invO1 in *.
  destruct IO as (pre & post & Hr & _).
  open_step s l H.
  all: try assumption; try exact Logic.I; try reflexivity.
  all: cbn [remaining] in *.
  all: try solve [repeat match goal with |- context[match ?x with _ => _ end] => destruct x end; auto].
  rewrite Hr. simpl. apply in_elt.
Qed.

Lemma invO3_reach : forall cf s, reachable cf s -> invO3 cf s.
Proof.
  intros cf. apply reach_ind; [apply invO3_init |].
  intros; eapply invO3_step; eauto using invO1_reach.
Qed.

Definition invO2 (cf : cfg) (s : state) : Prop :=
  forall o, caller_outcome s = Some o -> sound cf s o.

Lemma invO2_init : forall cf, invO2 cf (init cf).
Proof. intros cf o H. discriminate H. Qed.

Lemma invO2_step : forall cf s l s',
  invA s -> invS s -> invP s -> invO1 cf s -> invO3 cf s -> invO2 cf s ->
  step cf s l = Some s' -> invO2 cf s'.
Proof.
  intros cf s l s' IA IS IP IO IO3 I H. unfold invO2, invO1, invO3, caller_outcome in *.
  destruct IA as (_ & _ & IA3 & _ & _).
  destruct IS as (_ & _ & _ & _ & _ & _ & IS7 & _).
  destruct IP as (IP1 & _ & IP5).
  destruct IO as (pre & post & Hr & Hd).
  open_step s l H.
  all: try assumption.
  all: cbn [remaining c_defer c_cancel] in *.
  all: intros o0 Ho.
  all: try discriminate Ho.
  all: first [ specialize (I _ Ho); destruct o0; unfold sound in *; sproj
             | inversion Ho; subst; clear Ho; unfold sound in *; sproj ].
  all: try assumption; try reflexivity.
  all: try (assert (reterr = None) by (apply IA3; reflexivity); subst reterr).
  all: try (assert (fpanic = None) by (apply IP1; reflexivity); subst fpanic).
  all: try solve [intuition congruence].
  - apply IP5; reflexivity.
  - rewrite Hr, writes_app, app_length. specialize (Hd eq_refl eq_refl). simpl. lia.
Qed.

Lemma invO2_reach : forall cf s, reachable cf s -> invO2 cf s.
Proof.
  intros cf. apply reach_ind; [apply invO2_init |].
  intros; eapply invO2_step; eauto using invA_reach, invS_reach, invP_reach, invO1_reach, invO3_reach.
Qed.

(* monotone flags; the panic value is fixed by the CAS winner *)
Lemma flags_mono_step : forall cf s l s', step cf s l = Some s' ->
  (ctxd s = true -> ctxd s' = true) /\ (fin s = true -> fin s' = true) /\
  (wrote s = true -> wrote s' = true) /\ (collc s = true -> collc s' = true) /\
  (srcc s = true -> srcc s' = true) /\ (conce s <> ONone -> conce s' <> ONone).
Proof.
  intros cf s l s' H. open_step s l H.
  all: splits; intros; try assumption; try reflexivity; try discriminate; try congruence.
Qed.

Theorem flags_mono : forall cf s ls s', run cf s ls = Some s' ->
  (ctxd s = true -> ctxd s' = true) /\ (fin s = true -> fin s' = true) /\
  (wrote s = true -> wrote s' = true) /\ (collc s = true -> collc s' = true) /\
  (srcc s = true -> srcc s' = true) /\ (conce s <> ONone -> conce s' <> ONone).
Proof.
  intros cf s ls. revert s. induction ls as [|l t IH]; simpl; intros s s' H.
  - inversion H; subst. tauto.
  - destruct (step cf s l) eqn:E; try discriminate.
    pose proof (flags_mono_step _ _ _ _ E). pose proof (IH _ _ H). tauto.
Qed.

Lemma fpanic_stable_step : forall cf s l s' p,
  invP s -> step cf s l = Some s' -> fpanic s = Some p -> fpanic s' = Some p.
Proof.
  intros cf s l s' p I H. destruct I as (I1 & _).
  open_step s l H; intros; try assumption.
  all: assert (X : fpanic = None) by (apply I1; reflexivity); congruence.
Qed.

Theorem fpanic_stable : forall cf s ls s' p,
  run cf s ls = Some s' -> reachable cf s -> fpanic s = Some p -> fpanic s' = Some p.
Proof.
  intros cf s ls s' p H R E.
  apply (run_ind2 cf (fun t => fpanic t = Some p)) with (ls := ls) (s := s); auto.
  intros s0 l s1 R0 P0 St. eapply fpanic_stable_step; eauto using invP_reach.
Qed.

Theorem wrote_fpanic : forall cf s, reachable cf s -> (wrote s = false -> fpanic s = None).
Proof. intros cf s R. apply (invP_reach cf s R). Qed.

(* the one-slot buffer holds a value once the CAS was won; the caller re-raises that value *)
Theorem psend_fpanic : forall cf s, reachable cf s ->
  (wrote s = true -> exists p, fpanic s = Some p) /\
  (forall p, c s = CDrainOut p -> fpanic s = Some p).
Proof. intros cf s R. destruct (invP_reach cf s R) as (_ & H). exact H. Qed.

(* B2 *)
Theorem result_sound : forall cf s o, reachable cf s -> caller_outcome s = Some o ->
  match o with
  | OErr e => (e = EDeadline /\ ctxd s = true) \/ reterr s = Some e
  | OPanic p => fpanic s = Some p
  | ORet k => In (RWrite k) (rafter cf)
  | ONoOutput => fin s = true
  | OPanicTwice => 2 <= List.length (writes (rafter cf))
  end.
Proof. intros cf s o R H. apply (invO2_reach cf s R o H). Qed.





(* ------------------------------------------------------------------ *)
(* C. clean runs: no ctx, no cancel, no panic                          *)
(* ------------------------------------------------------------------ *)
Lemma clean_back_step : forall cf s l s', step cf s l = Some s' -> clean s' -> clean s.
Proof.
  intros cf s l s' H C. unfold clean in *. open_step s l H.
  all: try assumption.
  all: try solve [intuition congruence].
Qed.

Theorem clean_back : forall cf s ls s', run cf s ls = Some s' -> clean s' -> clean s.
Proof.
  intros cf s ls. revert s. induction ls as [|l t IH]; simpl; intros s s' H C.
  - inversion H; subst; exact C.
  - destruct (step cf s l) eqn:E; try discriminate.
    eapply clean_back_step; [exact E|]. eapply IH; eauto.
Qed.

(* induction over the clean reachable states *)
Lemma clean_ind : forall cf (P : state -> Prop),
  (clean (init cf) -> P (init cf)) ->
  (forall s l s', reachable cf s -> clean s -> clean s' -> P s -> step cf s l = Some s' -> P s') ->
  forall s, reachable cf s -> clean s -> P s.
Proof.
  intros cf P H0 HS.
  apply (reach_ind cf (fun s => clean s -> P s)); [exact H0|].
  intros s l s' R IH St C'. pose proof (clean_back_step _ _ _ _ St C') as C.
  eapply HS; eauto.
Qed.

Definition invC (s : state) : Prop := drained s = [] /\ dropped s = [].

Lemma invC_step : forall cf s l s',
  reachable cf s -> clean s -> invC s -> step cf s l = Some s' -> invC s'.
Proof.
  intros cf s l s' R C I H. unfold invC, clean in *.
  pose proof (J6 cf s R) as HJ6.
  destruct (invS_reach cf s R) as (I1 & I2 & I3 & I4 & I5 & I6 & I7 & I8).
  destruct s; sproj. destruct C as (? & ? & ?). destruct I as [? ?]. subst.
  open_step' l H.
  all: try (split; reflexivity).
  all: exfalso.
  - destruct (I8 eq_refl) as [X|[X|[X|X]]]; try discriminate; try congruence.
    apply I5 in X. discriminate.
  - specialize (HJ6 eq_refl). discriminate.
  - simpl in E0. destruct (I1 E0) as [X|X]; [discriminate|]. subst r.
    specialize (I4 (I2 eq_refl)). w_contra.
Qed.

(* clean runs lose nothing: every generated item reaches a mapper, every mapper write the collector *)
Theorem clean_no_loss : forall cf s, reachable cf s -> clean s -> drained s = [] /\ dropped s = [].
Proof.
  intros cf. apply (clean_ind cf invC).
  - intros _. split; reflexivity.
  - intros s l s' R C _ I H. eapply invC_step; eauto.
Qed.

Theorem clean_all_mapped : forall cf s, reachable cf s -> clean s -> final s = true ->
  drained s = [] /\ dropped s = [] /\ (rtake cf = None -> cdrained s = []).
Proof.
  intros cf s R C _. destruct (clean_no_loss cf s R C) as [H1 H2].
  split; [|split]; auto. intro Hn. apply (invN_reach cf s R Hn).
Qed.

(* stronger than asked: no cleanliness/finality needed for the range-reducer clause *)
Theorem range_reducer_drains_nothing : forall cf s, reachable cf s -> rtake cf = None -> cdrained s = [].
Proof. intros cf s R Hn. apply (invN_reach cf s R Hn). Qed.


(* joint position of reducer and caller in clean runs (reducer script without panics) *)
Definition invR (cf : cfg) (s : state) : Prop :=
  exists pre, rafter cf = pre ++ remaining (r s) /\
    match c s with
    | CSelect => writes pre = []
    | COut None => fin s = true /\ writes pre = []
    | COut (Some k) => writes pre = [k]
    | CDefer o => (o = ONoOutput /\ fin s = true /\ writes pre = []) \/
                  (exists k, o = ORet k /\ writes pre = [k])
    | CDone o => (o = ONoOutput /\ writes (rafter cf) = []) \/
                 (exists k, o = ORet k /\ writes (rafter cf) = [k]) \/
                 (o = OPanicTwice /\ 2 <= List.length (writes (rafter cf)))
    | _ => False
    end.

Lemma invR_init : forall cf, invR cf (init cf).
Proof.
  intros cf. exists []. unfold init. simpl. split; [|reflexivity].
  destruct (rtake cf) as [[|n]|]; reflexivity.
Qed.

Lemma invR_step : forall cf s l s',
  no_rpanic (rafter cf) -> reachable cf s -> clean s -> clean s' -> invR cf s ->
  step cf s l = Some s' -> invR cf s'.
Proof.
  intros cf s l s' NP R C C' I H. unfold invR, clean in *.
  destruct (invS_reach cf s R) as (I1 & I2 & _).
  destruct (invA_reach cf s R) as (_ & _ & IA3 & _).
  destruct (invP_reach cf s R) as (IP1 & _).
  destruct I as (pre & Hr & Hc).
  destruct s; sproj. destruct C as (? & ? & ?). subst.
  assert (reterr = None) by (apply IA3; reflexivity).
  assert (fpanic = None) by (apply IP1; reflexivity). subst. clear IA3 IP1.
  open_step' l H.
  all: try solve [destruct C' as (? & ? & ?); discriminate].
  all: clear C'.
  all: cbn [remaining] in *; rewrite ?remaining_next.
  all: try contradiction.
  all: try solve [exists pre; split; assumption].
  all: try solve [exfalso; match goal with E : _ = true |- _ =>
                    simpl in E; destruct (I1 E); discriminate end].
  all: try solve [exfalso; destruct (I1 eq_refl); discriminate].
  all: try solve [destruct (I1 eq_refl) as [X|X]; [discriminate|]; subst r; simpl in Hr;
                  exists pre; split; [assumption|]; rewrite app_nil_r in Hr; rewrite Hr;
                  destruct Hc as [(? & ? & ?)|?]; auto].
  - exfalso. apply (NP p). rewrite Hr. apply in_elt.
  - exists pre. split; [assumption|].
    repeat match goal with |- context[match ?x with _ => _ end] => destruct x end; intuition.
  - exists pre. split; [assumption|]. right. eauto.
  - exists pre. split; [assumption|]. left. intuition.
  - exists (pre ++ [RWrite k]). split; [rewrite Hr, <- app_assoc; reflexivity|].
    right; right. split; auto. rewrite Hr, writes_app, app_length.
    destruct Hc as [(? & ? & ?)|(k0 & ? & Hw)]; [discriminate|]. rewrite Hw. simpl. lia.
  - exists pre. split; [assumption|]. split; auto.
  - exists (pre ++ [RWrite k]). split; [rewrite Hr, <- app_assoc; reflexivity|].
    rewrite writes_app, Hc. reflexivity.
Qed.

Lemma invR_clean : forall cf, no_rpanic (rafter cf) ->
  forall s, reachable cf s -> clean s -> invR cf s.
Proof.
  intros cf NP. apply (clean_ind cf (invR cf)).
  - intros _. apply invR_init.
  - intros s l s' R C C' I H. eapply invR_step; eauto.
Qed.

Theorem clean_result : forall cf s o, reachable cf s -> clean s -> no_rpanic (rafter cf) ->
  c s = CDone o ->
  o = match writes (rafter cf) with [] => ONoOutput | [k] => ORet k | _ :: _ :: _ => OPanicTwice end.
Proof.
  intros cf s o R C NP Hc.
  destruct (invR_clean cf NP s R C) as (pre & _ & I). rewrite Hc in I.
  destruct I as [[-> Hw]|[(k & -> & Hw)|[-> Hw]]].
  - rewrite Hw. reflexivity.
  - rewrite Hw. reflexivity.
  - destruct (writes (rafter cf)) as [|k1 [|k2 t]]; simpl in Hw; try lia. reflexivity.
Qed.

