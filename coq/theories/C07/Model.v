(* C07 Model: lib/mr/mapreduce.go as a labelled transition system (executable `step`).

   Threads (goroutines of one MapReduce / MapReduceChan call):
     G   generator goroutine      buildSource:331-340 (or the owner of the channel given to MapReduceChan)
     X   dispatcher               executeMappers:256-296
     W i mapper goroutine no. i   executeMappers:281-293 (spawn order = index in `ws`)
     R   reducer goroutine        mapReduceWithPanicChan:212-222
     C   calling goroutine        mapReduceWithPanicChan:174-254
   Channels: source (unbuffered: a send is a rendezvous with X or with whoever is in drain(source)),
   collector (buffered, cap = workers), output (unbuffered: rendezvous R -> C), done, pool (semaphore,
   modelled as its token count), panicChan.channel (buffered, cap 1 since d413f58, guarded by the CAS in
   onceChan.write: the single winner's send never blocks; `wrote` = the CAS flag, `fpanic` = the buffered value;
   the caller's select arm is ready iff the buffer is full, and the caller reads it at most once).

   Atomicity choices (each merges adjacent steps no other thread can tell apart):
   * finish's body `close(done); close(output)` (:195-198) is one step, flag `fin`; a sync.Once whose
     body cannot block never blocks its other callers observably.
   * cancel (:200-209, once :304-311): entering the once and `retErr.Set` are one step (CcEnter);
     a second caller of a *running* once blocks until the first returns (sync.Once semantics): `conce`.
   * `item, ok := <-source; wg.Add(1); go func()` (:274-281) is one step (rendezvous with G).
   * `wg.Done(); <-pool` (:288-289) is one step; `wg.Wait(); close(collector)` (:259-260) is one step.
   * the re-check of panicChan in the output arm and the following retErr.Load (1af3580) are one step (COut).
   * the end of the deferred `for range output` and the re-check of panicChan after it (e753473) are one step.
   * select statements pick any ready arm (label says which); `default` only if no arm is ready
     (guardedWriter.Write :370-379).  A send on a closed channel panics (runtime), it is not dropped.
   Scripts: per-item mapper behaviour = list of actions, reducer = how many values to receive, then actions. *)
From God Require Import Base.Prelude.

Definition item := nat.
Definition val := (nat * nat)%type.                       (* (origin item, payload) *)
Inductive err := EUser (n : nat) | ECancelNil | EDeadline. (* :18-19 ErrCancelWithNil, context.DeadlineExceeded *)
Inductive pval := PUser (n : nat) | PSendClosed.           (* re-raised panic values; runtime "send on closed channel" *)

Inductive mact := AWrite (k : nat) | ACancel (e : option nat) | APanic (p : nat)
                | AWaitRet           (* a mapper that blocks until the call has returned (arbitrarily slow mapper) *)
                | ACtx.              (* a mapper that cancels the context given by WithContext *)
Inductive ract := RWrite (k : nat) | RPanic (p : nat).

Record cfg := mkcfg {
  workers : nat;                 (* options.workers >= minWorkers, :156-164 *)
  items : list item;             (* what generate sends *)
  gpanic : option nat;           (* generate panics after sending them *)
  beh : item -> list mact;       (* mapper script of an item *)
  rtake : option nat;            (* None: `for v := range pipe`; Some j: receive at most j values *)
  rafter : list ract;            (* then *)
  ctx0 : bool                    (* ctx already done at the call *)
}.

Definition err_of (e : option nat) : err := match e with Some n => EUser n | None => ECancelNil end. (* :201-205 *)

Inductive cc := CcEnter | CcDrain | CcFin.       (* inside cancel(err): at oc.Do | in drain(source) | before finish() *)
Inductive once := ONone | ORunning | ODone.

Inductive gpc := GSend (rest : list item) | GPanicCas (p : nat) | GClose | GDone.
Inductive xpc := XCheck | XSel | XHold | XWait | XDrain | XDone.
Inductive wpc :=
| WRun (acts : list mact)
| WSend (v : val) (acts : list mact)              (* passed the guard, in `w.channel <- v` :377 *)
| WCancel (k : cc) (e : err) (acts : list mact)
| WRecover (p : pval)                             (* :283-285, incl. panicChan.write :350-354 *)
| WFin                                            (* :288-289 *)
| WExit.
Inductive rpc :=
| RRecv (lft : option nat) (acts : list ract)
| RRun (acts : list ract)
| RSend (k : nat) (acts : list ract)              (* passed the guard, in `output <- v` *)
| RDrain (p : option pval)                        (* deferred drain(collector) :214 *)
| RPanicCas (p : pval)                            (* :215-217 *)
| RFinish | RDone.                                (* :218 *)
Inductive outcome := ORet (k : nat) | OErr (e : err) | ONoOutput | OPanic (p : pval) | OPanicTwice.
Inductive cpc :=
| CSelect                                         (* the select *)
| COut (got : option nat)                         (* `case v, ok := <-output` taken (Some v / closed), before the
                                                     non-blocking re-check of panicChan added by 1af3580 *)
| CCancel (k : cc)                                (* :239 *)
| CDrainOut (p : pval)                            (* :243 *)
| CDefer (o : outcome)                            (* :179-184 deferred `for range output` *)
| CDone (o : outcome).

Record state := mkst {
  g : gpc;
  srcc : bool;
  x : xpc;
  pool : nat;
  failed : bool;
  ws : list (item * wpc);
  coll : list val;
  collc : bool;
  r : rpc;
  c : cpc;
  ctxd : bool;
  fin : bool;
  conce : once;
  reterr : option err;
  wrote : bool;
  drained : list item;
  written : list val;
  dropped : list val;
  recvd : list val;
  cdrained : list val;
  ccalls : list err;
  fpanic : option pval
}.

Definition set_g (v : gpc) (s : state) : state := mkst v (srcc s) (x s) (pool s) (failed s) (ws s) (coll s) (collc s) (r s) (c s) (ctxd s) (fin s) (conce s) (reterr s) (wrote s) (drained s) (written s) (dropped s) (recvd s) (cdrained s) (ccalls s) (fpanic s).
Definition set_srcc (v : bool) (s : state) : state := mkst (g s) v (x s) (pool s) (failed s) (ws s) (coll s) (collc s) (r s) (c s) (ctxd s) (fin s) (conce s) (reterr s) (wrote s) (drained s) (written s) (dropped s) (recvd s) (cdrained s) (ccalls s) (fpanic s).
Definition set_x (v : xpc) (s : state) : state := mkst (g s) (srcc s) v (pool s) (failed s) (ws s) (coll s) (collc s) (r s) (c s) (ctxd s) (fin s) (conce s) (reterr s) (wrote s) (drained s) (written s) (dropped s) (recvd s) (cdrained s) (ccalls s) (fpanic s).
Definition set_pool (v : nat) (s : state) : state := mkst (g s) (srcc s) (x s) v (failed s) (ws s) (coll s) (collc s) (r s) (c s) (ctxd s) (fin s) (conce s) (reterr s) (wrote s) (drained s) (written s) (dropped s) (recvd s) (cdrained s) (ccalls s) (fpanic s).
Definition set_failed (v : bool) (s : state) : state := mkst (g s) (srcc s) (x s) (pool s) v (ws s) (coll s) (collc s) (r s) (c s) (ctxd s) (fin s) (conce s) (reterr s) (wrote s) (drained s) (written s) (dropped s) (recvd s) (cdrained s) (ccalls s) (fpanic s).
Definition set_ws (v : list (item * wpc)) (s : state) : state := mkst (g s) (srcc s) (x s) (pool s) (failed s) v (coll s) (collc s) (r s) (c s) (ctxd s) (fin s) (conce s) (reterr s) (wrote s) (drained s) (written s) (dropped s) (recvd s) (cdrained s) (ccalls s) (fpanic s).
Definition set_coll (v : list val) (s : state) : state := mkst (g s) (srcc s) (x s) (pool s) (failed s) (ws s) v (collc s) (r s) (c s) (ctxd s) (fin s) (conce s) (reterr s) (wrote s) (drained s) (written s) (dropped s) (recvd s) (cdrained s) (ccalls s) (fpanic s).
Definition set_collc (v : bool) (s : state) : state := mkst (g s) (srcc s) (x s) (pool s) (failed s) (ws s) (coll s) v (r s) (c s) (ctxd s) (fin s) (conce s) (reterr s) (wrote s) (drained s) (written s) (dropped s) (recvd s) (cdrained s) (ccalls s) (fpanic s).
Definition set_r (v : rpc) (s : state) : state := mkst (g s) (srcc s) (x s) (pool s) (failed s) (ws s) (coll s) (collc s) v (c s) (ctxd s) (fin s) (conce s) (reterr s) (wrote s) (drained s) (written s) (dropped s) (recvd s) (cdrained s) (ccalls s) (fpanic s).
Definition set_c (v : cpc) (s : state) : state := mkst (g s) (srcc s) (x s) (pool s) (failed s) (ws s) (coll s) (collc s) (r s) v (ctxd s) (fin s) (conce s) (reterr s) (wrote s) (drained s) (written s) (dropped s) (recvd s) (cdrained s) (ccalls s) (fpanic s).
Definition set_ctxd (v : bool) (s : state) : state := mkst (g s) (srcc s) (x s) (pool s) (failed s) (ws s) (coll s) (collc s) (r s) (c s) v (fin s) (conce s) (reterr s) (wrote s) (drained s) (written s) (dropped s) (recvd s) (cdrained s) (ccalls s) (fpanic s).
Definition set_fin (v : bool) (s : state) : state := mkst (g s) (srcc s) (x s) (pool s) (failed s) (ws s) (coll s) (collc s) (r s) (c s) (ctxd s) v (conce s) (reterr s) (wrote s) (drained s) (written s) (dropped s) (recvd s) (cdrained s) (ccalls s) (fpanic s).
Definition set_conce (v : once) (s : state) : state := mkst (g s) (srcc s) (x s) (pool s) (failed s) (ws s) (coll s) (collc s) (r s) (c s) (ctxd s) (fin s) v (reterr s) (wrote s) (drained s) (written s) (dropped s) (recvd s) (cdrained s) (ccalls s) (fpanic s).
Definition set_reterr (v : option err) (s : state) : state := mkst (g s) (srcc s) (x s) (pool s) (failed s) (ws s) (coll s) (collc s) (r s) (c s) (ctxd s) (fin s) (conce s) v (wrote s) (drained s) (written s) (dropped s) (recvd s) (cdrained s) (ccalls s) (fpanic s).
Definition set_wrote (v : bool) (s : state) : state := mkst (g s) (srcc s) (x s) (pool s) (failed s) (ws s) (coll s) (collc s) (r s) (c s) (ctxd s) (fin s) (conce s) (reterr s) v (drained s) (written s) (dropped s) (recvd s) (cdrained s) (ccalls s) (fpanic s).
Definition set_drained (v : list item) (s : state) : state := mkst (g s) (srcc s) (x s) (pool s) (failed s) (ws s) (coll s) (collc s) (r s) (c s) (ctxd s) (fin s) (conce s) (reterr s) (wrote s) v (written s) (dropped s) (recvd s) (cdrained s) (ccalls s) (fpanic s).
Definition set_written (v : list val) (s : state) : state := mkst (g s) (srcc s) (x s) (pool s) (failed s) (ws s) (coll s) (collc s) (r s) (c s) (ctxd s) (fin s) (conce s) (reterr s) (wrote s) (drained s) v (dropped s) (recvd s) (cdrained s) (ccalls s) (fpanic s).
Definition set_dropped (v : list val) (s : state) : state := mkst (g s) (srcc s) (x s) (pool s) (failed s) (ws s) (coll s) (collc s) (r s) (c s) (ctxd s) (fin s) (conce s) (reterr s) (wrote s) (drained s) (written s) v (recvd s) (cdrained s) (ccalls s) (fpanic s).
Definition set_recvd (v : list val) (s : state) : state := mkst (g s) (srcc s) (x s) (pool s) (failed s) (ws s) (coll s) (collc s) (r s) (c s) (ctxd s) (fin s) (conce s) (reterr s) (wrote s) (drained s) (written s) (dropped s) v (cdrained s) (ccalls s) (fpanic s).
Definition set_cdrained (v : list val) (s : state) : state := mkst (g s) (srcc s) (x s) (pool s) (failed s) (ws s) (coll s) (collc s) (r s) (c s) (ctxd s) (fin s) (conce s) (reterr s) (wrote s) (drained s) (written s) (dropped s) (recvd s) v (ccalls s) (fpanic s).
Definition set_ccalls (v : list err) (s : state) : state := mkst (g s) (srcc s) (x s) (pool s) (failed s) (ws s) (coll s) (collc s) (r s) (c s) (ctxd s) (fin s) (conce s) (reterr s) (wrote s) (drained s) (written s) (dropped s) (recvd s) (cdrained s) v (fpanic s).
Definition set_fpanic (v : option pval) (s : state) : state := mkst (g s) (srcc s) (x s) (pool s) (failed s) (ws s) (coll s) (collc s) (r s) (c s) (ctxd s) (fin s) (conce s) (reterr s) (wrote s) (drained s) (written s) (dropped s) (recvd s) (cdrained s) (ccalls s) v.

Inductive label :=
| LEnv                    (* the context becomes done *)
| LG | LGSendX | LGSendK  (* generator: internal step | send to X | send to the thread inside cancel's drain(source) *)
| LX | LXStop | LXAcq     (* dispatcher: internal | select arm ctx.Done/doneChan | select arm pool<- *)
| LW (i : nat)            (* next step of mapper goroutine i *)
| LR                      (* next step of the reducer goroutine *)
| LC | LCCtx | LCPanic | LCOut.   (* caller: internal | select arms *)

Definition init (cf : cfg) : state :=
  mkst (GSend (items cf)) false XCheck 0 false [] [] false
       (match rtake cf with Some 0 => RRun (rafter cf) | t => RRecv t (rafter cf) end)
       CSelect (ctx0 cf) false ONone None false [] [] [] [] [] [] None.

Definition w_exited (w : item * wpc) : bool := match snd w with WExit => true | _ => false end.
Definition running (s : state) : nat := List.length (filter (fun w => negb (w_exited w)) (ws s)).
Definition w_draining (w : item * wpc) : bool := match snd w with WCancel CcDrain _ _ => true | _ => false end.
Definition someone_drains (s : state) : bool :=
  existsb w_draining (ws s) || match c s with CCancel CcDrain => true | _ => false end.

Fixpoint upd_nth {A} (i : nat) (a : A) (l : list A) : list A :=
  match l, i with
  | [], _ => []
  | _ :: t, O => a :: t
  | h :: t, S k => h :: upd_nth k a t
  end.
Definition set_w (i : nat) (x : item) (p : wpc) (s : state) : state := set_ws (upd_nth i (x, p) (ws s)) s.

(* onceChan.write :350-354: CAS; the winner puts v into the one-slot buffer (never blocks), losers do nothing *)
Definition cas_panic (p : pval) (s : state) : state :=
  if wrote s then s else set_wrote true (set_fpanic (Some p) s).

(* the once around cancel :304-311 with body :200-209, entered by a thread carrying error e *)
(* `ccalls` (ghost) lists the errors of the cancel calls in the order in which they got through oc.Do, newest first *)
Inductive enter_res := EnterRun (s : state) | EnterBlocked | EnterSkip (s : state).
Definition cancel_enter (e : err) (s : state) : enter_res :=
  match conce s with
  | ONone => EnterRun (set_conce ORunning (set_reterr (Some e) (set_ccalls (e :: ccalls s) s)))
  | ORunning => EnterBlocked
  | ODone => EnterSkip (set_ccalls (e :: ccalls s) s)
  end.
Definition cancel_fin (s : state) : state := set_fin true (set_conce ODone s).

(* ---- environment ---- *)
Definition step_env (s : state) : option state :=
  if ctxd s then None else Some (set_ctxd true s).

(* ---- generator: buildSource :331-340 ---- *)
Definition step_g (cf : cfg) (s : state) : option state :=
  match g s with
  | GSend [] => Some (set_g (match gpanic cf with Some p => GPanicCas p | None => GClose end) s)
  | GSend _ => None
  | GPanicCas p => Some (set_g GClose (cas_panic (PUser p) s))
  | GClose => Some (set_g GDone (set_srcc true s))
  | GDone => None
  end.

(* source <- item received by X: :274 (spawn :280-293) or X's final drain :261 *)
Definition step_gsx (cf : cfg) (s : state) : option state :=
  match g s with
  | GSend (i :: rest) =>
      match x s with
      | XHold => Some (set_g (GSend rest) (set_x XCheck (set_ws (ws s ++ [(i, WRun (beh cf i))]) s)))
      | XDrain => Some (set_g (GSend rest) (set_drained (i :: drained s) s))
      | _ => None
      end
  | _ => None
  end.

(* source <- item received by drain(source) inside cancel :207 *)
Definition step_gsk (s : state) : option state :=
  match g s with
  | GSend (i :: rest) =>
      if someone_drains s then Some (set_g (GSend rest) (set_drained (i :: drained s) s)) else None
  | _ => None
  end.

(* ---- dispatcher: executeMappers :256-296 ---- *)
Definition step_x (cf : cfg) (s : state) : option state :=
  match x s with
  | XCheck => Some (set_x (if failed s then XWait else XSel) s)            (* :267 *)
  | XSel => None
  | XHold => if srcc s then Some (set_x XWait (set_pool (pool s - 1) s)) else None   (* :275-277 *)
  | XWait => if forallb w_exited (ws s) then Some (set_x XDrain (set_collc true s)) else None  (* :259-260 *)
  | XDrain => if srcc s then Some (set_x XDone s) else None                (* :261 *)
  | XDone => None
  end.
Definition step_xstop (s : state) : option state :=                        (* :269-272 *)
  match x s with
  | XSel => if ctxd s || fin s then Some (set_x XWait s) else None
  | _ => None
  end.
Definition step_xacq (cf : cfg) (s : state) : option state :=              (* :273 *)
  match x s with
  | XSel => if pool s <? workers cf then Some (set_x XHold (set_pool (S (pool s)) s)) else None
  | _ => None
  end.

(* ---- mapper goroutine i: :281-293, guardedWriter.Write :370-379 on the collector ---- *)
Definition step_w (cf : cfg) (i : nat) (s : state) : option state :=
  match nth_error (ws s) i with
  | None => None
  | Some (it, p) =>
      match p with
      | WRun [] => Some (set_w i it WExit (set_pool (pool s - 1) s))
      | WRun (AWrite k :: a) =>
          let s1 := set_written ((it, k) :: written s) s in
          if ctxd s || fin s then Some (set_w i it (WRun a) (set_dropped ((it, k) :: dropped s) s1))
          else Some (set_w i it (WSend (it, k) a) s1)
      | WRun (ACancel e :: a) => Some (set_w i it (WCancel CcEnter (err_of e) a) s)
      | WRun (APanic p :: _) => Some (set_w i it (WRecover (PUser p)) s)
      | WRun (AWaitRet :: a) => match c s with CDone _ => Some (set_w i it (WRun a) s) | _ => None end
      | WRun (ACtx :: a) => Some (set_w i it (WRun a) (set_ctxd true s))
      | WSend v a =>
          if collc s then Some (set_w i it (WRecover PSendClosed) s)
          else if List.length (coll s) <? workers cf then Some (set_w i it (WRun a) (set_coll (coll s ++ [v]) s))
          else None
      | WCancel CcEnter e a =>
          match cancel_enter e s with
          | EnterRun s' => Some (set_w i it (WCancel CcDrain e a) s')
          | EnterBlocked => None
          | EnterSkip s' => Some (set_w i it (WRun a) s')
          end
      | WCancel CcDrain e a => if srcc s then Some (set_w i it (WCancel CcFin e a) s) else None
      | WCancel CcFin e a => Some (set_w i it (WRun a) (cancel_fin s))
      | WRecover p => Some (set_w i it WFin (cas_panic p (set_failed true s)))
      | WFin => Some (set_w i it WExit (set_pool (pool s - 1) s))
      | WExit => None
      end
  end.

(* ---- reducer goroutine :212-222, guardedWriter.Write on output ---- *)
Definition r_next (lft : option nat) (a : list ract) : rpc :=
  match lft with
  | Some (S O) => RRun a
  | Some (S n) => RRecv (Some n) a
  | Some O => RRun a
  | None => RRecv None a
  end.
Definition step_r (s : state) : option state :=
  match r s with
  | RRecv lft a =>
      match coll s with
      | v :: rest => Some (set_r (r_next lft a) (set_coll rest (set_recvd (v :: recvd s) s)))
      | [] => if collc s then Some (set_r (RRun a) s) else None
      end
  | RRun [] => Some (set_r (RDrain None) s)
  | RRun (RWrite k :: a) =>
      if ctxd s || fin s then Some (set_r (RRun a) s) else Some (set_r (RSend k a) s)
  | RRun (RPanic p :: _) => Some (set_r (RDrain (Some (PUser p))) s)
  | RSend k a => if fin s then Some (set_r (RDrain (Some PSendClosed)) s) else None
  | RDrain p =>
      match coll s with
      | v :: rest => Some (set_coll rest (set_cdrained (v :: cdrained s) s))
      | [] => if collc s then Some (set_r (match p with None => RFinish | Some p => RPanicCas p end) s) else None
      end
  | RPanicCas p => Some (set_r RFinish (cas_panic p s))
  | RFinish => Some (set_r RDone (set_fin true s))
  | RDone => None
  end.

(* ---- caller :237-253 and the deferred range :179-184 ---- *)
Definition load_outcome (s : state) (dflt : outcome) : outcome :=   (* :246-252 *)
  match reterr s with Some e => OErr e | None => dflt end.

Definition deferred_outcome (s : state) (o : outcome) : outcome :=
  match o with
  | OPanic _ => o
  | _ => if wrote s then match fpanic s with Some p => OPanic p | None => o end else o
  end.

Definition step_cctx (s : state) : option state :=
  match c s with
  | CSelect => if ctxd s then Some (set_c (CCancel CcEnter) s) else None
  | _ => None
  end.

(* case v := <-panicChan.channel :241: ready iff the buffer holds the winner's value *)
Definition step_cpanic (s : state) : option state :=
  match c s with
  | CSelect => if wrote s then match fpanic s with Some p => Some (set_c (CDrainOut p) s) | None => None end else None
  | _ => None
  end.

Definition step_cout (s : state) : option state :=
  match c s with
  | CSelect =>
      if fin s then Some (set_c (COut None) s)
      else match r s with
           | RSend k a => Some (set_c (COut (Some k)) (set_r (RRun a) s))
           | _ => None
           end
  | _ => None
  end.

Definition step_c (s : state) : option state :=
  match c s with
  | CSelect => None
  | COut got =>        (* select { case p := <-panicChan.channel: drain(output); panic(p); default: } then retErr.Load *)
      if wrote s then match fpanic s with Some p => Some (set_c (CDrainOut p) s) | None => None end
      else Some (set_c (CDefer (load_outcome s (match got with Some k => ORet k | None => ONoOutput end))) s)
  | CCancel CcEnter =>
      match cancel_enter EDeadline s with
      | EnterRun s' => Some (set_c (CCancel CcDrain) s')
      | EnterBlocked => None
      | EnterSkip s' => Some (set_c (CDefer (OErr EDeadline)) s')
      end
  | CCancel CcDrain => if srcc s then Some (set_c (CCancel CcFin) s) else None
  | CCancel CcFin => Some (set_c (CDefer (OErr EDeadline)) (cancel_fin s))
  | CDrainOut p =>
      if fin s then Some (set_c (CDefer (OPanic p)) s)
      else match r s with RSend k a => Some (set_r (RRun a) s) | _ => None end
  | CDefer o =>
      (* `for range output` ends on close; then (e753473) a non-blocking receive from the panic buffer: a pending
         panic replaces the outcome (the buffer is empty if the caller already took it: o = OPanic _) *)
      if fin s then Some (set_c (CDone (deferred_outcome s o)) s)
      else match r s with RSend k a => Some (set_c (CDone OPanicTwice) (set_r (RRun a) s)) | _ => None end
  | CDone _ => None
  end.

Definition step (cf : cfg) (s : state) (l : label) : option state :=
  match l with
  | LEnv => step_env s
  | LG => step_g cf s
  | LGSendX => step_gsx cf s
  | LGSendK => step_gsk s
  | LX => step_x cf s
  | LXStop => step_xstop s
  | LXAcq => step_xacq cf s
  | LW i => step_w cf i s
  | LR => step_r s
  | LC => step_c s
  | LCCtx => step_cctx s
  | LCPanic => step_cpanic s
  | LCOut => step_cout s
  end.

(* schedules: arbitrary lists of labels; a label that is not enabled makes the run undefined *)
Fixpoint run (cf : cfg) (s : state) (ls : list label) : option state :=
  match ls with
  | [] => Some s
  | l :: t => match step cf s l with Some s' => run cf s' t | None => None end
  end.

Definition reachable (cf : cfg) (s : state) : Prop := exists ls, run cf (init cf) ls = Some s.

Definition final (s : state) : bool :=
  match g s, x s, r s, c s with
  | GDone, XDone, RDone, CDone _ => forallb w_exited (ws s)
  | _, _, _, _ => false
  end.

(* ---- lib/errorx/atomicError.go (anchor of retErr): an atomic.Value holding an error ----
   Errors are codes; `ae_type` is the dynamic (concrete) type of the error behind a code: code 1 is a nil *T (a TYPED
   nil: a non-nil error interface), 3 a non-nil *T, 2 a nil slice type implementing error, every other code a value
   type.  Set :11-15 ignores only the untyped nil; atomic.Value.Store panics when the concrete type differs from the
   one stored first ("store of inconsistently typed value") - Panic, not a silent default. Load :18-24. *)
Inductive aeop := AESet (e : option nat) | AELoad.
Definition ae_type (code : nat) : nat := match code with 1 | 3 => 1 | 2 => 2 | _ => 3 end.
Definition ae_set (st : option nat) (e : option nat) : result (option nat) :=
  match e with
  | None => Ok st                                   (* if err != nil *)
  | Some c => match st with
              | Some c0 => if Nat.eqb (ae_type c0) (ae_type c) then Ok (Some c) else Panic
              | None => Ok (Some c)
              end
  end.
Definition ae_load (st : option nat) : option nat := st.
