(* C07 Spec: what one MapReduce call is supposed to do, as functions of the scripts (two-minute read).
   A call is described by cfg (Model.v): the items the generator sends, the script of the mapper for each item,
   what the reducer does, the worker count.  Values are tagged with the item they come from. *)
From Coq Require Import Permutation.
From God Require Import Base.Prelude C07.Model.

(* the values the mapper of item i writes, and all values of a call whose every item is mapped *)
Definition script_writes (cf : cfg) (i : item) : list val :=
  flat_map (fun a => match a with AWrite k => [(i, k)] | _ => [] end) (beh cf i).
Definition spec_written (cf : cfg) : list val := flat_map (script_writes cf) (items cf).

(* the values the reducer writes to its output *)
Definition rwrites (a : list ract) : list nat :=
  flat_map (fun x => match x with RWrite k => [k] | RPanic _ => [] end) a.

(* values are codes; `vnil` is Go's untyped nil, a perfectly good value: a reducer that writes nil once makes the
   call return (nil, nil), not ErrReduceNoOutput (`v, ok := <-output`: ok tells written from closed) *)
Definition vnil : nat := 0.

(* result table without cancel / panic / ctx: the single value, ErrReduceNoOutput, or the caller panics *)
Definition spec_result (a : list ract) : outcome :=
  match rwrites a with [] => ONoOutput | [k] => ORet k | _ :: _ :: _ => OPanicTwice end.

(* cancel: the error of the first call (nil |-> ErrCancelWithNil); nobody cancelled: as above *)
Definition spec_cancel_error (e : option nat) : err := match e with Some n => EUser n | None => ECancelNil end.
Definition spec_cancel_result (calls_oldest_first : list err) : outcome :=
  match calls_oldest_first with e :: _ => OErr e | [] => ONoOutput end.

(* MapReduceVoid / Finish map ErrReduceNoOutput to nil: `None` = nil error, other outcomes unchanged *)
Definition spec_void (o : outcome) : option outcome := match o with ONoOutput => None | o => Some o end.

(* the clean clause: every generated item is mapped exactly once, the reducer receives exactly the written values,
   the call returns the table's outcome *)
Record clean_spec (cf : cfg) (mapped : list item) (received : list val) (o : outcome) : Prop := {
  cs_mapped : Permutation (items cf) mapped;
  cs_received : rtake cf = None -> Permutation (spec_written cf) received;
  cs_result : o = spec_result (rafter cf)
}.

(* no more than the configured number of mappers run at the same time *)
Definition worker_spec (cf : cfg) (running_mappers : nat) : Prop := running_mappers <= workers cf.

(* always: the call returns, and then (the generator having returned) no goroutine of the call is left *)
Definition all_exited (s : state) : Prop :=
  g s = GDone /\ x s = XDone /\ r s = RDone /\ forallb w_exited (ws s) = true /\ exists o, c s = CDone o.
