(* C07 Props: MapReduce - exactly-once processing, bounded workers, result table, termination.
   Model.v is the LTS of lib/mr/mapreduce.go (at /repo e753473: buffered one-shot panic channel d413f58, re-check of
   it in the output arm 1af3580 and after the deferred range over output e753473); a schedule is an ARBITRARY list of labels, `reachable cf s` quantifies over all schedules,
   item lists, worker counts and behaviour scripts (cfg).  Ghost fields: `ws` (one entry per spawned mapper = item
   passed to the mapper), `drained` (items eaten by drain(source)), `written` (every writer.Write of a mapper),
   `dropped` (discarded by guardedWriter), `recvd` (received by the reducer function), `cdrained` (eaten by the
   reducer's deferred drain(collector)), `ccalls` (cancel calls in once-order).

   Proved for all schedules: conservation / at-most-once / exactly-once (clean), worker bound, first cancel wins,
   outcome soundness, the clean result table, cancel => that error (non-writing reducers), panic recorded => re-raised
   (also after the reducer's value was handed over; only a second reducer write pre-empts it), a measure decreasing on every step, and - since the repairs -
   stuck-freedom / termination / no goroutine left for EVERY configuration with workers >= 1, no mapper that waits
   for the call's return, and at most two reducer writes (cancels, panics, context cancellation included).
   Still false of the code (witnesses, `_refuted`): guardedWriter's check-then-send races with finish() ("send on closed channel" re-raised); ctx done =>
   DeadlineExceeded fails when the select also sees the closed output; a third reducer write blocks for ever. *)
From Coq Require Import Permutation.
From God Require Import Base.Prelude C07.Model C07.ProofsA C07.ProofsB C07.ProofsC C07.ProofsD C07.ProofsE C07.ProofsF C07.ProofsG C07.Proofs C07.Spec C07.Tests.

(* ---- conservation: nothing is duplicated or invented, for every schedule ---- *)
Theorem c07_conservation : forall cf s, reachable cf s ->
  (exists sent, items cf = sent ++ g_rest s /\ Permutation sent (map fst (ws s) ++ drained s)) /\
  Permutation (written s) (dropped s ++ pending s ++ coll s ++ recvd s ++ cdrained s).
Proof. intros cf s R. split; [exact (conservation_items cf s R)|exact (conservation_values cf s R)]. Qed.
Print Assumptions c07_conservation.

(* every generated item is passed to the mapper at most once, and never both mapped and drained *)
Theorem c07_at_most_once : forall cf s, NoDup (items cf) -> reachable cf s ->
  NoDup (map fst (ws s)) /\ (forall i, In i (map fst (ws s)) -> In i (items cf)) /\
  (forall i, In i (map fst (ws s)) -> ~ In i (drained s)).
Proof. exact at_most_once. Qed.
Print Assumptions c07_at_most_once.

(* without cancellation / panic / ctx, at termination: every item mapped exactly once, every mapper returned,
   nothing dropped or drained, and (range reducer) the reducer received exactly the written multiset *)
Theorem c07_exactly_once : forall cf s, reachable cf s -> clean s -> final s = true ->
  Permutation (items cf) (map fst (ws s)) /\ drained s = [] /\ dropped s = [] /\
  forallb w_exited (ws s) = true /\
  (rtake cf = None -> Permutation (written s) (recvd s)).
Proof. exact exactly_once_clean. Qed.
Print Assumptions c07_exactly_once.

(* a mapper's send never meets a closed collector (wg.Wait precedes close(collector)) *)
Theorem c07_collector_open_for_writers : forall cf s i it v a, reachable cf s ->
  nth_error (ws s) i = Some (it, WSend v a) -> collc s = false.
Proof. exact no_send_on_closed_collector. Qed.
Print Assumptions c07_collector_open_for_writers.

(* ---- no more than the configured number of mappers run at the same time ---- *)
Theorem c07_worker_bound : forall cf s, reachable cf s -> worker_spec cf (running s).
Proof. exact worker_bound. Qed.
Print Assumptions c07_worker_bound.

(* ---- cancel: the first call through the once decides retErr, later ones never change it ---- *)
Theorem c07_first_cancel_wins : forall cf s, reachable cf s ->
  reterr s = hd_error (rev (ccalls s)) /\
  (forall ls s' e, run cf s ls = Some s' -> reterr s = Some e -> reterr s' = Some e).
Proof.
  intros cf s R. split; [exact (first_cancel_wins cf s R)|].
  intros ls s' e Hr He. exact (reterr_stable cf s ls s' e Hr R He).
Qed.
Print Assumptions c07_first_cancel_wins.

(* ---- result table, soundness for every schedule: whatever the caller ends with is justified ---- *)
Theorem c07_result : forall cf s o, reachable cf s -> caller_outcome s = Some o ->
  match o with
  | OErr e => (e = EDeadline /\ ctxd s = true) \/ reterr s = Some e     (* ctx done, or the (first) cancel's error *)
  | OPanic p => fpanic s = Some p                                        (* the panic that won onceChan's CAS *)
  | ORet k => In (RWrite k) (rafter cf)                                  (* a value the reducer wrote *)
  | ONoOutput => fin s = true
  | OPanicTwice => 2 <= List.length (writes (rafter cf))                 (* only if the reducer writes twice *)
  end.
Proof. exact result_sound. Qed.
Print Assumptions c07_result.

(* nil becomes ErrCancelWithNil, by definition of the error a cancel call carries (mapreduce.go:201-205) *)
Theorem c07_cancel_nil : forall e, err_of e = spec_cancel_error e.
Proof. reflexivity. Qed.

(* ---- result table, completeness in the clean case: the single value / ErrReduceNoOutput / caller panics ---- *)
Theorem c07_result_clean : forall cf s o, reachable cf s -> clean s -> no_rpanic (rafter cf) -> c s = CDone o ->
  o = spec_result (rafter cf).
Proof. intros cf s o R C NP H. unfold spec_result. rewrite rwrites_writes. exact (clean_result cf s o R C NP H). Qed.
Print Assumptions c07_result_clean.

(* the value may be nil: a reducer that writes Go's untyped nil exactly once makes the call return (nil, nil) - the
   output arm tells "written" from "closed" by `ok`, not by the value (Model: COut (Some vnil) vs COut None) *)
Theorem c07_result_clean_nil : forall cf s o, reachable cf s -> clean s -> no_rpanic (rafter cf) ->
  writes (rafter cf) = [vnil] -> c s = CDone o -> o = ORet vnil /\ o <> ONoOutput.
Proof.
  intros cf s o R C NP W H. rewrite (clean_result cf s o R C NP H), W. split; [reflexivity|discriminate].
Qed.
Print Assumptions c07_result_clean_nil.

(* errorx.AtomicError as retErr uses it (one Set, guarded by the once): Set(nil) is a no-op; the first Set of ANY
   non-nil error - typed nils are non-nil errors - is what Load returns; a later Set replaces it unless its concrete
   type differs (atomic.Value then panics) *)
Theorem c07_atomic_error : forall st,
  ae_set st None = Ok st /\
  (forall e, ae_set None (Some e) = Ok (Some e) /\ ae_load (Some e) = Some e) /\
  (forall c0 e, ae_set (Some c0) (Some e) = if Nat.eqb (ae_type c0) (ae_type e) then Ok (Some e) else Panic).
Proof. intro st. repeat split. Qed.

Theorem c07_double_write_panics_caller : forall cf s o k1 k2 rest, reachable cf s -> clean s ->
  no_rpanic (rafter cf) -> writes (rafter cf) = k1 :: k2 :: rest -> c s = CDone o -> o = OPanicTwice.
Proof. intros cf s o k1 k2 rest R C NP W H. rewrite (clean_result cf s o R C NP H), W. reflexivity. Qed.
Print Assumptions c07_double_write_panics_caller.

(* ---- cancel(err) makes the call return that error, as a function: reducers that never write (MapReduceVoid,
   Finish, or a MapReduce reducer that only consumes), no ctx, no panic: the outcome is the error of the FIRST
   cancel call through the once (nil |-> ErrCancelWithNil by c07_cancel_nil), ErrReduceNoOutput if nobody cancelled.
   (With a writing reducer a value handed over before the cancel may be returned instead: see c07_result.) ---- *)
Theorem c07_cancel_result : forall cf s o, reachable cf s -> ctxd s = false -> wrote s = false ->
  writes (rafter cf) = [] -> c s = CDone o ->
  o = spec_cancel_result (rev (ccalls s)).
Proof.
  intros cf s o R Hc Hw Hn Hd. unfold spec_cancel_result.
  destruct (rev (ccalls s)) as [|e rest] eqn:E.
  - apply (no_cancel_no_output cf s o R Hc Hw Hn Hd). destruct (ccalls s) as [|a l]; [reflexivity|].
    simpl in E. destruct (rev l); discriminate.
  - exact (cancel_returns_first_error cf s o R Hc Hw Hn Hd e rest E).
Qed.
Print Assumptions c07_cancel_result.

(* ---- ... and for WRITING reducers, every schedule: once a cancel has recorded its error (retErr.Set - the first
   thing cancel does, long before it closes done/output: it may still be inside drain(source) while the generator
   produces) and the caller has not yet loaded it, the call can no longer return a reducer value or
   ErrReduceNoOutput, whatever an early-stopping reducer hands over in that window: it returns that error (or
   DeadlineExceeded through the ctx arm, or panics: a recorded panic / the written-twice panic). ---- *)
Theorem c07_cancel_beats_value : forall cf s ls s' e o, reachable cf s -> reterr s = Some e ->
  (c s = CSelect \/ exists got, c s = COut got) -> run cf s ls = Some s' -> caller_outcome s' = Some o ->
  o = OErr e \/ o = OErr EDeadline \/ (exists p, o = OPanic p) \/ o = OPanicTwice.
Proof. exact cancel_beats_value. Qed.
Print Assumptions c07_cancel_beats_value.

Theorem c07_cancel_never_value : forall cf s ls s' e o, reachable cf s -> reterr s = Some e ->
  (c s = CSelect \/ exists got, c s = COut got) -> run cf s ls = Some s' -> caller_outcome s' = Some o ->
  (forall k, o <> ORet k) /\ o <> ONoOutput.
Proof. exact cancel_beats_value_no. Qed.
Print Assumptions c07_cancel_never_value.

(* the racing interleaving exists in the LTS: value 2 handed over while the canceller is inside its drain *)
Example c07_cancel_race_schedule : exists cf ls1 ls2 s s',
  run cf (init cf) ls1 = Some s /\
  c s = COut (Some 2) /\ reterr s = Some (EUser 3) /\ conce s = ORunning /\ fin s = false /\
  g s = GSend [8] /\ nth_error (ws s) 0 = Some (7, WCancel CcDrain (EUser 3) []) /\
  run cf s ls2 = Some s' /\ final s' = true /\ c s' = CDone (OErr (EUser 3)).
Proof. destruct w8_cancel_beats_racing_value as [s [s' H]]. exists cf_w8, sched_w8a, sched_w8b, s, s'. exact H. Qed.

(* variants by instantiation: MapReduceVoid (reducer cannot write; ErrReduceNoOutput |-> nil) and Finish (items =
   the functions, a failing function = a mapper that cancels, reducer returns at once, workers = number of items):
   in the clean case the underlying MapReduce ends with ErrReduceNoOutput, which both wrappers turn into nil.
   MapReduceChan is the same LTS with G owned by the caller of MapReduceChan. *)
Theorem c07_void_clean : forall cf s o, writes (rafter cf) = [] -> no_rpanic (rafter cf) ->
  reachable cf s -> clean s -> c s = CDone o -> o = ONoOutput.
Proof. intros cf s o W NP R C H. rewrite (clean_result cf s o R C NP H), W. reflexivity. Qed.

Theorem c07_finish_clean : forall (fns : list nat) s o,
  let cf := mkcfg (List.length fns) (seq 0 (List.length fns)) None (fun _ => []) (Some 0) [] false in
  reachable cf s -> clean s -> c s = CDone o -> o = ONoOutput.
Proof. intros fns s o cf R C H. apply (c07_void_clean cf s o); auto. intros p []. Qed.

(* ---- termination: a measure that decreases on EVERY step of EVERY thread (all configurations) ---- *)
Theorem c07_variant : forall cf s l s', step cf s l = Some s' -> measure cf s' < measure cf s.
Proof. exact variant. Qed.
Print Assumptions c07_variant.

Theorem c07_schedules_bounded : forall cf ls s, run cf (init cf) ls = Some s -> List.length ls <= measure cf (init cf).
Proof. exact run_length_bounded. Qed.
Print Assumptions c07_schedules_bounded.

(* ---- a panic is re-raised in the calling goroutine: without cancel and ctx, once a panic has been recorded
   (generator, mapper or reducer; onceChan's CAS) the call ends by re-raising exactly that panic - also when the
   reducer's value had already been handed over (e753473) - with one exception: a second reducer write makes the
   deferred loop panic "written twice" before the re-check (two clauses of the property collide;
   c07_twice_wins_over_panic).  With at most one reducer write: always the recorded panic. ---- *)
Theorem c07_panic_reraise : forall cf s o, reachable cf s -> ctxd s = false -> conce s = ONone -> wrote s = true ->
  c s = CDone o -> (exists p, o = OPanic p /\ fpanic s = Some p) \/ o = OPanicTwice.
Proof. exact panic_reraise. Qed.
Print Assumptions c07_panic_reraise.

Theorem c07_panic_reraise_one_write : forall cf s o, reachable cf s -> ctxd s = false -> conce s = ONone ->
  wrote s = true -> c s = CDone o -> List.length (writes (rafter cf)) <= 1 -> exists p, o = OPanic p /\ fpanic s = Some p.
Proof. exact panic_reraise_le1. Qed.
Print Assumptions c07_panic_reraise_one_write.

(* ... in particular with exactly ONE worker (WithWorkers(1), the clamp of WithWorkers(n <= 1), Finish / FinishVoid
   with one function): the mapper's panic is recorded by its own goroutine's deferred recover and re-raised by the
   caller with its value - it never escapes in a goroutine of the library (in the model a mapper's APanic leads to
   WRecover, not to a dead process; the driver observes a process death per case as outcome `crash`). *)
Corollary c07_panic_reraise_one_worker : forall cf s o, workers cf = 1 -> reachable cf s -> ctxd s = false ->
  conce s = ONone -> wrote s = true -> c s = CDone o -> List.length (writes (rafter cf)) <= 1 ->
  running s <= 1 /\ exists p, o = OPanic p /\ fpanic s = Some p.
Proof.
  intros cf s o W R H1 H2 H3 H4 H5. split.
  - rewrite <- W. exact (worker_bound cf s R).
  - exact (panic_reraise_le1 cf s o R H1 H2 H3 H4 H5).
Qed.
Print Assumptions c07_panic_reraise_one_worker.

(* the exception is real: reducer writes twice, then panics with 9: the caller panics "written twice" *)
Example c07_twice_wins_over_panic : exists cf ls s,
  run cf (init cf) ls = Some s /\ final s = true /\
  c s = CDone OPanicTwice /\ fpanic s = Some (PUser 9) /\ ctxd s = false /\ conce s = ONone.
Proof. destruct w7_twice_wins_over_panic as [s H]. exists cf_w7, sched_w7, s. exact H. Qed.

(* ---- in every case the call returns, and no goroutine is left: EVERY reachable non-final state of EVERY
   configuration with workers >= 1, no mapper waiting for the call's return (AWaitRet) and at most two reducer
   writes has an enabled step (panics of generator / mappers / reducer, cancels, context cancellation at any
   moment, any schedule); every schedule is finite (c07_variant); hence every maximal run ends in the final state,
   where all goroutines have exited and the caller has its outcome.  Both side conditions are necessary
   (c07_third_write_refuted; a mapper that waits for the return of a call that waits for its mappers). ---- *)
Theorem c07_no_stuck : forall cf s, live_cfg cf -> reachable cf s -> final s = false ->
  exists l, l <> LEnv /\ exists s', step cf s l = Some s'.
Proof. exact no_stuck. Qed.
Print Assumptions c07_no_stuck.

Theorem c07_termination : forall cf s, live_cfg cf -> reachable cf s ->
  (forall l, l <> LEnv -> step cf s l = None) -> final s = true.
Proof. exact maximal_final. Qed.
Print Assumptions c07_termination.

Theorem c07_no_leak : forall cf s, live_cfg cf -> reachable cf s ->
  exists ls s', ~ In LEnv ls /\ run cf s ls = Some s' /\
    g s' = GDone /\ x s' = XDone /\ r s' = RDone /\ forallb w_exited (ws s') = true /\ (exists o, c s' = CDone o) /\
    running s' = 0.
Proof. exact no_leak. Qed.
Print Assumptions c07_no_leak.

(* ---- the whole clean clause in terms of Spec.v: a clean configuration is live (so every clean run can be
   completed), and every complete clean run has mapped every item exactly once, delivered exactly the written
   values to a range reducer, returned the table's outcome, and left no goroutine behind ---- *)
Theorem c07_clean_is_live : forall cf, clean_cfg cf -> live_cfg cf.
Proof. exact clean_cfg_live. Qed.

Theorem c07_clean_spec : forall cf ls s, clean_cfg cf -> env_free ls -> run cf (init cf) ls = Some s ->
  final s = true -> all_exited s /\ exists o, c s = CDone o /\ clean_spec cf (map fst (ws s)) (recvd s) o.
Proof. exact clean_family_spec. Qed.
Print Assumptions c07_clean_spec.

(* ---- clauses that are still false of the code as modelled: computed witnesses ---- *)
(* guardedWriter's check-then-send is not atomic: finish() between the two makes the reducer's send panic ("send on
   closed channel"), and the caller may re-raise that runtime panic instead of returning the cancel error 5.
   Observed on the Go code before the repairs by stress: 13 of 30000 runs (known finding send_on_closed). *)
Theorem c07_send_on_closed_refuted : exists cf ls s,
  run cf (init cf) ls = Some s /\ final s = true /\ c s = CDone (OPanic PSendClosed) /\ reterr s = Some (EUser 5).
Proof. destruct w3_send_on_closed_output as [s H]. exists cf_w3, sched_w3, s. exact H. Qed.
Print Assumptions c07_send_on_closed_refuted.

(* "a context that is done makes it return context.DeadlineExceeded": not if the select also sees output closed
   (known finding ctx_select_race). *)
Theorem c07_ctx_result_refuted : exists cf ls s,
  run cf (init cf) ls = Some s /\ ctxd (init cf) = true /\ final s = true /\ c s = CDone ONoOutput.
Proof. destruct w4_ctx_done_other_result as [s H]. exists cf_w4, sched_w4, s. exact H. Qed.
Print Assumptions c07_ctx_result_refuted.

(* necessity of "at most two reducer writes" in c07_no_stuck: the third write blocks for ever (outside the property's
   quantifier, which has the reducer write 0, 1 or 2 times) *)
Theorem c07_third_write_refuted : exists cf ls s,
  run cf (init cf) ls = Some s /\ c s = CDone OPanicTwice /\ r s = RSend 3 [] /\
  (forall l, l <> LEnv -> step cf s l = None).
Proof. destruct w6_third_write_blocks as [s H]. exists cf_w6, sched_w6, s. exact H. Qed.
Print Assumptions c07_third_write_refuted.

(* ---- non-vacuity ---- *)
Definition cf_ex : cfg := mkcfg 2 [1; 2] None (fun i => [AWrite i]) None [RWrite 7] false.
Definition sched_ex : list label :=
  [LX; LXAcq; LGSendX; LW 0; LW 0; LW 0; LX; LXAcq; LGSendX; LW 1; LW 1; LW 1; LG; LG; LX; LXAcq; LX; LX; LX;
   LR; LR; LR; LR; LCOut; LC; LR; LR; LR; LC].

(* a clean configuration, a complete clean run of it, and what the theorems then say about it *)
Example c07_clean_cfg_satisfiable : clean_cfg cf_ex /\ env_free sched_ex /\ NoDup (items cf_ex).
Proof.
  split; [|split].
  - unfold clean_cfg, cf_ex; simpl. repeat split; try lia; try reflexivity.
    + intros i a [<-|[]]. eexists; reflexivity.
    + intros p [H|[]]; discriminate.
  - unfold env_free, sched_ex. intro H. repeat (destruct H as [H|H]; [discriminate|]). exact H.
  - repeat constructor; simpl; intuition discriminate.
Qed.

Example c07_clean_run_exists : exists s,
  run cf_ex (init cf_ex) sched_ex = Some s /\ final s = true /\ clean s /\
  c s = CDone (ORet 7) /\ map fst (ws s) = [1; 2] /\ rev (recvd s) = [(1, 1); (2, 2)].
Proof.
  destruct (run cf_ex (init cf_ex) sched_ex) as [s|] eqn:E; [|vm_compute in E; discriminate].
  exists s. split; [reflexivity|]. vm_compute in E. inversion E; subst; clear E.
  unfold clean. repeat split; reflexivity.
Qed.
