(* C07 Link: (1) the constants and synchronisation skeletons regenerated from lib/mr/mapreduce.go by gogen are
   the ones Model.v was written from -- a moved/removed/added channel operation, once, wg call, go statement,
   defer or select arm in these functions breaks a lemma below; (2) soundness of Exec.model_ok's acceptance:
   the state it inspects is reachable in the LTS. *)
From Coq Require Import String.
From God Require Import Base.Prelude C07.Model C07.Exec.
From GodGen Require C07_Gen.
Local Open Scope string_scope.

Lemma link_minWorkers : C07_Gen.minWorkers = 1%Z.
Proof. reflexivity. Qed.
Lemma link_defaultWorkers : C07_Gen.defaultWorkers = 16%Z.
Proof. reflexivity. Qed.
(* the literals the checkers use (Exec.eff_workers) are the regenerated constants *)
Lemma link_exec_workers : Exec.min_workers = C07_Gen.minWorkers /\ Exec.default_workers = C07_Gen.defaultWorkers.
Proof. split; reflexivity. Qed.

(* mapReduceWithPanicChan :174-254.  Model: C (select arms ctx / panicChan / output, deferred range over output),
   finish = once{close(done); close(output)}, cancel = once{retErr.Set; drain(source); finish}, reducer goroutine
   with deferred drain(collector); recover -> panicChan.write; finish. *)
Lemma link_mapReduceWithPanicChan : C07_Gen.sk_mapReduceWithPanicChan =
  ["buildOptions"; "make"; "defer:func"; "{"; "panic";
   "select"; "case:"; "recv:panicChan.channel"; "panic"; "default:";      (* e753473: Model deferred_outcome *)
   "}"; "make"; "make"; "newGuardedWriter";
   "close"; "close"; "closeOnce.Do"; "retErr.Set"; "retErr.Set"; "drain"; "finish"; "once";
   "go:func"; "{"; "defer:func"; "{"; "drain"; "recover"; "panicChan.write"; "finish"; "}"; "reducer"; "}";
   "go:executeMappers";
   "select"; "case:"; "recv:options.ctx.Done()"; "cancel"; "return";
   "case:"; "recv:panicChan.channel"; "drain"; "panic";
   "case:"; "recv:output";
   "select"; "case:"; "recv:panicChan.channel"; "drain"; "panic"; "default:";      (* 1af3580: Model COut *)
   "retErr.Load"; "return"; "return"; "return"].
Proof. reflexivity. Qed.

(* executeMappers :256-296.  Model: X (XCheck = atomic.LoadInt32, XSel = select, XHold = recv source holding a pool
   token, XWait/XDrain = deferred wg.Wait; close; drain) and W i (deferred recover; AddInt32; panicChan.write; wg.Done; <-pool). *)
Lemma link_executeMappers : C07_Gen.sk_executeMappers =
  ["defer:func"; "{"; "wg.Wait"; "close"; "drain"; "}"; "make"; "newGuardedWriter"; "atomic.LoadInt32";
   "select"; "case:"; "recv:mCtx.ctx.Done()"; "return"; "case:"; "recv:mCtx.doneChan"; "return";
   "case:"; "send:pool"; "recv:mCtx.source"; "recv:pool"; "return"; "wg.Add";
   "go:func"; "{"; "defer:func"; "{"; "recover"; "atomic.AddInt32"; "mCtx.panicChan.write"; "wg.Done"; "recv:pool"; "}";
   "mCtx.mapper"; "}"].
Proof. reflexivity. Qed.

(* buildSource :329-343.  Model: G (panic -> panicChan.write BEFORE close(source)). *)
Lemma link_buildSource : C07_Gen.sk_buildSource =
  ["make"; "go:func"; "{"; "defer:func"; "{"; "recover"; "panicChan.write"; "close"; "}"; "generate"; "}"; "return"].
Proof. reflexivity. Qed.

(* drain :299-302: nothing but the range loop *)
Lemma link_drain : C07_Gen.sk_drain = [].
Proof. reflexivity. Qed.

(* guardedWriter.Write :370-379.  Model: guard step (drop iff ctx done or done closed, `default` otherwise), then a
   plain blocking send. *)
Lemma link_guardedWrite : C07_Gen.sk_guardedWrite =
  ["select"; "case:"; "recv:w.ctx.Done()"; "return"; "case:"; "recv:w.done"; "return"; "default:"; "send:w.channel"].
Proof. reflexivity. Qed.

(* onceChan.write.  Model: cas_panic; the send goes into the one-slot buffer (d413f58) and cannot block -
   the buffer size itself is not visible in the skeleton: it is tied by the corpus replays (leak/hang if unbuffered). *)
Lemma link_onceChanWrite : C07_Gen.sk_onceChanWrite = ["atomic.CompareAndSwapInt32"; "send:c.channel"].
Proof. reflexivity. Qed.

(* once :304-311 *)
Lemma link_once : C07_Gen.sk_once = ["new"; "fn"; "oc.Do"; "return"].
Proof. reflexivity. Qed.

(* the variants are thin wrappers: MapReduce = buildSource + mapReduceWithPanicChan, MapReduceChan = the latter alone,
   MapReduceVoid = MapReduce + ErrReduceNoOutput |-> nil, Finish = MapReduceVoid with WithWorkers(len(fns)),
   FinishVoid = ForEach with WithWorkers(len(fns)); ForEach has its own caller loop (not modelled: correspondence only). *)
Lemma link_MapReduce : C07_Gen.sk_MapReduce = ["make"; "buildSource"; "mapReduceWithPanicChan"; "return"].
Proof. reflexivity. Qed.
Lemma link_MapReduceChan : C07_Gen.sk_MapReduceChan = ["make"; "mapReduceWithPanicChan"; "return"].
Proof. reflexivity. Qed.
Lemma link_MapReduceVoid : C07_Gen.sk_MapReduceVoid = ["reducer"; "MapReduce"; "errors.Is"; "return"; "return"].
Proof. reflexivity. Qed.
Lemma link_ForEach : C07_Gen.sk_ForEach =
  ["buildOptions"; "make"; "buildSource"; "make"; "make"; "go:executeMappers";
   "select"; "case:"; "recv:panicChan.channel"; "panic"; "case:"; "recv:collector";
   "select"; "case:"; "recv:panicChan.channel"; "panic"; "default:"; "return"].
Proof. reflexivity. Qed.
Lemma link_Finish : C07_Gen.sk_Finish =
  ["len"; "return"; "send:source"; "fn"; "cancel"; "len"; "WithWorkers"; "MapReduceVoid"; "return"].
Proof. reflexivity. Qed.
Lemma link_FinishVoid : C07_Gen.sk_FinishVoid = ["len"; "return"; "send:source"; "fn"; "len"; "WithWorkers"; "ForEach"].
Proof. reflexivity. Qed.

(* errorx.AtomicError: Set stores (non-nil only), Load reads: the model's `reterr` *)
Lemma link_atomicError : C07_Gen.sk_atomicSet = ["ae.err.Store"] /\ C07_Gen.sk_atomicLoad = ["ae.err.Load"; "return"; "return"].
Proof. split; reflexivity. Qed.

Local Close Scope string_scope.
(* ---- soundness of the acceptance check: the scheduler only ever takes steps of the LTS ---- *)
Lemma pick_step cf gc o s ls s' : pick cf gc o s ls = Some s' -> exists l, step cf s l = Some s'.
Proof.
  induction ls as [|l t IH]; simpl; [discriminate|].
  destruct (allowed (gc_on gc) (gc_at gc) (gc_n gc) o s l); [|exact IH].
  destruct (step cf s l) eqn:E; [|exact IH].
  intro H; inversion H; subst. exists l. exact E.
Qed.

Lemma run_app cf s ls1 ls2 s1 : run cf s ls1 = Some s1 -> run cf s (ls1 ++ ls2) = run cf s1 ls2.
Proof.
  revert s. induction ls1 as [|l t IH]; simpl; intros s H.
  - inversion H; reflexivity.
  - destruct (step cf s l); [apply IH; exact H|discriminate].
Qed.

Lemma greedy_reachable cf gc o fuel s : reachable cf s -> reachable cf (greedy cf gc o fuel s).
Proof.
  revert s. induction fuel as [|f IH]; simpl; intros s H; [exact H|].
  destruct (pick cf gc o s (candidates s)) as [s'|] eqn:E; [|exact H].
  apply IH. apply pick_step in E as [l El]. destruct H as [ls Hls]. exists (ls ++ [l]).
  rewrite (run_app _ _ _ _ _ Hls). simpl. rewrite El. reflexivity.
Qed.

Lemma model_run_reachable c : reachable (cfg_of c) (model_run c).
Proof. apply greedy_reachable. exists []. reflexivity. Qed.

(* what model_ok = true means for a case it applies to *)
Lemma model_ok_sound c : model_applicable c = true -> model_ok c = true ->
  exists s, reachable (cfg_of c) s /\ final s = true /\
            (exists m, Model.c s = CDone m /\ final_match (c_out c) m = true) /\
            same_set (map fst (ws s)) (ms_list (c_trace c)) = true /\
            rev (recvd s) = rr_list (c_trace c).
Proof.
  unfold model_ok. intros Ha.
  assert (Hf : Nat.eqb (c_fn c) 6 = false).
  { unfold model_applicable in Ha. destruct (c_fn c) as [|[|[|[|[|[|[|n]]]]]]]; try reflexivity;
      rewrite ?andb_false_r in Ha; simpl in Ha; try discriminate; rewrite ?andb_false_r in Ha; discriminate. }
  rewrite Hf, Ha. unfold accepted. intro H.
  apply andb_true_iff in H as [H H4]. apply andb_true_iff in H as [H H3]. apply andb_true_iff in H as [H1 H2].
  exists (model_run c). split; [apply model_run_reachable|]. split; [exact H1|]. split.
  - destruct (Model.c (model_run c)); try discriminate. eexists; split; [reflexivity|exact H2].
  - split; [exact H3|]. apply (list_eqb_eq val_eqb); [|exact H4].
    intros [a1 a2] [b1 b2]. unfold val_eqb; simpl. rewrite andb_true_iff, !Nat.eqb_eq. split; [intros [-> ->]; reflexivity|intro E; inversion E; auto].
Qed.

(* errorx.AtomicError: the transcription (Model.ae_set / ae_load) satisfies the requirement retErr relies on:
   whatever observation the model reproduces also passes the spec checker (Load returns the last error Set, typed
   nils included; Set(nil) is a no-op; Set panics only on a change of concrete type) *)
Lemma ae_model_meets_spec ops : forall st obs, ae_model st ops obs = true -> ae_spec st ops obs = true.
Proof.
  induction ops as [|[[e|]|] ops IH]; intros st [|o obs]; simpl; try discriminate; auto.
  - destruct st as [c0|]; simpl.
    + destruct (Nat.eqb (ae_type c0) (ae_type e)) eqn:T; simpl.
      * intro H. apply andb_true_iff in H as [H1 H2]. rewrite H1. apply IH. exact H2.
      * intro H. apply andb_true_iff in H as [H1 H2]. apply Z.eqb_eq in H1. subst o. simpl. apply IH. exact H2.
    + intro H. apply andb_true_iff in H as [H1 H2]. rewrite H1. apply IH. exact H2.
  - intro H. apply andb_true_iff in H as [H1 H2]. rewrite H1. simpl. apply IH. exact H2.
  - unfold ae_load. intro H. apply andb_true_iff in H as [H1 H2]. rewrite H1. simpl. apply IH. exact H2.
Qed.
