(* C07 ProofsF: GENERAL stuck-freedom, termination and leak-freedom (panics, cancels, context
   cancellation included), for every config in which no mapper waits for the caller (AWaitRet)
   and the reducer writes at most twice; all schedules, including environment steps. *)
From God Require Import Base.Prelude C07.Model C07.Spec C07.ProofsA C07.ProofsC.

Fixpoint nwrites (a : list ract) : nat :=
  match a with [] => 0 | RWrite _ :: t => S (nwrites t) | RPanic _ :: t => nwrites t end.

Lemma nwrites_rwrites : forall a, nwrites a = List.length (rwrites a).
Proof. induction a as [|[k|p] t IH]; simpl; auto. Qed.

Definition live_cfg (cf : cfg) : Prop :=
  1 <= workers cf /\ (forall i, ~ In AWaitRet (beh cf i)) /\ nwrites (rafter cf) <= 2.

(* ------------------------------------------------------------------ *)
(* invariants of all reachable states                                  *)
(* ------------------------------------------------------------------ *)
Definition rlate3 (p : rpc) : bool := match p with RPanicCas _ | RFinish | RDone => true | _ => false end.
Definition remw (p : rpc) : nat :=
  match p with RRecv _ a | RRun a => nwrites a | RSend _ a => S (nwrites a) | _ => 0 end.
Definition w_incancel (w : item * wpc) : bool :=
  match snd w with WCancel CcDrain _ _ | WCancel CcFin _ _ => true | _ => false end.
Definition c_incancel (p : cpc) : bool :=
  match p with CCancel CcDrain | CCancel CcFin => true | _ => false end.
Definition ncanc (s : state) : nat :=
  List.length (filter w_incancel (ws s)) + (if c_incancel (c s) then 1 else 0).
Definition notwait (a : mact) : bool := match a with AWaitRet => false | _ => true end.
Definition wnowait (w : item * wpc) : bool :=
  match snd w with WRun a | WSend _ a | WCancel _ _ a => forallb notwait a | _ => true end.

Definition ginv (s : state) : Prop :=
  srcc s = gdone (g s) /\
  (xdone (x s) = true -> srcc s = true) /\
  collc s = xdr (x s) /\
  (rlate3 (r s) = true -> collc s = true) /\
  (rdone (r s) = true -> fin s = true) /\
  (conce s = ODone -> fin s = true) /\
  (conce s = ORunning -> 1 <= ncanc s) /\
  (fin s = false -> dl (c s) + remw (r s) <= 2) /\
  forallb wnowait (ws s) = true /\
  (wrote s = true -> fpanic s <> None).

Lemma live_beh : forall cf i, live_cfg cf -> forallb notwait (beh cf i) = true.
Proof.
  intros cf i (_ & Hb & _). apply forallb_forall. intros a Ha.
  destruct a; auto. exfalso. eapply Hb; eauto.
Qed.

Lemma ginv_init : forall cf, live_cfg cf -> ginv (init cf).
Proof.
  intros cf (_ & _ & Hl). unfold ginv, init, ncanc. simpl.
  destruct (rtake cf) as [[|n]|]; simpl; repeat split; auto; try discriminate.
Qed.

Ltac nth_nowait :=
  try match goal with
  | Ha : forallb wnowait ?l = true, E : nth_error ?l _ = Some _ |- _ =>
      let K := fresh "K" in
      pose proof (forallb_nth _ _ _ _ Ha E) as K; unfold wnowait in K; simpl in K
  end.

Lemma ginv_step : forall cf s l s',
  live_cfg cf -> ginv s -> step cf s l = Some s' -> ginv s'.
Proof.
  intros cf s l s' Hc I H.
  pose proof (fun i => live_beh cf i Hc) as Hbeh.
  unfold ginv, ncanc in *.
  destruct I as (I1 & I2 & I3 & I4 & I5 & I6 & I7 & I8 & I9 & I10).
  destruct l; simpl in H; unf_step H; unfold r_next in H.
  all: inv_step H.
  all: nth_nowait.
  all: simpl in *; try discriminate.
  all: repeat (apply conj); try assumption; try reflexivity; try (intros; congruence).
  all: try (apply forallb_upd; [assumption | unfold wnowait; simpl; assumption || reflexivity]).
  all: try (rewrite forallb_app; simpl; unfold wnowait at 2; simpl; rewrite I9, Hbeh; reflexivity).
  all: try rewrite filter_len_app.
  all: use_upd.
  all: rw_eqs; unfold w_incancel in *; simpl in *; intros;
       repeat match goal with Hi : ?a = ?a -> _ |- _ => specialize (Hi eq_refl) end;
       repeat match goal with Hi : ?P -> _, Hp : ?P |- _ => specialize (Hi Hp) end;
       try assumption; try congruence; try lia.
Qed.

Lemma ginv_reach : forall cf s, live_cfg cf -> reachable cf s -> ginv s.
Proof.
  intros cf s Hc. revert s. apply reachable_ind'.
  - apply ginv_init; auto.
  - intros s l s' _ I H. eapply ginv_step; eauto.
Qed.

(* ------------------------------------------------------------------ *)
(* who can move                                                        *)
(* ------------------------------------------------------------------ *)
Definition can_move (cf : cfg) (s : state) : Prop :=
  exists l, l <> LEnv /\ exists s', step cf s l = Some s'.

Lemma filter_nth : forall {A} (f : A -> bool) l,
  1 <= List.length (filter f l) -> exists i w, nth_error l i = Some w /\ f w = true.
Proof.
  intros A f. induction l as [|h t IH]; simpl; intro H; [lia|].
  destruct (f h) eqn:Eh.
  - exists 0, h. auto.
  - destruct (IH H) as (i & w & Hn & Hw). exists (S i), w. auto.
Qed.

Lemma existsb_nth : forall {A} (f : A -> bool) l i w,
  nth_error l i = Some w -> f w = true -> existsb f l = true.
Proof.
  intros A f. induction l as [|h t IH]; intros [|i] w H E; simpl in *; try discriminate.
  - inversion H; subst. rewrite E. reflexivity.
  - rewrite (IH _ _ H E). apply orb_true_r.
Qed.

(* somebody sits in drain(source) and the source is still open: the generator moves *)
Lemma g_unblocks_drain : forall cf s,
  srcc s = gdone (g s) -> srcc s = false -> someone_drains s = true -> can_move cf s.
Proof.
  intros cf s I1 Hs Hd. rewrite Hs in I1.
  destruct (g s) as [[|i rest]| | |] eqn:Eg; simpl in I1; try discriminate.
  - enabled LG. unfold step_g. rewrite Eg. eauto.
  - enabled LGSendK. unfold step_gsk. rewrite Eg, Hd. eauto.
  - enabled LG. unfold step_g. rewrite Eg. eauto.
  - enabled LG. unfold step_g. rewrite Eg. eauto.
Qed.

Lemma w_drainfin_progress : forall cf s j it k e a,
  srcc s = gdone (g s) -> nth_error (ws s) j = Some (it, WCancel k e a) -> k <> CcEnter -> can_move cf s.
Proof.
  intros cf s j it k e a I1 En Hk. destruct k; try congruence.
  - destruct (srcc s) eqn:Hs.
    + enabled (LW j). unfold step_w. rewrite En, Hs. eauto.
    + apply g_unblocks_drain; [congruence | assumption |]. unfold someone_drains.
      rewrite (existsb_nth w_draining _ _ _ En eq_refl). reflexivity.
  - enabled (LW j). unfold step_w. rewrite En. eauto.
Qed.

Lemma c_drainfin_progress : forall cf s k,
  srcc s = gdone (g s) -> c s = CCancel k -> k <> CcEnter -> can_move cf s.
Proof.
  intros cf s k I1 Ec Hk. destruct k; try congruence.
  - destruct (srcc s) eqn:Hs.
    + enabled LC. unfold step_c. rewrite Ec, Hs. eauto.
    + apply g_unblocks_drain; [congruence | assumption |]. unfold someone_drains. rewrite Ec. apply orb_true_r.
  - enabled LC. unfold step_c. rewrite Ec. eauto.
Qed.

(* the once is running: the thread inside it moves (or the generator feeds its drain) *)
Lemma canceller_progress : forall cf s, ginv s -> conce s = ORunning -> can_move cf s.
Proof.
  intros cf s I Ho. destruct I as (I1 & _ & _ & _ & _ & _ & I7 & _).
  specialize (I7 Ho). unfold ncanc in I7.
  destruct (c_incancel (c s)) eqn:Ec.
  - destruct (c s) as [| |k| | |] eqn:Ec'; simpl in Ec; try discriminate.
    apply (c_drainfin_progress cf s k); auto. intro; subst; discriminate.
  - destruct (filter_nth w_incancel (ws s)) as (j & [it p] & En & Hw); [lia|].
    unfold w_incancel in Hw. simpl in Hw. destruct p as [| |k e a| | |]; try discriminate.
    apply (w_drainfin_progress cf s j it k e a); auto. intro; subst; discriminate.
Qed.

Lemma c_cancel_progress : forall cf s k, ginv s -> c s = CCancel k -> can_move cf s.
Proof.
  intros cf s k I Ec. pose proof I as (I1 & _).
  destruct k.
  - destruct (conce s) eqn:Eo.
    + enabled LC. unfold step_c, cancel_enter. rewrite Ec, Eo. eauto.
    + apply canceller_progress; auto.
    + enabled LC. unfold step_c, cancel_enter. rewrite Ec, Eo. eauto.
  - apply (c_drainfin_progress cf s CcDrain); auto. discriminate.
  - apply (c_drainfin_progress cf s CcFin); auto. discriminate.
Qed.

Lemma cout_progress : forall cf s got, ginv s -> c s = COut got -> can_move cf s.
Proof.
  intros cf s got I Ec. destruct I as (_ & _ & _ & _ & _ & _ & _ & _ & _ & I10).
  enabled LC. unfold step_c. rewrite Ec. destruct (wrote s).
  - destruct (fpanic s); [eauto|]. exfalso. apply I10; auto.
  - eauto.
Qed.

(* the reducer blocked in `output <- v`: the send panics (closed), or the caller takes / will take it *)
Lemma rsend_progress : forall cf s k a, ginv s -> r s = RSend k a -> can_move cf s.
Proof.
  intros cf s k a I Er. pose proof I as (_ & _ & _ & _ & _ & _ & _ & I8 & _).
  destruct (fin s) eqn:Ef.
  - enabled LR. unfold step_r. rewrite Er, Ef. eauto.
  - destruct (c s) eqn:Ec.
    + enabled LCOut. unfold step_cout. rewrite Ec, Ef, Er. eauto.
    + eapply cout_progress; eauto.
    + eapply c_cancel_progress; eauto.
    + enabled LC. unfold step_c. rewrite Ec, Ef, Er. eauto.
    + enabled LC. unfold step_c. rewrite Ec, Ef, Er. eauto.
    + specialize (I8 eq_refl). rewrite Er in I8. simpl in I8. lia.
Qed.

(* the reducer can always take from a non-empty or closed collector *)
Lemma r_progress_g : forall cf s,
  ginv s -> (coll s <> [] \/ collc s = true) -> r s <> RDone -> can_move cf s.
Proof.
  intros cf s I Hc Hr.
  destruct (r s) eqn:Er; try congruence.
  - enabled LR. unfold step_r. rewrite Er.
    destruct (coll s); [destruct Hc as [Hc|Hc]; [congruence | rewrite Hc]|]; eauto.
  - enabled LR. unfold step_r. rewrite Er.
    destruct acts as [|[] a]; eauto. destruct (ctxd s || fin s); eauto.
  - eapply rsend_progress; eauto.
  - enabled LR. unfold step_r. rewrite Er.
    destruct (coll s); [destruct Hc as [Hc|Hc]; [congruence | rewrite Hc]|]; eauto.
  - enabled LR. unfold step_r. rewrite Er. eauto.
  - enabled LR. unfold step_r. rewrite Er. eauto.
Qed.

(* a mapper goroutine that has not exited: it moves, or whoever it waits for moves *)
Lemma w_progress : forall cf s i it p,
  1 <= workers cf -> ginv s -> nth_error (ws s) i = Some (it, p) -> p <> WExit -> can_move cf s.
Proof.
  intros cf s i it p Hw I En Hne.
  pose proof I as (I1 & _ & _ & I4 & _ & _ & _ & _ & I9 & _).
  pose proof (forallb_nth _ _ _ _ I9 En) as K. unfold wnowait in K. simpl in K.
  destruct p as [acts|v acts|k e acts|pv| |]; try congruence.
  - enabled (LW i). unfold step_w. rewrite En.
    destruct acts as [|[] a]; simpl in K; try discriminate; eauto.
    destruct (ctxd s || fin s); eauto.
  - destruct (collc s) eqn:Hcl.
    { enabled (LW i). unfold step_w. rewrite En, Hcl. eauto. }
    destruct (List.length (coll s) <? workers cf) eqn:El.
    { enabled (LW i). unfold step_w. rewrite En, Hcl, El. eauto. }
    apply Nat.ltb_ge in El.
    apply r_progress_g; auto.
    + left. intro Hnil. rewrite Hnil in El. simpl in El. lia.
    + intro Hr. rewrite Hr in I4. specialize (I4 eq_refl). congruence.
  - destruct k.
    + destruct (conce s) eqn:Eo.
      * enabled (LW i). unfold step_w, cancel_enter. rewrite En, Eo. eauto.
      * apply canceller_progress; auto.
      * enabled (LW i). unfold step_w, cancel_enter. rewrite En, Eo. eauto.
    + apply (w_drainfin_progress cf s i it CcDrain e acts); auto. discriminate.
    + apply (w_drainfin_progress cf s i it CcFin e acts); auto. discriminate.
  - enabled (LW i). unfold step_w. rewrite En. eauto.
  - enabled (LW i). unfold step_w. rewrite En. eauto.
Qed.

(* ------------------------------------------------------------------ *)
(* F1: general stuck-freedom                                           *)
(* ------------------------------------------------------------------ *)
Theorem no_stuck : forall cf s,
  live_cfg cf -> reachable cf s -> final s = false ->
  exists l, l <> LEnv /\ exists s', step cf s l = Some s'.
Proof.
  intros cf s Hc R Hfin. change (can_move cf s).
  pose proof (ginv_reach cf s Hc R) as I.
  pose proof (inv_pool_reach cf s R) as [P1 P2].
  pose proof I as (I1 & I2 & I3 & I4 & I5 & I6 & I7 & I8 & I9 & I10).
  destruct Hc as (Hw & _).
  destruct (forallb w_exited (ws s)) eqn:Hex.
  - assert (Hp : x s = XSel -> (pool s <? workers cf) = true).
    { intro Ex. rewrite Ex in P1. rewrite (all_exited_filter _ Hex) in P1. simpl in P1.
      apply Nat.ltb_lt. lia. }
    destruct (g s) as [[|i rest]| | |] eqn:Eg; simpl in *.
    + enabled LG. unfold step_g. rewrite Eg. eauto.
    + destruct (x s) eqn:Ex; simpl in *.
      * enabled LX. unfold step_x. rewrite Ex. eauto.
      * enabled LXAcq. unfold step_xacq. rewrite Ex, Hp; eauto.
      * enabled LGSendX. unfold step_gsx. rewrite Eg, Ex. eauto.
      * enabled LX. unfold step_x. rewrite Ex, Hex. eauto.
      * enabled LGSendX. unfold step_gsx. rewrite Eg, Ex. eauto.
      * specialize (I2 eq_refl). congruence.
    + enabled LG. unfold step_g. rewrite Eg. eauto.
    + enabled LG. unfold step_g. rewrite Eg. eauto.
    + destruct (x s) eqn:Ex; simpl in *.
      * enabled LX. unfold step_x. rewrite Ex. eauto.
      * enabled LXAcq. unfold step_xacq. rewrite Ex, Hp; eauto.
      * enabled LX. unfold step_x. rewrite Ex, I1. eauto.
      * enabled LX. unfold step_x. rewrite Ex, Hex. eauto.
      * enabled LX. unfold step_x. rewrite Ex, I1. eauto.
      * destruct (rdone (r s)) eqn:Erd.
        -- destruct (r s) eqn:Er; simpl in Erd; try discriminate. simpl in *.
           specialize (I5 eq_refl).
           destruct (c s) eqn:Ec.
           ++ enabled LCOut. unfold step_cout. rewrite Ec, I5. eauto.
           ++ eapply cout_progress; eauto.
           ++ eapply c_cancel_progress; eauto.
           ++ enabled LC. unfold step_c. rewrite Ec, I5. eauto.
           ++ enabled LC. unfold step_c. rewrite Ec, I5. eauto.
           ++ unfold final in Hfin. rewrite Eg, Ex, Er, Ec, Hex in Hfin. discriminate.
        -- apply r_progress_g; auto. intro Hr. rewrite Hr in Erd. discriminate.
  - destruct (forallb_false_nth _ _ Hex) as (i & [it p] & En & Hne).
    apply (w_progress cf s i it p); auto.
    intro Hp. subst p. unfold w_exited in Hne. simpl in Hne. discriminate.
Qed.

(* ------------------------------------------------------------------ *)
(* F2: termination, F3: leak-freedom                                   *)
(* ------------------------------------------------------------------ *)
Lemma terminates_from_g : forall cf n s,
  live_cfg cf -> reachable cf s -> measure cf s < n ->
  exists ls s', ~ In LEnv ls /\ run cf s ls = Some s' /\ final s' = true.
Proof.
  intros cf n. induction n as [|n IH]; intros s Hc R Hm; [lia|].
  destruct (final s) eqn:Hf.
  - exists [], s. repeat split; auto.
  - destruct (no_stuck cf s Hc R Hf) as (l & Hl & s1 & Hs).
    pose proof (variant _ _ _ _ Hs) as Hv.
    destruct (IH s1 Hc) as (ls & s' & He & Hr & Hfin).
    + eapply reachable_step; eauto.
    + lia.
    + exists (l :: ls), s'. repeat split; auto.
      * intros [Hin|Hin]; [congruence | exact (He Hin)].
      * simpl. rewrite Hs. exact Hr.
Qed.

Theorem terminates : forall cf s,
  live_cfg cf -> reachable cf s ->
  exists ls s', ~ In LEnv ls /\ run cf s ls = Some s' /\ final s' = true.
Proof.
  intros cf s Hc R. eapply (terminates_from_g cf (S (measure cf s))); eauto.
Qed.

Theorem no_leak : forall cf s,
  live_cfg cf -> reachable cf s ->
  exists ls s', ~ In LEnv ls /\ run cf s ls = Some s' /\
    g s' = GDone /\ x s' = XDone /\ r s' = RDone /\ forallb w_exited (ws s') = true /\
    (exists o, c s' = CDone o) /\ running s' = 0.
Proof.
  intros cf s Hc R.
  destruct (terminates cf s Hc R) as (ls & s' & He & Hr & Hf).
  destruct (final_all_exited s' Hf) as (A & B & C & D & E).
  exists ls, s'. repeat split; auto.
  unfold running. fold nexited. rewrite (all_exited_filter _ D). reflexivity.
Qed.

(* a reachable state without any enabled non-environment step is final: every maximal schedule
   (they are all finite by ProofsA.no_infinite_run) ends with all goroutines exited *)
Theorem maximal_final : forall cf s,
  live_cfg cf -> reachable cf s -> (forall l, l <> LEnv -> step cf s l = None) -> final s = true.
Proof.
  intros cf s Hc R Hmax. destruct (final s) eqn:Hf; auto.
  destruct (no_stuck cf s Hc R Hf) as (l & Hl & s' & Hs).
  rewrite (Hmax l Hl) in Hs. discriminate.
Qed.

(* a final state has no step at all except the environment's *)
Lemma final_no_step : forall cf s l s', final s = true -> step cf s l = Some s' -> l = LEnv.
Proof.
  intros cf s l s' Hf H. destruct (final_all_exited s Hf) as (Eg & Ex & Er & Hex & o & Ec).
  destruct l; auto; exfalso; simpl in H; unf_step H; unfold someone_drains in H;
    rewrite ?Eg, ?Ex, ?Er, ?Ec in H; try discriminate.
  destruct (nth_error (ws s) i) as [[it p]|] eqn:En; try discriminate.
  pose proof (forallb_nth _ _ _ _ Hex En) as K. unfold w_exited in K. simpl in K.
  destruct p; try discriminate.
Qed.
