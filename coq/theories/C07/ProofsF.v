(* C07 ProofsF: GENERAL stuck-freedom, termination and leak-freedom (panics, cancels, context
   cancellation included), for every config in which no mapper waits for the caller (AWaitRet)
   and the reducer writes at most twice; all schedules, including environment steps. *)
From God Require Import Base.Prelude C07.Model C07.Spec C07.ProofsA C07.ProofsC.

Fixpoint nwrites (a : list ract) : nat :=
  match a with [] => 0 | RWrite _ :: t => S (nwrites t) | RPanic _ :: t => nwrites t end.

Lemma nwrites_rwrites : forall a, nwrites a = List.length (rwrites a).
Proof. induction a as [|[k|p] t IH]; simpl; auto. Qed.

Definition live_cfg (cf : cfg) : Prop :=
  1 <= workers cf /\ (forall i, ~ In AWaitRet (beh cf i)) /\ nwrites (rafter cf) <= 2.

(* ------------------------------------------------------------------ *)
(* invariants of all reachable states                                  *)
(* ------------------------------------------------------------------ *)
Definition rlate3 (p : rpc) : bool := match p with RPanicCas _ | RFinish | RDone => true | _ => false end.
Definition remw (p : rpc) : nat :=
  match p with RRecv _ a | RRun a => nwrites a | RSend _ a => S (nwrites a) | _ => 0 end.
Definition w_incancel (w : item * wpc) : bool :=
  match snd w with WCancel CcDrain _ _ | WCancel CcFin _ _ => true | _ => false end.
Definition c_incancel (p : cpc) : bool :=
  match p with CCancel CcDrain | CCancel CcFin => true | _ => false end.
Definition ncanc (s : state) : nat :=
  List.length (filter w_incancel (ws s)) + (if c_incancel (c s) then 1 else 0).
Definition notwait (a : mact) : bool := match a with AWaitRet => false | _ => true end.
Definition wnowait (w : item * wpc) : bool :=
  match snd w with WRun a | WSend _ a | WCancel _ _ a => forallb notwait a | _ => true end.

Definition ginv (s : state) : Prop :=
  srcc s = gdone (g s) /\
  (xdone (x s) = true -> srcc s = true) /\
  collc s = xdr (x s) /\
  (rlate3 (r s) = true -> collc s = true) /\
  (rdone (r s) = true -> fin s = true) /\
  (conce s = ODone -> fin s = true) /\
  (conce s = ORunning -> 1 <= ncanc s) /\
  (fin s = false -> dl (c s) + remw (r s) <= 2) /\
  forallb wnowait (ws s) = true.

Lemma live_beh : forall cf i, live_cfg cf -> forallb notwait (beh cf i) = true.
Proof.
  intros cf i (_ & Hb & _). apply forallb_forall. intros a Ha.
  destruct a; auto. exfalso. eapply Hb; eauto.
Qed.

Lemma ginv_init : forall cf, live_cfg cf -> ginv (init cf).
Proof.
  intros cf (_ & _ & Hl). unfold ginv, init, ncanc. simpl.
  destruct (rtake cf) as [[|n]|]; simpl; repeat split; auto; try discriminate.
Qed.

Ltac nth_nowait :=
  try match goal with
  | Ha : forallb wnowait ?l = true, E : nth_error ?l _ = Some _ |- _ =>
      let K := fresh "K" in
      pose proof (forallb_nth _ _ _ _ Ha E) as K; unfold wnowait in K; simpl in K
  end.

Lemma ginv_step : forall cf s l s',
  live_cfg cf -> ginv s -> step cf s l = Some s' -> ginv s'.
Proof.
  intros cf s l s' Hc I H.
  pose proof (fun i => live_beh cf i Hc) as Hbeh.
  unfold ginv, ncanc in *.
  destruct I as (I1 & I2 & I3 & I4 & I5 & I6 & I7 & I8 & I9).
  destruct l; simpl in H; unf_step H; unfold r_next in H.
  all: inv_step H.
  all: nth_nowait.
  all: simpl in *; try discriminate.
  all: repeat (apply conj); try assumption; try reflexivity; try (intros; congruence).
  all: idtac. Show.
Admitted.
