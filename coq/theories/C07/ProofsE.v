(* C07 ProofsE: in a clean env-free run every mapper that has exited has written its whole script;
   at a final state the written values are exactly spec_written. *)
From Coq Require Import Permutation.
From God Require Import Base.Prelude C07.Model C07.Spec C07.ProofsA C07.ProofsC.

(* writes of a (remaining) script of item `it` *)
Definition wv (it : item) (a : list mact) : list val :=
  flat_map (fun a => match a with AWrite k => [(it, k)] | _ => [] end) a.
(* values a mapper goroutine has still to write *)
Definition remw (w : item * wpc) : list val :=
  match snd w with WRun a | WSend _ a => wv (fst w) a | _ => [] end.

Definition winv (cf : cfg) (s : state) : Prop :=
  Permutation (written s ++ flat_map remw (ws s)) (flat_map (script_writes cf) (map fst (ws s))).

Lemma flat_map_upd : forall {A B} (f : A -> list B) l i w w', nth_error l i = Some w ->
  Permutation (f w ++ flat_map f (upd_nth i w' l)) (f w' ++ flat_map f l).
Proof.
  intros A B f. induction l as [|h t IH]; intros [|i] w w' H; simpl in *; try discriminate.
  - inversion H; subst. apply Permutation_app_swap_app.
  - specialize (IH _ _ w' H).
    etransitivity; [apply Permutation_app_swap_app|].
    etransitivity; [|apply Permutation_app_swap_app].
    apply Permutation_app_head. exact IH.
Qed.

Lemma flat_map_upd_same : forall {A B} (f : A -> list B) l i w w', nth_error l i = Some w ->
  f w = f w' -> Permutation (flat_map f (upd_nth i w' l)) (flat_map f l).
Proof.
  intros A B f l i w w' H E. pose proof (flat_map_upd f l i w w' H) as P.
  rewrite E in P. eapply Permutation_app_inv_l; exact P.
Qed.

Lemma flat_map_upd_cons : forall {A B} (f : A -> list B) l i w w' a, nth_error l i = Some w ->
  f w = a :: f w' -> Permutation (flat_map f l) (a :: flat_map f (upd_nth i w' l)).
Proof.
  intros A B f l i w w' a H E. pose proof (flat_map_upd f l i w w' H) as P.
  rewrite E in P. symmetry. eapply (Permutation_app_inv_l (f w')).
  etransitivity; [|exact P]. simpl. symmetry. apply Permutation_middle.
Qed.

Lemma winv_step : forall cf s l s',
  reachable cf s -> cinv s -> winv cf s -> step cf s l = Some s' -> winv cf s'.
Proof.
  intros cf s l s' R I W H. unfold winv in *.
  destruct I as (_ & _ & I3 & _).
  destruct l; simpl in H; unf_step H.
  all: inv_step H.
  all: try exact W.
  all: psend_spec.
  all: try (match goal with
            | E : nth_error (ws _) _ = Some (_, WSend _ _), Ec : collc _ = true |- _ =>
                pose proof (no_send_on_closed_collector _ _ _ _ _ _ R E); congruence
            end).
  all: nth_ok; try (simpl in K; discriminate K).
  all: try erewrite map_fst_upd by eassumption.
  (* spawn *)
  all: try (rewrite map_app, !flat_map_app; simpl; rewrite !app_nil_r, app_assoc;
            apply Permutation_app; [exact W | apply Permutation_refl]).
  (* mapper returns / value handed to the collector *)
  all: try (match goal with
            | |- Permutation (written _ ++ flat_map remw (upd_nth ?i ?w' _)) _ =>
                rewrite (flat_map_upd_same remw _ i _ w' E eq_refl); exact W
            end).
  (* a write *)
  all: match goal with
       | |- Permutation ((?v :: _) ++ flat_map remw (upd_nth ?i ?w' _)) _ =>
           pose proof (flat_map_upd_cons remw _ i _ w' v E eq_refl) as P
       end;
       etransitivity; [|exact W]; rewrite P; simpl; apply Permutation_middle.
Qed.

Lemma clean_run_winv : forall cf ls s s',
  clean_cfg cf -> env_free ls -> reachable cf s -> cinv s -> winv cf s ->
  run cf s ls = Some s' -> winv cf s'.
Proof.
  intros cf ls. induction ls as [|l t IH]; simpl; intros s s' Hc He R I W H.
  - inversion H; subst. auto.
  - destruct (step cf s l) as [s1|] eqn:E; try discriminate.
    apply (IH s1 s' Hc); auto.
    + intro Hin. apply He. right. exact Hin.
    + eapply reachable_step; eauto.
    + eapply cinv_step; eauto. intro Hl. apply He. left. auto.
    + eapply winv_step; eauto.
Qed.

Lemma remw_exited : forall l, forallb w_exited l = true -> flat_map remw l = [].
Proof.
  induction l as [|[it p] t IH]; simpl; intro H; auto.
  apply andb_true_iff in H. destruct H as [H1 H2]. rewrite (IH H2).
  unfold w_exited in H1. destruct p; simpl in *; try discriminate. reflexivity.
Qed.

Theorem clean_written_all : forall cf ls s,
  clean_cfg cf -> env_free ls -> run cf (init cf) ls = Some s ->
  forallb w_exited (ws s) = true ->
  Permutation (written s) (flat_map (script_writes cf) (map fst (ws s))).
Proof.
  intros cf ls s Hc He H Hex.
  assert (W : winv cf s).
  { eapply clean_run_winv; eauto using reachable_init, cinv_init.
    unfold winv; simpl. constructor. }
  unfold winv in W. rewrite (remw_exited _ Hex), app_nil_r in W. exact W.
Qed.

Theorem clean_final_written : forall cf ls s,
  clean_cfg cf -> env_free ls -> run cf (init cf) ls = Some s -> final s = true -> drained s = [] ->
  Permutation (written s) (spec_written cf).
Proof.
  intros cf ls s Hc He H Hf Hd.
  destruct (final_all_exited s Hf) as (Eg & _ & _ & Hex & _).
  rewrite (clean_written_all cf ls s Hc He H Hex).
  assert (R : reachable cf s) by (exists ls; exact H).
  destruct (conservation_items cf s R) as (sent & E1 & E2).
  unfold g_rest in E1. rewrite Eg, app_nil_r in E1. rewrite Hd, app_nil_r in E2. subst sent.
  unfold spec_written. apply Permutation_flat_map. symmetry. exact E2.
Qed.

(* ------------------------------------------------------------------ *)
(* in a clean env-free run nothing is ever drained from the source:     *)
(* the hypothesis `drained s = []` of clean_final_written is redundant  *)
(* ------------------------------------------------------------------ *)
Definition xstopped (p : xpc) : bool := match p with XWait | XDrain | XDone => true | _ => false end.
Definition dinv (s : state) : Prop :=
  failed s = false /\ (xstopped (x s) = true -> srcc s = true) /\ drained s = [].

Lemma clean_no_drainer : forall l, forallb wokb l = true -> existsb w_draining l = false.
Proof.
  induction l as [|[it p] t IH]; simpl; intro H; auto.
  apply andb_true_iff in H. destruct H as [H1 H2]. rewrite (IH H2).
  unfold wokb in H1. unfold w_draining. destruct p; simpl in *; try discriminate; reflexivity.
Qed.

Lemma dinv_step : forall cf s l s',
  cinv s -> dinv s -> l <> LEnv -> step cf s l = Some s' -> dinv s'.
Proof.
  intros cf s l s' I D Hl H. unfold dinv in *. destruct D as (D1 & D2 & D3).
  destruct I as (I1 & I2 & I3 & I4 & I5 & I6 & I7 & I8 & I9 & I10 & I11 & I12 & I13).
  pose proof (clean_no_drainer _ I3) as Hnd.
  destruct l; try congruence; clear Hl; simpl in H; unf_step H; unfold someone_drains in H;
    rewrite ?Hnd, ?I1, ?D1 in H; simpl in H.
  all: inv_step H.
  all: psend_spec.
  all: nth_ok; try (simpl in K; discriminate K).
  all: simpl in *; try discriminate; try congruence.
  all: repeat (apply conj); try assumption; try reflexivity; try (intros; congruence).
  all: repeat match goal with Hi : ?a = ?a -> _ |- _ => specialize (Hi eq_refl) end; try congruence.
  all: destruct (r s); simpl in *; try discriminate; specialize (I11 eq_refl); congruence.
Qed.

Lemma clean_run_dinv : forall cf ls s s',
  clean_cfg cf -> env_free ls -> reachable cf s -> cinv s -> dinv s ->
  run cf s ls = Some s' -> dinv s'.
Proof.
  intros cf ls. induction ls as [|l t IH]; simpl; intros s s' Hc He R I D H.
  - inversion H; subst. auto.
  - destruct (step cf s l) as [s1|] eqn:E; try discriminate.
    assert (Hl : l <> LEnv) by (intro Hl; apply He; left; auto).
    apply (IH s1 s' Hc); auto.
    + intro Hin. apply He. right. exact Hin.
    + eapply reachable_step; eauto.
    + eapply cinv_step; eauto.
    + eapply dinv_step; eauto.
Qed.

Theorem clean_nothing_drained : forall cf ls s,
  clean_cfg cf -> env_free ls -> run cf (init cf) ls = Some s -> drained s = [].
Proof.
  intros cf ls s Hc He H.
  assert (D : dinv s).
  { eapply clean_run_dinv; eauto using reachable_init, cinv_init.
    unfold dinv; simpl. repeat split; auto; discriminate. }
  apply D.
Qed.

(* clean_final_written without the side condition *)
Theorem clean_final_written_all : forall cf ls s,
  clean_cfg cf -> env_free ls -> run cf (init cf) ls = Some s -> final s = true ->
  Permutation (written s) (spec_written cf) /\ Permutation (items cf) (map fst (ws s)).
Proof.
  intros cf ls s Hc He H Hf.
  pose proof (clean_nothing_drained cf ls s Hc He H) as Hd.
  split; [apply (clean_final_written cf ls s); auto|].
  destruct (final_all_exited s Hf) as (Eg & _).
  assert (R : reachable cf s) by (exists ls; exact H).
  destruct (conservation_items cf s R) as (sent & E1 & E2).
  unfold g_rest in E1. rewrite Eg, app_nil_r in E1. rewrite Hd, app_nil_r in E2. subst sent. exact E2.
Qed.
