(* C07 ExploreTests: exhaustive exploration of SMALL configurations as a TEST of stuck-freedom / outcomes for
   families beyond the clean one (cancels, context, slow mappers, deliverable panics).  Each Example says: the whole
   reachable graph of that one configuration was covered, no reachable non-final state is stuck, and every final
   state satisfies the given check.  Tests over the listed configurations only - not theorems about all of them. *)
From God Require Import Base.Prelude C07.Model C07.Explore.

Definition fuel : nat := N.to_nat 400000.

(* ---------------------------------------------------------------- exhaustive small-bound tests *)
Definition is_err (s : state) : bool := match c s with CDone (OErr _) => true | _ => false end.
Definition is_panic (s : state) : bool := match c s with CDone (OPanic _) => true | _ => false end.
Definition outcome_is (o : outcome) (s : state) : bool :=
  match c s, o with
  | CDone (ORet a), ORet b => Nat.eqb a b
  | CDone ONoOutput, ONoOutput => true
  | CDone OPanicTwice, OPanicTwice => true
  | _, _ => false
  end.

(* clean: 2 items x 2 workers, range reducer, one result *)
Definition cf_t1 : cfg := mkcfg 2 [0; 1] None (fun _ => [AWrite 1]) None [RWrite 7] false.
Example test_clean_2x2 :
  explore_ok cf_t1 false (fun s => outcome_is (ORet 7) s && Nat.eqb (List.length (recvd s)) 2) fuel = true.
Proof. vm_compute. reflexivity. Qed.

(* clean: 3 items x 1 worker, reducer stops after 1 value and writes twice: the caller panics *)
Definition cf_t2 : cfg := mkcfg 1 [0; 1; 2] None (fun _ => [AWrite 1; AWrite 2]) (Some 1) [RWrite 7; RWrite 8] false.
Example test_clean_stop_early_twice : explore_ok cf_t2 false (outcome_is OPanicTwice) fuel = true.
Proof. vm_compute. reflexivity. Qed.

(* cancels (two cancelling mappers, one of them with nil, writes around the cancel) and a mapper that only
   returns after the call has returned: every maximal run ends with all goroutines exited and an error outcome *)
Definition cf_t3 : cfg :=
  mkcfg 2 [0; 1; 2] None
        (fun i => match i with 0 => [AWrite 1; ACancel (Some 5); AWrite 2] | 1 => [ACancel None] | _ => [AWaitRet; AWrite 1] end)
        None [RWrite 7] false.
Example test_cancel_waitret : explore_ok cf_t3 false is_err fuel = true.
Proof. vm_compute. reflexivity. Qed.

(* double cancel in one mapper, reducer stops early without writing *)
Definition cf_t4 : cfg :=
  mkcfg 1 [0; 1] None (fun i => match i with 0 => [ACancel (Some 5); ACancel (Some 6)] | _ => [AWrite 1] end) (Some 1) [] false.
Example test_double_cancel :
  explore_ok cf_t4 false (fun s => match c s with CDone (OErr (EUser 5)) => true | _ => false end) fuel = true.
Proof. vm_compute. reflexivity. Qed.

(* the context may become done at any moment (environment step), no panics, reducer writes nothing
   (see also test_ctx_write_race_not_stuck below): no stuck state *)
Definition cf_t5 : cfg := mkcfg 2 [0; 1] None (fun _ => [AWrite 1]) None [] false.
Example test_ctx_any_time : explore_ok cf_t5 true (fun _ => true) fuel = true.
Proof. vm_compute. reflexivity. Qed.

(* ... with a reducer write there is no stuck state either any more (the send-on-closed panic goes to the buffer) *)
Definition cf_t5w : cfg := mkcfg 2 [0; 1] None (fun _ => [AWrite 1]) None [RWrite 7] false.
Example test_ctx_write_race_not_stuck : explore_ok cf_t5w true (fun _ => true) fuel = true.
Proof. vm_compute. reflexivity. Qed.

(* context done before the call, plus a cancelling mapper *)
Definition cf_t6 : cfg :=
  mkcfg 2 [0; 1] None (fun i => match i with 0 => [AWrite 1; ACancel (Some 5)] | _ => [AWrite 1] end) None [] true.
Example test_ctx_pre_cancel : explore_ok cf_t6 false (fun _ => true) fuel = true.
Proof. vm_compute. reflexivity. Qed.

(* deliverable panics: two panicking mappers, reducer stops early without writing: one of them is re-raised *)
Definition cf_t7 : cfg :=
  mkcfg 2 [0; 1] None (fun i => match i with 0 => [AWrite 1; APanic 4] | _ => [APanic 5] end) (Some 1) [] false.
Example test_panics_reraised : explore_ok cf_t7 false is_panic fuel = true.
Proof. vm_compute. reflexivity. Qed.

(* a generator panic alone is re-raised *)
Definition cf_t7g : cfg := mkcfg 2 [0; 1] (Some 8) (fun _ => [AWrite 1]) None [RWrite 7] false.
Example test_generator_panic_reraised : explore_ok cf_t7g false is_panic fuel = true.
Proof. vm_compute. reflexivity. Qed.


(* reducer panics after consuming everything, nothing written before *)
Definition cf_t8 : cfg := mkcfg 1 [0; 1] None (fun _ => [AWrite 1]) None [RPanic 9] false.
Example test_reducer_panic : explore_ok cf_t8 false is_panic fuel = true.
Proof. vm_compute. reflexivity. Qed.

(* mixed: cancel + mapper panic + generator panic, stop-early reducer that writes and then panics, and the context
   may end at any moment (environment step): no stuck state (live_cfg: no AWaitRet, <= 2 reducer writes) *)
Definition cf_m1 : cfg :=
  mkcfg 1 [0; 1] (Some 8) (fun i => match i with 0 => [AWrite 1; ACancel (Some 5)] | _ => [APanic 4] end) (Some 1)
        [RWrite 7; RPanic 9] false.
Example test_mixed_1 : explore_ok cf_m1 true (fun _ => true) fuel = true.
Proof. vm_compute. reflexivity. Qed.

Definition cf_m2 : cfg :=
  mkcfg 2 [0; 1] None (fun i => match i with 0 => [ACancel None; APanic 3] | _ => [AWrite 1; ACancel (Some 6); AWrite 2] end)
        None [RWrite 7; RWrite 8] false.
Example test_mixed_2 : explore_ok cf_m2 true (fun _ => true) fuel = true.
Proof. vm_compute. reflexivity. Qed.

(* generator panic + mapper panic, no cancel, no ctx, reducer writes nothing: ALWAYS re-raised (this configuration
   was the witness of c07_panic_reraise_refuted before 1af3580) *)
Definition cf_m3 : cfg :=
  mkcfg 2 [0; 1] (Some 8) (fun i => match i with 0 => [AWrite 1; APanic 4] | _ => [AWrite 1] end) (Some 1) [] false.
Example test_two_panics_reraised : explore_ok cf_m3 false is_panic fuel = true.
Proof. vm_compute. reflexivity. Qed.

(* e753473: a panic after the reducer's value was handed over is re-raised all the same: the reducer writes then
   panics; a mapper and the generator panic after a stop-early reducer wrote (every final state: OPanic) *)
Definition cf_m4 : cfg := mkcfg 1 [0] None (fun _ => [AWrite 1]) (Some 0) [RWrite 7; RPanic 9] false.
Example test_write_then_panic_reraised : explore_ok cf_m4 false is_panic fuel = true.
Proof. vm_compute. reflexivity. Qed.
Definition cf_m5 : cfg :=
  mkcfg 2 [0; 1] (Some 8) (fun i => match i with 0 => [AWrite 1; APanic 4] | _ => [AWrite 1] end) (Some 0) [RWrite 7] false.
Example test_late_mapper_generator_panic_reraised : explore_ok cf_m5 false is_panic fuel = true.
Proof. vm_compute. reflexivity. Qed.

(* summary *)
Example c07_no_stuck_test_small :
  explore_ok cf_t3 false is_err fuel = true /\ explore_ok cf_t5 true (fun _ => true) fuel = true /\
  explore_ok cf_t6 false (fun _ => true) fuel = true /\ explore_ok cf_t7 false is_panic fuel = true /\
  explore_ok cf_t7g false is_panic fuel = true /\ explore_ok cf_t8 false is_panic fuel = true /\
  explore_ok cf_m1 true (fun _ => true) fuel = true /\ explore_ok cf_m2 true (fun _ => true) fuel = true /\
  explore_ok cf_m3 false is_panic fuel = true.
Proof.
  exact (conj test_cancel_waitret (conj test_ctx_any_time (conj test_ctx_pre_cancel
        (conj test_panics_reraised (conj test_generator_panic_reraised (conj test_reducer_panic
        (conj test_mixed_1 (conj test_mixed_2 test_two_panics_reraised)))))))).
Qed.
