(* C07 Exec: checkers evaluated by vm_compute on every correspondence case.
   A case = the script given to the Go driver (lib/mr/verif_driver_test.go) + what was observed:
   the trace of callback events in their global order, the outcome of the call, and the number of
   goroutines left over after a bounded settle loop.

   spec_ok  : the OBSERVED trace/outcome satisfies the clauses of the property text (no model involved).
   model_ok : for small cases, the observation is ACCEPTED by the LTS of Model.v: a scheduler that resolves
              the model's nondeterminism from the observation (which items were mapped, the order in which
              the reducer received, who won the panic CAS / the cancel once, which select arm the caller took)
              finds a run of `step` from `init` to a final state with the same set of mapped items, the same
              receive sequence of the reducer and the same outcome.  Acceptance is sound by construction
              (Link.model_run_reachable); the scheduler is a heuristic, completeness is not claimed. *)
From God Require Import Base.Prelude.
From God Require Export C07.Model.

Inductive ev :=
| ESent (i : nat) | EGPanic (p : nat)
| EMS (i : nat) | EME (i : nat)                       (* mapper callback entered / left *)
| EWr (i k : nat) | EWd (i k : nat)                   (* before / after writer.Write in a mapper *)
| ECB (i : nat) (e : option nat) | ECE (i : nat)      (* before / after cancel(err) *)
| EPn (i p : nat) | EWB (i : nat) | EWE (i : nat) | EWTo (i : nat) | ECx (i : nat)
| ERR (i k : nat)                                     (* reducer received *)
| ERW (k : nat) | ERD (k : nat)                       (* before / after writer.Write in the reducer *)
| ERP (p : nat) | ERE | ERet                          (* reducer panics / returns; the call returned *)
| EGW (i : nat) | EGR
| EPX (i : nat) | ERPX
| ERG.                                                (* the reducer waits at its gate (pipe drained); the driver then cancels the context *)                               (* a panic the script did not raise left a mapper / the reducer callback *)                                (* generator waits at its gate before item i / gate released *)

Inductive xout := XRet (k : nat) | XErr (e : err) | XNoOutput | XPanic (p : pval) | XTwice | XNil | XHang | XOther
| XCrash.   (* the driver PROCESS died while running this case: a panic escaped in a goroutine of the library *)

Record case := mkcase {
  c_fn : nat;                    (* 0 MapReduce 1 MapReduceVoid 2 MapReduceChan 3 ForEach 4 Finish 5 FinishVoid
                                    6 a direct stream of Set/Load on an errorx.AtomicError *)
  c_workers : Z;                 (* argument of WithWorkers *)
  c_noopt : bool;                (* WithWorkers not passed *)
  c_items : list (list mact);
  c_gpanic : option nat;
  c_rtake : option nat;
  c_rafter : list ract;
  c_ctx : nat;                   (* 0 none, 1 done before the call, 2 cancelled by a mapper (ACtx),
                                    3 cancelled by the driver while the generator waits at its gate,
                                    4 cancelled by the driver once the reducer, having drained the pipe, waits at its gate *)
  c_gate : option nat;           (* the generator blocks before sending this item until the driver releases it *)
  c_aeops : list aeop;           (* fn 6 *)
  c_aeobs : list Z;              (* fn 6: per op, Set: 1 ok / -1 panicked; Load: error code, 0 = nil *)
  c_trace : list ev;
  c_out : xout;
  c_leaked : nat;
  c_model : bool                 (* small enough for model_ok *)
}.

Definition nitems (c : case) : nat := List.length (c_items c).

(* the statement's own numbers, as literals (NOT taken from the regenerated module: a changed constant in the Go
   source must not change what spec_ok demands; Link.v proves the regenerated constants equal these) *)
Definition min_workers : Z := 1.        (* minWorkers, mapreduce.go:13 *)
Definition default_workers : Z := 16.   (* defaultWorkers, mapreduce.go:14 *)

(* WithWorkers :156-164, newOptions :322-327, Finish/FinishVoid :79,:95 *)
Definition eff_workers (c : case) : nat :=
  match c_fn c with
  | 4 | 5 => Nat.max (nitems c) (Z.to_nat min_workers)
  | _ => if c_noopt c then Z.to_nat default_workers
         else if (c_workers c <? min_workers)%Z then Z.to_nat min_workers else Z.to_nat (c_workers c)
  end.

Definition val_eqb (a b : val) : bool := Nat.eqb (fst a) (fst b) && Nat.eqb (snd a) (snd b).
Definition err_eqb (a b : err) : bool :=
  match a, b with
  | EUser x, EUser y => Nat.eqb x y | ECancelNil, ECancelNil => true | EDeadline, EDeadline => true | _, _ => false
  end.
Definition pval_eqb (a b : pval) : bool :=
  match a, b with PUser x, PUser y => Nat.eqb x y | PSendClosed, PSendClosed => true | _, _ => false end.
Definition inb {A} (eqb : A -> A -> bool) (a : A) (l : list A) : bool := existsb (eqb a) l.
Definition countb {A} (eqb : A -> A -> bool) (a : A) (l : list A) : nat := List.length (filter (eqb a) l).
Fixpoint nodupb {A} (eqb : A -> A -> bool) (l : list A) : bool :=
  match l with [] => true | a :: t => negb (inb eqb a t) && nodupb eqb t end.
Fixpoint remove1 {A} (eqb : A -> A -> bool) (a : A) (l : list A) : option (list A) :=
  match l with
  | [] => None
  | b :: t => if eqb a b then Some t else option_map (cons b) (remove1 eqb a t)
  end.

(* ------------------------------------------------------------------ trace projections *)
Definition ms_list (t : list ev) : list nat := flat_map (fun e => match e with EMS i => [i] | _ => [] end) t.
Definition me_list (t : list ev) : list nat := flat_map (fun e => match e with EME i => [i] | _ => [] end) t.
Definition rr_list (t : list ev) : list val := flat_map (fun e => match e with ERR i k => [(i, k)] | _ => [] end) t.
Definition rw_list (t : list ev) : list nat := flat_map (fun e => match e with ERW k => [k] | _ => [] end) t.
Definition panics_of (t : list ev) : list nat :=
  flat_map (fun e => match e with EPn _ p => [p] | EGPanic p => [p] | ERP p => [p] | _ => [] end) t.
Definition is_cb (e : ev) : bool := match e with ECB _ _ => true | _ => false end.
Definition is_ce (e : ev) : bool := match e with ECE _ => true | _ => false end.
Definition is_rw (e : ev) : bool := match e with ERW _ => true | _ => false end.
Definition is_cx (e : ev) : bool := match e with ECx _ => true | _ => false end.
Definition is_ret (e : ev) : bool := match e with ERet => true | _ => false end.
Definition is_panic_ev (e : ev) : bool := match e with EPn _ _ | EGPanic _ | ERP _ => true | _ => false end.
Definition cb_with (e : option nat) (x : ev) : bool :=
  match x with ECB _ e' => option_eqb Nat.eqb e e' | _ => false end.

(* some P-event occurs with no Q-event strictly before it *)
Fixpoint ex_before (P Q : ev -> bool) (t : list ev) : bool :=
  match t with
  | [] => false
  | e :: r => if P e then true else if Q e then false else ex_before P Q r
  end.
Definition never (Q : ev -> bool) : ev -> bool := fun _ => false.

Definition writes_of (a : list ract) : list nat := flat_map (fun x => match x with RWrite k => [k] | _ => [] end) a.
Definition script_writes (c : case) : list val :=
  flat_map (fun iw => flat_map (fun a => match a with AWrite k => [(fst iw, k)] | _ => [] end) (snd iw))
           (combine (seq 0 (nitems c)) (c_items c)).
Definition has_cancel_act (c : case) : bool :=
  existsb (existsb (fun a => match a with ACancel _ => true | _ => false end)) (c_items c).
Definition has_panic_act (c : case) : bool :=
  existsb (existsb (fun a => match a with APanic _ => true | _ => false end)) (c_items c)
  || match c_gpanic c with Some _ => true | None => false end
  || existsb (fun a => match a with RPanic _ => true | _ => false end) (c_rafter c).
Definition sclean (c : case) : bool :=
  Nat.eqb (c_ctx c) 0 && negb (has_panic_act c) &&
  forallb (forallb (fun a => match a with AWrite _ => true | _ => false end)) (c_items c).
Definition has_reducer (c : case) : bool := match c_fn c with 0 | 1 | 2 => true | _ => false end.

(* ------------------------------------------------------------------ spec_ok *)
(* no more than the configured number of mappers run at the same time *)
Fixpoint conc_ok (w cur : nat) (t : list ev) : bool :=
  match t with
  | [] => true
  | EMS _ :: r => Nat.leb (S cur) w && conc_ok w (S cur) r
  | EME _ :: r => conc_ok w (cur - 1) r
  | _ :: r => conc_ok w cur r
  end.

(* every value the reducer receives was written before, and not more often than it was written *)
Fixpoint recv_ok (avail : list val) (t : list ev) : bool :=
  match t with
  | [] => true
  | EWr i k :: r => recv_ok ((i, k) :: avail) r
  | ERR i k :: r => match remove1 val_eqb (i, k) avail with Some av => recv_ok av r | None => false end
  | _ :: r => recv_ok avail r
  end.

Definition same_multiset (a b : list val) : bool :=
  Nat.eqb (List.length a) (List.length b) && forallb (fun v => Nat.eqb (countb val_eqb v a) (countb val_eqb v b)) a.

Definition clean_outcome (c : case) : xout :=
  match c_fn c with
  | 0 | 2 => match writes_of (c_rafter c) with [] => XNoOutput | [k] => XRet k | _ => XTwice end
  | _ => XNil
  end.
Definition xout_eqb (a b : xout) : bool :=
  match a, b with
  | XRet x, XRet y => Nat.eqb x y | XErr x, XErr y => err_eqb x y | XNoOutput, XNoOutput => true
  | XPanic x, XPanic y => pval_eqb x y | XTwice, XTwice => true | XNil, XNil => true | _, _ => false
  end.

(* without cancellation / panic / ctx: exactly-once both ways and the result table *)
Definition clean_ok (c : case) : bool :=
  let t := c_trace c in
  Nat.eqb (List.length (ms_list t)) (nitems c) &&
  forallb (fun i => inb Nat.eqb i (me_list t)) (seq 0 (nitems c)) &&
  (if has_reducer c then
     match c_rtake c with
     | None => same_multiset (rr_list t) (script_writes c)
     | Some j => Nat.eqb (List.length (rr_list t)) (Nat.min j (List.length (script_writes c)))
     end
   else true) &&
  xout_eqb (c_out c) (clean_outcome c).

Definition is_err (o : xout) : bool := match o with XErr _ => true | _ => false end.
Definition is_xpanic (o : xout) : bool := match o with XPanic _ => true | _ => false end.

(* the outcome is justified by what happened *)
Definition outcome_ok (c : case) : bool :=
  let t := c_trace c in
  match c_out c with
  | XHang | XOther | XCrash => false                              (* "in every case the call returns"; a panic is
                                                                     re-raised in the CALLING goroutine *)
  | XErr EDeadline => Nat.eqb (c_ctx c) 1 || ex_before is_cx is_ret t
  | XErr e =>                                                    (* the first cancel wins *)
      let e' := match e with EUser n => Some n | _ => None end in
      if Nat.eqb (c_fn c) 4 then existsb (cb_with e') t
      else ex_before (cb_with e') is_ce t
  | XPanic (PUser p) => inb Nat.eqb p (panics_of t)
  | XPanic PSendClosed => false
  | XRet k => inb Nat.eqb k (rw_list t) && match c_fn c with 0 | 2 => true | _ => false end
  | XTwice => Nat.leb 2 (List.length (rw_list t))
  | XNoOutput => match c_fn c with 0 | 2 => true | _ => false end
  | XNil => match c_fn c with 0 | 2 => false | _ => true end
  end.

(* cancel(err) makes the call return that error: a cancel that completed before the reducer wrote anything *)
Definition cancel_rule (c : case) : bool :=
  let t := c_trace c in
  let cancelled := if Nat.eqb (c_fn c) 4 then existsb is_cb t
                   else has_reducer c && ex_before is_ce (fun e => is_rw e || is_ret e) t in
  if cancelled then is_err (c_out c) || (is_xpanic (c_out c) && existsb is_panic_ev t) else true.

(* ... also while the cancel is still inside its drain(source) (retErr is recorded first, done/output are closed
   last).  Evidence in the trace that a cancel has recorded its error, without seeing inside the library: more sends
   of the generator have completed than there are workers while no mapper has returned yet (a mapper keeps its pool
   token until after EME), no panic, no ctx: the dispatcher can have taken at most `workers` items, its final drain
   cannot have started (done/ctx/failed all need something that has not happened), so a drain(source) inside cancel
   took one - and retErr.Set precedes that drain.  If that point comes before the reducer starts its first write,
   the caller loads retErr after it: the call returns the cancel error, never the value / ErrReduceNoOutput. *)
Fixpoint drain_evidence (w sent : nat) (t : list ev) : bool :=
  match t with
  | [] => false
  | ESent _ :: r => if Nat.ltb w (S sent) then true else drain_evidence w (S sent) r
  | EME _ :: _ | EPn _ _ :: _ | EGPanic _ :: _ | ERP _ :: _ | ECx _ :: _ | ERW _ :: _ | ERet :: _
  | EPX _ :: _ | ERPX :: _ => false
  | _ :: r => drain_evidence w sent r
  end.
Definition cancel_rule2 (c : case) : bool :=
  if has_reducer c && Nat.eqb (c_ctx c) 0 && drain_evidence (eff_workers c) 0 (c_trace c)
  then is_err (c_out c) || (is_xpanic (c_out c) && existsb is_panic_ev (c_trace c)) ||
       (match c_out c with XTwice => true | _ => false end && Nat.leb 2 (List.length (rw_list (c_trace c))))
  else true.

(* a panic (raised before the call returned, no cancel / ctx in the script) is re-raised in the caller *)
Definition panic_rule (c : case) : bool :=
  let t := c_trace c in
  if negb (has_cancel_act c) && Nat.eqb (c_ctx c) 0 && ex_before is_panic_ev is_ret t
  then is_xpanic (c_out c) ||
       (* two clauses collide: a second reducer write panics in the caller ("written twice") before the re-check *)
       (match c_out c with XTwice => true | _ => false end && Nat.leb 2 (List.length (rw_list t)))
  else true.

(* a done context makes the call return DeadlineExceeded *)
Definition ctx_rule (c : case) : bool :=
  let t := c_trace c in
  if has_reducer c && negb (has_cancel_act c) && negb (has_panic_act c) &&
     (Nat.eqb (c_ctx c) 1 || ex_before is_cx is_ret t)
  then xout_eqb (c_out c) (XErr EDeadline) else true.

(* `skip` leaves out the clause(s) a known-finding class is about (used by the harness' classify to decide that the
   class' anomaly is the ONLY failure): 0 nothing; 1 outcome_ok, cancel_rule and the no-unscripted-panic clause (send_on_closed); 2 panic_rule
   (reducer_write_then_panic); 3 ctx_rule (ctx_select_race) *)
Definition spec_ok_gen (skip : nat) (c : case) : bool :=
  let t := c_trace c in
  nodupb Nat.eqb (ms_list t) && forallb (fun i => Nat.ltb i (nitems c)) (ms_list t) &&   (* at most once *)
  conc_ok (eff_workers c) 0 t &&                                                        (* worker bound *)
  recv_ok [] t &&
  (if sclean c && negb (has_cancel_act c) && negb (existsb (existsb (fun a => match a with AWaitRet => true | _ => false end)) (c_items c))
   then clean_ok c else true) &&
  (Nat.eqb skip 1 || (outcome_ok c && cancel_rule c && cancel_rule2 c &&
                      (* the library never makes a callback panic (writer.Write on a closed channel) *)
                      negb (existsb (fun e => match e with EPX _ | ERPX => true | _ => false end) t))) && (Nat.eqb skip 2 || panic_rule c) &&
  (Nat.eqb skip 3 || ctx_rule c) &&
  match c_out c with XHang | XOther | XCrash => false | _ => true end &&                (* the call returns *)
  Nat.eqb (c_leaked c) 0.                                                               (* no goroutine left *)

(* errorx.AtomicError, as retErr needs it: Load returns the last error Set, for EVERY non-nil error interface value
   (typed nils included); Set(nil) changes nothing and never panics; a Set may only panic when an error of another
   concrete type is already stored (atomic.Value's documented restriction) *)
Fixpoint ae_spec (cur : option nat) (ops : list aeop) (obs : list Z) : bool :=
  match ops, obs with
  | [], [] => true
  | AESet None :: ops', o :: obs' => Z.eqb o 1 && ae_spec cur ops' obs'
  | AESet (Some e) :: ops', o :: obs' =>
      if Z.eqb o 1 then ae_spec (Some e) ops' obs'
      else Z.eqb o (-1) && match cur with Some c0 => negb (Nat.eqb (ae_type c0) (ae_type e)) | None => false end &&
           ae_spec cur ops' obs'
  | AELoad :: ops', o :: obs' =>
      Z.eqb o (match cur with Some e => Z.of_nat e | None => 0%Z end) && ae_spec cur ops' obs'
  | _, _ => false
  end.
(* the transcription Model.ae_set / ae_load reproduces the observations exactly *)
Fixpoint ae_model (st : option nat) (ops : list aeop) (obs : list Z) : bool :=
  match ops, obs with
  | [], [] => true
  | AESet e :: ops', o :: obs' =>
      match ae_set st e with
      | Ok st' => Z.eqb o 1 && ae_model st' ops' obs'
      | _ => Z.eqb o (-1) && ae_model st ops' obs'
      end
  | AELoad :: ops', o :: obs' =>
      Z.eqb o (match ae_load st with Some e => Z.of_nat e | None => 0%Z end) && ae_model st ops' obs'
  | _, _ => false
  end.

Definition spec_ok (c : case) : bool :=
  if Nat.eqb (c_fn c) 6 then ae_spec None (c_aeops c) (c_aeobs c) else spec_ok_gen 0 c.
Definition spec_wo_outcome (c : case) : bool := spec_ok_gen 1 c.
Definition spec_wo_panic (c : case) : bool := spec_ok_gen 2 c.
Definition spec_wo_ctx (c : case) : bool := spec_ok_gen 3 c.

(* ------------------------------------------------------------------ model_ok *)
Definition cfg_of (c : case) : cfg :=
  mkcfg (eff_workers c) (seq 0 (nitems c)) (c_gpanic c) (fun i => nth i (c_items c) [])
        (c_rtake c) (c_rafter c) (Nat.eqb (c_ctx c) 1).

Record oracle := mkor {
  o_mapped : list nat;
  o_rs : list val;
  o_out : xout;
  o_cwin : option err;
  o_pwin : option pval
}.
Definition oracle_of (c : case) : oracle :=
  mkor (ms_list (c_trace c)) (rr_list (c_trace c)) (c_out c)
       (match c_out c with XErr EDeadline => None | XErr e => Some e | _ => None end)
       (match c_out c with XPanic p => Some p | _ => None end).

Definition pending_vals (s : state) : list val :=
  flat_map (fun w => match snd w with WSend v _ => [v] | _ => [] end) (ws s).
Definition r_receiving (s : state) : bool := match r s with RRecv _ _ => true | _ => false end.
Definition in_rs (o : oracle) (v : val) : bool := inb val_eqb v (o_rs o).
Definition rs_committed (o : oracle) (s : state) : bool :=
  forallb (fun v => inb val_eqb v (recvd s ++ coll s ++ pending_vals s)) (o_rs o).
(* output is not closed before the caller holds what its observed outcome needs from the reducer *)
Definition delivered (o : oracle) (s : state) : bool :=
  match o_out o with
  | XRet _ => match c s with CDefer _ | CDone _ => true | _ => false end
  | XTwice => match c s with CDone _ => true | _ => false end
  | _ => true
  end.
Definition nsent (o : oracle) (s : state) : nat := List.length (recvd s) + List.length (filter (in_rs o) (coll s)).
Fixpoint index_of (v : val) (l : list val) (i : nat) : nat :=
  match l with [] => i | a :: t => if val_eqb v a then i else index_of v t (S i) end.
(* the CAS winner is the re-raised panic; if nothing was re-raised, the first CAS comes after the caller's last look
   at the panic channel (select / re-check in the output arm) *)
Definition cas_rule (o : oracle) (s : state) (p : pval) : bool :=
  if wrote s then true
  else match o_pwin o with
       | Some p' => pval_eqb p p'
       | None => match c s with CDone _ => true | _ => false end      (* the last look is the deferred re-check *)
       end.
Definition once_rule (o : oracle) (s : state) (e : err) : bool :=
  match conce s with
  | ONone => match o_cwin o with Some e' => err_eqb e e' | None => true end
  | _ => true
  end.
Definition g_head (s : state) : option nat := match g s with GSend (i :: _) => Some i | _ => None end.
Definition g_rest (s : state) : list nat := match g s with GSend l => l | _ => [] end.
Definition more_to_map (o : oracle) (s : state) : bool := existsb (fun i => inb Nat.eqb i (o_mapped o)) (g_rest s).
Definition nil_rest (s : state) : bool := match g_rest s with [] => true | _ => false end.
Definition first_match (o : xout) (m : outcome) : bool :=
  match o, m with
  | XTwice, _ => true
  | XRet k, ORet k' => Nat.eqb k k'
  | XErr e, OErr e' => err_eqb e e'
  | XNoOutput, ONoOutput | XNil, ONoOutput => true
  | _, _ => false
  end.
Definition final_match (o : xout) (m : outcome) : bool :=
  match o, m with
  | XTwice, OPanicTwice => true
  | XPanic p, OPanic p' => pval_eqb p p'
  | XTwice, _ => false
  | _, _ => first_match o m
  end.

Definition allowed_core (o : oracle) (s : state) (l : label) : bool :=
  match l with
  | LEnv => false
  | LW i =>
      match nth_error (ws s) i with
      | Some (it, WRun (AWrite k :: _)) =>
          if in_rs o (it, k) then negb (ctxd s || fin s) else (ctxd s || fin s) || negb (r_receiving s)
      | Some (it, WSend v _) =>
          if in_rs o v then Nat.eqb (index_of v (o_rs o) 0) (nsent o s) else negb (r_receiving s)
      | Some (_, WCancel CcEnter e _) => once_rule o s e
      | Some (_, WCancel CcFin _ _) => rs_committed o s && delivered o s
      | Some (_, WRun (ACtx :: _)) => rs_committed o s
      | Some (_, WRecover p) => cas_rule o s p && (match List.length (filter (fun i => inb Nat.eqb i (o_mapped o)) (g_rest s)) with
                                                   | 0 => true
                                                   | 1 => match x s with XSel | XHold => true | _ => false end
                                                   | _ => false
                                                   end)
      | Some _ => true
      | None => false
      end
  | LR => match r s with RPanicCas p => cas_rule o s p | RFinish => rs_committed o s && delivered o s | _ => true end
  | LG => match g s with GPanicCas p => cas_rule o s (PUser p) | _ => true end
  | LGSendX =>
      match g_head s with
      | Some i => if inb Nat.eqb i (o_mapped o) then match x s with XHold => true | _ => false end
                  else match x s with XDrain => true | _ => false end
      | None => false
      end
  | LGSendK => match g_head s with Some i => negb (inb Nat.eqb i (o_mapped o)) | None => false end
  | LX => match x s with
          | XCheck => failed s || more_to_map o s || nil_rest s || ctxd s || fin s || someone_drains s
          | _ => true
          end
  | LXStop => negb (more_to_map o s)
  | LXAcq => more_to_map o s || (negb (ctxd s || fin s) && (nil_rest s || someone_drains s))
  | LC =>
      match c s with
      | COut _ => is_xpanic (o_out o) ||
                  (negb (wrote s) &&
                   match step_c s with
                   | Some s' => match c s' with CDefer m => first_match (o_out o) m | _ => false end
                   | None => false
                   end)
      | CCancel CcEnter => once_rule o s EDeadline
      | CCancel CcFin => rs_committed o s && delivered o s
      | CDefer _ => match o_out o with
                    | XTwice => match r s with RSend _ _ => true | _ => false end
                    | XPanic _ => fin s && wrote s          (* re-raised at the latest by the deferred re-check *)
                    | _ => true
                    end
      | _ => true
      end
  | LCCtx => match o_out o with XErr EDeadline => true | XPanic _ => true | _ => false end   (* a pending panic wins at exit *)
  | LCPanic => is_xpanic (o_out o)
  | LCOut =>
      match o_out o with
      | XErr EDeadline => false
      | XPanic _ => negb (wrote s)        (* the value / close is swallowed; the re-check then waits for the CAS *)
      | XRet k => negb (wrote s) && negb (fin s) && match r s with RSend k' _ => Nat.eqb k k' | _ => false end
      | XNoOutput | XNil => negb (wrote s) && fin s
      | _ => negb (wrote s)             (* an error / written twice: whatever comes first; the load decides *)
      end
  end.

(* gate (c_ctx = 3): the generator does not get past its gate before the driver has cancelled the context, and the
   context is cancelled exactly there - as late as the other threads allow (values the reducer received were written
   before the cancellation) *)
Definition at_gate (gate : option nat) (n : nat) (s : state) : bool :=
  match gate with Some gt => Nat.eqb (List.length (g_rest s)) (n - gt) | None => false end.
Definition allowed (gated : bool) (gate : option nat) (n : nat) (o : oracle) (s : state) (l : label) : bool :=
  match l with
  | LEnv => gated && negb (ctxd s) && at_gate gate n s && rs_committed o s
  | LGSendX | LGSendK => negb (gated && negb (ctxd s) && at_gate gate n s) && allowed_core o s l
  | _ => allowed_core o s l
  end.

Definition candidates (s : state) : list label :=
  match c s with COut _ => [LC] | _ => [] end ++      (* the re-check follows the receive at once *)
  map LW (seq 0 (List.length (ws s))) ++ [LR; LG; LGSendX; LGSendK; LX; LXAcq; LXStop; LC; LCPanic; LCCtx; LCOut; LEnv].

Record gatecfg := mkgate { gc_on : bool; gc_at : option nat; gc_n : nat }.
Fixpoint pick (cf : cfg) (gc : gatecfg) (o : oracle) (s : state) (ls : list label) : option state :=
  match ls with
  | [] => None
  | l :: t => if allowed (gc_on gc) (gc_at gc) (gc_n gc) o s l
              then match step cf s l with Some s' => Some s' | None => pick cf gc o s t end
              else pick cf gc o s t
  end.

Fixpoint greedy (cf : cfg) (gc : gatecfg) (o : oracle) (fuel : nat) (s : state) : state :=
  match fuel with
  | O => s
  | S f => match pick cf gc o s (candidates s) with Some s' => greedy cf gc o f s' | None => s end
  end.

Definition same_set (a b : list nat) : bool :=
  Nat.eqb (List.length a) (List.length b) && forallb (fun i => inb Nat.eqb i b) a.

Definition accepted (c : case) (s : state) : bool :=
  final s &&
  match Model.c s with CDone m => final_match (c_out c) m | _ => false end &&
  same_set (map fst (ws s)) (ms_list (c_trace c)) &&
  list_eqb val_eqb (rev (recvd s)) (rr_list (c_trace c)).

Definition model_applicable (c : case) : bool :=
  c_model c && Nat.eqb (c_leaked c) 0 &&
  match c_fn c with 0 | 1 | 2 | 4 => true | _ => false end &&
  match c_out c with XHang | XOther | XCrash => false | _ => true end.

Definition gate_of (c : case) : gatecfg := mkgate (Nat.eqb (c_ctx c) 3) (c_gate c) (nitems c).
Definition model_run (c : case) : state := greedy (cfg_of c) (gate_of c) (oracle_of c) 3000 (init (cfg_of c)).

Definition model_ok (c : case) : bool :=
  if Nat.eqb (c_fn c) 6 then ae_model None (c_aeops c) (c_aeobs c)
  else if model_applicable c then accepted c (model_run c) else true.
