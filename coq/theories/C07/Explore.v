(* C07 Explore: exhaustive exploration of the LTS for SMALL configurations (a TEST, not a theorem about all
   configurations): breadth-first search over all interleavings with a hashed visited set; reports the number of
   states visited and the first reachable non-final state that has no enabled step other than the environment's
   (with the schedule leading to it).  Used in Props.v (a) to find/replay the witnesses of the *_refuted
   theorems, (b) as `c07_no_stuck_test_*` for families with cancels / context / slow mappers where the general
   stuck-freedom proof was not done. The visited set identifies states by an injective-by-construction numeric
   encoding; should two different states collide, coverage shrinks, nothing else. *)
From Coq Require Import FMapPositive.
From God Require Import Base.Prelude C07.Model.

Definition enc_opt (o : option nat) : list nat := match o with None => [0] | Some n => [1; n] end.
Definition enc_err (e : err) : list nat := match e with EUser n => [0; n] | ECancelNil => [1] | EDeadline => [2] end.
Definition enc_pval (p : pval) : list nat := match p with PUser n => [0; n] | PSendClosed => [1] end.
Definition enc_cc (k : cc) : nat := match k with CcEnter => 0 | CcDrain => 1 | CcFin => 2 end.
Definition enc_mact (a : mact) : list nat :=
  match a with AWrite k => [0; k] | ACancel e => 1 :: enc_opt e | APanic p => [2; p] | AWaitRet => [3] | ACtx => [4] end.
Definition enc_ract (a : ract) : list nat := match a with RWrite k => [0; k] | RPanic p => [1; p] end.
Definition enc_list {A} (f : A -> list nat) (l : list A) : list nat := List.length l :: flat_map f l.
Definition enc_val (v : val) : list nat := [fst v; snd v].
Definition enc_gpc (p : gpc) : list nat :=
  match p with GSend r => 0 :: enc_list (fun i => [i]) r | GPanicCas p => [1; p] | GClose => [3] | GDone => [4] end.
Definition enc_xpc (p : xpc) : nat :=
  match p with XCheck => 0 | XSel => 1 | XHold => 2 | XWait => 3 | XDrain => 4 | XDone => 5 end.
Definition enc_wpc (p : wpc) : list nat :=
  match p with
  | WRun a => 0 :: enc_list enc_mact a
  | WSend v a => 1 :: enc_val v ++ enc_list enc_mact a
  | WCancel k e a => 2 :: enc_cc k :: enc_err e ++ enc_list enc_mact a
  | WRecover p => 3 :: enc_pval p
  | WFin => [5]
  | WExit => [6]
  end.
Definition enc_rpc (p : rpc) : list nat :=
  match p with
  | RRecv l a => 0 :: enc_opt l ++ enc_list enc_ract a
  | RRun a => 1 :: enc_list enc_ract a
  | RSend k a => 2 :: k :: enc_list enc_ract a
  | RDrain p => 3 :: match p with None => [0] | Some p => 1 :: enc_pval p end
  | RPanicCas p => 4 :: enc_pval p
  | RFinish => [6]
  | RDone => [7]
  end.
Definition enc_out (o : outcome) : list nat :=
  match o with ORet k => [0; k] | OErr e => 1 :: enc_err e | ONoOutput => [2] | OPanic p => 3 :: enc_pval p | OPanicTwice => [4] end.
Definition enc_cpc (p : cpc) : list nat :=
  match p with
  | CSelect => [0] | CCancel k => [1; enc_cc k] | CDrainOut p => 2 :: enc_pval p | COut g => 5 :: enc_opt g
  | CDefer o => 3 :: enc_out o | CDone o => 4 :: enc_out o
  end.
Definition b2n (b : bool) : nat := if b then 1 else 0.
Definition enc_once (o : once) : nat := match o with ONone => 0 | ORunning => 1 | ODone => 2 end.

(* control state + channel contents + the ghosts that distinguish histories we care about *)
Definition enc_state (s : state) : list nat :=
  enc_gpc (g s) ++ [b2n (srcc s); enc_xpc (x s); pool s; b2n (failed s)] ++
  enc_list (fun w => fst w :: enc_wpc (snd w)) (ws s) ++ enc_list enc_val (coll s) ++
  [b2n (collc s)] ++ enc_rpc (r s) ++ enc_cpc (c s) ++
  [b2n (ctxd s); b2n (fin s); enc_once (conce s); b2n (wrote s)] ++
  match reterr s with None => [0] | Some e => 1 :: enc_err e end ++
  match fpanic s with None => [0] | Some p => 1 :: enc_pval p end ++
  enc_list (fun i => [i]) (drained s) ++ enc_list enc_val (recvd s) ++ enc_list enc_val (dropped s) ++
  enc_list enc_val (cdrained s).

Definition hash (l : list nat) : positive :=
  N.succ_pos (fold_left (fun h n => N.modulo (h * 31 + N.of_nat n + 7) 1000003%N) l 1%N).

Definition seen := PositiveMap.t (list (list nat)).
Definition seen_mem (k : list nat) (h : positive) (m : seen) : bool :=
  match PositiveMap.find h m with
  | Some b => existsb (list_eqb Nat.eqb k) b
  | None => false
  end.
Definition seen_add (k : list nat) (h : positive) (m : seen) : seen :=
  PositiveMap.add h (k :: match PositiveMap.find h m with Some b => b | None => [] end) m.

Definition labels_of (env : bool) (s : state) : list label :=
  (if env then [LEnv] else []) ++
  map LW (seq 0 (List.length (ws s))) ++ [LR; LG; LGSendX; LGSendK; LX; LXAcq; LXStop; LC; LCCtx; LCPanic; LCOut].

Definition succs (cf : cfg) (env : bool) (s : state) : list (label * state) :=
  flat_map (fun l => match step cf s l with Some s' => [(l, s')] | None => [] end) (labels_of env s).

(* stuck: no step other than the environment's *)
Definition stuck (cf : cfg) (s : state) : bool :=
  match succs cf false s with [] => true | _ => false end.

Record report := mkrep {
  visited : nat;
  finals : nat;
  bad : option (list label * state);      (* first stuck non-final state, with the schedule (reversed) *)
  exhausted : bool                        (* the whole reachable graph was covered *)
}.

(* `check` is an extra predicate every FINAL state must satisfy (e.g. the expected outcome) *)
Fixpoint bfs (cf : cfg) (env : bool) (check : state -> bool) (fuel : nat) (todo : list (list label * state)) (m : seen)
         (nv nf : nat) : report :=
  match fuel with
  | O => mkrep nv nf None (match todo with [] => true | _ => false end)
  | S f =>
      match todo with
      | [] => mkrep nv nf None true
      | (path, s) :: rest =>
          if final s then
            if check s then bfs cf env check f rest m nv (S nf) else mkrep nv nf (Some (path, s)) false
          else
            let next := succs cf env s in
            if stuck cf s then mkrep nv nf (Some (path, s)) false
            else
              let '(todo', m', nv') :=
                fold_left (fun acc ls =>
                             let '(td, mm, n) := acc in
                             let k := enc_state (snd ls) in
                             let h := hash k in
                             if seen_mem k h mm then acc
                             else ((fst ls :: path, snd ls) :: td, seen_add k h mm, S n))
                          next (rest, m, nv) in
              bfs cf env check f todo' m' nv' nf
      end
  end.

Definition explore (cf : cfg) (env : bool) (check : state -> bool) (fuel : nat) : report :=
  bfs cf env check fuel [([], init cf)] (PositiveMap.empty _) 1 0.

Definition explore_ok (cf : cfg) (env : bool) (check : state -> bool) (fuel : nat) : bool :=
  let r := explore cf env check fuel in
  exhausted r && match bad r with None => true | Some _ => false end.

Lemma stuck_spec cf s : stuck cf s = true -> forall l, l <> LEnv -> step cf s l = None.
Proof.
  unfold stuck, succs. intros H l Hl.
  destruct (step cf s l) as [s'|] eqn:E; [|reflexivity]. exfalso.
  assert (Hin : In l (labels_of false s) -> False).
  { intro Hin. destruct (flat_map _ (labels_of false s)) eqn:F; [|discriminate].
    assert (In (l, s') (flat_map (fun l0 => match step cf s l0 with Some s'0 => [(l0, s'0)] | None => [] end) (labels_of false s))).
    { apply in_flat_map. exists l. split; [exact Hin|]. rewrite E. left. reflexivity. }
    rewrite F in H0. exact H0. }
  apply Hin. unfold labels_of. simpl.
  destruct l; try congruence; try (apply in_or_app; right; simpl; tauto).
  apply in_or_app. left. apply in_map. apply in_seq. split; [lia|]. simpl.
  simpl in E. unfold step_w in E. destruct (nth_error (ws s) i) eqn:N; [|discriminate].
  apply nth_error_Some. congruence.
Qed.
