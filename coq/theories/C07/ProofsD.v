(* C07 ProofsD: cancel(err) makes the call return that error (reducers that never write:
   the MapReduceVoid / Finish family).  All configs, all schedules. *)
From God Require Import Base.Prelude C07.Model C07.ProofsB.

(* no ctx and no panic CAS so far; backwards closed along runs (flags are monotone) *)
Definition quiet (s : state) : Prop := ctxd s = false /\ wrote s = false.

Lemma quiet_back_step : forall cf s l s', step cf s l = Some s' -> quiet s' -> quiet s.
Proof.
  intros cf s l s' H [Q1 Q2]. destruct (flags_mono_step _ _ _ _ H) as (M1 & _ & M3 & _).
  split.
  - destruct (ctxd s); auto. rewrite M1 in Q1; auto.
  - destruct (wrote s); auto. rewrite M3 in Q2; auto.
Qed.

Lemma quiet_ind : forall cf (P : state -> Prop),
  (quiet (init cf) -> P (init cf)) ->
  (forall s l s', reachable cf s -> quiet s -> quiet s' -> P s -> step cf s l = Some s' -> P s') ->
  forall s, reachable cf s -> quiet s -> P s.
Proof.
  intros cf P H0 HS.
  apply (reach_ind cf (fun s => quiet s -> P s)); [exact H0|].
  intros s l s' R IH St Q'. pose proof (quiet_back_step _ _ _ _ St Q') as Q.
  eapply HS; eauto.
Qed.

Definition load (s : state) : outcome :=
  match reterr s with Some e => OErr e | None => ONoOutput end.

(* once the caller is past its select, output is closed and its outcome is the current retErr *)
Definition invD (s : state) : Prop :=
  (forall o, caller_outcome s = Some o -> fin s = true /\ o = load s) /\
  (forall got, c s = COut got -> fin s = true /\ got = None).

Lemma no_rsend : forall cf s k a, invO1 cf s -> writes (rafter cf) = [] -> r s = RSend k a -> False.
Proof.
  intros cf s k a (pre & post & Hr & _) W E. rewrite E in Hr. simpl in Hr.
  rewrite Hr, writes_app in W. simpl in W. destruct (writes pre); discriminate.
Qed.

Lemma invD_step : forall cf s l s',
  writes (rafter cf) = [] -> reachable cf s -> quiet s -> quiet s' -> invD s ->
  step cf s l = Some s' -> invD s'.
Proof.
  intros cf s l s' W R Q Q' [I J] H. unfold invD, quiet, load, caller_outcome in *.
  pose proof (fun k a => no_rsend cf s k a (invO1_reach cf s R) W) as NS.
  destruct (invS_reach cf s R) as (I1 & I2 & _ & I4 & _ & _ & IS7 & _).
  destruct (invA_reach cf s R) as (_ & _ & IA3 & _).
  destruct (invP_reach cf s R) as (IP1 & _ & IP5).
  destruct s; sproj. destruct Q as (? & ?). subst.
  assert (fpanic = None) by (apply IP1; reflexivity). subst. clear IP1.
  open_step' l H.
  all: try solve [destruct Q' as (? & ?); discriminate].
  all: clear Q'.
  all: cbn [c_cancel] in *.
  all: try solve [split; assumption].
  all: try solve [exfalso; eapply NS; reflexivity].
  all: try solve [specialize (IS7 eq_refl); discriminate].
  all: try solve [specialize (IP5 _ eq_refl); discriminate].
  all: split; [intros o0 Ho | intros got0 Ho]; try discriminate Ho.
  all: try solve [destruct (I _ Ho) as [F ?]; split; [reflexivity || assumption | assumption]].
  all: try solve [destruct (J _ Ho) as [F ?]; split; [reflexivity || assumption | assumption]].
  all: try solve [inversion Ho; subst; first [ split; reflexivity | apply I; reflexivity ]].
  all: try solve [destruct (J _ eq_refl) as [F X]; try discriminate X;
                  inversion Ho; subst; split; [assumption | reflexivity]].
  1: { exfalso. destruct (I _ Ho) as [F _]. destruct (I1 F) as [X|X]; [discriminate|]. subst r.
       specialize (I4 (I2 eq_refl)). w_contra. }
  all: destruct (J _ eq_refl) as [F X]; try discriminate X; inversion Ho; subst; split; auto.
Qed.

Lemma invD_quiet : forall cf, writes (rafter cf) = [] ->
  forall s, reachable cf s -> quiet s -> invD s.
Proof.
  intros cf W. apply (quiet_ind cf invD).
  - intros _. split; intros ? H; discriminate H.
  - intros s l s' R Q Q' I H. eapply invD_step; eauto.
Qed.

(* cancel(err) makes the call return that error; without a cancel the call reports "no output" *)
Theorem cancel_result_nowrite : forall cf s o, reachable cf s -> ctxd s = false -> wrote s = false ->
  writes (rafter cf) = [] -> c s = CDone o ->
  o = match reterr s with Some e => OErr e | None => ONoOutput end.
Proof.
  intros cf s o R Q1 Q2 W Hc.
  destruct (invD_quiet cf W s R (conj Q1 Q2)) as [I _]. destruct (I o) as [_ H]; [|exact H].
  unfold caller_outcome. rewrite Hc. reflexivity.
Qed.

(* a bit more: the same holds already in the deferred range, and output is closed by then *)
Theorem cancel_result_nowrite_defer : forall cf s o, reachable cf s -> ctxd s = false ->
  wrote s = false -> writes (rafter cf) = [] -> caller_outcome s = Some o ->
  fin s = true /\ o = match reterr s with Some e => OErr e | None => ONoOutput end.
Proof. intros cf s o R Q1 Q2 W Hc. apply (invD_quiet cf W s R (conj Q1 Q2)); exact Hc. Qed.

Corollary cancel_returns_first_error : forall cf s o, reachable cf s -> ctxd s = false ->
  wrote s = false -> writes (rafter cf) = [] -> c s = CDone o ->
  forall e rest, rev (ccalls s) = e :: rest -> o = OErr e.
Proof.
  intros cf s o R Q1 Q2 W Hc e rest Hl.
  rewrite (cancel_result_nowrite cf s o R Q1 Q2 W Hc), (first_cancel_wins cf s R), Hl.
  reflexivity.
Qed.

(* and conversely: no cancel call at all gives ErrReduceNoOutput *)
Corollary no_cancel_no_output : forall cf s o, reachable cf s -> ctxd s = false ->
  wrote s = false -> writes (rafter cf) = [] -> c s = CDone o -> ccalls s = [] -> o = ONoOutput.
Proof.
  intros cf s o R Q1 Q2 W Hc Hl.
  rewrite (cancel_result_nowrite cf s o R Q1 Q2 W Hc), (first_cancel_wins cf s R), Hl.
  reflexivity.
Qed.


(* ------------------------------------------------------------------ *)
(* a panic recorded before the caller looks at `output` is re-raised   *)
(* ------------------------------------------------------------------ *)
(* no ctx and no cancel so far; backwards closed along runs *)
Definition calm (s : state) : Prop := ctxd s = false /\ conce s = ONone.

Lemma calm_back_step : forall cf s l s', step cf s l = Some s' -> calm s' -> calm s.
Proof.
  intros cf s l s' H [Q1 Q2]. destruct (flags_mono_step _ _ _ _ H) as (M1 & _ & _ & _ & _ & M6).
  split.
  - destruct (ctxd s); auto. rewrite M1 in Q1; auto.
  - destruct (conce s) eqn:E; auto; exfalso; apply M6; congruence.
Qed.

Lemma calm_ind : forall cf (P : state -> Prop),
  (calm (init cf) -> P (init cf)) ->
  (forall s l s', reachable cf s -> calm s -> calm s' -> P s -> step cf s l = Some s' -> P s') ->
  forall s, reachable cf s -> calm s -> P s.
Proof.
  intros cf P H0 HS.
  apply (reach_ind cf (fun s => calm s -> P s)); [exact H0|].
  intros s l s' R IH St Q'. pose proof (calm_back_step _ _ _ _ St Q') as Q.
  eapply HS; eauto.
Qed.

Definition c_noout (p : cpc) : bool :=
  match p with CDefer ONoOutput | CDone ONoOutput => true | _ => false end.

(* in calm runs the caller reports "no output" only if no panic was recorded when it looked, and then
   output is closed: reducer, generator and all mappers are gone, so none is ever recorded *)
Definition invE (s : state) : Prop := c_noout (c s) = true -> wrote s = false /\ fin s = true.

Lemma invE_step : forall cf s l s',
  reachable cf s -> calm s -> calm s' -> invE s -> step cf s l = Some s' -> invE s'.
Proof.
  intros cf s l s' R Q Q' I H. unfold invE, calm in *.
  destruct (invS_reach cf s R) as (I1 & I2 & I3 & I4 & I5 & _ & _ & I8).
  destruct (invA_reach cf s R) as (_ & _ & IA3 & _).
  pose proof (invO3_reach cf s R) as IO3. unfold invO3 in IO3.
  destruct s; sproj. destruct Q as (? & ?). subst.
  assert (reterr = None) by (apply IA3; reflexivity). subst. clear IA3.
  open_step' l H.
  all: try solve [destruct Q' as (? & ?); discriminate].
  all: clear Q'.
  all: cbn [c_noout] in *.
  all: try assumption; try discriminate.
  all: try solve [intro X; destruct (I X); split; auto].
  all: try solve [split; reflexivity].
  all: intro X; exfalso; destruct (I X) as [_ F]; destruct (I1 F) as [Y|Y]; try discriminate Y.
  all: subst r; specialize (I2 eq_refl); specialize (I4 I2).
  - destruct (I3 I2) as [Z|Z]; subst x; destruct (I8 eq_refl) as [U|[U|[U|U]]];
      try discriminate U; try congruence; apply I5 in U; discriminate U.
  - w_contra.
Qed.

Lemma invE_calm : forall cf s, reachable cf s -> calm s -> invE s.
Proof.
  intros cf. apply (calm_ind cf invE).
  - intros _ H. discriminate H.
  - intros s l s' R Q Q' I H. eapply invE_step; eauto.
Qed.

(* the deferred re-check: once the call is done, its outcome is a panic (re-raised or "twice"), or
   no panic was recorded when the deferred loop ended - and then none is recorded ever after, because
   in calm runs output is only closed by the reducer's finish, after everybody's CAS *)
Definition invF (s : state) : Prop :=
  forall o, c s = CDone o ->
    o = OPanicTwice \/ (exists p, o = OPanic p) \/ (wrote s = false /\ fin s = true).

Lemma invF_step : forall cf s l s',
  reachable cf s -> calm s -> calm s' -> invF s -> step cf s l = Some s' -> invF s'.
Proof.
  intros cf s l s' R Q Q' I H. unfold invF, calm in *.
  destruct (invS_reach cf s R) as (I1 & I2 & I3 & I4 & I5 & _ & _ & I8).
  destruct (invP_reach cf s R) as (_ & IP2 & _).
  destruct s; sproj. destruct Q as (? & ?). subst.
  open_step' l H.
  all: try solve [destruct Q' as (? & ?); discriminate].
  all: clear Q'.
  all: try assumption.
  all: intros o0 Ho; try discriminate Ho.
  all: try solve [destruct (I _ Ho) as [X|[X|[X F]]]; auto].
  all: try solve [inversion Ho; subst; eauto 6].
  all: try solve [destruct (IP2 eq_refl); discriminate].
  all: destruct (I _ Ho) as [X|[X|[_ F]]]; [left; exact X | right; left; exact X | exfalso].
  all: destruct (I1 F) as [Y|Y]; try discriminate Y.
  all: subst r; specialize (I2 eq_refl); specialize (I4 I2).
  - destruct (I3 I2) as [Z|Z]; subst x; destruct (I8 eq_refl) as [U|[U|[U|U]]];
      try discriminate U; try congruence; apply I5 in U; discriminate U.
  - w_contra.
Qed.

Lemma invF_calm : forall cf s, reachable cf s -> calm s -> invF s.
Proof.
  intros cf. apply (calm_ind cf invF).
  - intros _ o H. discriminate H.
  - intros s l s' R Q Q' I H. eapply invF_step; eauto.
Qed.


Theorem panic_reraise : forall cf s o, reachable cf s -> ctxd s = false -> conce s = ONone ->
  wrote s = true -> c s = CDone o ->
  (exists p, o = OPanic p /\ fpanic s = Some p) \/ o = OPanicTwice.
Proof.
  intros cf s o R Q1 Q2 Wr Hc.
  assert (Ho : caller_outcome s = Some o) by (unfold caller_outcome; rewrite Hc; reflexivity).
  pose proof (result_sound cf s o R Ho) as S.
  destruct (invF_calm cf s R (conj Q1 Q2) o Hc) as [X|[[p X]|[X _]]].
  - right; exact X.
  - subst o. left; eauto.
  - congruence.
Qed.

Lemma In_writes : forall k a, In (RWrite k) a -> writes a <> [].
Proof.
  intros k a H. apply in_split in H. destruct H as (l1 & l2 & ->).
  rewrite writes_app. simpl. destruct (writes l1); discriminate.
Qed.

(* OPanicTwice needs two reducer writes *)
Corollary panic_reraise_le1 : forall cf s o, reachable cf s -> ctxd s = false ->
  conce s = ONone -> wrote s = true -> c s = CDone o -> List.length (writes (rafter cf)) <= 1 ->
  exists p, o = OPanic p /\ fpanic s = Some p.
Proof.
  intros cf s o R Q1 Q2 Wr Hc W.
  assert (Ho : caller_outcome s = Some o) by (unfold caller_outcome; rewrite Hc; reflexivity).
  pose proof (result_sound cf s o R Ho) as S.
  destruct (panic_reraise cf s o R Q1 Q2 Wr Hc) as [H| ->]; auto; exfalso.
  simpl in S. lia.
Qed.

Corollary panic_reraise_nowrite : forall cf s o, reachable cf s -> ctxd s = false ->
  conce s = ONone -> wrote s = true -> c s = CDone o -> writes (rafter cf) = [] ->
  exists p, o = OPanic p /\ fpanic s = Some p.
Proof.
  intros cf s o R Q1 Q2 Wr Hc W. apply (panic_reraise_le1 cf s o R Q1 Q2 Wr Hc).
  rewrite W. simpl. lia.
Qed.
