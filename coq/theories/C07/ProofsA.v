(* C07 ProofsA: safety invariants (worker bound, closed collector, conservation) and a termination
   measure for the LTS of C07.Model.  Everything is proved for all configs and all schedules. *)
From God Require Import Base.Prelude C07.Model.
From Coq Require Import Permutation.

(* ------------------------------------------------------------------ *)
(* generic: induction over reachable states                            *)
(* ------------------------------------------------------------------ *)
Lemma run_app : forall cf l1 l2 s,
  run cf s (l1 ++ l2) = match run cf s l1 with Some s' => run cf s' l2 | None => None end.
Proof.
  induction l1 as [|a t IH]; simpl; intros; auto.
  destruct (step cf s a); auto.
Qed.

Lemma reachable_init : forall cf, reachable cf (init cf).
Proof. intros cf. exists []. reflexivity. Qed.

Lemma reachable_step : forall cf s l s',
  reachable cf s -> step cf s l = Some s' -> reachable cf s'.
Proof.
  intros cf s l s' [ls H] E. exists (ls ++ [l]).
  rewrite run_app, H. simpl. rewrite E. reflexivity.
Qed.

Lemma reachable_ind' : forall cf (P : state -> Prop),
  P (init cf) ->
  (forall s l s', reachable cf s -> P s -> step cf s l = Some s' -> P s') ->
  forall s, reachable cf s -> P s.
Proof.
  intros cf P H0 HS s [ls H].
  assert (G: forall ls s0, reachable cf s0 -> P s0 -> run cf s0 ls = Some s -> P s).
  { clear ls H. induction ls as [|l t IH]; simpl; intros s0 R0 P0 E.
    - inversion E; subst; auto.
    - destruct (step cf s0 l) eqn:Es; try discriminate.
      eapply IH; [ eapply reachable_step; eauto | eapply HS; eauto | exact E ]. }
  eapply G; eauto using reachable_init.
Qed.

(* ------------------------------------------------------------------ *)
(* tactics                                                             *)
(* ------------------------------------------------------------------ *)
Ltac ssimpl :=
  cbn [g srcc x pool failed ws coll collc r c ctxd fin conce reterr wrote drained written dropped
       recvd cdrained ccalls fpanic
       set_g set_srcc set_x set_pool set_failed set_ws set_coll set_collc set_r set_c set_ctxd
       set_fin set_conce set_reterr set_wrote set_drained set_written set_dropped set_recvd
       set_cdrained set_ccalls set_fpanic set_w cancel_fin] in *.

(* case analysis on everything a step function matches on; H : step_* .. = Some s' *)
Ltac inv_step H :=
  repeat (cbv beta iota zeta in H;
          match type of H with
          | context[match ?e with _ => _ end] =>
              lazymatch e with
              | context[match _ with _ => _ end] => fail
              | _ => idtac
              end;
              let E := fresh "E" in
              revert H; destruct e eqn:E; intro H
          end);
  cbv beta iota zeta in H;
  try discriminate H;
  inversion H; subst; clear H; ssimpl.

Ltac unf_step H :=
  unfold step_env, step_g, step_gsx, step_gsk, step_x, step_xstop, step_xacq, step_w, step_r,
         step_c, step_cctx, step_cpanic, step_cout, cas_panic, cancel_enter in H.

(* ------------------------------------------------------------------ *)
(* list helpers                                                        *)
(* ------------------------------------------------------------------ *)
Lemma upd_nth_filter_len : forall {A} (f : A -> bool) l i w w',
  nth_error l i = Some w ->
  List.length (filter f (upd_nth i w' l)) + (if f w then 1 else 0)
  = List.length (filter f l) + (if f w' then 1 else 0).
Proof.
  intros A f. induction l as [|h t IH]; intros [|i] w w' H; simpl in *; try discriminate.
  - inversion H; subst. destruct (f w), (f w'); simpl; lia.
  - specialize (IH _ _ w' H). destruct (f h); simpl; lia.
Qed.

Lemma forallb_nth : forall {A} (f : A -> bool) l i w,
  forallb f l = true -> nth_error l i = Some w -> f w = true.
Proof.
  intros A f. induction l as [|h t IH]; intros [|i] w H E; simpl in *; try discriminate.
  - inversion E; subst. apply andb_true_iff in H. tauto.
  - apply andb_true_iff in H. eapply IH; [apply H | exact E].
Qed.

Lemma filter_len_app : forall {A} (f : A -> bool) l1 l2,
  List.length (filter f (l1 ++ l2)) = List.length (filter f l1) + List.length (filter f l2).
Proof. intros. rewrite filter_app, app_length. reflexivity. Qed.

(* ------------------------------------------------------------------ *)
(* 1. definitions                                                      *)
(* ------------------------------------------------------------------ *)
Definition g_rest (s : state) : list item := match g s with GSend rest => rest | _ => [] end.
Definition pending (s : state) : list val :=
  flat_map (fun w => match snd w with WSend v _ => [v] | _ => [] end) (ws s).

(* ------------------------------------------------------------------ *)
(* 2. worker bound                                                     *)
(* ------------------------------------------------------------------ *)
Definition hold (p : xpc) : nat := match p with XHold => 1 | _ => 0 end.
Definition nexited (w : item * wpc) : bool := negb (w_exited w).
Definition inv_pool (cf : cfg) (s : state) : Prop :=
  pool s = List.length (filter nexited (ws s)) + hold (x s) /\ pool s <= workers cf.

Ltac use_upd :=
  repeat match goal with
  | H : nth_error ?l ?i = Some ?w |- context[filter ?f (upd_nth ?i ?w' ?l)] =>
      let Hn := fresh "Hn" in
      pose proof (upd_nth_filter_len f l i w w' H) as Hn;
      generalize dependent (List.length (filter f (upd_nth i w' l))); intros
  end.

(* kept for the files that import it: the blocking panic send (find_psend) is gone from the model *)
Ltac psend_spec := idtac.

Lemma inv_pool_step : forall cf s l s',
  inv_pool cf s -> step cf s l = Some s' -> inv_pool cf s'.
Proof.
  intros cf s l s' [I1 I2] H. unfold inv_pool.
  destruct l; simpl in H; unf_step H.
  all: inv_step H.
  all: try match goal with E : x _ = _ |- _ => rewrite E in * end.
  all: try rewrite filter_len_app.
  all: try (simpl in *; lia).
  all: psend_spec.
  all: use_upd; unfold nexited, w_exited in *; simpl in *; lia.
Qed.

Lemma worker_bound : forall cf s, reachable cf s -> running s <= workers cf.
Proof.
  intros cf s R.
  assert (I : inv_pool cf s).
  { revert s R. apply reachable_ind'.
    - unfold inv_pool; simpl. lia.
    - intros s l s' _ I H. eapply inv_pool_step; eauto. }
  destruct I as [I1 I2]. unfold running. fold nexited. lia.
Qed.

(* ------------------------------------------------------------------ *)
(* 3. nobody sends on a closed collector                               *)
(* ------------------------------------------------------------------ *)
Definition inv_closed (s : state) : Prop :=
  collc s = true -> forallb w_exited (ws s) = true /\ (x s = XDrain \/ x s = XDone).

Ltac nth_exited :=
  match goal with
  | Ha : forallb w_exited ?l = true, E : nth_error ?l _ = Some _ |- _ =>
      let K := fresh "K" in
      pose proof (forallb_nth _ _ _ _ Ha E) as K; unfold w_exited in K; simpl in K; discriminate K
  end.

Lemma inv_closed_step : forall cf s l s',
  inv_closed s -> step cf s l = Some s' -> inv_closed s'.
Proof.
  intros cf s l s' I H. unfold inv_closed in *.
  destruct l; simpl in H; unf_step H.
  all: inv_step H.
  all: try exact I.
  all: psend_spec.
  all: intro Hc.
  all: try congruence.
  all: try (first [specialize (I Hc) | specialize (I eq_refl)];
            destruct I as [Ia [Ib|Ib]]; try congruence; try nth_exited).
  all: split; auto.
Qed.

Lemma collector_closed_inv : forall cf s, reachable cf s -> collc s = true ->
  forallb w_exited (ws s) = true /\ (x s = XDrain \/ x s = XDone).
Proof.
  intros cf s R. change (inv_closed s). revert s R. apply reachable_ind'.
  - unfold inv_closed; simpl. discriminate.
  - intros s l s' _ I H. eapply inv_closed_step; eauto.
Qed.

Lemma no_send_on_closed_collector : forall cf s i it v a,
  reachable cf s -> nth_error (ws s) i = Some (it, WSend v a) -> collc s = false.
Proof.
  intros cf s i it v a R E. destruct (collc s) eqn:Hc; auto.
  destruct (collector_closed_inv cf s R Hc) as [Ia _]. nth_exited.
Qed.

(* ------------------------------------------------------------------ *)
(* 6. termination measure: decreases on EVERY step from EVERY state    *)
(* ------------------------------------------------------------------ *)
Definition aw (a : mact) : nat :=
  match a with AWrite _ => 3 | ACancel _ => 4 | APanic _ => 1 | AWaitRet => 1 | ACtx => 1 end.
Fixpoint asum (l : list mact) : nat := match l with [] => 0 | a :: t => aw a + asum t end.
Definition ww (p : wpc) : nat :=
  match p with
  | WRun a => 4 + asum a
  | WSend _ a => 6 + asum a
  | WCancel CcEnter _ a => 7 + asum a
  | WCancel CcDrain _ a => 6 + asum a
  | WCancel CcFin _ a => 5 + asum a
  | WRecover _ => 3
  | WFin => 1
  | WExit => 0
  end.
Fixpoint wsum (l : list (item * wpc)) : nat :=
  match l with [] => 0 | w :: t => ww (snd w) + wsum t end.
(* an item not yet sent pays for: one loop iteration of X and the whole mapper goroutine it may spawn *)
Definition iw (cf : cfg) (i : item) : nat := 3 + ww (WRun (beh cf i)).
Fixpoint isum (cf : cfg) (l : list item) : nat :=
  match l with [] => 0 | i :: t => iw cf i + isum cf t end.
Definition gw (cf : cfg) (p : gpc) : nat :=
  match p with
  | GSend rest => 4 + isum cf rest
  | GPanicCas _ => 3
  | GClose => 1
  | GDone => 0
  end.
Definition xw (p : xpc) : nat :=
  match p with XCheck => 5 | XSel => 4 | XHold => 3 | XWait => 2 | XDrain => 1 | XDone => 0 end.
Definition raw (a : ract) : nat := match a with RWrite _ => 2 | RPanic _ => 1 end.
Fixpoint rasum (l : list ract) : nat := match l with [] => 0 | a :: t => raw a + rasum t end.
Definition rw (p : rpc) : nat :=
  match p with
  | RRecv lft a => 6 + rasum a + match lft with Some n => n | None => 0 end
  | RRun a => 5 + rasum a
  | RSend _ a => 6 + rasum a
  | RDrain _ => 4
  | RPanicCas _ => 3
  | RFinish => 1
  | RDone => 0
  end.
Definition cw (p : cpc) : nat :=
  match p with
  | CSelect => 5
  | CCancel CcEnter => 4
  | CCancel CcDrain => 3
  | CCancel CcFin => 2
  | COut _ => 3
  | CDrainOut _ => 2
  | CDefer _ => 1
  | CDone _ => 0
  end.
Definition measure (cf : cfg) (s : state) : nat :=
  (if ctxd s then 0 else 1) + gw cf (g s) + xw (x s) + wsum (ws s) + List.length (coll s)
  + rw (r s) + cw (c s).

Lemma wsum_upd : forall l i w w', nth_error l i = Some w ->
  wsum (upd_nth i w' l) + ww (snd w) = wsum l + ww (snd w').
Proof.
  induction l as [|h t IH]; intros [|i] w w' H; simpl in *; try discriminate.
  - inversion H; subst. lia.
  - specialize (IH _ _ w' H). lia.
Qed.

Lemma wsum_app : forall l1 l2, wsum (l1 ++ l2) = wsum l1 + wsum l2.
Proof. induction l1; simpl; intros; auto. rewrite IHl1. lia. Qed.

Ltac use_wsum :=
  repeat match goal with
  | H : nth_error ?l ?i = Some ?w |- context[wsum (upd_nth ?i ?w' ?l)] =>
      let Hn := fresh "Hn" in
      pose proof (wsum_upd l i w w' H) as Hn;
      generalize dependent (wsum (upd_nth i w' l)); intros
  end.

Ltac rw_eqs :=
  repeat match goal with
  | E : ?a = _ |- context[?a] => rewrite E
  end.

Lemma variant : forall cf s l s', step cf s l = Some s' -> measure cf s' < measure cf s.
Proof.
  intros cf s l s' H. unfold measure.
  destruct l; simpl in H; unf_step H; unfold r_next in H.
  all: inv_step H.
  all: psend_spec.
  all: rw_eqs.
  all: rewrite ?wsum_app, ?app_length.
  all: use_wsum.
  all: unfold iw in *; simpl in *; lia.
Qed.

Lemma no_infinite_run : forall cf s ls s',
  run cf s ls = Some s' -> List.length ls + measure cf s' <= measure cf s.
Proof.
  intros cf s ls; revert s. induction ls as [|l t IH]; simpl; intros s s' H.
  - inversion H; subst. lia.
  - destruct (step cf s l) as [s1|] eqn:E; try discriminate.
    apply variant in E. apply IH in H. lia.
Qed.

(* ------------------------------------------------------------------ *)
(* 4. conservation of items                                            *)
(* ------------------------------------------------------------------ *)
Lemma map_fst_upd : forall {A B} (l : list (A * B)) i it p p',
  nth_error l i = Some (it, p) -> map fst (upd_nth i (it, p') l) = map fst l.
Proof.
  intros A B. induction l as [|h t IH]; intros [|i] it p p' H; simpl in *; try discriminate.
  - inversion H; subst. reflexivity.
  - f_equal. eapply IH; eauto.
Qed.

Definition inv_items (cf : cfg) (s : state) : Prop :=
  exists sent, items cf = sent ++ g_rest s /\ Permutation sent (map fst (ws s) ++ drained s).

Lemma perm_snoc_middle : forall {A} (a : A) l m d,
  Permutation l (m ++ d) -> Permutation (l ++ [a]) (m ++ a :: d).
Proof.
  intros A a l m d H.
  etransitivity; [symmetry; apply Permutation_cons_append|].
  etransitivity; [|apply Permutation_middle].
  apply perm_skip; exact H.
Qed.

Lemma inv_items_step : forall cf s l s',
  inv_items cf s -> step cf s l = Some s' -> inv_items cf s'.
Proof.
  intros cf s l s' I H. unfold inv_items, g_rest in *.
  destruct l; simpl in H; unf_step H.
  all: inv_step H.
  all: try exact I.
  all: psend_spec.
  all: rw_eqs.
  all: destruct I as [sent [I1 I2]].
  all: try (exists sent; split; [exact I1|]; try (erewrite map_fst_upd by eassumption); exact I2).
  all: exists (sent ++ [i]); split; [rewrite <- app_assoc; exact I1|].
  all: rewrite ?map_app, <- ?app_assoc; simpl; apply perm_snoc_middle; exact I2.
Qed.

Lemma conservation_items : forall cf s, reachable cf s ->
  exists sent, items cf = sent ++ g_rest s /\ Permutation sent (map fst (ws s) ++ drained s).
Proof.
  intros cf s R. change (inv_items cf s). revert s R. apply reachable_ind'.
  - exists []. split; reflexivity.
  - intros s l s' _ I H. eapply inv_items_step; eauto.
Qed.

(* ------------------------------------------------------------------ *)
(* 5. conservation of values                                           *)
(* ------------------------------------------------------------------ *)
Definition pv (w : item * wpc) : list val := match snd w with WSend v _ => [v] | _ => [] end.

Lemma pending_eq : forall s, pending s = flat_map pv (ws s).
Proof. reflexivity. Qed.

Lemma pending_upd : forall l i w w', nth_error l i = Some w ->
  Permutation (pv w ++ flat_map pv (upd_nth i w' l)) (pv w' ++ flat_map pv l).
Proof.
  induction l as [|h t IH]; intros [|i] w w' H; simpl in *; try discriminate.
  - inversion H; subst. apply Permutation_app_swap_app.
  - specialize (IH _ _ w' H).
    etransitivity; [apply Permutation_app_swap_app|].
    etransitivity; [|apply Permutation_app_swap_app].
    apply Permutation_app_head. exact IH.
Qed.

Definition inv_vals (s : state) : Prop :=
  Permutation (written s) (dropped s ++ pending s ++ coll s ++ recvd s ++ cdrained s).

Ltac use_pend :=
  repeat match goal with
  | H : nth_error ?l ?i = Some ?w |- context[flat_map pv (upd_nth ?i ?w' ?l)] =>
      let Hn := fresh "Hn" in
      pose proof (pending_upd l i w w' H) as Hn;
      generalize dependent (flat_map pv (upd_nth i w' l)); intros;
      cbn [pv snd app] in Hn
  end.

Lemma inv_vals_step : forall cf s l s',
  reachable cf s -> inv_vals s -> step cf s l = Some s' -> inv_vals s'.
Proof.
  intros cf s l s' R I H. unfold inv_vals in *. rewrite pending_eq in *.
  destruct l; simpl in H; unf_step H.
  all: inv_step H.
  all: rw_eqs.
  all: try exact I.
  all: psend_spec.
  all: use_pend.
  all: try (rewrite Hn; exact I).
  (* a send on a closed collector is unreachable *)
  all: try (match goal with
            | E : nth_error (ws _) _ = Some (_, WSend _ _), Ec : collc _ = true |- _ =>
                pose proof (no_send_on_closed_collector _ _ _ _ _ _ R E); congruence
            end).
  (* spawn *)
  all: try (rewrite flat_map_app; cbn [flat_map pv snd app]; rewrite app_nil_r; exact I).
  (* write, dropped by the guard *)
  all: try (simpl; apply perm_skip; rewrite Hn; exact I).
  (* write, past the guard *)
  all: try (rewrite Hn; simpl; etransitivity; [|apply Permutation_middle];
            apply perm_skip; exact I).
  (* send into the collector *)
  all: try (rewrite I, <- Hn; apply Permutation_app_head; simpl;
            rewrite <- (app_assoc (coll s)); simpl;
            match goal with |- Permutation (_ :: ?l1 ++ _) _ => rewrite !(app_assoc l1 (coll s)) end;
            apply Permutation_middle).
  (* reducer receives *)
  all: try (rewrite I; do 2 apply Permutation_app_head; simpl; apply Permutation_middle).
  (* deferred drain(collector) *)
  all: try (rewrite I; do 2 apply Permutation_app_head; simpl;
            match goal with |- Permutation (_ :: ?l1 ++ _) _ => rewrite !(app_assoc l1 (recvd s)) end;
            apply Permutation_middle).
Qed.

Lemma conservation_values : forall cf s, reachable cf s ->
  Permutation (written s) (dropped s ++ pending s ++ coll s ++ recvd s ++ cdrained s).
Proof.
  intros cf s R. change (inv_vals s). revert s R. apply reachable_ind'.
  - unfold inv_vals; simpl. constructor.
  - intros s l s' R I H. eapply inv_vals_step; eauto.
Qed.
