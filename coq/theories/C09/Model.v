(* C09 Model: transcription of lib/load/adaptiveshedder.go over two rolling windows (RW.v).
   float64 parts are kept abstract (Section variables) and instantiated with Coq's PrimFloat in
   Exec.v, which replays the identical IEEE-754 operations:
     ewma a f   = a*0.9 + float64(f)*0.1                      (adaptiveshedder.go:162; the constant
                  1-flyingBeta is folded exactly by the Go compiler, so it is the double nearest 0.1)
     floorF a   = int64(a)                                    (:200)
     capF p m   = int64(math.Max(1, float64(p)*(m/1e3)))      (:208, p = maxPass*windows, m = minRt)
   Integer-valued float computations are done in Z:
     Bucket.Sum of passCounter (adds of 1) and of rtCounter (adds of math.Ceil(ms), integers);
     math.Ceil(float64(ns)/1e6)      = ceil_ms ns      (exact for ns < 2^53: distance to the next
                                                        integer is >= 1e-6, rounding error < 1e-9)
     math.Round(Sum/float64(Count))  = round_div       (exact for Sum < 2^52: a non-half-integer
                                                        quotient is >= 1/(2 Count) away from k+1/2)
   The CPU reading is an input of every Allow: `over` is the value returned by the package
   variable systemOverloadChecker(cpuThreshold) (:39-41, replaced by the driver). *)
From God Require Import Base.Prelude C09.RW.
Local Open Scope Z_scope.

Definition default_min_rt : Z := 1000.            (* defaultMinRt, :24 *)
Definition cool_off : Z := 1000000000.            (* coolOfDuration, :27 *)
Definition second : Z := 1000000000.              (* time.Second *)

Definition ceil_ms (d : Z) : Z := (d + 999999) / 1000000.          (* :267,269 *)
Definition round_div (s c : Z) : Z := (2 * s + c) / (2 * c).       (* :231, s >= 0, c > 0 *)

(* reducers of maxPass (:211-221) and minRt (:223-238), one bucket at a time *)
Definition maxp_step (acc : Z) (b : bucket) : Z := if acc <? fst b then fst b else acc.
Definition minrt_step (acc : Z) (b : bucket) : Z :=
  if snd b <=? 0 then acc
  else let a := round_div (fst b) (snd b) in if a <? acc then a else acc.

Section Shedder.
  Variable F : Type.
  Variable ewma : F -> Z -> F.
  Variable floorF : F -> Z.
  Variable capF : Z -> Z -> Z.
  Variable f0 : F.                                 (* 0.0 *)

  Record shed := mkshed {
    thr : Z;            (* cpuThreshold :70 *)
    windows : Z;        (* :71 *)
    flying : Z;         (* :72 *)
    avg : F;            (* avgFlying :73 *)
    otime : Z;          (* overloadTime :75 *)
    dropped : bool;     (* droppedRecently :76 *)
    passW : rw;         (* passCounter :77 *)
    rtW : rw            (* rtCounter :78 *)
  }.

  Definition set_otime (s : shed) (t : Z) := mkshed (thr s) (windows s) (flying s) (avg s) t (dropped s) (passW s) (rtW s).
  Definition set_dropped (s : shed) (d : bool) := mkshed (thr s) (windows s) (flying s) (avg s) (otime s) d (passW s) (rtW s).
  Definition set_flying (s : shed) (f : Z) (a : F) := mkshed (thr s) (windows s) f a (otime s) (dropped s) (passW s) (rtW s).
  Definition set_wins (s : shed) (p r : rw) := mkshed (thr s) (windows s) (flying s) (avg s) (otime s) (dropped s) p r.

  (* NewAdaptiveShedder, :93-116 (enabled; options already applied) *)
  Definition new_shed (window nbuckets cpu now : Z) : result shed :=
    if nbuckets =? 0 then Panic                                  (* window / buckets, :107 *)
    else let bd := Z.quot window nbuckets in
      if bd =? 0 then Panic                                      (* time.Second / bucketDuration, :110 *)
      else match new_rw nbuckets bd true now, new_rw nbuckets bd true now with
           | Ok p, Ok r => Ok (mkshed cpu (Z.quot second bd) 0 f0 0 false p r)
           | _, _ => Panic                                       (* size < 1 *)
           end.

  (* :211-221, :223-238, :203-209 *)
  Definition max_pass (s : shed) (now : Z) : Z := fold_left maxp_step (reduce (passW s) now) 1.
  Definition min_rt (s : shed) (now : Z) : Z := fold_left minrt_step (reduce (rtW s) now) default_min_rt.
  Definition max_flight (s : shed) (now : Z) : Z := capF (max_pass s now * windows s) (min_rt s now).

  (* systemOverloaded, :167-174 *)
  Definition system_overloaded (s : shed) (now : Z) (over : bool) : bool * shed :=
    if over then (true, set_otime s now) else (false, s).

  (* stillHot, :176-192 *)
  Definition still_hot (s : shed) (now : Z) : bool * shed :=
    if negb (dropped s) then (false, s)
    else if otime s =? 0 then (false, s)
    else let hot := now - otime s <? cool_off in
         (hot, if hot then s else set_dropped s false).

  (* highThru, :194-201 *)
  Definition high_thru (s : shed) (now : Z) : bool :=
    let mf := max_flight s now in (mf <? floorF (avg s)) && (mf <? flying s).

  (* shouldDrop, :134-151 ; `||` is short-circuit; the log line :142-143 calls stillHot once more *)
  Definition should_drop (s : shed) (now : Z) (over : bool) : bool * shed :=
    let (o, s1) := system_overloaded s now over in
    let (h, s2) := if o then (true, s1) else still_hot s1 now in
    if h then
      if high_thru s2 now then (true, snd (still_hot s2 now)) else (false, s2)
    else (false, s2).

  (* Allow, :119-132 : (let_in, state) ; an let_in request's promise remembers `now` *)
  Definition allow (s : shed) (now : Z) (over : bool) : bool * shed :=
    let (d, s1) := should_drop s now over in
    if d then (false, set_dropped s1 true)
    else (true, set_flying s1 (flying s1 + 1) (avg s1)).

  (* addFlying(-1), :153-165 *)
  Definition done_flying (s : shed) : shed :=
    let f := flying s - 1 in set_flying s f (ewma (avg s) f).

  (* promise.Pass, :266-271 ; promise.Fail, :273-275 *)
  Definition pass (s : shed) (now start : Z) : shed :=
    let s1 := done_flying s in
    set_wins s1 (add (passW s1) now 1) (add (rtW s1) now (ceil_ms (now - start))).
  Definition fail (s : shed) : shed := done_flying s.

  Inductive sop := Allow (over : bool) | Pass (start : Z) | Fail | SAdvance (dt : Z).

  Definition sstep (st : shed * Z) (o : sop) : (shed * Z) * option bool :=
    let '(s, now) := st in
    match o with
    | Allow over => let (a, s') := allow s now over in ((s', now), Some a)
    | Pass start => ((pass s now start, now), None)
    | Fail => ((fail s, now), None)
    | SAdvance dt => ((s, now + dt), None)
    end.

  Definition srun (st : shed * Z) (ops : list sop) : shed * Z := fold_left (fun st o => fst (sstep st o)) ops st.
End Shedder.

Arguments thr {F} _.
Arguments windows {F} _.
Arguments flying {F} _.
Arguments avg {F} _.
Arguments otime {F} _.
Arguments dropped {F} _.
Arguments passW {F} _.
Arguments rtW {F} _.
Arguments set_otime {F} _ _.
Arguments set_dropped {F} _ _.
Arguments set_flying {F} _ _ _.
Arguments set_wins {F} _ _ _.
