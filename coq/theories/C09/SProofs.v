(* C09 SProofs: the shedder clauses, for every trace of CPU readings, arrivals, completions
   and clock advances.  The float operations stay abstract (any ewma / floorF / capF). *)
From God Require Import Base.Prelude C09.RW C09.Spec C09.WProofs C09.Model.
Local Open Scope Z_scope.

Section S.
  Variable F : Type.
  Variable ewma : F -> Z -> F.
  Variable floorF : F -> Z.
  Variable capF : Z -> Z -> Z.
  Variable f0 : F.

  Notation shed := (shed F).
  Notation max_flight := (max_flight F capF).
  Notation should_drop := (should_drop F floorF capF).
  Notation allow := (allow F floorF capF).
  Notation pass := (pass F ewma).
  Notation fail := (fail F ewma).
  Notation sstep := (sstep F ewma floorF capF).
  Notation new_shed := (new_shed F f0).

  Definition same_cfg (s s' : shed) : Prop :=
    flying s' = flying s /\ avg s' = avg s /\ passW s' = passW s /\ rtW s' = rtW s /\
    windows s' = windows s /\ thr s' = thr s.

  Definition hot (s : shed) (now : Z) : Prop :=
    dropped s = true /\ otime s <> 0 /\ now - otime s < cool_off.

  Lemma should_drop_spec s now over d s' : should_drop s now over = (d, s') ->
    same_cfg s s' /\
    otime s' = (if over then now else otime s) /\
    (d = true -> (over = true \/ hot s now) /\
                 max_flight s now < floorF (avg s) /\ max_flight s now < flying s) /\
    (over = false -> ~ hot s now -> d = false /\ (otime s <> 0 -> dropped s' = false)).
  Proof.
    unfold should_drop, system_overloaded, still_hot, high_thru, hot, same_cfg.
    destruct over, (dropped s) eqn:Ed; cbn [negb fst snd dropped otime set_otime set_dropped];
      rewrite ?Ed; cbn [negb];
      repeat match goal with
      | |- context [Model.max_flight F capF (set_otime ?x ?t) ?m] =>
          change (Model.max_flight F capF (set_otime x t) m) with (max_flight x m)
      | |- context [Model.max_flight F capF (set_dropped ?x ?t) ?m] =>
          change (Model.max_flight F capF (set_dropped x t) m) with (max_flight x m)
      end.
    all: repeat match goal with
      | |- context [if ?a =? ?b then _ else _] => destruct (Z.eqb_spec a b)
      | |- context [if ?a <? ?b then _ else _] => destruct (Z.ltb_spec a b)
      | |- context [(?a <? ?b) && _] => destruct (Z.ltb_spec a b); cbn [andb]
      | |- context [if (?a <? ?b) then _ else _] => destruct (Z.ltb_spec a b)
      end; cbn [fst snd flying avg passW rtW windows thr otime dropped set_otime set_dropped negb];
      intro E; inversion E; subst; clear E;
      cbn [fst snd flying avg passW rtW windows thr otime dropped set_otime set_dropped];
      repeat split; try reflexivity; try congruence; try lia; try tauto; try (intros; exfalso; lia);
      try (intros; discriminate);
      rewrite ?Ed; cbn [negb fst snd flying avg passW rtW windows thr otime dropped]; try reflexivity.
  Qed.

  Lemma allow_spec s now over a s' : allow s now over = (a, s') ->
    flying s' = flying s + (if a then 1 else 0) /\ avg s' = avg s /\ passW s' = passW s /\ rtW s' = rtW s /\
    windows s' = windows s /\ thr s' = thr s /\
    otime s' = (if over then now else otime s) /\
    (a = false -> (over = true \/ hot s now) /\
                  max_flight s now < floorF (avg s) /\ max_flight s now < flying s) /\
    (over = false -> ~ hot s now -> a = true /\ (otime s <> 0 -> dropped s' = false)).
  Proof.
    unfold Model.allow. destruct (should_drop s now over) as [d s1] eqn:E.
    apply should_drop_spec in E as ((E1 & E2 & E3 & E4 & E5 & E6) & E7 & E8 & E9).
    destruct d; intro H; inversion H; subst; clear H;
      cbn [flying avg passW rtW windows thr otime dropped set_dropped set_flying].
    - repeat split; try congruence; try lia; try tauto;
        try (intros Ho Hh; destruct (E9 Ho Hh); discriminate).
    - repeat split; try congruence; try lia; try tauto; try discriminate;
        try (intros Ho Hh Hot; destruct (E9 Ho Hh) as [_ Hd]; auto).
  Qed.

  (* ---------- traces ---------- *)
  Definition ev_of (now : Z) (o : sop) (ob : option bool) : trace :=
    match o, ob with
    | Allow over, Some a => [(now, EAllow over a)]
    | Pass _, _ => [(now, EDone)]
    | Fail, _ => [(now, EDone)]
    | _, _ => []
    end.

  (* ghost state: trace of events, and the add logs of the two windows *)
  Record ghost := mkg { g_tr : trace; g_pl : log; g_rl : log }.

  Definition gstep (x : (shed * Z) * ghost) (o : sop) : (shed * Z) * ghost :=
    let '(st', ob) := sstep (fst x) o in
    let now := snd (fst x) in
    let g := snd x in
    (st', mkg (g_tr g ++ ev_of now o ob)
              (match o with Pass _ => (now, 1) :: g_pl g | _ => g_pl g end)
              (match o with Pass start => (now, ceil_ms (now - start)) :: g_rl g | _ => g_rl g end)).

  Definition grun (x : (shed * Z) * ghost) (ops : list sop) := fold_left gstep ops x.

  Definition sops_ok (ops : list sop) : Prop :=
    Forall (fun o => match o with SAdvance dt => 0 <= dt | _ => True end) ops.

  Lemma grun_fst x ops : fst (grun x ops) = srun F ewma floorF capF (fst x) ops.
  Proof.
    revert x. induction ops as [|o r IH]; intro x; [reflexivity|].
    cbn [grun fold_left srun]. fold (grun (gstep x o) r). rewrite IH. unfold srun. f_equal.
    unfold gstep. destruct (sstep (fst x) o). reflexivity.
  Qed.

  Lemma let_in_app a b : let_in_n (a ++ b) = let_in_n a + let_in_n b.
  Proof. unfold let_in_n. rewrite filter_app, app_length. lia. Qed.
  Lemma done_app a b : done_n (a ++ b) = done_n a + done_n b.
  Proof. unfold done_n. rewrite filter_app, app_length. lia. Qed.

  Section Run.
    Variable t0 n bd : Z.
    Hypothesis Hn : 1 <= n.
    Hypothesis Hbd : 0 < bd.

    (* reachable-state invariant *)
    Definition R (x : (shed * Z) * ghost) : Prop :=
      let s := fst (fst x) in let now := snd (fst x) in let g := snd x in
      (otime s = 0 \/ exists a, In (otime s, EAllow true a) (g_tr g)) /\
      flying s = let_in_n (g_tr g) - done_n (g_tr g) /\
      Inv t0 bd n (passW s) now (g_pl g) /\ Inv t0 bd n (rtW s) now (g_rl g) /\
      ignore_current (passW s) = true /\ ignore_current (rtW s) = true /\
      windows s = second / bd.

    Lemma tr_keep (s : shed) (tr tr' : trace) :
      (otime s = 0 \/ exists a, In (otime s, EAllow true a) tr) ->
      (otime s = 0 \/ exists a, In (otime s, EAllow true a) (tr ++ tr')).
    Proof. intros [H|[a H]]; [left; assumption|right]. exists a. apply in_or_app. left. assumption. Qed.

    Lemma R_step x o : (match o with SAdvance dt => 0 <= dt | _ => True end) -> R x -> R (gstep x o).
    Proof.
      destruct x as [[s now] g]. unfold R, gstep. cbn [fst snd].
      intros Ho (Ha & Hb & Hp & Hr & Hip & Hir & Hwn).
      destruct o as [over|start| |dt]; cbn [sstep Model.sstep].
      - destruct (allow s now over) as [a s'] eqn:E. cbn [fst snd g_tr g_pl g_rl ev_of].
        apply allow_spec in E as (E1 & E2 & E3 & E4 & E5 & E6 & E7 & _).
        rewrite E3, E4, E5, E7, E1, let_in_app, done_app.
        split; [|split; [|split; [|split; [|split; [|split]]]]]; try assumption.
        + destruct over.
          * right. exists a. apply in_or_app. right. left. reflexivity.
          * apply tr_keep with (s := s). assumption.
        + unfold let_in_n at 2, done_n at 2. destruct a; simpl; lia.
      - cbn [fst snd g_tr g_pl g_rl ev_of]. unfold Model.pass, done_flying.
        cbn [flying avg passW rtW windows thr otime dropped set_wins set_flying].
        rewrite let_in_app, done_app, !add_ignore.
        split; [|split; [|split; [|split; [|split; [|split]]]]]; try assumption.
        + apply tr_keep with (s := s). assumption.
        + unfold let_in_n at 2, done_n at 2. simpl. lia.
        + apply Inv_add; assumption.
        + apply Inv_add; assumption.
      - cbn [fst snd g_tr g_pl g_rl ev_of]. unfold Model.fail, done_flying.
        cbn [flying avg passW rtW windows thr otime dropped set_wins set_flying].
        rewrite let_in_app, done_app.
        split; [|split; [|split; [|split; [|split; [|split]]]]]; try assumption.
        + apply tr_keep with (s := s). assumption.
        + unfold let_in_n at 2, done_n at 2. simpl. lia.
      - cbn [fst snd g_tr g_pl g_rl ev_of]. rewrite app_nil_r.
        split; [|split; [|split; [|split; [|split; [|split]]]]]; try assumption; apply Inv_advance; assumption.
    Qed.

    Lemma R_run ops : sops_ok ops -> forall x, R x -> R (grun x ops).
    Proof.
      induction 1 as [|o r Ho Hr IH]; intros x Hx; [assumption|].
      cbn [grun fold_left]. apply IH. apply R_step; assumption.
    Qed.

    (* ---------- capacity from the visible buckets ---------- *)
    Lemma maxp_ge l a : a <= fold_left maxp_step l a.
    Proof.
      revert a. induction l as [|b l IH]; intro a; simpl; [lia|].
      specialize (IH (maxp_step a b)). unfold maxp_step in *. destruct (Z.ltb_spec a (fst b)); lia.
    Qed.

    Lemma maxp_pad bs k a : 0 <= a -> fold_left maxp_step (bs ++ repeat b0 k) a = fold_left maxp_step bs a.
    Proof.
      intro Ha. rewrite fold_left_app. pose proof (maxp_ge bs a).
      generalize dependent (fold_left maxp_step bs a). intros a' Ha'.
      induction k as [|k IH]; simpl; [reflexivity|].
      unfold maxp_step at 2. simpl. destruct (Z.ltb_spec a' 0); [lia|]. exact IH.
    Qed.

    Lemma minrt_pad bs k a : fold_left minrt_step (bs ++ repeat b0 k) a = fold_left minrt_step bs a.
    Proof.
      rewrite fold_left_app. generalize (fold_left minrt_step bs a). intro a'.
      induction k as [|k IH]; simpl; [reflexivity|]. exact IH.
    Qed.

    Definition spec_max_pass (pl : log) (now : Z) : Z :=
      fold_left maxp_step (map (agg t0 bd pl) (visible n true (J t0 bd now))) 1.
    Definition spec_min_rt (rl : log) (now : Z) : Z :=
      fold_left minrt_step (map (agg t0 bd rl) (visible n true (J t0 bd now))) default_min_rt.

    Lemma R_capacity x : R x ->
      let s := fst (fst x) in let now := snd (fst x) in let g := snd x in
      max_flight s now = capF (spec_max_pass (g_pl g) now * windows s) (spec_min_rt (g_rl g) now).
    Proof.
      destruct x as [[s now] g]. unfold R. cbn [fst snd]. intros (_ & _ & Hp & Hr & Hip & Hir & _).
      pose proof (reduce_exact t0 bd n Hbd Hn _ _ _ Hp) as [k1 E1].
      pose proof (reduce_exact t0 bd n Hbd Hn _ _ _ Hr) as [k2 E2].
      rewrite Hip in E1. rewrite Hir in E2.
      unfold Model.max_flight, max_pass, min_rt, spec_max_pass, spec_min_rt.
      rewrite <- E1, <- E2. change (repeat (0, 0)) with (repeat b0).
      rewrite maxp_pad by lia. rewrite minrt_pad. reflexivity.
    Qed.
  End Run.

  (* ---------- from creation ---------- *)
  Definition g0 : ghost := mkg [] [] [].

  Lemma init_R window nb cpu t0 : 1 <= nb -> nb <= window ->
    exists s0, new_shed window nb cpu t0 = Ok s0 /\ R t0 nb (window / nb) ((s0, t0), g0) /\
               windows s0 = second / (window / nb) /\ thr s0 = cpu /\ 0 < window / nb.
  Proof.
    intros Hn Hw. unfold Model.new_shed.
    assert (Hbd : 0 < window / nb) by (apply Z.div_str_pos; lia).
    destruct (Z.eqb_spec nb 0); [lia|]. rewrite Z.quot_div_nonneg by lia.
    destruct (Z.eqb_spec (window / nb) 0); [lia|].
    destruct (Inv_init t0 (window / nb) nb Hn true) as (w & Hw' & HInv & Hign). rewrite Hw'.
    eexists. split; [reflexivity|]. unfold R. cbn [fst snd flying otime passW rtW windows thr g_tr g_pl g_rl g0].
    assert (Hq : Z.quot second (window / nb) = second / (window / nb)) by (apply Z.quot_div_nonneg; unfold second; lia).
    split; [|split; [|split]]; [ | | |].
    - split; [left; reflexivity|]. split; [reflexivity|].
      split; [assumption|]. split; [assumption|]. split; [assumption|]. split; assumption.
    - assumption.
    - reflexivity.
    - assumption.
  Qed.

  Section Reach.
    Variable window nb cpu t0 : Z.
    Hypothesis Hn : 1 <= nb.
    Hypothesis Hw : nb <= window.
    Variable s0 : shed.
    Hypothesis Hs0 : new_shed window nb cpu t0 = Ok s0.
    Variable ops : list sop.
    Hypothesis Hops : sops_ok ops.

    Let bd := window / nb.
    Let x := grun ((s0, t0), g0) ops.
    Let s := fst (fst x).
    Let now := snd (fst x).
    Let tr := g_tr (snd x).

    Lemma reach_R : R t0 nb bd x.
    Proof.
      destruct (init_R window nb cpu t0 Hn Hw) as (s0' & E & HR & _ & _ & Hbd).
      rewrite Hs0 in E. inversion E; subst s0'. apply R_run; assumption.
    Qed.

    Lemma no_drop_when_cool : ~ overload_within cool_off now tr -> fst (allow s now false) = true.
    Proof.
      intro Hc. destruct (allow s now false) as [a s'] eqn:E. cbn [fst].
      apply allow_spec in E as (_ & _ & _ & _ & _ & _ & _ & _ & E9).
      apply E9; [reflexivity|]. intros (Hd & Ho & Hlt). apply Hc.
      destruct reach_R as ([Hz|[a' Hin]] & _); [fold s in Hz; contradiction|].
      exists (otime s), a'. split; assumption.
    Qed.

    Lemma drop_implies_overload over s' : allow s now over = (false, s') ->
      (over = true \/ overload_within cool_off now tr) /\
      max_flight s now < flying s /\ max_flight s now < floorF (avg s).
    Proof.
      intro E. apply allow_spec in E as (_ & _ & _ & _ & _ & _ & _ & E8 & _).
      destruct (E8 eq_refl) as ([Ho|(Hd & Ho & Hlt)] & H1 & H2); (split; [|split; assumption]).
      - left; assumption.
      - right. destruct reach_R as ([Hz|[a' Hin]] & _); [fold s in Hz; contradiction|].
        exists (otime s), a'. split; assumption.
    Qed.

    Lemma capacity_formula :
      max_flight s now =
        capF (spec_max_pass t0 nb bd (g_pl (snd x)) now * (second / bd))
             (spec_min_rt t0 nb bd (g_rl (snd x)) now).
    Proof.
      destruct (init_R window nb cpu t0 Hn Hw) as (s0' & E & _ & _ & _ & Hbd).
      pose proof (R_capacity t0 nb bd Hn Hbd x reach_R) as H. cbv zeta in H.
      destruct reach_R as (_ & _ & _ & _ & _ & _ & Hwn). rewrite Hwn in H. exact H.
    Qed.

    Lemma inflight_conservation : flying s = let_in_n tr - done_n tr.
    Proof. destruct reach_R as (_ & H & _). exact H. Qed.

    Lemma inflight_zero :
      (done_n tr <= let_in_n tr -> 0 <= flying s) /\ (done_n tr = let_in_n tr -> flying s = 0).
    Proof. rewrite inflight_conservation. lia. Qed.
  End Reach.

  Lemma hot_clears_after_1s (s : shed) now : dropped s = true -> otime s <> 0 -> cool_off <= now - otime s ->
    exists s', allow s now false = (true, s') /\ dropped s' = false.
  Proof.
    intros Hd Ho Hc. destruct (allow s now false) as [a s'] eqn:E. exists s'.
    apply allow_spec in E as (_ & _ & _ & _ & _ & _ & _ & _ & E9).
    destruct (E9 eq_refl) as [-> Hdr]; [unfold hot; lia|]. split; [reflexivity|auto].
  Qed.
End S.
