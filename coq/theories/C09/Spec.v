(* C09 Spec.  Window: a log of timestamped adds and its per-bucket aggregates; a reduction at
   time t must see exactly the aggregates of the last `size` bucket intervals.
   Shedder: the three clauses of the property over a trace of timestamped events. *)
From God Require Import Base.Prelude C09.RW.
Local Open Scope Z_scope.

Section Window.
  Variable t0 : Z.      (* creation time of the window: bucket 0 starts here *)
  Variable I : Z.       (* bucket interval, > 0 *)

  (* bucket index of an instant (floor division: bucket-aligned on t0) *)
  Definition J (t : Z) : Z := (t - t0) / I.

  (* log: (time, value) of every add so far *)
  Definition log := list (Z * Z).

  (* (sum, count) of the adds whose instant lies in bucket j *)
  Fixpoint agg (l : log) (j : Z) : Z * Z :=
    match l with
    | [] => (0, 0)
    | (t, v) :: r => if J t =? j then (fst (agg r j) + v, snd (agg r j) + 1) else agg r j
    end.

  Definition zrange (lo : Z) (len : nat) : list Z := map (fun i => lo + Z.of_nat i) (seq 0 len).

  (* the bucket indices a reduction at bucket jt may see: the last n ones, optionally without jt *)
  Definition visible (n : Z) (ign : bool) (jt : Z) : list Z :=
    zrange (jt - n + 1) (Z.to_nat (if ign then n - 1 else n)).

  (* `bs` (the buckets handed to the reducer, in order) is, up to trailing EMPTY buckets that are
     skipped, exactly the list of aggregates of the visible bucket indices: nothing older is seen,
     nothing visible is lost, nothing is counted twice. *)
  Definition exact (n : Z) (ign : bool) (t : Z) (l : log) (bs : list (Z * Z)) : Prop :=
    exists k, bs ++ repeat (0, 0) k = map (agg l) (visible n ign (J t)).

  (* what any reducer that ignores empty buckets can compute from it *)
  Definition total (bs : list (Z * Z)) : Z * Z :=
    fold_right (fun b acc => (fst b + fst acc, snd b + snd acc)) (0, 0) bs.

  Definition in_visible (n : Z) (ign : bool) (t s : Z) : bool :=
    (J t - n <? J s) && (if ign then J s <? J t else J s <=? J t).

  (* the adds of the log whose instant lies in a visible bucket *)
  Definition vis_log (n : Z) (ign : bool) (t : Z) (l : log) : log :=
    filter (fun e => in_visible n ign t (fst e)) l.

  Definition log_total (l : log) : Z * Z :=
    fold_right (fun e acc => (snd e + fst acc, 1 + snd acc)) (0, 0) l.
End Window.

(* ---- window histories replayed on the Spec side ---- *)
Definition ops_ok (ops : list op) : Prop :=
  Forall (fun o => match o with Advance dt => 0 <= dt | _ => True end) ops.

(* the clock and the add log at every Reduce of a history (None for the other ops) *)
Fixpoint reduce_points (now : Z) (l : log) (ops : list op) : list (option (Z * log)) :=
  match ops with
  | [] => []
  | Add v :: r => None :: reduce_points now ((now, v) :: l) r
  | Reduce :: r => Some (now, l) :: reduce_points now l r
  | Advance dt :: r => None :: reduce_points (now + dt) l r
  end.

Definition obs_exact (t0 I n : Z) (ign : bool) (pt : option (Z * log)) (ob : option (list (Z * Z))) : Prop :=
  match pt, ob with
  | None, None => True
  | Some (t, l), Some bs => exact t0 I n ign t l bs
  | _, _ => False
  end.

(* ---- shedder: trace-level notions ---- *)
Inductive sev :=
| EAllow (over : bool) (let_in : bool)   (* CPU reading >= threshold?, outcome *)
| EDone.                                   (* a promise reported Pass or Fail *)

Definition trace := list (Z * sev).         (* (time, event), oldest first *)

Definition let_in_n (tr : trace) : Z :=
  Z.of_nat (length (filter (fun e => match snd e with EAllow _ true => true | _ => false end) tr)).
Definition done_n (tr : trace) : Z :=
  Z.of_nat (length (filter (fun e => match snd e with EDone => true | _ => false end) tr)).

(* an overload was observed (CPU reading at or above the threshold) within `cool` before `now` *)
Definition overload_within (cool now : Z) (tr : trace) : Prop :=
  exists t a, In (t, EAllow true a) tr /\ now - t < cool.
