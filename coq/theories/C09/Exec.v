(* C09 Exec: checkers evaluated by vm_compute on every correspondence case.
   WCase: a rolling-window history and what lib/collection did; SCase: a shedder trace and what
   lib/load did (PrimFloat replays the IEEE-754 double operations of the Go code). *)
From God Require Import Base.Prelude C09.RW C09.Spec C09.Model C09.Integ.
From Coq Require Import Floats.
Local Open Scope Z_scope.

Definition t0 : Z := 3600000000000.       (* the drivers start the virtual clock at 1 h *)

(* ---------- float64 instance ---------- *)
Definition f_of_Z (z : Z) : float :=
  if z <? 0 then PrimFloat.opp (PrimFloat.of_uint63 (Uint63.of_Z (- z)))
  else PrimFloat.of_uint63 (Uint63.of_Z z).

(* int64(f): truncation towards zero (finite f within range) *)
Definition f_trunc (f : float) : Z :=
  match Prim2SF f with
  | S754_finite s m e =>
      let a := if 0 <=? e then Zpos m * 2 ^ e else Zpos m / 2 ^ (- e) in
      if s then - a else a
  | _ => 0
  end.

Definition c_beta : float := 0x1.ccccccccccccdp-1%float.     (* float64(0.9) *)
Definition c_1mbeta : float := 0x1.999999999999ap-4%float.   (* float64(0.1): 1-flyingBeta folded exactly *)

Definition ewma_f (a : float) (f : Z) : float :=
  PrimFloat.add (PrimFloat.mul a c_beta) (PrimFloat.mul (f_of_Z f) c_1mbeta).

Definition cap_f (p m : Z) : Z :=
  let x := PrimFloat.mul (f_of_Z p) (PrimFloat.div (f_of_Z m) (f_of_Z 1000)) in
  f_trunc (if PrimFloat.ltb (f_of_Z 1) x then x else f_of_Z 1).

(* m * 2^e as reported by the driver (math.Frexp) *)
Definition f_of_me (m e : Z) : float := Z.ldexp (f_of_Z m) e.

Notation fshed := (shed float).

(* ---------- cases ---------- *)
Inductive xsop := XAllow (cpu : Z) | XPass (i : nat) | XFail (i : nat) | XAdv (dt : Z).

Record srow := mkrow {
  r_adm : Z;            (* -1 not an Allow, 0 dropped, 1 let_in *)
  r_flying : Z;
  r_m : Z; r_e : Z;     (* avgFlying = r_m * 2^r_e *)
  r_dropped : bool;
  r_otime : Z;          (* overloadTime relative to t0, -1 when unset *)
  r_maxflight : Z
}.

Inductive case :=
| WCase (size interval : Z) (ign : bool) (ops : list op)
        (panic_at : Z)                          (* -1 none, 0 constructor, k: k-th op (1-based) *)
        (reduces : list (list bucket))          (* buckets handed to fn by every Reduce, in order *)
        (final : option (Z * Z * list bucket))  (* offset, lastTime - t0, ring *)
        (conc_ok : bool)                        (* every Add started while a Reduce was inside its callback waited for it:
                                                   the driver's gated Reduce overlapped by (advance; Add) is encoded as the
                                                   sequence Reduce; Advance; Add it must be equivalent to *)
| SCase (window nbuckets thr : Z) (ops : list xsop) (panicked : bool) (rows : list srow)
| ICase (http : bool) (guard : bool)              (* integration: RPC interceptor / HTTP handler (+RecoverHandler inside) *)
        (calls : list (bool * nat * Z))           (* scripted drop?, outcome / response shape, its argument *)
        (rows : list (list Z))                    (* driver rows, see the two verif_c09_driver_test.go *)
| TCase (ops : list nat)                          (* shedding statistics: 0 IncrTotal, 1 IncrPass, 2 IncrDrop, 3 reporting tick *)
        (ticks : list (list Z))                   (* per tick the logged [total; pass; drop] *)
| UCase (start after : Z).                        (* smoothed CPU usage set to `start`; its value after one (at most two)
                                                     refreshes of lib/stat/usage.go with a real (hot) sample *)

(* short names used by the case encoder *)
Definition WAdd := Add.
Definition WRed := Reduce.
Definition WAdv := Advance.

Definition bucket_eqb (a b : bucket) : bool := (fst a =? fst b) && (snd a =? snd b).
Definition buckets_eqb := list_eqb bucket_eqb.

(* ---------- window: model agreement ---------- *)
Fixpoint w_run (w : rw) (now : Z) (k : Z) (ops : list op) (acc : list (list bucket))
  : Z * list (list bucket) * (Z * Z * list bucket) :=
  match ops with
  | [] => (-1, rev acc, (offset w, lastTime w - t0, buckets w))
  | Advance dt :: r => w_run w (now + dt) (k + 1) r acc
  | Add v :: r =>
      match add_r w now v with
      | Ok w' => w_run w' now (k + 1) r acc
      | _ => (k, rev acc, (offset w, lastTime w - t0, buckets w))
      end
  | Reduce :: r =>
      match reduce_r w now with
      | Ok bs => w_run w now (k + 1) r (bs :: acc)
      | _ => (k, rev acc, (offset w, lastTime w - t0, buckets w))
      end
  end.

Definition w_model_ok (n I : Z) (ign : bool) (ops : list op) (panic_at : Z)
           (reduces : list (list bucket)) (final : option (Z * Z * list bucket)) : bool :=
  match new_rw n I ign t0 with
  | Ok w =>
      let '(p, rs, (o, l, bs)) := w_run w t0 1 ops [] in
      (p =? panic_at) && list_eqb buckets_eqb rs reduces &&
      match final with
      | Some (o', l', bs') => (o =? o') && (l =? l') && buckets_eqb bs bs'
      | None => false
      end
  | _ => (panic_at =? 0) && match reduces with [] => true | _ => false end
  end.

(* Spec.agg written for evaluation: the recursive call is shared (Spec.agg mentions it twice, which makes
   call-by-value evaluation exponential in the number of adds that fall into one bucket); Link.agg_x_eq *)
Fixpoint agg_x (t0 iv : Z) (l : log) (j : Z) : Z * Z :=
  match l with
  | [] => (0, 0)
  | (t, v) :: r => let a := agg_x t0 iv r j in if J t0 iv t =? j then (fst a + v, snd a + 1) else a
  end.

(* ---------- window: the property on the observations ---------- *)
Definition exactb (n I : Z) (ign : bool) (t : Z) (l : log) (bs : list bucket) : bool :=
  let vis := map (agg_x t0 I l) (visible n ign (J t0 I t)) in
  (length bs <=? length vis)%nat && buckets_eqb (bs ++ repeat b0 (length vis - length bs)) vis.

Fixpoint w_spec (n I : Z) (ign : bool) (pts : list (option (Z * log))) (reduces : list (list bucket)) : bool :=
  match pts with
  | [] => match reduces with [] => true | _ => false end
  | None :: r => w_spec n I ign r reduces
  | Some (t, l) :: r =>
      match reduces with
      | bs :: rs => exactb n I ign t l bs && w_spec n I ign r rs
      | [] => false                       (* a Reduce that did not deliver *)
      end
  end.

Definition w_spec_ok (n I : Z) (ign : bool) (ops : list op) (reduces : list (list bucket)) : bool :=
  if (1 <=? n) && (0 <? I) && forallb (fun o => match o with Advance dt => 0 <=? dt | _ => true end) ops
  then w_spec n I ign (reduce_points t0 [] ops) reduces
  else true.                              (* outside the property's quantifier *)

(* ---------- shedder: model agreement ---------- *)
Definition row_of (adm : Z) (s : fshed) (now : Z) : srow :=
  mkrow adm (flying s) 0 0 (dropped s) (if otime s =? 0 then -1 else otime s - t0)
        (max_flight float cap_f s now).

Definition row_eqb (s : fshed) (a b : srow) : bool :=
  (r_adm a =? r_adm b) && (r_flying a =? r_flying b) &&
  PrimFloat.eqb (avg s) (f_of_me (r_m b) (r_e b)) &&
  Bool.eqb (r_dropped a) (r_dropped b) && (r_otime a =? r_otime b) && (r_maxflight a =? r_maxflight b).

Fixpoint s_run (s : fshed) (now : Z) (starts : list Z) (ops : list xsop) (rows : list srow) : bool :=
  match ops, rows with
  | [], [] => true
  | o :: r, row :: rr =>
      match o with
      | XAllow cpu =>
          let (a, s') := allow float f_trunc cap_f s now (thr s <=? cpu) in
          row_eqb s' (row_of (if a then 1 else 0) s' now) row &&
          s_run s' now (if a then starts ++ [now] else starts) r rr
      | XPass i =>
          let s' := pass float ewma_f s now (nth i starts now) in
          row_eqb s' (row_of (-1) s' now) row && s_run s' now starts r rr
      | XFail i =>
          let s' := fail float ewma_f s in
          row_eqb s' (row_of (-1) s' now) row && s_run s' now starts r rr
      | XAdv dt =>
          row_eqb s (row_of (-1) s (now + dt)) row && s_run s (now + dt) starts r rr
      end
  | _, _ => false
  end.

Definition s_model_ok (window nb cpu : Z) (ops : list xsop) (panicked : bool) (rows : list srow) : bool :=
  match new_shed float (f_of_Z 0) window nb cpu t0 with
  | Ok s => negb panicked && s_run s t0 [] ops rows
  | _ => panicked
  end.

(* ---------- shedder: the property on the observations ---------- *)
Record sspec := mksp {
  p_now : Z; p_flying : Z; p_avg : float;
  p_pl : log; p_rl : log;            (* completions: (time,1) and (time, latency in ms) *)
  p_over : list Z;                   (* instants at which CPU >= threshold was observed *)
  p_starts : list Z
}.

Definition s_spec_step (n bd cpu_thr : Z) (p : sspec) (o : xsop) (row : srow) : bool * sspec :=
  let now := p_now p in
  match o with
  | XAllow cpu =>
      let over := cpu_thr <=? cpu in
      let recent := existsb (fun t => now - t <? cool_off) (p_over p) in
      let cap := cap_f (fold_left maxp_step (map (agg_x t0 bd (p_pl p)) (visible n true (J t0 bd now))) 1
                        * (second / bd))
                       (fold_left minrt_step (map (agg_x t0 bd (p_rl p)) (visible n true (J t0 bd now)))
                                  default_min_rt) in
      let adm := r_adm row =? 1 in
      let ok :=
        (* never rejects while CPU is below the threshold and no overload within the last second *)
        (if negb over && negb recent then adm else true) &&
        (* rejects only under overload (now or within the cool-off) and when both loads exceed capacity *)
        (if adm then true
         else (r_adm row =? 0) && (over || recent) && (cap <? p_flying p) && (cap <? f_trunc (p_avg p))) in
      let fl := if adm then p_flying p + 1 else p_flying p in
      (ok && (r_flying row =? fl),
       mksp now fl (p_avg p) (p_pl p) (p_rl p) (if over then now :: p_over p else p_over p)
            (if adm then p_starts p ++ [now] else p_starts p))
  | XPass i =>
      let fl := p_flying p - 1 in
      (r_flying row =? fl,
       mksp now fl (ewma_f (p_avg p) fl) ((now, 1) :: p_pl p)
            ((now, ceil_ms (now - nth i (p_starts p) now)) :: p_rl p) (p_over p) (p_starts p))
  | XFail i =>
      let fl := p_flying p - 1 in
      (r_flying row =? fl,
       mksp now fl (ewma_f (p_avg p) fl) (p_pl p) (p_rl p) (p_over p) (p_starts p))
  | XAdv dt =>
      (r_flying row =? p_flying p,
       mksp (now + dt) (p_flying p) (p_avg p) (p_pl p) (p_rl p) (p_over p) (p_starts p))
  end.

Fixpoint s_spec (n bd cpu_thr : Z) (p : sspec) (ops : list xsop) (rows : list srow) : bool :=
  match ops, rows with
  | [], [] => true
  | o :: r, row :: rr => let (ok, p') := s_spec_step n bd cpu_thr p o row in ok && s_spec n bd cpu_thr p' r rr
  | _, _ => false
  end.

Definition s_spec_ok (window nb cpu : Z) (ops : list xsop) (panicked : bool) (rows : list srow) : bool :=
  if (1 <=? nb) && (nb <=? window) && forallb (fun o => match o with XAdv dt => 0 <=? dt | _ => true end) ops
  then negb panicked && s_spec nb (window / nb) cpu (mksp t0 0 (f_of_Z 0) [] [] [] []) ops rows
  else true.

(* ---------- integrations: sheddinghandler.go / sheddinginterceptor.go over a recording shedder ---------- *)
Definition rpc_of (k : nat) (arg : Z) : rpc_out :=
  match k with
  | 0%nat => ROk | 1%nat => RStatus arg | 2%nat => RDeadline | 3%nat => RWrapsDeadline
  (* the request's context already dead on arrival: 7 expired, handler returns ctx.Err(); 8 cancelled, same; 9 expired,
     handler answers all the same *)
  | 7%nat => RDeadline | 8%nat => RCanceled | 9%nat => ROk
  | _ => RPanic
  end.
Definition shape_of (k : nat) (arg : Z) : shape :=
  match k with
  | 0%nat => SHeader arg | 1%nat => SWrite | 2%nat => SNothing | 3%nat => SStream arg
  | 4%nat | 5%nat => SPanic | _ => SWritePanic
  end.

(* what comes back to the caller of the RPC chain (crash guard outside): see the driver's legend *)
Definition rpc_back (o : rpc_out) : Z :=
  match o with
  | ROk => -1 | RStatus c => if c =? 0 then -1 else c | RDeadline => 100 | RWrapsDeadline => 101 | RCanceled => 102
  | RPanic => 13                      (* codes.Internal, crashinterceptor.go:32 *)
  end.
Definition i_row (http guard : bool) (c : cnt) (drop : bool) (k : nat) (arg : Z) : list Z :=
  let base := [if drop then 0 else 1; c_pass c; c_fail c; c_drop c; 0; 0] in
  if http then base ++ (if drop then [503; 0] else [http_status guard (shape_of k arg); http_escapes guard (shape_of k arg)])
  else base ++ [if drop then 200 else rpc_back (rpc_of k arg)].

Fixpoint i_run (http guard : bool) (c : cnt) (calls : list (bool * nat * Z)) (rows : list (list Z)) : bool :=
  match calls, rows with
  | [], [] => true
  | (drop, k, arg) :: cs, row :: rs =>
      let r := if http then report_http guard (shape_of k arg) else report_rpc (rpc_of k arg) in
      let c' := cnt_call c drop r in
      list_eqb Z.eqb (i_row http guard c' drop k arg) row && i_run http guard c' cs rs
  | _, _ => false
  end.

(* the property on the observations: after every call nothing is in flight, nobody reported twice,
   passes + fails = requests let in, a dropped request is not let in, no panic is swallowed or leaks
   in the RPC chain, and a Fail is reported exactly for what the code documents
   (RPC: context.DeadlineExceeded returned; HTTP: status 503 written) *)
Fixpoint i_spec (http guard : bool) (n_in n_fail n_drop : Z) (calls : list (bool * nat * Z)) (rows : list (list Z)) : bool :=
  match calls, rows with
  | [], [] => true
  | (drop, k, arg) :: cs, (li :: ps :: fl :: dr :: infl :: dup :: back :: rest) :: rs =>
      let n_in' := if drop then n_in else n_in + 1 in
      let n_drop' := if drop then n_drop + 1 else n_drop in
      let is_fail := negb drop && (if http then (match k with 0%nat | 3%nat => arg =? 503 | _ => false end)
                                   else Nat.eqb k 2 || Nat.eqb k 7) in
      let n_fail' := if is_fail then n_fail + 1 else n_fail in
      (li =? (if drop then 0 else 1)) && (infl =? 0) && (dup =? 0) && (ps + fl =? n_in') && (dr =? n_drop') &&
      (fl =? n_fail') && (if http then true else negb (back =? 300)) &&
      i_spec http guard n_in' n_fail' n_drop' cs rs
  | _, _ => false
  end.

(* ---------- shedding statistics (lib/load/sheddingstat.go): every tick reports and resets ---------- *)
Fixpoint t_run (tot pas drp : Z) (ops : list nat) : list (list Z) :=
  match ops with
  | [] => []
  | 0%nat :: r => t_run (tot + 1) pas drp r
  | 1%nat :: r => t_run tot (pas + 1) drp r
  | 2%nat :: r => t_run tot pas (drp + 1) r
  | _ :: r => [tot; pas; drp] :: t_run 0 0 0 r        (* reset(): SwapInt64(.., 0) of the three counters, :76-82 *)
  end.

(* stated on the observations: the reports partition the increments (each tick has exactly the increments since
   the previous tick: nothing twice, nothing lost), hence pass + drop <= total per interval whenever the callers
   count total first *)
Fixpoint t_counts (k : nat) (ops : list nat) (acc : Z) (out : list Z) : list Z :=
  match ops with
  | [] => rev out
  | o :: r => if Nat.eqb o 3 then t_counts k r 0 (acc :: out)
              else t_counts k r (if Nat.eqb o k then acc + 1 else acc) out
  end.
Definition t_spec (ops : list nat) (ticks : list (list Z)) : bool :=
  list_eqb Z.eqb (map (fun row => nth 0 row (-1)) ticks) (t_counts 0 ops 0 []) &&
  list_eqb Z.eqb (map (fun row => nth 1 row (-1)) ticks) (t_counts 1 ops 0 []) &&
  list_eqb Z.eqb (map (fun row => nth 2 row (-1)) ticks) (t_counts 2 ops 0 []).

(* ---------- CPU smoothing: after one or two refreshes from `start`, with samples in [0, 1200] ---------- *)
(* (the sample is the real CPU reading, at most ~1000 = the whole quota; the float evaluation may differ by 1) *)
Definition u_lo (start : Z) : Z := cpu_next (cpu_next start 0) 0 - 1.
Definition u_hi (start : Z) : Z := Z.max (cpu_next start 1200) (cpu_next (cpu_next start 1200) 1200) + 1.
Definition u_ok (start after : Z) : bool := (u_lo start <=? after) && (after <=? u_hi start).

(* ---------- entry points ---------- *)
Definition model_ok (c : case) : bool :=
  match c with
  | WCase n iv ign ops p rs fin conc => w_model_ok n iv ign ops p rs fin && conc
  | SCase w nb cpu ops p rows => s_model_ok w nb cpu ops p rows
  | ICase http guard calls rows => i_run http guard (mkcnt 0 0 0 0) calls rows
  | TCase ops ticks => list_eqb (list_eqb Z.eqb) (t_run 0 0 0 ops) ticks
  | UCase start after => u_ok start after
  end.

Definition spec_ok (c : case) : bool :=
  match c with
  | WCase n iv ign ops p rs fin conc => w_spec_ok n iv ign ops rs && conc
  | SCase w nb cpu ops p rows => s_spec_ok w nb cpu ops p rows
  | ICase http guard calls rows => i_spec http guard 0 0 0 calls rows
  | TCase ops ticks => t_spec ops ticks
  (* the smoothing is an EMA with fixed weights from the first sample on: one or two hot samples move the value by at
     most 5% each; in particular from 0 it stays far below the shedder's threshold (900) *)
  | UCase start after => u_ok start after && (if start =? 0 then after <? 900 else true)
  end.
