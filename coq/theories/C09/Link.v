(* C09 Link: what gogen regenerates from lib/collection/rollingwindow.go and
   lib/load/adaptiveshedder.go is what the model and the statements use; soundness of the
   executable window checker used by Exec.spec_ok. *)
From God Require Import Base.Prelude C09.GenEnv C09.RW C09.Spec C09.WProofs C09.Model C09.Integ C09.Exec.
From Coq Require Import QArith String.
From GodGen Require C09_Gen.
Local Open Scope Z_scope.

(* ---- constants of the shedder ---- *)
Lemma link_defaultWindow : C09_Gen.defaultWindow = 5 * second.
Proof. reflexivity. Qed.
Lemma link_defaultBuckets : C09_Gen.defaultBuckets = 50.
Proof. reflexivity. Qed.
Lemma link_defaultCpuThreshold : C09_Gen.defaultCpuThreshold = 900.
Proof. reflexivity. Qed.
Lemma link_defaultMinRt : C09_Gen.defaultMinRt = default_min_rt /\ default_min_rt = 1000.
Proof. split; reflexivity. Qed.
Lemma link_coolOff : C09_Gen.coolOfDuration = cool_off /\ cool_off = second.
Proof. split; reflexivity. Qed.
Lemma link_flyingBeta : C09_Gen.flyingBeta = (9 # 10)%Q.
Proof. reflexivity. Qed.
(* default shedder: 100 ms buckets, 10 buckets per second *)
Lemma link_default_windows :
  Z.quot C09_Gen.defaultWindow C09_Gen.defaultBuckets = 100000000 /\
  Z.quot second (Z.quot C09_Gen.defaultWindow C09_Gen.defaultBuckets) = 10.
Proof. split; reflexivity. Qed.

(* ---- span(): the generated GoLite function is the model's, for every clock reading ---- *)
Lemma link_span : forall now last iv n, C09_Gen.span (last - now) iv n = span_of (now - last) iv n.
Proof.
  intros. unfold C09_Gen.span, timex_since, span_of.
  replace (0 - (last - now)) with (now - last) by lia. reflexivity.
Qed.

Lemma link_span_rw : forall w now, span w now = C09_Gen.span (lastTime w - now) (interval w) (size w).
Proof. intros. rewrite link_span. reflexivity. Qed.

(* ---- call skeletons: lock held for the whole body; order of the state updates ---- *)
Lemma link_add_calls :
  C09_Gen.add_calls = ["rw.lock.Lock"; "defer:rw.lock.Unlock"; "rw.updateOffset"; "rw.win.add"]%string.
Proof. reflexivity. Qed.
Lemma link_reduce_calls :
  C09_Gen.reduce_calls = ["rw.lock.Lock"; "defer:rw.lock.Unlock"; "rw.span"; "rw.win.reduce"]%string.
Proof. reflexivity. Qed.
Lemma link_update_calls :
  C09_Gen.update_calls = ["rw.span"; "return"; "rw.win.resetBucket"; "timex.Now"]%string.
Proof. reflexivity. Qed.
Lemma link_allow_calls :
  C09_Gen.allow_calls = ["as.shouldDrop"; "as.droppedRecently.Set"; "return"; "as.addFlying"; "timex.Now"; "return"]%string.
Proof. reflexivity. Qed.
Lemma link_pass_calls :
  C09_Gen.pass_calls = ["timex.Since"; "float64"; "float64"; "p.shedder.addFlying"; "math.Ceil";
                        "p.shedder.rtCounter.Add"; "p.shedder.passCounter.Add"]%string.
Proof. reflexivity. Qed.
Lemma link_fail_calls : C09_Gen.fail_calls = ["p.shedder.addFlying"]%string.
Proof. reflexivity. Qed.
Lemma link_overloaded_calls :
  C09_Gen.overloaded_calls = ["systemOverloadChecker"; "return"; "timex.Now"; "as.overloadTime.Set"; "return"]%string.
Proof. reflexivity. Qed.
Lemma link_stillhot_calls :
  C09_Gen.stillhot_calls = ["as.droppedRecently.True"; "return"; "as.overloadTime.Load"; "return"; "timex.Since";
                            "as.droppedRecently.Set"; "return"]%string.
Proof. reflexivity. Qed.

(* ---- the executable window checker is sound for Spec.exact ---- *)
Lemma bucket_eqb_eq a b : bucket_eqb a b = true <-> a = b.
Proof.
  destruct a as [a1 a2], b as [b1 b2]. unfold bucket_eqb. simpl. split.
  - intro H. apply andb_true_iff in H as [H1 H2]. f_equal; lia.
  - intro H. inversion H; subst. rewrite !Z.eqb_refl. reflexivity.
Qed.

Lemma agg_x_eq t0 iv l j : agg_x t0 iv l j = agg t0 iv l j.
Proof.
  induction l as [|[t v] r IH]; [reflexivity|]. cbn [agg_x agg]. rewrite IH. reflexivity.
Qed.

Lemma exactb_sound n iv ign t l bs : exactb n iv ign t l bs = true -> exact Exec.t0 iv n ign t l bs.
Proof.
  unfold exactb, exact. intro H. apply andb_true_iff in H as [_ H].
  apply (list_eqb_eq bucket_eqb bucket_eqb_eq) in H. eexists. etransitivity; [exact H|].
  apply map_ext. intro j. apply agg_x_eq.
Qed.

Lemma w_spec_sound n iv ign pts reduces : w_spec n iv ign pts reduces = true ->
  exists obs, Forall2 (obs_exact Exec.t0 iv n ign) pts obs /\
              reduces = flat_map (fun o => match o with Some bs => [bs] | None => [] end) obs.
Proof.
  revert reduces. induction pts as [|[[t l]|] r IH]; intros reduces H; simpl in H.
  - destruct reduces; [|discriminate]. exists []. split; [constructor|reflexivity].
  - destruct reduces as [|bs rs]; [discriminate|]. apply andb_true_iff in H as [H1 H2].
    destruct (IH _ H2) as (obs & Ho & ->). exists (Some bs :: obs). split; [|reflexivity].
    constructor; [apply exactb_sound; assumption|assumption].
  - destruct (IH _ H) as (obs & Ho & ->). exists (None :: obs). split; [|reflexivity].
    constructor; [exact Logic.I|assumption].
Qed.

(* ---- the integrations report in a deferred function, after a successful Allow ---- *)
Lemma link_shedhandler_calls :
  C09_Gen.shedhandler_calls = ["return"; "return"; "ensureSheddingStat"; "sheddingStat.IncrTotal"; "shedder.Allow";
    "metrics.AddDrop"; "sheddingStat.IncrDrop"; "httpx.GetRemoteAddr"; "r.UserAgent"; "logx.Errorf"; "w.WriteHeader";
    "return"; "defer:func"; "{"; "promise.Fail"; "sheddingStat.IncrPass"; "promise.Pass"; "}"; "next.ServeHTTP";
    "http.HandlerFunc"; "return"; "return"]%string.
Proof. reflexivity. Qed.
Lemma link_shedint_calls :
  C09_Gen.shedint_calls = ["ensureSheddingStat"; "sheddingStat.IncrTotal"; "shedder.Allow"; "metrics.AddDrop";
    "sheddingStat.IncrDrop"; "return"; "defer:func"; "{"; "promise.Fail"; "sheddingStat.IncrPass"; "promise.Pass"; "}";
    "handler"; "return"; "return"]%string.
Proof. reflexivity. Qed.

(* ---- lib/stat/usage.go: beta = 0.95, refreshed every 250 ms; the refresh closure loads the previous value, combines it
        with the fresh sample and swaps the result in (no branch on the previous value: no other call appears) ---- *)
Lemma link_usage :
  C09_Gen.beta = (19 # 20)%Q /\ C09_Gen.cpuRefreshInterval = 250000000 /\
  C09_Gen.usage_init_calls = ["go:func"; "{"; "time.NewTicker"; "defer:cpuTicker.Stop"; "time.NewTicker"; "defer:allTicker.Stop";
    "select"; "case:"; "recv:cpuTicker.C"; "internal.RefreshCpu"; "atomic.LoadInt64"; "float64"; "float64"; "int64";
    "atomic.SwapInt64"; "threading.RunSafe"; "case:"; "recv:allTicker.C"; "logEnabled.True"; "printUsage"; "}"]%string.
Proof. repeat split; reflexivity. Qed.
(* cpu_next is that formula over Z: 95/100 = beta *)
Lemma link_cpu_next : forall pre cur, cpu_next pre cur = (Qnum C09_Gen.beta * 5 * pre + (100 - Qnum C09_Gen.beta * 5) * cur) / 100.
Proof. intros. reflexivity. Qed.
