(* C09 Props: the property theorems, nothing else.
   Window: RW.v is the transcription of lib/collection/rollingwindow.go; a history is a list of
   Add v | Reduce | Advance dt (dt >= 0, arbitrary, also > size*interval) started at creation time
   t0; Spec.reduce_points replays it on the Spec side (clock and add log at every Reduce).
   Shedder: Model.v over two windows; float64 operations abstract (any ewma / floorF / capF). *)
From God Require Import Base.Prelude C09.RW C09.Spec C09.WProofs C09.Model C09.SProofs C09.Integ C09.Exec.
From Coq Require Floats.
Local Open Scope Z_scope.

(* ---------------- rolling window ---------------- *)

(* For ALL sizes >= 1, intervals > 0, with and without IgnoreCurrentBucket, and all histories: the
   buckets handed to the reducer by every Reduce are, up to skipped trailing EMPTY buckets, exactly
   the per-bucket (sum,count) of the timestamped add log over the last `size` bucket intervals
   (J-size, J] -- resp. (J-size, J) -- in order: nothing older, nothing lost, nothing twice. *)
Theorem c09_window_exact : forall n iv ign t0 ops, 1 <= n -> 0 < iv -> ops_ok ops ->
  exists w, new_rw n iv ign t0 = Ok w /\
    Forall2 (obs_exact t0 iv n ign) (reduce_points t0 [] ops) (run (w, t0) ops).
Proof. exact window_exact. Qed.
Print Assumptions c09_window_exact.

(* hence a summing reducer computes exactly (sum, count) of the adds whose instant is visible *)
Theorem c09_window_totals : forall t0 iv n, 1 <= n -> forall ign t l bs,
  exact t0 iv n ign t l bs -> total bs = log_total (vis_log t0 iv n ign t l).
Proof. exact exact_total. Qed.
Print Assumptions c09_window_totals.

(* no slice access of the ring is ever out of range (the model's defaults are unreachable) *)
Theorem c09_window_index_safe : forall n iv ign t0 ops, 1 <= n -> 0 < iv -> ops_ok ops ->
  exists w, new_rw n iv ign t0 = Ok w /\
    forall k, wf (fst (fold_left (fun st o => fst (step st o)) (firstn k ops) (w, t0))).
Proof. exact window_index_safe. Qed.
Print Assumptions c09_window_index_safe.

(* ---------------- adaptive shedder ---------------- *)
(* grun replays a trace Allow(over)|Pass(start)|Fail|SAdvance(dt) from NewAdaptiveShedder at t0 and
   keeps, besides the model state, the event trace and the add logs of the two windows. *)

(* never rejects while CPU is below the threshold and no overload was observed in the last second *)
Theorem c09_no_drop_when_cool :
  forall (F : Type) (ewma : F -> Z -> F) (floorF : F -> Z) (capF : Z -> Z -> Z) (f0 : F) window nb cpu t0,
  1 <= nb -> nb <= window -> forall s0, new_shed F f0 window nb cpu t0 = Ok s0 ->
  forall ops, sops_ok ops ->
  let x := grun F ewma floorF capF ((s0, t0), g0) ops in
  ~ overload_within cool_off (snd (fst x)) (g_tr (snd x)) ->
  fst (allow F floorF capF (fst (fst x)) (snd (fst x)) false) = true.
Proof. exact no_drop_when_cool. Qed.
Print Assumptions c09_no_drop_when_cool.

(* a rejection happens only under overload (now, or within the cool-off second) and only when both
   the current and the smoothed in-flight numbers exceed the capacity estimate *)
Theorem c09_drop_implies_overload :
  forall (F : Type) (ewma : F -> Z -> F) (floorF : F -> Z) (capF : Z -> Z -> Z) (f0 : F) window nb cpu t0,
  1 <= nb -> nb <= window -> forall s0, new_shed F f0 window nb cpu t0 = Ok s0 ->
  forall ops, sops_ok ops ->
  let x := grun F ewma floorF capF ((s0, t0), g0) ops in
  let s := fst (fst x) in let now := snd (fst x) in
  forall over s', allow F floorF capF s now over = (false, s') ->
    (over = true \/ overload_within cool_off now (g_tr (snd x))) /\
    max_flight F capF s now < flying s /\ max_flight F capF s now < floorF (avg s).
Proof. exact drop_implies_overload. Qed.
Print Assumptions c09_drop_implies_overload.

(* the capacity estimate is capF(maxPass x buckets-per-second, minRt) with maxPass / minRt taken
   over the per-bucket aggregates of the completions in the visible buckets (current one excluded):
   max passes per bucket (at least 1), min rounded average latency (at most defaultMinRt) *)
Theorem c09_capacity_formula :
  forall (F : Type) (ewma : F -> Z -> F) (floorF : F -> Z) (capF : Z -> Z -> Z) (f0 : F) window nb cpu t0,
  1 <= nb -> nb <= window -> forall s0, new_shed F f0 window nb cpu t0 = Ok s0 ->
  forall ops, sops_ok ops ->
  let x := grun F ewma floorF capF ((s0, t0), g0) ops in
  let now := snd (fst x) in let bd := window / nb in
  max_flight F capF (fst (fst x)) now =
    capF (spec_max_pass t0 nb bd (g_pl (snd x)) now * (second / bd)) (spec_min_rt t0 nb bd (g_rl (snd x)) now).
Proof. exact capacity_formula. Qed.
Print Assumptions c09_capacity_formula.

(* in-flight = let_in - completed, after every trace *)
Theorem c09_inflight_conservation :
  forall (F : Type) (ewma : F -> Z -> F) (floorF : F -> Z) (capF : Z -> Z -> Z) (f0 : F) window nb cpu t0,
  1 <= nb -> nb <= window -> forall s0, new_shed F f0 window nb cpu t0 = Ok s0 ->
  forall ops, sops_ok ops ->
  let x := grun F ewma floorF capF ((s0, t0), g0) ops in
  flying (fst (fst x)) = let_in_n (g_tr (snd x)) - done_n (g_tr (snd x)).
Proof. exact inflight_conservation. Qed.
Print Assumptions c09_inflight_conservation.

(* ... so it is never negative while completions do not outnumber admissions, and it is back to
   zero once every let_in request has reported Pass or Fail *)
Theorem c09_inflight_returns_to_zero :
  forall (F : Type) (ewma : F -> Z -> F) (floorF : F -> Z) (capF : Z -> Z -> Z) (f0 : F) window nb cpu t0,
  1 <= nb -> nb <= window -> forall s0, new_shed F f0 window nb cpu t0 = Ok s0 ->
  forall ops, sops_ok ops ->
  let x := grun F ewma floorF capF ((s0, t0), g0) ops in
  (done_n (g_tr (snd x)) <= let_in_n (g_tr (snd x)) -> 0 <= flying (fst (fst x))) /\
  (done_n (g_tr (snd x)) = let_in_n (g_tr (snd x)) -> flying (fst (fst x)) = 0).
Proof. exact inflight_zero. Qed.
Print Assumptions c09_inflight_returns_to_zero.

(* the hot flag clears (and the request is let_in) at the first Allow, CPU below threshold, that
   comes a full second after the last overload stamp -- in any state *)
Theorem c09_hot_clears_after_1s :
  forall (F : Type) (ewma : F -> Z -> F) (floorF : F -> Z) (capF : Z -> Z -> Z) (f0 : F) (s : shed F) now,
  dropped s = true -> otime s <> 0 -> cool_off <= now - otime s ->
  exists s', allow F floorF capF s now false = (true, s') /\ dropped s' = false.
Proof. exact hot_clears_after_1s. Qed.
Print Assumptions c09_hot_clears_after_1s.

(* ---------------- the integrations (SheddingHandler, UnarySheddingInterceptor) ---------------- *)
(* Both report in a deferred function: `report_rpc` / `report_http` give the report for EVERY outcome
   of the downstream handler (return, error, deadline, panic), so each request that was let in
   reports exactly once.  Over a recording shedder: passes + fails = let in after any call list. *)
Theorem c09_integration_reports_once : forall calls,
  let c := cnt_run calls in c_pass c + c_fail c = c_in c.
Proof. exact cnt_conservation. Qed.
Print Assumptions c09_integration_reports_once.

(* over the adaptive shedder: a request handled through an integration (Allow; if let in, the handler
   runs `lat` and the integration reports r) leaves the in-flight count where it was, whatever the
   outcome; so after any sequence of completed requests it is back to its initial value (0) *)
Theorem c09_integration_inflight_returns : forall (F : Type) (ewma : F -> Z -> F) (floorF : F -> Z) (capF : Z -> Z -> Z)
  (s : shed F) (calls : list (Z * bool * Z * rep)),
  flying (int_run F ewma floorF capF s calls) = flying s.
Proof. exact (fun F ewma floorF capF s calls => int_run_flying F ewma floorF capF calls s). Qed.
Print Assumptions c09_integration_inflight_returns.

(* what counts as Fail: RPC only context.DeadlineExceeded itself; HTTP only status 503 *)
Theorem c09_integration_fail_classes :
  (forall o, report_rpc o = RFail <-> o = RDeadline) /\
  (forall g s, report_http g s = RFail <-> http_code g s = 503).
Proof. exact fail_classes. Qed.
Print Assumptions c09_integration_fail_classes.

(* the CPU reading that feeds the shedder is smoothed with fixed weights from the first sample on (lib/stat/usage.go:
   next = 0.95 pre + 0.05 sample, Link.link_usage): after the smoothed value has been exactly 0, ONE sample -- however
   hot -- leaves it at 5% of the sample, far below the threshold; every step stays within 5% of the sample *)
Theorem c09_cpu_one_hot_sample :
  (forall s, 0 <= s <= 2000 -> 0 <= cpu_next 0 s <= 100) /\
  (forall pre s, 0 <= pre -> 0 <= s -> (95 * pre) / 100 <= cpu_next pre s <= (95 * pre) / 100 + s / 20 + 1).
Proof. exact (conj cpu_one_hot_sample cpu_next_bounds). Qed.
Print Assumptions c09_cpu_one_hot_sample.

(* ---------------- non-vacuity and documented observations ---------------- *)

(* a history with a gap longer than the window and one inside it *)
Example c09_window_nonvacuous :
  match new_rw 3 100 false 0 with
  | Ok w => run (w, 0) [Add 5; Advance 150; Add 7; Reduce; Advance 100; Reduce; Advance 1000; Reduce]
            = [None; None; None; Some [(0, 0); (5, 1); (7, 1)]; None; Some [(5, 1); (7, 1)]; None; Some []]
  | _ => False
  end.
Proof. vm_compute. reflexivity. Qed.

Example c09_ops_ok_satisfiable : ops_ok [Add 5; Advance 150; Add 7; Reduce; Advance 250; Reduce].
Proof. repeat constructor; lia. Qed.

(* the two clock reads of one Add (span() at t1, timex.Now() at t2): when a bucket boundary falls
   between them, lastTime moves one interval further than offset, and an expired add (t=50,
   bucket 0) is handed to a Reduce at t=300 whose visible buckets are 1..3.  Histories of the
   property separate calls by advances, so t1 = t2 there. *)
Example c09_two_reads_misalign :
  let w0 := mkrw 3 100 0 false 0 [b0; b0; b0] in
  let w2 := add2 (add w0 50 5) 199 200 7 in
  reduce w2 300 = [(5, 1); (7, 1)] /\
  map (agg 0 100 [(200, 7); (50, 5)]) (visible 3 false (J 0 100 300)) = [(0, 0); (7, 1); (0, 0)].
Proof. vm_compute. split; reflexivity. Qed.

(* a drop really happens in the float64 instance: 3 in flight, smoothed 2.x, capacity 1, CPU high *)
Example c09_shedder_nonvacuous :
  match new_shed PrimFloat.float (f_of_Z 0) 5000000000 50 900 Exec.t0 with
  | Ok s0 =>
      let x := grun PrimFloat.float ewma_f f_trunc cap_f ((s0, Exec.t0), g0)
                 (repeat (Allow false) 40 ++ repeat Fail 12) in
      fst (allow PrimFloat.float f_trunc cap_f (fst (fst x)) (snd (fst x)) true) = false /\
      fst (allow PrimFloat.float f_trunc cap_f (fst (fst x)) (snd (fst x)) false) = true
  | _ => False
  end.
Proof. vm_compute. split; reflexivity. Qed.

(* float64 evaluation of the capacity product: 100 passes/s-bucket-product x 290 ms / 1000 is 29
   exactly, the code computes 100*(290/1e3) = 28.999999999999996 and truncates to 28 *)
Example c09_capacity_float_rounding : cap_f 100 290 = 28 /\ 100 * 290 / 1000 = 29.
Proof. vm_compute. split; reflexivity. Qed.
