(* C09/RW: transcription of lib/collection/rollingwindow.go (executable definitions only).
   Shared by C09 (window, shedder) and C01 (breaker statistics).

   Conventions:
   * time is the virtual clock `timex.Now()` in ns (Z). One API call reads the clock once in this
     model; the Go code reads it twice per Add (`span()` then `timex.Now()` in updateOffset,
     rollingwindow.go:73,85) -- `update_offset2` keeps the two reads apart so that the effect of a
     boundary crossed between them can be exhibited (Props: c09_two_reads_misalign).
   * Bucket.Sum is a float64 in Go; this model covers integer-valued adds whose running sums stay
     below 2^53, where float64 addition is exact, so Sum : Z.  Count is int64.
   * time.Duration/int are 64-bit; histories whose clock or counters leave the int64 range are out
     of scope.
   * buckets[i] with i out of range would panic in Go.  The index is always `x % size` with
     0 <= x, 1 <= size = len(buckets); `wf` below is proved invariant (WProofs, lemmas wf_add etc.), so the default
     of `nth`/`upd` is never reached.  The reachable panics are `size < 1` (constructor) and a zero
     interval (integer division by zero in span), both returned as Panic. *)
From God Require Import Base.Prelude.
Local Open Scope Z_scope.

Definition bucket := (Z * Z)%type.          (* (Sum, Count), rollingwindow.go:100-103 *)
Definition b0 : bucket := (0, 0).           (* Bucket.reset, :110-113 *)
Definition b_add (v : Z) (b : bucket) : bucket := (fst b + v, snd b + 1).   (* Bucket.add, :105-108 *)

Record rw := mkrw {
  size : Z;                 (* :13 *)
  interval : Z;             (* :15 *)
  offset : Z;               (* :16 *)
  ignore_current : bool;    (* :17 *)
  lastTime : Z;             (* :18 *)
  buckets : list bucket     (* win.buckets, :116 *)
}.

(* NewRollingWindow, :26-42 (lastTime: timex.Now() at construction) *)
Definition new_rw (n I : Z) (ign : bool) (now : Z) : result rw :=
  if n <? 1 then Panic
  else Ok (mkrw n I 0 ign now (repeat b0 (Z.to_nat n))).

(* span, :90-97 ; Go integer division truncates: Z.quot *)
Definition span_of (elapsed I n : Z) : Z :=
  let off := Z.quot elapsed I in
  if (0 <=? off) && (off <? n) then off else n.

Definition span (w : rw) (now : Z) : Z := span_of (now - lastTime w) (interval w) (size w).

Fixpoint upd (l : list bucket) (i : nat) (f : bucket -> bucket) : list bucket :=
  match l, i with
  | [], _ => []
  | b :: r, O => f b :: r
  | b :: r, S k => b :: upd r k f
  end.

(* w.buckets[offset % w.size], :131,136,141 ; Go % is the truncated remainder: Z.rem *)
Definition slot (n p : Z) : nat := Z.to_nat (Z.rem p n).

(* window.resetBucket, :140-142 *)
Definition win_reset (n : Z) (bs : list bucket) (p : Z) : list bucket := upd bs (slot n p) (fun _ => b0).

(* for i := 0; i < span; i++ { resetBucket((offset+i+1) % size) }, :80-82 *)
Definition reset_loop (n o : Z) (s : nat) (bs : list bucket) : list bucket :=
  fold_left (fun bs i => win_reset n bs (Z.rem (o + Z.of_nat i + 1) n)) (seq 0 s) bs.

(* updateOffset, :72-88, with the clock read by span() (t1) and by timex.Now() (t2) kept apart *)
Definition update_offset2 (w : rw) (t1 t2 : Z) : rw :=
  let s := span w t1 in
  if s <=? 0 then w
  else mkrw (size w) (interval w)
            (Z.rem (offset w + s) (size w))
            (ignore_current w)
            (t2 - Z.rem (t2 - lastTime w) (interval w))
            (reset_loop (size w) (offset w) (Z.to_nat s) (buckets w)).

Definition update_offset (w : rw) (now : Z) : rw := update_offset2 w now now.

(* Add, :45-51 ; window.add :130-132 *)
Definition add2 (w : rw) (t1 t2 : Z) (v : Z) : rw :=
  let w' := update_offset2 w t1 t2 in
  mkrw (size w') (interval w') (offset w') (ignore_current w') (lastTime w')
       (upd (buckets w') (slot (size w') (offset w')) (b_add v)).

Definition add (w : rw) (now : Z) (v : Z) : rw := add2 w now now v.

(* Reduce, :54-70 ; window.reduce :134-138 : the buckets handed to fn, in order *)
Definition reduce (w : rw) (now : Z) : list bucket :=
  let s := span w now in
  let diff := if (s =? 0) && ignore_current w then size w - 1 else size w - s in
  if 0 <? diff then
    let start := Z.rem (offset w + s + 1) (size w) in
    map (fun i => nth (slot (size w) (start + Z.of_nat i)) (buckets w) b0) (seq 0 (Z.to_nat diff))
  else [].

(* API level: a zero interval makes span() divide by zero *)
Definition add_r (w : rw) (now v : Z) : result rw :=
  if interval w =? 0 then Panic else Ok (add w now v).
Definition reduce_r (w : rw) (now : Z) : result (list bucket) :=
  if interval w =? 0 then Panic else Ok (reduce w now).

(* histories: operations separated by arbitrary advances of the clock *)
Inductive op := Add (v : Z) | Reduce | Advance (dt : Z).

(* state of a history: window, clock, and the reducer inputs observed so far (newest first) *)
Definition step (st : rw * Z) (o : op) : (rw * Z) * option (list bucket) :=
  let '(w, now) := st in
  match o with
  | Add v => ((add w now v, now), None)
  | Reduce => ((w, now), Some (reduce w now))
  | Advance dt => ((w, now + dt), None)
  end.

Fixpoint run (st : rw * Z) (ops : list op) : list (option (list bucket)) :=
  match ops with
  | [] => []
  | o :: r => let '(st', ob) := step st o in ob :: run st' r
  end.

(* index discipline under which no slice access is out of range *)
Definition wf (w : rw) : Prop :=
  1 <= size w /\ 0 <= offset w < size w /\ Z.of_nat (length (buckets w)) = size w.
