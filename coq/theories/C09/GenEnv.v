(* C09 GenEnv: meaning of the identifiers gogen leaves free in GoLite translations.
   `timex.Since(x)` is `now - x`.  GoLite functions have no clock parameter, so the generated
   `span` is read with the clock origin moved to the present (now = 0): its `f_lastTime`
   argument is lastTime relative to now, and Since(x) = 0 - x.  Link.link_span instantiates it
   with `lastTime - now` for every now. *)
From Coq Require Import ZArith.
Local Open Scope Z_scope.
Definition timex_since (x : Z) : Z := 0 - x.
