(* C09 WProofs: the ring of buckets represents the per-bucket aggregates of the add log
   (DESIGN Appendix A.1), for every size >= 1, interval > 0 and every history. *)
From God Require Import Base.Prelude C09.RW C09.Spec.
Local Open Scope Z_scope.

(* ---------- lists ---------- *)
Lemma upd_length l i f : length (upd l i f) = length l.
Proof. revert i; induction l as [|b r IH]; intros [|i]; simpl; auto. Qed.

Lemma nth_upd_eq l i f : (i < length l)%nat -> nth i (upd l i f) b0 = f (nth i l b0).
Proof. revert i; induction l as [|b r IH]; intros [|i]; simpl; intro H; try lia; auto. apply IH. lia. Qed.

Lemma nth_upd_neq l i j f : i <> j -> nth j (upd l i f) b0 = nth j l b0.
Proof. revert i j; induction l as [|b r IH]; intros [|i] [|j]; simpl; intro H; try congruence; auto. Qed.

Lemma map_all_b0 {A} (f : A -> bucket) l : (forall x, In x l -> f x = b0) -> map f l = repeat b0 (length l).
Proof. induction l as [|a r IH]; simpl; intro H; [reflexivity|]. rewrite H by auto. f_equal. apply IH. auto. Qed.

Lemma map_seq_shift {A} (f : nat -> A) a b : map f (seq a b) = map (fun i => f (a + i)%nat) (seq 0 b).
Proof.
  revert a f. induction b as [|b IH]; intros a f; simpl; [reflexivity|].
  rewrite Nat.add_0_r. f_equal. rewrite (IH (S a)), (IH 1%nat). apply map_ext. intro i.
  f_equal. lia.
Qed.

Lemma zrange_app lo a b : zrange lo (a + b) = zrange lo a ++ zrange (lo + Z.of_nat a) b.
Proof.
  unfold zrange. rewrite seq_app, map_app. f_equal. simpl.
  rewrite map_seq_shift. apply map_ext. intro i. lia.
Qed.

(* ---------- arithmetic ---------- *)
Lemma mod_small_diff n x y : 0 < n -> x mod n = y mod n -> - n < x - y < n -> x = y.
Proof.
  intros Hn E Hd.
  assert (Hx : x = n * (x / n) + y mod n) by (rewrite <- E; apply Z.div_mod; lia).
  assert (Hy : y = n * (y / n) + y mod n) by (apply Z.div_mod; lia).
  set (r := y mod n) in *. set (a := x / n) in *. set (b := y / n) in *.
  clearbody r a b. clear E.
  assert (a = b); [|subst; reflexivity].
  destruct (Z.lt_trichotomy a b) as [H|[H|H]]; [|assumption|]; exfalso; nia.
Qed.

Definition P (n x : Z) : nat := Z.to_nat (x mod n).

Lemma P_lt n x : 0 < n -> (P n x < Z.to_nat n)%nat.
Proof. intro H. unfold P. pose proof (Z.mod_pos_bound x n H). lia. Qed.

Lemma P_inj n x y : 0 < n -> P n x = P n y -> x mod n = y mod n.
Proof. intros H E. unfold P in E. pose proof (Z.mod_pos_bound x n H). pose proof (Z.mod_pos_bound y n H). lia. Qed.

Lemma P_neq n x y : 0 < n -> - n < x - y < n -> x <> y -> P n x <> P n y.
Proof. intros H Hd Hne E. apply Hne. eapply mod_small_diff; eauto. apply P_inj; assumption. Qed.

Lemma slot_P n x : 0 < n -> 0 <= x -> slot n x = P n x.
Proof. intros. unfold slot, P. rewrite Z.rem_mod_nonneg by lia. reflexivity. Qed.

Lemma P_mod n x : 0 < n -> P n (x mod n) = P n x.
Proof. intros. unfold P. rewrite Z.mod_mod by lia. reflexivity. Qed.

Lemma P_ext n x y : x mod n = y mod n -> P n x = P n y.
Proof. unfold P. congruence. Qed.

(* ---------- the reset loop ---------- *)
Lemma reset_loop_length n o s bs : length (reset_loop n o s bs) = length bs.
Proof.
  induction s as [|s IH]; [reflexivity|].
  unfold reset_loop in *. rewrite seq_S, fold_left_app. simpl. unfold win_reset at 1. rewrite upd_length. exact IH.
Qed.

Lemma reset_loop_spec n o s bs : 0 < n -> 0 <= o -> Z.of_nat (length bs) = n ->
  forall p, (p < length bs)%nat ->
    nth p (reset_loop n o s bs) b0 =
      if existsb (fun i => Nat.eqb (P n (o + Z.of_nat i + 1)) p) (seq 0 s) then b0 else nth p bs b0.
Proof.
  intros Hn Ho Hl. induction s as [|s IH]; intros p Hp; [reflexivity|].
  unfold reset_loop in *. rewrite seq_S, fold_left_app, existsb_app. simpl.
  set (bs' := fold_left _ (seq 0 s) bs) in *.
  assert (Hl' : length bs' = length bs) by apply reset_loop_length.
  unfold win_reset at 1.
  assert (Hs : slot n (Z.rem (o + Z.of_nat s + 1) n) = P n (o + Z.of_nat s + 1)).
  { rewrite Z.rem_mod_nonneg by lia. rewrite slot_P; [apply P_mod; lia | lia | apply Z.mod_pos_bound; lia]. }
  rewrite Hs. rewrite orb_false_r.
  destruct (Nat.eqb_spec (P n (o + Z.of_nat s + 1)) p) as [E|E].
  - rewrite orb_true_r. subst p. rewrite nth_upd_eq; [reflexivity|]. lia.
  - rewrite orb_false_r. rewrite nth_upd_neq by assumption. apply IH. assumption.
Qed.

(* ---------- bucket arithmetic ---------- *)
Section Inv.
  Variable t0 I n : Z.
  Hypothesis HI : 0 < I.
  Hypothesis Hn : 1 <= n.

  Notation J := (J t0 I).
  Notation agg := (agg t0 I).

  Lemma agg_future l j jl : (forall e, In e l -> J (fst e) <= jl) -> jl < j -> agg l j = b0.
  Proof.
    induction l as [|[t v] r IH]; simpl; intros H Hj; [reflexivity|].
    pose proof (H (t, v) (or_introl eq_refl)) as Ht. simpl in Ht.
    destruct (Z.eqb_spec (J t) j); [lia|]. apply IH; auto.
  Qed.

  (* state of a history: window w, its log, and the lower bound `now` of all later clock readings *)
  Definition Inv (w : rw) (now : Z) (l : log) : Prop :=
    size w = n /\ interval w = I /\ 0 <= offset w < n /\ Z.of_nat (length (buckets w)) = n /\
    lastTime w <= now /\
    (exists jl, lastTime w = t0 + jl * I) /\
    (forall e, In e l -> fst e < lastTime w + I) /\
    (forall i, 0 <= i < n -> nth (P n (offset w - i)) (buckets w) b0 = agg l (J (lastTime w) - i)).

  Lemma Inv_wf w now l : Inv w now l -> wf w.
  Proof. intros (H1 & H2 & H3 & H4 & _). unfold wf. rewrite H1. lia. Qed.

  Lemma J_aligned jl : J (t0 + jl * I) = jl.
  Proof. unfold Spec.J. replace (t0 + jl * I - t0) with (jl * I) by lia. apply Z.div_mul. lia. Qed.

  Lemma J_shift jl x : J (t0 + jl * I + x) = jl + x / I.
  Proof. unfold Spec.J. replace (t0 + jl * I + x - t0) with (x + jl * I) by lia. rewrite Z.div_add by lia. lia. Qed.

  Lemma J_mono a b : a <= b -> J a <= J b.
  Proof. intro H. unfold Spec.J. apply Z.div_le_mono; lia. Qed.

  Lemma nth_repeat_b0 k m : nth k (repeat b0 m) b0 = b0.
  Proof. revert k; induction m as [|m IH]; intros [|k]; simpl; auto. Qed.

  (* creation at t0 *)
  Lemma Inv_init ign : exists w, new_rw n I ign t0 = Ok w /\ Inv w t0 [] /\ ignore_current w = ign.
  Proof.
    unfold new_rw. destruct (Z.ltb_spec n 1); [lia|]. eexists. split; [reflexivity|]. split; [|reflexivity].
    unfold Inv; simpl. rewrite repeat_length.
    repeat split; try lia.
    - exists 0. lia.
    - intros i Hi. apply nth_repeat_b0.
  Qed.

  Lemma Inv_advance w now l dt : 0 <= dt -> Inv w now l -> Inv w (now + dt) l.
  Proof. intros Hd (H1 & H2 & H3 & H4 & H5 & H6). unfold Inv. repeat split; try tauto; lia. Qed.

  Lemma span_eq w now l : Inv w now l ->
    span w now = if (now - lastTime w) / I <? n then (now - lastTime w) / I else n.
  Proof.
    intros (H1 & H2 & H3 & H4 & H5 & _). unfold span, span_of. rewrite H1, H2.
    rewrite Z.quot_div_nonneg by lia.
    assert (0 <= (now - lastTime w) / I) by (apply Z.div_pos; lia).
    destruct (Z.leb_spec 0 ((now - lastTime w) / I)); [|lia]. reflexivity.
  Qed.

  Lemma log_le_jl w now l jl : Inv w now l -> lastTime w = t0 + jl * I -> forall e, In e l -> J (fst e) <= jl.
  Proof.
    intros (_ & _ & _ & _ & _ & _ & Hf & _) HL e He. specialize (Hf e He).
    unfold Spec.J. apply Z.lt_succ_r. apply Z.div_lt_upper_bound; [lia|]. nia.
  Qed.

  Lemma Inv_add w now l v : Inv w now l -> Inv (add w now v) now ((now, v) :: l).
  Proof.
    intro HInv. pose proof (span_eq _ _ _ HInv) as Hspan. pose proof HInv as HInv0.
    destruct HInv as (H1 & H2 & H3 & H4 & H5 & (jl & HL) & Hf & Hb).
    pose proof (log_le_jl _ _ _ _ HInv0 HL) as Hle.
    set (q := (now - lastTime w) / I) in *. set (m := (now - lastTime w) mod I).
    assert (Hqm : now - lastTime w = I * q + m /\ 0 <= m < I).
    { split; [apply Z.div_mod; lia | apply Z.mod_pos_bound; lia]. }
    assert (Hq0 : 0 <= q) by (apply Z.div_pos; lia).
    assert (HJnow : J now = jl + q).
    { replace now with (t0 + jl * I + (now - lastTime w)) by lia. apply J_shift. }
    assert (HJL : J (lastTime w) = jl) by (rewrite HL; apply J_aligned).
    unfold add, add2, update_offset2. rewrite Hspan.
    set (s := if q <? n then q else n) in *.
    assert (Hs : 0 <= s <= n /\ s <= q /\ (s < n -> s = q)) by (unfold s; destruct (Z.ltb_spec q n); lia).
    destruct (Z.leb_spec s 0) as [Hs0|Hs0].
    - (* same bucket *)
      assert (q = 0) by lia. cbn [size interval offset ignore_current lastTime buckets].
      rewrite H1. rewrite slot_P by lia.
      unfold Inv; cbn [size interval offset ignore_current lastTime buckets].
      rewrite upd_length. repeat split; try tauto; try lia.
      + exists jl; assumption.
      + intros e [<-|He]; [simpl; nia | auto].
      + intros i Hi. rewrite HJL. cbn [agg Spec.agg]. rewrite HJnow.
        destruct (Z.eq_dec i 0) as [->|Hne].
        * replace (offset w - 0) with (offset w) by lia. rewrite nth_upd_eq by (pose proof (P_lt n (offset w)); lia).
          replace (jl + q =? jl - 0) with true by lia.
          pose proof (Hb 0 ltac:(lia)) as Hb0. rewrite HJL in Hb0.
          replace (offset w - 0) with (offset w) in Hb0 by lia. rewrite Hb0. reflexivity.
        * rewrite nth_upd_neq by (apply P_neq; lia).
          replace (jl + q =? jl - i) with false by lia. rewrite Hb by lia. rewrite HJL. reflexivity.
    - (* s > 0 buckets expired *)
      cbn [size interval offset ignore_current lastTime buckets].
      rewrite H1, H2. rewrite !Z.rem_mod_nonneg by lia. fold m.
      assert (HL' : now - m = t0 + (jl + q) * I) by lia.
      rewrite slot_P by (try lia; apply Z.mod_pos_bound; lia). rewrite P_mod by lia.
      unfold Inv; cbn [size interval offset ignore_current lastTime buckets].
      rewrite upd_length, reset_loop_length.
      pose proof (Z.mod_pos_bound (offset w + s) n ltac:(lia)).
      repeat split; try tauto; try lia.
      + exists (jl + q). assumption.
      + intros e [<-|He]; [simpl; lia | specialize (Hf e He); nia].
      + intros i Hi. rewrite HL', J_aligned. cbn [agg Spec.agg]. rewrite HJnow.
        assert (HP : P n ((offset w + s) mod n - i) = P n (offset w + s - i)).
        { apply P_ext. rewrite Zminus_mod_idemp_l. reflexivity. }
        rewrite HP.
        assert (Hold : nth (P n (offset w + s - i)) (reset_loop n (offset w) (Z.to_nat s) (buckets w)) b0
                       = agg l (jl + q - i)).
        { rewrite reset_loop_spec; try lia; [|pose proof (P_lt n (offset w + s - i)); lia].
          destruct (Z.lt_ge_cases i s) as [His|His].
          - replace (existsb _ _) with true.
            + symmetry. apply (agg_future l _ jl); [assumption|lia].
            + symmetry. apply existsb_exists. exists (Z.to_nat (s - i - 1)). split; [apply in_seq; lia|].
              apply Nat.eqb_eq. apply P_ext. f_equal. lia.
          - destruct (existsb _ _) eqn:E.
            + exfalso. apply existsb_exists in E as (k & Hk & E). apply in_seq in Hk. apply Nat.eqb_eq in E.
              revert E. apply P_neq; lia.
            + replace (offset w + s - i) with (offset w - (i - s)) by lia. rewrite Hb by lia.
              rewrite HJL. f_equal. lia. }
        destruct (Z.eq_dec i 0) as [->|Hne].
        * replace (offset w + s - 0) with (offset w + s) in * by lia.
          rewrite nth_upd_eq by (rewrite reset_loop_length; pose proof (P_lt n (offset w + s)); lia).
          rewrite Hold. replace (jl + q =? jl + q - 0) with true by lia. rewrite Z.sub_0_r. reflexivity.
        * rewrite nth_upd_neq by (apply P_neq; lia). rewrite Hold.
          replace (jl + q =? jl + q - i) with false by lia. reflexivity.
  Qed.

  Lemma zrange_length lo k : length (zrange lo k) = k.
  Proof. unfold zrange. rewrite map_length, seq_length. reflexivity. Qed.

  Lemma in_zrange lo k x : In x (zrange lo k) -> lo <= x < lo + Z.of_nat k.
  Proof. unfold zrange. intro H. apply in_map_iff in H as (i & <- & Hi). apply in_seq in Hi. lia. Qed.

  Lemma reduce_exact w now l : Inv w now l -> exact t0 I n (ignore_current w) now l (reduce w now).
  Proof.
    intro HInv. pose proof (span_eq _ _ _ HInv) as Hspan. pose proof HInv as HInv0.
    destruct HInv as (H1 & H2 & H3 & H4 & H5 & (jl & HL) & Hf & Hb).
    pose proof (log_le_jl _ _ _ _ HInv0 HL) as Hle.
    set (q := (now - lastTime w) / I) in *.
    assert (Hq0 : 0 <= q) by (apply Z.div_pos; lia).
    assert (HJnow : J now = jl + q).
    { replace now with (t0 + jl * I + (now - lastTime w)) by lia. apply J_shift. }
    assert (HJL : J (lastTime w) = jl) by (rewrite HL; apply J_aligned).
    unfold reduce, exact, visible. rewrite Hspan, H1, HJnow.
    set (s := if q <? n then q else n) in *.
    assert (Hs : 0 <= s <= n /\ s <= q /\ (s < n -> s = q)) by (unfold s; destruct (Z.ltb_spec q n); lia).
    set (ign := ignore_current w).
    set (diff := if (s =? 0) && ign then n - 1 else n - s).
    set (vlen := if ign then n - 1 else n).
    set (d := Z.to_nat diff).
    assert (Hdv : diff <= vlen).
    { unfold diff, vlen. destruct ign, (Z.eqb_spec s 0); simpl; lia. }
    set (k := (Z.to_nat vlen - d)%nat). exists k.
    assert (Hk : Z.to_nat vlen = (d + k)%nat) by lia. rewrite Hk.
    rewrite zrange_app, map_app. f_equal.
    - (* the buckets read are the aggregates of (J - n, J_last] *)
      destruct (Z.ltb_spec 0 diff) as [Hd|Hd]; [|replace d with 0%nat by lia; reflexivity].
      assert (Hsn : s < n) by (unfold diff in Hd; destruct ign, (Z.eqb_spec s 0); simpl in Hd; lia).
      assert (Hsq : s = q) by tauto.
      unfold zrange. rewrite map_map. fold d. apply map_ext_in. intros i Hi. apply in_seq in Hi.
      rewrite Z.rem_mod_nonneg by lia.
      rewrite slot_P; [|lia|pose proof (Z.mod_pos_bound (offset w + s + 1) n); lia].
      assert (HP : P n ((offset w + s + 1) mod n + Z.of_nat i) = P n (offset w - (n - s - 1 - Z.of_nat i))).
      { apply P_ext. rewrite Zplus_mod_idemp_l.
        replace (offset w + s + 1 + Z.of_nat i) with (offset w - (n - s - 1 - Z.of_nat i) + 1 * n) by lia.
        apply Z.mod_add. lia. }
      rewrite HP.
      assert (Hdd : Z.of_nat d <= n - s) by (unfold d, diff; destruct ign, (Z.eqb_spec s 0); simpl; lia).
      rewrite Hb by lia. rewrite HJL. f_equal. lia.
    - (* the visible buckets not read are empty *)
      rewrite map_all_b0; [rewrite zrange_length; reflexivity|].
      intros x Hx. apply in_zrange in Hx. apply (agg_future l x jl); [assumption|].
      unfold k, d, diff, vlen in *. destruct ign, (Z.eqb_spec s 0); simpl in *; lia.
  Qed.

  (* ---------- histories ---------- *)
  Lemma add_ignore w now v : ignore_current (add w now v) = ignore_current w.
  Proof. unfold add, add2, update_offset2. destruct (span w now <=? 0); reflexivity. Qed.

  Lemma run_exact ops : ops_ok ops -> forall w now l, Inv w now l ->
    Forall2 (obs_exact t0 I n (ignore_current w)) (reduce_points now l ops) (run (w, now) ops).
  Proof.
    induction 1 as [|o ops Ho Hops IH]; intros w now l HInv; [constructor|].
    destruct o as [v| |dt]; cbn [run step reduce_points].
    - constructor; [exact Logic.I|]. rewrite <- (add_ignore w now v). apply IH. apply Inv_add. assumption.
    - constructor; [apply reduce_exact; assumption|]. apply IH. assumption.
    - constructor; [exact Logic.I|]. apply IH. apply Inv_advance; assumption.
  Qed.

  Lemma run_wf ops : ops_ok ops -> forall w now l, Inv w now l ->
    wf (fst (fold_left (fun st o => fst (step st o)) ops (w, now))).
  Proof.
    induction 1 as [|o ops Ho Hops IH]; intros w now l HInv; [exact (Inv_wf _ _ _ HInv)|].
    destruct o as [v| |dt]; cbn [fold_left step fst].
    - apply (IH _ _ ((now, v) :: l)). apply Inv_add. assumption.
    - apply (IH _ _ l). assumption.
    - apply (IH _ _ l). apply Inv_advance; assumption.
  Qed.

  (* ---------- totals: what a summing reducer computes ---------- *)
  Lemma total_app a b : total (a ++ b) = (fst (total a) + fst (total b), snd (total a) + snd (total b)).
  Proof.
    induction a as [|x a IH]; simpl; [destruct (total b); reflexivity|].
    rewrite IH. simpl. f_equal; lia.
  Qed.

  Lemma total_repeat k : total (repeat b0 k) = (0, 0).
  Proof. induction k as [|k IH]; simpl; [reflexivity|]. rewrite IH. reflexivity. Qed.

  Lemma zrange_S lo k : zrange lo (S k) = lo :: zrange (lo + 1) k.
  Proof.
    change (S k) with (1 + k)%nat. rewrite zrange_app. unfold zrange at 1. simpl.
    rewrite Z.add_0_r. reflexivity.
  Qed.

  Lemma total_point (f : Z -> Z * Z) c v k : forall lo,
    total (map (fun j => if c =? j then (fst (f j) + v, snd (f j) + 1) else f j) (zrange lo k)) =
    let T := total (map f (zrange lo k)) in
    if (lo <=? c) && (c <? lo + Z.of_nat k) then (fst T + v, snd T + 1) else T.
  Proof.
    induction k as [|k IH]; intro lo.
    - simpl. destruct (Z.leb_spec lo c), (Z.ltb_spec c (lo + 0)); simpl; try reflexivity; lia.
    - rewrite zrange_S. cbn [map total fold_right]. fold (total (map f (zrange (lo + 1) k))).
      match goal with |- context [fold_right ?g (0, 0) (map ?h (zrange (lo + 1) k))] =>
        change (fold_right g (0, 0) (map h (zrange (lo + 1) k))) with (total (map h (zrange (lo + 1) k))) end.
      rewrite IH. cbv zeta.
      destruct (Z.eqb_spec c lo), (Z.leb_spec (lo + 1) c), (Z.ltb_spec c (lo + 1 + Z.of_nat k)),
               (Z.leb_spec lo c), (Z.ltb_spec c (lo + Z.of_nat (S k))); simpl; try lia; f_equal; lia.
  Qed.

  Definition in_range (lo : Z) (k : nat) (t : Z) : bool := (lo <=? J t) && (J t <? lo + Z.of_nat k).

  Lemma total_agg l lo k :
    total (map (agg l) (zrange lo k)) = log_total (filter (fun e => in_range lo k (fst e)) l).
  Proof.
    induction l as [|[t v] r IH].
    - simpl. clear. revert lo. induction k as [|k IH]; intro lo; [reflexivity|].
      rewrite zrange_S. simpl. rewrite IH. reflexivity.
    - pose proof (total_point (agg r) (J t) v k lo) as Hp. cbv zeta in Hp. rewrite IH in Hp.
      cbn [agg Spec.agg filter fst]. etransitivity; [exact Hp|]. clear Hp.
      change (in_range lo k t) with ((lo <=? J t) && (J t <? lo + Z.of_nat k)).
      destruct ((lo <=? J t) && (J t <? lo + Z.of_nat k)) eqn:Ec.
      + unfold log_total, in_range. cbn [fold_right snd fst]. f_equal; lia.
      + reflexivity.
  Qed.

  Lemma exact_total ign t l bs : exact t0 I n ign t l bs -> total bs = log_total (vis_log t0 I n ign t l).
  Proof.
    intros [k Hk]. assert (E : total bs = total (bs ++ repeat b0 k)).
    { rewrite total_app, total_repeat. destruct (total bs); simpl; f_equal; lia. }
    rewrite E. change (repeat b0 k) with (repeat (0, 0) k) in *. rewrite Hk. unfold visible. rewrite total_agg.
    unfold vis_log. f_equal. apply filter_ext. intros [s v]. unfold in_range, in_visible. cbn [fst].
    destruct ign; lia.
  Qed.
End Inv.

(* ---------- statements used by Props.v ---------- *)
Lemma window_exact n I ign t0 ops : 1 <= n -> 0 < I -> ops_ok ops ->
  exists w, new_rw n I ign t0 = Ok w /\
    Forall2 (obs_exact t0 I n ign) (reduce_points t0 [] ops) (run (w, t0) ops).
Proof.
  intros Hn HI Hops. destruct (Inv_init t0 I n Hn ign) as (w & Hw & HInv & Hign).
  exists w. split; [assumption|]. rewrite <- Hign. apply run_exact; assumption.
Qed.

Lemma In_firstn {A} k (l : list A) x : In x (firstn k l) -> In x l.
Proof. revert l; induction k as [|k IH]; intros [|a l]; simpl; try tauto. intros [H|H]; auto. Qed.

Lemma window_index_safe n I ign t0 ops : 1 <= n -> 0 < I -> ops_ok ops ->
  exists w, new_rw n I ign t0 = Ok w /\
    forall k, wf (fst (fold_left (fun st o => fst (step st o)) (firstn k ops) (w, t0))).
Proof.
  intros Hn HI Hops. destruct (Inv_init t0 I n Hn ign) as (w & Hw & HInv & Hign).
  exists w. split; [assumption|]. intro k. apply (run_wf t0 I n HI Hn) with (l := []); [|assumption].
  unfold ops_ok in *. rewrite Forall_forall in *. intros o Ho. apply Hops. eapply In_firstn; eauto.
Qed.
