(* C09 Integ: the two integrations that stand between requests and a load.Shedder:
   api/handler/sheddinghandler.go (SheddingHandler) and
   rpc/internal/serverinterceptors/sheddinginterceptor.go (UnarySheddingInterceptor).
   Both call Allow, and report on the promise in a DEFERRED function, so the report runs on every
   exit path of the downstream handler, a panic unwinding through them included (in the RPC chain
   the crash guard sits outside the shedding interceptor; in the HTTP chain RecoverHandler sits
   inside it unless the chain is customised). *)
From God Require Import Base.Prelude C09.RW C09.Spec C09.WProofs C09.Model C09.SProofs.
Local Open Scope Z_scope.

Inductive rep := RPass | RFail.

(* ---- RPC: what the downstream handler did ---- *)
Inductive rpc_out :=
| ROk
| RStatus (code : Z)        (* status.Error(code, ...) *)
| RDeadline                 (* context.DeadlineExceeded itself *)
| RWrapsDeadline            (* an error wrapping it *)
| RCanceled                 (* context.Canceled itself: the request's context was cancelled, the handler gave up *)
| RPanic.                   (* panic(any value) *)

(* sheddinginterceptor.go:32-39: Fail iff the named result `err == context.DeadlineExceeded`
   (identity); when a panic unwinds, err is still nil *)
Definition report_rpc (o : rpc_out) : rep :=
  match o with RDeadline => RFail | _ => RPass end.

(* ---- HTTP: the shape of the response the downstream handler produced ---- *)
Inductive shape :=
| SHeader (c : Z)           (* WriteHeader(c) *)
| SWrite                    (* Write without WriteHeader: implicit 200 *)
| SNothing                  (* nothing written: implicit 200, empty body *)
| SStream (c : Z)           (* WriteHeader(c), Write, Flush, Write *)
| SPanic                    (* panic before anything was written *)
| SWritePanic.              (* Write, then panic *)

(* the Code that response.WithCodeResponseWriter holds when the deferred report runs: only
   WriteHeader stores it (withcoderesponsewriter.go:24-27); with RecoverHandler in between, a panic
   becomes WriteHeader(500) on the same writer (recoverhandler.go:12-20) *)
Definition http_code (guard : bool) (s : shape) : Z :=
  match s with
  | SHeader c | SStream c => c
  | SWrite | SNothing => 0
  | SPanic | SWritePanic => if guard then 500 else 0
  end.

(* status the HTTP client gets, and whether a panic escapes the chain *)
Definition http_status (guard : bool) (s : shape) : Z :=
  match s with
  | SHeader c | SStream c => c
  | SWrite | SNothing | SWritePanic => 200
  | SPanic => if guard then 500 else 200
  end.
Definition http_escapes (guard : bool) (s : shape) : Z :=
  match s with SPanic | SWritePanic => if guard then 0 else 1 | _ => 0 end.


Definition panics (s : shape) : bool := match s with SPanic | SWritePanic => true | _ => false end.

(* breakerhandler.go:33-39 (C01): the deferred mark is Accept iff cw.Code < 500 *)
Definition http_mark (guard : bool) (s : shape) : bool := http_code guard s <? 500.

(* for every way a handler can produce a response without panicking, the mark is a success exactly when
   the status the client gets is below 500 (an unwritten or implicitly written response is a 200);
   a panic converted by RecoverHandler is a failure *)
Lemma http_mark_spec :
  (forall g s, panics s = false -> 100 <= http_status g s -> http_mark g s = (http_status g s <? 500)) /\
  (forall s, panics s = true -> http_mark true s = false).
Proof.
  split.
  - intros g s Hp Hs. unfold http_mark. destruct s; simpl in *; try discriminate; reflexivity.
  - intros s Hp. destruct s; try discriminate; reflexivity.
Qed.

(* sheddinghandler.go:43-50: Fail iff cw.Code == http.StatusServiceUnavailable *)
Definition report_http (guard : bool) (s : shape) : rep :=
  if http_code guard s =? 503 then RFail else RPass.

Lemma fail_classes :
  (forall o, report_rpc o = RFail <-> o = RDeadline) /\
  (forall g s, report_http g s = RFail <-> http_code g s = 503).
Proof.
  split.
  - intro o. destruct o; simpl; split; intro H; try discriminate; reflexivity.
  - intros g s. unfold report_http. destruct (Z.eqb_spec (http_code g s) 503); split; intro H; try discriminate; auto; contradiction.
Qed.

(* ---- a recording shedder: let in / passes / fails / drops ---- *)
Record cnt := mkcnt { c_in : Z; c_pass : Z; c_fail : Z; c_drop : Z }.

Definition cnt_call (c : cnt) (drop : bool) (r : rep) : cnt :=
  if drop then mkcnt (c_in c) (c_pass c) (c_fail c) (c_drop c + 1)
  else match r with
       | RPass => mkcnt (c_in c + 1) (c_pass c + 1) (c_fail c) (c_drop c)
       | RFail => mkcnt (c_in c + 1) (c_pass c) (c_fail c + 1) (c_drop c)
       end.

Definition cnt_run (calls : list (bool * rep)) : cnt :=
  fold_left (fun c dr => cnt_call c (fst dr) (snd dr)) calls (mkcnt 0 0 0 0).

(* every request that was let in has reported exactly once when its call returns *)
Lemma cnt_conservation calls : let c := cnt_run calls in c_pass c + c_fail c = c_in c.
Proof.
  unfold cnt_run. assert (G : forall c0, c_pass c0 + c_fail c0 = c_in c0 ->
    let c := fold_left (fun c dr => cnt_call c (fst dr) (snd dr)) calls c0 in c_pass c + c_fail c = c_in c).
  { induction calls as [|[d r] l IH]; intros c0 H0; [exact H0|]. cbn [fold_left fst snd]. apply IH.
    unfold cnt_call. destruct d; [|destruct r]; cbn [c_in c_pass c_fail c_drop]; lia. }
  apply G. reflexivity.
Qed.

(* ---- the same calls against the adaptive shedder of Model.v ---- *)
Section Adaptive.
  Variable F : Type.
  Variable ewma : F -> Z -> F.
  Variable floorF : F -> Z.
  Variable capF : Z -> Z -> Z.

  (* one request: Allow at `now` under CPU reading `over`; if let in, the handler takes `lat` and the
     integration reports r *)
  Definition int_call (s : shed F) (now : Z) (over : bool) (lat : Z) (r : rep) : shed F :=
    let (a, s') := allow F floorF capF s now over in
    if a then match r with
              | RPass => pass F ewma s' (now + lat) now
              | RFail => fail F ewma s'
              end
    else s'.

  Lemma int_call_flying s now over lat r : flying (int_call s now over lat r) = flying s.
  Proof.
    unfold int_call. destruct (allow F floorF capF s now over) as [a s'] eqn:E.
    apply allow_spec in E as (E1 & _). destruct a; [|lia].
    destruct r; unfold pass, fail, done_flying; cbn [flying set_wins set_flying]; try lia.
    all: [> exact ewma | exact (avg s)].
  Qed.

  (* requests one after the other, each with its own arrival time, CPU reading, latency and report *)
  Definition int_run (s : shed F) (calls : list (Z * bool * Z * rep)) : shed F :=
    fold_left (fun s c => let '(now, over, lat, r) := c in int_call s now over lat r) calls s.

  Lemma int_run_flying calls : forall s, flying (int_run s calls) = flying s.
  Proof.
    induction calls as [|[[[now over] lat] r] l IH]; intro s; [reflexivity|].
    cbn [int_run fold_left]. fold (int_run (int_call s now over lat r) l). rewrite IH. apply int_call_flying.
  Qed.
End Adaptive.

(* ---- the CPU reading that feeds the shedder (lib/stat/usage.go:38-43): every 250 ms
        usage := int64(float64(pre)*beta + float64(cur)*(1-beta)), beta = 0.95, from the first sample on ---- *)
Definition cpu_next (pre cur : Z) : Z := (95 * pre + 5 * cur) / 100.

(* one sample -- however hot: the reading is in 1/1000 of the quota, a few multiples of 1000 at the very most --
   cannot lift a smoothed value of 0 to the shedder's threshold; in general one step moves by at most 5% of the sample *)
Lemma cpu_one_hot_sample : forall s, 0 <= s <= 2000 -> 0 <= cpu_next 0 s <= 100.
Proof. intros s Hs. unfold cpu_next. split; [apply Z.div_pos; lia|]. apply Z.div_le_upper_bound; lia. Qed.

Lemma cpu_next_bounds : forall pre s, 0 <= pre -> 0 <= s ->
  (95 * pre) / 100 <= cpu_next pre s <= (95 * pre) / 100 + s / 20 + 1.
Proof.
  intros pre s Hp Hs. unfold cpu_next. split.
  - apply Z.div_le_mono; lia.
  - assert (H1 : 95 * pre = 100 * ((95 * pre) / 100) + (95 * pre) mod 100) by (apply Z.div_mod; lia).
    assert (H2 : 5 * s = 100 * ((5 * s) / 100) + (5 * s) mod 100) by (apply Z.div_mod; lia).
    pose proof (Z.mod_pos_bound (95 * pre) 100 ltac:(lia)). pose proof (Z.mod_pos_bound (5 * s) 100 ltac:(lia)).
    assert (H3 : (5 * s) / 100 = s / 20) by (replace (5 * s) with (s * 5) by lia; replace 100 with (20 * 5) by lia; rewrite Z.div_mul_cancel_r by lia; reflexivity).
    apply Z.lt_succ_r. apply Z.div_lt_upper_bound; [lia|]. lia.
Qed.
