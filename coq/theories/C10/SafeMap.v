(* C10 / SafeMap: lib/collection/safemap.go, the timers index of the wheel.  Transcription of the two-generation
   map with deletion counters and compaction, the proof that it behaves as a plain map for EVERY history of
   Put/Del/Get and EVERY value of the two thresholds, and the checkers used by the correspondence. *)
From God Require Import Base.Prelude.
Local Open Scope N_scope.

Definition amap := list (N * N).
Definition look (k : N) (m : amap) : option N := alookup N.eqb k m.
Definition aput (k v : N) (m : amap) : amap := aset N.eqb k v m.
Definition adel (k : N) (m : amap) : amap := aremove N.eqb k m.
Definition has (k : N) (m : amap) : bool := match look k m with Some _ => true | None => false end.

(* for k, v := range src { dst[k] = v } ; the first binding of a key in src is the map's binding *)
Definition merge (src dst : amap) : amap := fold_right (fun kv acc => aput (fst kv) (snd kv) acc) dst src.

Record sm := mkSm { del_old : N; del_new : N; old : amap; new : amap }.
Definition sm_empty : sm := mkSm 0 0 [] [].

Section Thresholds.
  Variables maxd copyt : N.       (* maxDeletion, copyThreshold *)

  (* Get (safemap.go:63-73) *)
  Definition sm_get (s : sm) (k : N) : option N :=
    match look k (old s) with Some v => Some v | None => look k (new s) end.

  (* Put (76-93) *)
  Definition sm_put (s : sm) (k v : N) : sm :=
    if del_old s <=? maxd then
      let s1 := if has k (new s) then mkSm (del_old s) (del_new s + 1) (old s) (adel k (new s)) else s in
      mkSm (del_old s1) (del_new s1) (aput k v (old s1)) (new s1)
    else
      let s1 := if has k (old s) then mkSm (del_old s + 1) (del_new s) (adel k (old s)) (new s) else s in
      mkSm (del_old s1) (del_new s1) (old s1) (aput k v (new s1)).

  Definition len (m : amap) : N := N.of_nat (List.length m).

  (* Del (29-60) *)
  Definition sm_del (s : sm) (k : N) : sm :=
    let s1 := if has k (old s) then mkSm (del_old s + 1) (del_new s) (adel k (old s)) (new s)
              else if has k (new s) then mkSm (del_old s) (del_new s + 1) (old s) (adel k (new s))
              else s in
    let s2 := if (maxd <=? del_old s1) && (len (old s1) <? copyt)
              then mkSm (del_new s1) 0 (merge (old s1) (new s1)) []
              else s1 in
    if (maxd <=? del_new s2) && (len (new s2) <? copyt)
    then mkSm (del_old s2) 0 (merge (new s2) (old s2)) []
    else s2.

  Inductive sop := SPut (k v : N) | SDel (k : N) | SChurn (start count : N).

  (* count times: Put k v; Del k  with fresh keys start, start+1, ... (compact encoding of deletion churn) *)
  Fixpoint churn {A : Type} (f : A -> N -> A) (s : A) (k : N) (n : nat) : A :=
    match n with O => s | S n' => churn f (f s k) (k + 1) n' end.

  Definition sm_step (s : sm) (o : sop) : sm :=
    match o with
    | SPut k v => sm_put s k v
    | SDel k => sm_del s k
    | SChurn k n => churn (fun s k => sm_del (sm_put s k k) k) s k (N.to_nat n)
    end.

  Definition sm_run (ops : list sop) : sm := fold_left sm_step ops sm_empty.

  (* ---------- the abstract map ---------- *)
  Definition spec_step (m : amap) (o : sop) : amap :=
    match o with
    | SPut k v => aput k v m
    | SDel k => adel k m
    | SChurn k n => churn (fun m k => adel k (aput k k m)) m k (N.to_nat n)
    end.
  Definition spec_run (ops : list sop) : amap := fold_left spec_step ops [].

  (* ---------- association-list facts ---------- *)
  Lemma look_adel_eq k m : look k (adel k m) = None.
  Proof. unfold look, adel. induction m as [|[k' v] r IH]; simpl; auto. destruct (N.eqb_spec k k'); simpl; auto.
    destruct (N.eqb_spec k k'); congruence. Qed.
  Lemma look_adel_neq k k' m : k <> k' -> look k (adel k' m) = look k m.
  Proof. unfold look, adel. intro H. induction m as [|[k2 v] r IH]; simpl; auto.
    destruct (N.eqb_spec k' k2); simpl.
    - subst. destruct (N.eqb_spec k k2); congruence.
    - destruct (N.eqb_spec k k2); auto. Qed.
  Lemma look_aput_eq k v m : look k (aput k v m) = Some v.
  Proof. unfold look, aput, aset; simpl. rewrite N.eqb_refl. reflexivity. Qed.
  Lemma look_aput_neq k k' v m : k <> k' -> look k (aput k' v m) = look k m.
  Proof. intro H. unfold look, aput, aset; simpl. destruct (N.eqb_spec k k'); [congruence|].
    apply look_adel_neq; assumption. Qed.

  Lemma look_merge k src dst :
    look k (merge src dst) = match look k src with Some v => Some v | None => look k dst end.
  Proof.
    induction src as [|[k' v] r IH]; [reflexivity|].
    change (merge ((k', v) :: r) dst) with (aput k' v (merge r dst)).
    change (look k ((k', v) :: r)) with (if N.eqb k k' then Some v else look k r).
    destruct (N.eqb_spec k k') as [->|Hne].
    - apply look_aput_eq.
    - rewrite look_aput_neq by assumption. exact IH.
  Qed.

  Lemma has_look k m : has k m = false <-> look k m = None.
  Proof. unfold has. destruct (look k m); split; congruence. Qed.

  (* ---------- refinement ---------- *)
  Definition disjoint (s : sm) : Prop := forall k, look k (old s) <> None -> look k (new s) = None.

  Definition get_put_spec (s s' : sm) (k v : N) : Prop :=
    forall k', sm_get s' k' = if N.eqb k' k then Some v else sm_get s k'.
  Definition get_del_spec (s s' : sm) (k : N) : Prop :=
    forall k', sm_get s' k' = if N.eqb k' k then None else sm_get s k'.

  Lemma put_ok s k v : disjoint s -> disjoint (sm_put s k v) /\ get_put_spec s (sm_put s k v) k v.
  Proof.
    intro D. unfold sm_put, get_put_spec, sm_get, disjoint in *.
    destruct (del_old s <=? maxd).
    - destruct (has k (new s)) eqn:Hn; cbn [del_old del_new old new].
      + split.
        * intros k' Ho. destruct (N.eq_dec k' k) as [->|Hne]; [apply look_adel_eq|].
          rewrite look_aput_neq in Ho by assumption. rewrite look_adel_neq by assumption. auto.
        * intro k'. destruct (N.eqb_spec k' k) as [->|Hne]; [rewrite look_aput_eq; reflexivity|].
          rewrite look_aput_neq, look_adel_neq by assumption. reflexivity.
      + apply has_look in Hn. split.
        * intros k' Ho. destruct (N.eq_dec k' k) as [->|Hne]; [assumption|].
          rewrite look_aput_neq in Ho by assumption. auto.
        * intro k'. destruct (N.eqb_spec k' k) as [->|Hne]; [rewrite look_aput_eq; reflexivity|].
          rewrite look_aput_neq by assumption. reflexivity.
    - destruct (has k (old s)) eqn:Ho'; cbn [del_old del_new old new].
      + split.
        * intros k' Ho. destruct (N.eq_dec k' k) as [->|Hne]; [rewrite look_adel_eq in Ho; congruence|].
          rewrite look_adel_neq in Ho by assumption. rewrite look_aput_neq by assumption. auto.
        * intro k'. destruct (N.eqb_spec k' k) as [->|Hne]; [rewrite look_adel_eq, look_aput_eq; reflexivity|].
          rewrite look_adel_neq, look_aput_neq by assumption. reflexivity.
      + apply has_look in Ho'. split.
        * intros k' Ho. destruct (N.eq_dec k' k) as [->|Hne]; [congruence|].
          rewrite look_aput_neq by assumption. auto.
        * intro k'. destruct (N.eqb_spec k' k) as [->|Hne]; [rewrite Ho', look_aput_eq; reflexivity|].
          rewrite look_aput_neq by assumption. reflexivity.
  Qed.

  Lemma disjoint_nil_new o dn dd : disjoint (mkSm dd dn o []).
  Proof. intros k _. reflexivity. Qed.

  Lemma del_ok s k : disjoint s -> disjoint (sm_del s k) /\ get_del_spec s (sm_del s k) k.
  Proof.
    intro D. unfold sm_del.
    (* step 1: the deletion proper *)
    set (s1 := if has k (old s) then mkSm (del_old s + 1) (del_new s) (adel k (old s)) (new s)
               else if has k (new s) then mkSm (del_old s) (del_new s + 1) (old s) (adel k (new s)) else s).
    assert (H1 : disjoint s1 /\ get_del_spec s s1 k).
    { unfold s1, get_del_spec, sm_get, disjoint in *. destruct (has k (old s)) eqn:Ho; cbn [del_old del_new old new].
      - split.
        + intros k' Hk. destruct (N.eq_dec k' k) as [->|Hne]; [rewrite look_adel_eq in Hk; congruence|].
          rewrite look_adel_neq in Hk by assumption. auto.
        + intro k'. destruct (N.eqb_spec k' k) as [->|Hne].
          * rewrite look_adel_eq. apply D. unfold has in Ho. destruct (look k (old s)); congruence.
          * rewrite look_adel_neq by assumption. reflexivity.
      - apply has_look in Ho. destruct (has k (new s)) eqn:Hn; cbn [del_old del_new old new].
        + split.
          * intros k' Hk. destruct (N.eq_dec k' k) as [->|Hne]; [apply look_adel_eq|].
            rewrite look_adel_neq by assumption. auto.
          * intro k'. destruct (N.eqb_spec k' k) as [->|Hne]; [rewrite Ho, look_adel_eq; reflexivity|].
            rewrite look_adel_neq by assumption. reflexivity.
        + apply has_look in Hn. split; [assumption|].
          intro k'. destruct (N.eqb_spec k' k) as [->|Hne]; [rewrite Ho, Hn; reflexivity | reflexivity]. }
    clearbody s1. destruct H1 as [D1 G1].
    (* step 2 and 3: compactions preserve Get *)
    set (s2 := if (maxd <=? del_old s1) && (len (old s1) <? copyt)
               then mkSm (del_new s1) 0 (merge (old s1) (new s1)) [] else s1).
    assert (H2 : disjoint s2 /\ forall k', sm_get s2 k' = sm_get s1 k').
    { unfold s2. destruct ((maxd <=? del_old s1) && (len (old s1) <? copyt)); [|split; auto].
      split; [apply disjoint_nil_new|]. intro k'. unfold sm_get; cbn [del_old del_new old new]. rewrite look_merge.
      cbn [look alookup]. destruct (look k' (old s1)); [reflexivity|]. destruct (look k' (new s1)); reflexivity. }
    clearbody s2. destruct H2 as [D2 G2].
    assert (H3 : let s3 := if (maxd <=? del_new s2) && (len (new s2) <? copyt)
                            then mkSm (del_old s2) 0 (merge (new s2) (old s2)) [] else s2 in
                 disjoint s3 /\ forall k', sm_get s3 k' = sm_get s2 k').
    { cbv zeta. destruct ((maxd <=? del_new s2) && (len (new s2) <? copyt)); [|split; auto].
      split; [apply disjoint_nil_new|]. intro k'. unfold sm_get; cbn [del_old del_new old new]. rewrite look_merge.
      destruct (look k' (old s2)) eqn:Eo.
      - rewrite (D2 k') by congruence. reflexivity.
      - destruct (look k' (new s2)); reflexivity. }
    cbv zeta in H3. destruct H3 as [D3 G3]. split; [assumption|].
    intro k'. rewrite G3, G2. apply G1.
  Qed.

  Definition agrees (s : sm) (m : amap) : Prop := disjoint s /\ forall k, sm_get s k = look k m.

  Lemma agrees_put s m k v : agrees s m -> agrees (sm_put s k v) (aput k v m).
  Proof.
    intros [D G]. destruct (put_ok s k v D) as [D' G']. split; [assumption|].
    intro k'. rewrite G'. destruct (N.eqb_spec k' k) as [->|Hne]; [rewrite look_aput_eq; reflexivity|].
    rewrite look_aput_neq by assumption. apply G.
  Qed.

  Lemma agrees_del s m k : agrees s m -> agrees (sm_del s k) (adel k m).
  Proof.
    intros [D G]. destruct (del_ok s k D) as [D' G']. split; [assumption|].
    intro k'. rewrite G'. destruct (N.eqb_spec k' k) as [->|Hne]; [rewrite look_adel_eq; reflexivity|].
    rewrite look_adel_neq by assumption. apply G.
  Qed.

  Lemma agrees_churn n : forall s m k, agrees s m ->
    agrees (churn (fun s k => sm_del (sm_put s k k) k) s k n) (churn (fun m k => adel k (aput k k m)) m k n).
  Proof.
    induction n as [|n IH]; intros s m k A; cbn [churn]; [assumption|].
    apply IH. apply agrees_del. apply agrees_put. assumption.
  Qed.

  Lemma agrees_step s m o : agrees s m -> agrees (sm_step s o) (spec_step m o).
  Proof. destruct o; cbn [sm_step spec_step]; [apply agrees_put | apply agrees_del | apply agrees_churn]. Qed.

  (* SafeMap is a map: after ANY history, for ANY thresholds, Get answers like the plain association map *)
  Theorem safemap_refines_map : forall ops k, sm_get (sm_run ops) k = look k (spec_run ops).
  Proof.
    assert (H : forall ops s m, agrees s m -> agrees (fold_left sm_step ops s) (fold_left spec_step ops m)).
    { induction ops as [|o r IH]; cbn [fold_left]; intros s m A; [assumption|]. apply IH. apply agrees_step. assumption. }
    intros ops k. apply (H ops sm_empty []). split; [intros k' _; reflexivity | intro k'; reflexivity].
  Qed.
End Thresholds.
