(* C10 Link: the regenerated Go source agrees with the model; the executable checkers are sound. *)
From God Require Import Base.Prelude C10.Model C10.Spec C10.Proofs C10.Exec.
From Coq Require Import Sorting.Permutation String.
From GodGen Require C10_Gen.

(* getPositionAndCircle as translated from timingwheel.go equals the model's pos_circle on every
   input the wheel can feed it: interval > 0, numSlots > 0, tickedPos >= 0, delay >= interval *)
Lemma link_getPositionAndCircle (I : positive) (N t : nat) (d : Z) :
  0 < N -> (Z.pos I <= d)%Z ->
  C10_Gen.getPositionAndCircle (Z.pos I) (Z.of_nat t) (Z.of_nat N) d =
  (Z.of_nat (fst (pos_circle N t (steps_of I d))), Z.of_nat (snd (pos_circle N t (steps_of I d)))).
Proof.
  intros HN Hd. unfold C10_Gen.getPositionAndCircle, pos_circle, steps_of. cbn [fst snd].
  pose proof (steps_ge_1 I d Hd) as Hs. unfold steps_of in Hs.
  rewrite (Z.quot_div_nonneg d (Z.pos I)) by lia.
  assert (Hq : (0 <= d / Z.pos I)%Z) by (apply Z.div_pos; lia).
  rewrite Z.rem_mod_nonneg by lia. rewrite Z.quot_div_nonneg by lia.
  rewrite Nat2Z.inj_mod, Nat2Z.inj_div, Nat2Z.inj_add, Nat2Z.inj_sub by lia.
  rewrite Z2Nat.id by lia. reflexivity.
Qed.

(* below one interval (never reached: setTask clamps, moveTask tests first) the Go function still
   answers; recorded so that the domain restriction above is visible *)
Lemma link_getPositionAndCircle_sub (I : positive) (N t : nat) (d : Z) :
  (0 <= d < Z.pos I)%Z ->
  C10_Gen.getPositionAndCircle (Z.pos I) (Z.of_nat t) (Z.of_nat N) d =
  (Z.rem (Z.of_nat t) (Z.of_nat N), Z.quot (-1) (Z.of_nat N)).
Proof.
  intro Hd. unfold C10_Gen.getPositionAndCircle. rewrite Z.quot_small by lia. rewrite Z.add_0_r. reflexivity.
Qed.

Lemma link_drainWorkers : C10_Gen.drainWorkers = 8%Z.
Proof. reflexivity. Qed.

Local Open Scope string_scope.

(* the run loop dispatches exactly the six handlers the model's `step`/`api` have *)
Lemma link_run_calls : C10_Gen.run_calls =
  ["select"; "case:"; "recv:w.ticker.Chan()"; "w.onTick"; "case:"; "recv:w.setChannel"; "w.setTask";
   "case:"; "recv:w.removeChannel"; "w.removeTask"; "case:"; "recv:w.moveChannel"; "w.moveTask";
   "case:"; "recv:w.drainChannel"; "w.drainAll"; "case:"; "recv:w.stopChannel"; "w.ticker.Stop"; "return"].
Proof. reflexivity. Qed.

Lemma link_setTask_calls : C10_Gen.setTask_calls =
  ["w.timers.Get"; "w.moveTask"; "w.getPositionAndCircle"; "w.slots[pos].PushBack"; "w.setTimerPosition"].
Proof. reflexivity. Qed.

Lemma link_moveTask_calls : C10_Gen.moveTask_calls =
  ["w.timers.Get"; "return"; "w.execute"; "threading.GoSafe"; "return"; "w.getPositionAndCircle"; "int";
   "w.slots[pos].PushBack"; "w.setTimerPosition"].
Proof. reflexivity. Qed.

Lemma link_removeTask_calls : C10_Gen.removeTask_calls = ["w.timers.Get"; "return"; "w.timers.Del"].
Proof. reflexivity. Qed.

Lemma link_scan_calls : C10_Gen.scan_calls =
  ["l.Front"; "e.Next"; "l.Remove"; "e.Next"; "e.Next"; "l.Remove"; "w.slots[pos].PushBack"; "w.setTimerPosition";
   "append"; "e.Next"; "l.Remove"; "w.timers.Del"; "w.runTasks"].
Proof. reflexivity. Qed.

(* every batch gets its own goroutine running the callbacks of ITS slice in order; the run loop calls
   drainAll itself (no `go:`), so Drain's hand-over is complete before the next tick is handled *)
Lemma link_runTasks_calls : C10_Gen.runTasks_calls =
  ["len"; "return"; "go:func"; "{"; "w.execute"; "threading.RunSafe"; "}"].
Proof. reflexivity. Qed.

(* Schedule: slot taken by the loop, given back by the goroutine's DEFERRED recover (so also after a panic);
   RunSafe / GoSafe: every execute runs under a deferred recover; Recover runs its cleanups before recovering *)
Lemma link_schedule_calls : C10_Gen.schedule_calls =
  ["send:r.limitChan"; "go:func"; "{"; "defer:rescue.Recover"; "recv:r.limitChan"; "task"; "}"].
Proof. reflexivity. Qed.

Lemma link_runsafe_calls : C10_Gen.runsafe_calls = ["defer:rescue.Recover"; "fn"] /\ C10_Gen.gosafe_calls = ["go:RunSafe"].
Proof. split; reflexivity. Qed.

Lemma link_recover_calls : C10_Gen.recover_calls = ["cleanup"; "recover"; "logx.ErrorStack"].
Proof. reflexivity. Qed.

(* the TaskRunner model's limit for drainAll is the regenerated drainWorkers *)
Lemma link_runner_limit : Z.to_nat C10_Gen.drainWorkers = 8.
Proof. reflexivity. Qed.

Lemma link_drain_calls : C10_Gen.drain_calls =
  ["threading.NewTaskRunner"; "slot.Front"; "e.Next"; "slot.Remove"; "fn"; "runner.Schedule"].
Proof. reflexivity. Qed.

(* the exported calls: argument test first, then a select between the send and <-stopChannel *)
Lemma link_api_calls :
  C10_Gen.SetTimer_calls = ["return"; "select"; "case:"; "send:w.setChannel"; "return"; "case:"; "recv:w.stopChannel"; "return"] /\
  C10_Gen.MoveTimer_calls = ["return"; "select"; "case:"; "send:w.moveChannel"; "return"; "case:"; "recv:w.stopChannel"; "return"] /\
  C10_Gen.RemoveTimer_calls = ["return"; "select"; "case:"; "send:w.removeChannel"; "return"; "case:"; "recv:w.stopChannel"; "return"] /\
  C10_Gen.Drain_calls = ["select"; "case:"; "send:w.drainChannel"; "return"; "case:"; "recv:w.stopChannel"; "return"].
Proof. repeat split; reflexivity. Qed.

Local Close Scope string_scope.

(* ---- soundness of the executable multiset comparison used by spec_ok ---- *)
Lemma pair_eqb_eq a b : pair_eqb a b = true -> a = b.
Proof.
  destruct a, b. unfold pair_eqb. cbn [fst snd]. intro H. apply andb_true_iff in H as [H1 H2].
  apply Nat.eqb_eq in H1, H2. congruence.
Qed.

Lemma remove1_perm x l l' : remove1 x l = Some l' -> Permutation l (x :: l').
Proof.
  revert l'. induction l as [|y r IH]; intros l' H; simpl in H; [discriminate|].
  destruct (pair_eqb x y) eqn:E.
  - apply pair_eqb_eq in E. inversion H; subst. reflexivity.
  - destruct (remove1 x r) as [r'|]; [|discriminate]. inversion H; subst.
    rewrite (IH r' eq_refl). apply perm_swap.
Qed.

Lemma perm_b_sound l1 l2 : perm_b l1 l2 = true -> Permutation l1 l2.
Proof.
  revert l2. induction l1 as [|x r IH]; intros l2 H; simpl in H.
  - destruct l2; [constructor|discriminate].
  - destruct (remove1 x l2) as [l2'|] eqn:E; [|discriminate].
    rewrite (remove1_perm _ _ _ E). constructor. apply IH. assumption.
Qed.


(* SafeMap thresholds regenerated from lib/collection/safemap.go (the refinement theorem holds for any values) *)
(* the SafeMap thresholds the checkers use are the regenerated ones *)
Lemma link_sm_constants : Z.to_N C10_Gen.maxDeletion = sm_maxd /\ Z.to_N C10_Gen.copyThreshold = sm_copyt.
Proof. split; reflexivity. Qed.

Lemma link_maxDeletion : C10_Gen.maxDeletion = 10000%Z.
Proof. reflexivity. Qed.
Lemma link_copyThreshold : C10_Gen.copyThreshold = 1000%Z.
Proof. reflexivity. Qed.
