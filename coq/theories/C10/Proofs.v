(* C10 Proofs: the wheel model refines the abstract timer for every slot count and history. *)
From God Require Import Base.Prelude C10.Model C10.Spec.
From Coq Require Import Sorting.Permutation.

(* ---------- association lists keyed by nat ---------- *)
Section Assoc.
  Context {V : Type}.
  Implicit Types m : list (nat * V).

  Lemma al_aset k k' (v : V) m :
    alookup Nat.eqb k' (aset Nat.eqb k v m) = if k' =? k then Some v else alookup Nat.eqb k' m.
  Proof.
    unfold aset; simpl. destruct (Nat.eqb_spec k' k) as [->|Hne]; [reflexivity|].
    induction m as [|[a b] r IH]; simpl; [reflexivity|].
    destruct (Nat.eqb_spec k a); simpl.
    - subst. destruct (Nat.eqb_spec k' a); [congruence|assumption].
    - destruct (Nat.eqb_spec k' a); [reflexivity|assumption].
  Qed.

  Lemma al_aremove k k' m :
    alookup Nat.eqb k' (aremove Nat.eqb k m) = if k' =? k then None else alookup Nat.eqb k' m.
  Proof.
    induction m as [|[a b] r IH]; simpl.
    - destruct (k' =? k); reflexivity.
    - destruct (Nat.eqb_spec k a); simpl.
      + subst. rewrite IH. destruct (Nat.eqb_spec k' a); reflexivity.
      + rewrite IH. destruct (Nat.eqb_spec k' a); [subst|reflexivity].
        destruct (Nat.eqb_spec a k); [congruence|reflexivity].
  Qed.

  Lemma al_cons k k' (v : V) m :
    alookup Nat.eqb k' ((k, v) :: m) = if k' =? k then Some v else alookup Nat.eqb k' m.
  Proof. reflexivity. Qed.

  Lemma al_In k (v : V) m : alookup Nat.eqb k m = Some v -> In (k, v) m.
  Proof.
    induction m as [|[a b] r IH]; simpl; [discriminate|].
    destruct (Nat.eqb_spec k a); [intro E; inversion E; subst; auto | auto].
  Qed.

  Lemma al_None k m : alookup Nat.eqb k m = None <-> ~ In k (map fst m).
  Proof.
    induction m as [|[a b] r IH]; simpl; [tauto|].
    destruct (Nat.eqb_spec k a); [subst; split; [discriminate|tauto]|].
    rewrite IH. split; [intros H [E|E]; [congruence|tauto] | tauto].
  Qed.

  Lemma In_al k (v : V) m : NoDup (map fst m) -> In (k, v) m -> alookup Nat.eqb k m = Some v.
  Proof.
    induction m as [|[a b] r IH]; simpl; intros Hnd Hin; [tauto|].
    inversion Hnd as [|? ? Hn Hnd']; subst.
    destruct Hin as [E|Hin].
    - inversion E; subst. rewrite Nat.eqb_refl. reflexivity.
    - destruct (Nat.eqb_spec k a); [subst; exfalso; apply Hn; apply in_map_iff; exists (a, v); auto | auto].
  Qed.

  Lemma aremove_keys k m a : In a (map fst (aremove Nat.eqb k m)) <-> In a (map fst m) /\ a <> k.
  Proof.
    induction m as [|[a' b] r IH]; simpl; [tauto|].
    destruct (Nat.eqb_spec k a'); simpl; rewrite IH; [subst|]; intuition congruence.
  Qed.

  Lemma aremove_NoDup k m : NoDup (map fst m) -> NoDup (map fst (aremove Nat.eqb k m)).
  Proof.
    induction m as [|[a b] r IH]; simpl; intro H; [constructor|].
    inversion H; subst. destruct (Nat.eqb_spec k a); simpl; [auto|].
    constructor; [|auto]. rewrite aremove_keys. tauto.
  Qed.

  Lemma aset_NoDup k (v : V) m : NoDup (map fst m) -> NoDup (map fst (aset Nat.eqb k v m)).
  Proof.
    intro H. unfold aset; simpl. constructor; [|apply aremove_NoDup; assumption].
    rewrite aremove_keys. tauto.
  Qed.

  Lemma aremove_absent k m : alookup Nat.eqb k m = None -> aremove Nat.eqb k m = m.
  Proof.
    induction m as [|[a b] r IH]; simpl; [reflexivity|].
    destruct (Nat.eqb_spec k a); [discriminate|]. intro H. f_equal. auto.
  Qed.

  Lemma aremove_aset k (v : V) m : aremove Nat.eqb k (aset Nat.eqb k v m) = aremove Nat.eqb k m.
  Proof.
    unfold aset; simpl. rewrite Nat.eqb_refl. apply aremove_absent. rewrite al_aremove, Nat.eqb_refl. reflexivity.
  Qed.

  Lemma aset_aset k (v v' : V) m : aset Nat.eqb k v (aset Nat.eqb k v' m) = aset Nat.eqb k v m.
  Proof. unfold aset at 1. rewrite aremove_aset. reflexivity. Qed.

  Lemma filter_keys_NoDup (f : nat * V -> bool) m : NoDup (map fst m) -> NoDup (map fst (filter f m)).
  Proof.
    induction m as [|[a b] r IH]; simpl; intro H; [constructor|].
    inversion H as [|? ? Hn Hnd]; subst. destruct (f (a, b)); simpl; [|auto].
    constructor; [|auto]. intro Hin. apply Hn. apply in_map_iff in Hin as [[a' b'] [E Hin]].
    apply filter_In in Hin as [Hin _]. apply in_map_iff. exists (a', b'). auto.
  Qed.

  Lemma al_filter (f : nat * V -> bool) k m : NoDup (map fst m) ->
    alookup Nat.eqb k (filter f m) =
    match alookup Nat.eqb k m with Some v => if f (k, v) then Some v else None | None => None end.
  Proof.
    intro Hnd. destruct (alookup Nat.eqb k m) as [v|] eqn:E.
    - destruct (f (k, v)) eqn:Ef.
      + apply In_al; [apply filter_keys_NoDup; assumption|]. apply filter_In. split; [apply al_In; assumption|assumption].
      + apply al_None. intro Hin. apply in_map_iff in Hin as [[a b] [E1 Hin]]. simpl in E1; subst a.
        apply filter_In in Hin as [Hin Hf]. apply (In_al _ _ _ Hnd) in Hin. congruence.
    - apply al_None. apply al_None in E. intro Hin. apply E. apply in_map_iff in Hin as [[a b] [E1 Hin]].
      apply filter_In in Hin as [Hin _]. apply in_map_iff. exists (a, b). auto.
  Qed.
End Assoc.

(* ---------- slots ---------- *)
Lemma upd_length {A} p (f : A -> A) l : length (upd p f l) = length l.
Proof. revert p; induction l as [|x r IH]; intros [|p]; simpl; auto. Qed.

Lemma nth_upd_eq {A} p (f : A -> A) l d : p < length l -> nth p (upd p f l) d = f (nth p l d).
Proof. revert p; induction l as [|x r IH]; intros [|p]; simpl; intro H; try lia; auto. apply IH. lia. Qed.

Lemma nth_upd_neq {A} p q (f : A -> A) l d : p <> q -> nth q (upd p f l) d = nth q l d.
Proof. revert p q; induction l as [|x r IH]; intros [|p] [|q]; simpl; intro H; try lia; auto. Qed.

Lemma slot_upd_eq p f sl : p < length sl -> slot p (upd p f sl) = f (slot p sl).
Proof. apply nth_upd_eq. Qed.
Lemma slot_upd_neq p q f sl : p <> q -> slot q (upd p f sl) = slot q sl.
Proof. apply nth_upd_neq. Qed.

Lemma in_slot_push p q id x sl : p < length sl ->
  (In x (slot q (push p id sl)) <-> In x (slot q sl) \/ (q = p /\ x = id)).
Proof.
  intro Hp. unfold push. destruct (Nat.eq_dec p q) as [->|Hne].
  - rewrite slot_upd_eq by assumption. rewrite in_app_iff. simpl. intuition.
  - rewrite slot_upd_neq by assumption. intuition congruence.
Qed.

Lemma push_length p id sl : length (push p id sl) = length sl.
Proof. apply upd_length. Qed.

Lemma in_concat_slot (sl : list (list nat)) x : In x (concat sl) <-> exists p, p < length sl /\ In x (slot p sl).
Proof.
  induction sl as [|l r IH]; simpl.
  - split; [tauto|]. intros (p & Hp & _). lia.
  - rewrite in_app_iff, IH. split.
    + intros [H|(p & Hp & H)]; [exists 0; split; [lia|exact H] | exists (S p); split; [lia|exact H]].
    + intros ([|p] & Hp & H); [left; exact H | right; exists p; split; [lia|exact H]].
Qed.

Lemma concat_upd_perm p (f : list nat -> list nat) sl : p < length sl ->
  Permutation (concat (upd p f sl)) (f (slot p sl) ++ concat (upd p (fun _ => []) sl)).
Proof.
  revert p; induction sl as [|l r IH]; intros [|p] Hp; simpl in *; try lia.
  - reflexivity.
  - rewrite (IH p) by lia. unfold slot; simpl.
    rewrite !app_assoc. apply Permutation_app_tail. apply Permutation_app_comm.
Qed.

Lemma concat_take_perm p sl : p < length sl ->
  Permutation (concat sl) (slot p sl ++ concat (upd p (fun _ => []) sl)).
Proof.
  intro Hp. assert (E : upd p (fun l => l) sl = sl).
  { clear Hp. revert p; induction sl as [|l r IH]; intros [|p]; simpl; try reflexivity. f_equal. apply IH. }
  rewrite <- E at 1. apply (concat_upd_perm p (fun l => l)). assumption.
Qed.

Lemma concat_push_perm p id sl : p < length sl -> Permutation (concat (push p id sl)) (id :: concat sl).
Proof.
  intro Hp. unfold push. rewrite concat_upd_perm by assumption.
  rewrite (concat_take_perm p sl Hp).
  rewrite <- app_assoc. simpl. symmetry. apply Permutation_middle.
Qed.

Lemma upd_same {A} p (x : A) l d : nth p l d = x -> p < length l -> upd p (fun _ => x) l = l.
Proof. revert p; induction l as [|y r IH]; intros [|p]; simpl; intros E H; try lia; [congruence|]. f_equal. apply IH; [assumption|lia]. Qed.

(* ---------- arithmetic of the wheel ---------- *)
(* ticks until slot p is scanned when the last scanned slot is t: in [1, N] *)
Definition ahead (N t p : nat) : nat := (p + N - t - 1) mod N + 1.

Lemma ahead_pos N t s : 0 < N -> t < N -> 1 <= s -> ahead N t ((t + s) mod N) = (s - 1) mod N + 1.
Proof.
  intros HN Ht Hs. unfold ahead. f_equal.
  pose proof (Nat.div_mod (t + s) N ltac:(lia)) as E1.
  pose proof (Nat.div_mod (s - 1) N ltac:(lia)) as E2.
  set (q := (t + s) / N) in *. set (r := (t + s) mod N) in *.
  set (q' := (s - 1) / N) in *. set (r' := (s - 1) mod N) in *.
  assert (r < N) by (apply Nat.mod_upper_bound; lia).
  assert (r' < N) by (apply Nat.mod_upper_bound; lia).
  symmetry. apply (Nat.mod_unique _ _ (1 + q' - q)); [lia|].
  destruct (le_lt_dec q' q) as [L|L]; [|assert (N * (q + 1) <= N * q') by (apply Nat.mul_le_mono_l; lia); lia].
  destruct (le_lt_dec q (q' + 1)) as [L2|L2]; [|assert (N * (q' + 2) <= N * q) by (apply Nat.mul_le_mono_l; lia); lia].
  assert (q = q' \/ q = q' + 1) as [->| ->] by lia.
  - replace (1 + q' - q') with 1 by lia. lia.
  - replace (1 + q' - (q' + 1)) with 0 by lia. lia.
Qed.

Lemma ahead_range N t p : 0 < N -> 1 <= ahead N t p <= N.
Proof. intro HN. unfold ahead. pose proof (Nat.mod_upper_bound (p + N - t - 1) N ltac:(lia)). lia. Qed.

Lemma succ_mod N t : 0 < N -> t < N -> (t + 1) mod N = if t + 1 =? N then 0 else t + 1.
Proof.
  intros. destruct (Nat.eqb_spec (t + 1) N) as [E|E]; [rewrite E; apply Nat.mod_same; lia | apply Nat.mod_small; lia].
Qed.

Lemma ahead_next N t : 0 < N -> t < N -> ahead N t ((t + 1) mod N) = 1.
Proof. intros. rewrite ahead_pos by lia. simpl. rewrite Nat.mod_0_l by lia. reflexivity. Qed.

Lemma ahead_self N t : 0 < N -> t < N -> ahead N t t = N.
Proof.
  intros. unfold ahead. replace (t + N - t - 1) with (N - 1) by lia. rewrite Nat.mod_small by lia. lia.
Qed.

Lemma ahead_step N t p : 0 < N -> t < N -> p < N -> p <> (t + 1) mod N ->
  ahead N t p = ahead N ((t + 1) mod N) p + 1.
Proof.
  intros HN Ht Hp Hne. unfold ahead. rewrite succ_mod in * by lia.
  destruct (Nat.eqb_spec (t + 1) N).
  - replace (p + N - 0 - 1) with (p - 1 + 1 * N) by lia. rewrite Nat.mod_add by lia.
    rewrite (Nat.mod_small (p - 1)) by lia. replace (p + N - t - 1) with p by lia. rewrite Nat.mod_small; lia.
  - destruct (le_lt_dec p t).
    + rewrite (Nat.mod_small (p + N - t - 1)) by lia. rewrite (Nat.mod_small (p + N - (t + 1) - 1)) by lia. lia.
    + replace (p + N - t - 1) with (p - t - 1 + 1 * N) by lia. rewrite Nat.mod_add by lia.
      replace (p + N - (t + 1) - 1) with (p - t - 2 + 1 * N) by lia. rewrite Nat.mod_add by lia.
      rewrite !Nat.mod_small by lia. lia.
Qed.

Lemma small_shift_neq N t d : 0 < N -> t < N -> 0 < d < N -> (t + d) mod N <> t.
Proof.
  intros HN Ht Hd E. destruct (le_lt_dec N (t + d)).
  - replace (t + d) with (t + d - N + 1 * N) in E by lia. rewrite Nat.mod_add in E by lia.
    rewrite Nat.mod_small in E by lia. lia.
  - rewrite Nat.mod_small in E by lia. lia.
Qed.

Lemma set_arith N t s : 0 < N -> t < N -> 1 <= s ->
  ahead N t ((t + s) mod N) + (s - 1) / N * N = s.
Proof.
  intros. rewrite ahead_pos by lia. pose proof (Nat.div_mod (s - 1) N ltac:(lia)). lia.
Qed.

(* ---------- the invariant (DESIGN Appendix A.2) ---------- *)
#[local] Arguments aset : simpl never.
#[local] Arguments aremove : simpl never.
#[local] Arguments alookup : simpl never.
#[local] Arguments Nat.modulo : simpl never.
#[local] Arguments Nat.div : simpl never.
#[local] Arguments upd : simpl never.
#[local] Arguments push : simpl never.
#[local] Arguments slot : simpl never.
Record Inv (s : st) (sp : sst) : Prop := mkInv {
  i_N : 0 < nslots s;
  i_t : ticked s < nslots s;
  (* every indexed key has a live entry in the slot its timer names, and
     due(key) - T = ahead(pos) + circle * N + diff, diff < N *)
  i_B : forall k p id, timer k (timers s) = Some (p, id) ->
        p < nslots s /\ In id (slot p (slots s)) /\
        exists e, item id (items s) = Some e /\ e_key e = k /\ e_removed e = false /\ e_diff e < nslots s /\
          alookup Nat.eqb k (sp_timers sp) =
            Some (e_val e, sp_T sp + ahead (nslots s) (ticked s) p + e_circle e * nslots s + e_diff e);
  (* every entry in a slot is on the heap; live ones are indexed at that slot, tombstones are not *)
  i_C : forall p id, p < nslots s -> In id (slot p (slots s)) ->
        exists e, item id (items s) = Some e /\ (e_removed e = false -> timer (e_key e) (timers s) = Some (p, id));
  i_D : NoDup (concat (slots s));
  i_E : forall id e, item id (items s) = Some e -> id < next_id s;
  i_F : forall k, alookup Nat.eqb k (sp_timers sp) <> None -> timer k (timers s) <> None;
  i_G : NoDup (map fst (sp_timers sp))
}.

Lemma repeat_nth {A} (x : A) n p d : p < n -> nth p (repeat x n) d = x.
Proof. revert p; induction n as [|n IH]; intros [|p] H; simpl; try lia; auto. apply IH. lia. Qed.

Lemma concat_repeat_nil {A} n : concat (repeat (@nil A) n) = [].
Proof. induction n; simpl; auto. Qed.

Lemma Inv_init I N : 0 < N -> Inv (init I N) sinit.
Proof.
  intro HN. constructor; unfold nslots; simpl; rewrite ?repeat_length; try lia.
  - intros k p id H. discriminate.
  - intros p id Hp Hin. unfold slot in Hin. rewrite repeat_nth in Hin by assumption. destruct Hin.
  - rewrite concat_repeat_nil. constructor.
  - intros id e H. discriminate.
  - intros k H. exfalso. apply H. reflexivity.
  - constructor.
Qed.

Lemma inv_slot_fresh s sp p id : Inv s sp -> p < nslots s -> In id (slot p (slots s)) -> id < next_id s.
Proof. intros HI Hp Hin. destruct (i_C _ _ HI p id Hp Hin) as (e & He & _). eapply i_E; eauto. Qed.

Lemma inv_spec_none s sp k : Inv s sp -> timer k (timers s) = None -> alookup Nat.eqb k (sp_timers sp) = None.
Proof.
  intros HI Ht. destruct (alookup Nat.eqb k (sp_timers sp)) eqn:E; [|reflexivity].
  exfalso. apply (i_F _ _ HI k); [congruence|assumption].
Qed.

Lemma inv_slot_unique s sp p q id e : Inv s sp -> p < nslots s -> q < nslots s ->
  In id (slot p (slots s)) -> In id (slot q (slots s)) -> item id (items s) = Some e -> e_removed e = false -> p = q.
Proof.
  intros HI Hp Hq H1 H2 He Hl.
  destruct (i_C _ _ HI p id Hp H1) as (e1 & He1 & Ht1). destruct (i_C _ _ HI q id Hq H2) as (e2 & He2 & Ht2).
  rewrite He in He1, He2. inversion He1; inversion He2; subst e1 e2.
  specialize (Ht1 Hl). specialize (Ht2 Hl). congruence.
Qed.

Ltac psimpl := cbn [interval slots items timers ticked next_id sp_T sp_timers fst snd a_slots a_items a_timers a_kept a_fired e_key e_val e_circle e_diff e_removed] in *.

Ltac eqb_cases :=
  repeat match goal with
  | |- context [?a =? ?b] => destruct (Nat.eqb_spec a b); subst; try congruence; try lia
  | H : context [?a =? ?b] |- _ => destruct (Nat.eqb_spec a b); subst; try congruence; try lia
  end.

(* --- removeTask --- *)
Lemma Inv_remove s sp k : Inv s sp -> Inv (remove_task k s) (fst (sstep sp (SRemove k))).
Proof.
  intro HI. unfold remove_task. cbn [sstep fst]. destruct (timer k (timers s)) as [[p id]|] eqn:Et.
  - destruct (i_B _ _ HI k p id Et) as (Hp & Hin & e & He & Hk & Hl & Hd & Hsp). rewrite He.
    constructor; unfold nslots in *; psimpl.
    + apply (i_N _ _ HI).
    + apply (i_t _ _ HI).
    + intros k' p' id' Ht'. unfold timer in Ht'. rewrite al_aremove in Ht'.
      destruct (Nat.eqb_spec k' k) as [->|Hne]; [discriminate|].
      destruct (i_B _ _ HI k' p' id' Ht') as (Hp' & Hin' & e' & He' & Hk' & Hl' & Hd' & Hsp').
      split; [assumption|]. split; [assumption|]. exists e'. unfold item. rewrite al_aset.
      destruct (Nat.eqb_spec id' id) as [->|Hni].
      * unfold item in *. rewrite He in He'. inversion He'; subst e'. congruence.
      * rewrite al_aremove. destruct (Nat.eqb_spec k' k); [congruence|]. auto.
    + intros p' id' Hp' Hin'. destruct (i_C _ _ HI p' id' Hp' Hin') as (e' & He' & Ht').
      unfold item. rewrite al_aset. destruct (Nat.eqb_spec id' id) as [->|Hni].
      * eexists. split; [reflexivity|]. simpl. discriminate.
      * exists e'. split; [assumption|]. intro Hl'. specialize (Ht' Hl'). unfold timer. rewrite al_aremove.
        destruct (Nat.eqb_spec (e_key e') k) as [E|E]; [|assumption].
        rewrite E in Ht'. rewrite Et in Ht'. congruence.
    + apply (i_D _ _ HI).
    + intros id' e'. unfold item. rewrite al_aset. destruct (Nat.eqb_spec id' id) as [->|Hni].
      * intros _. eapply (i_E _ _ HI); eauto.
      * apply (i_E _ _ HI).
    + intros k'. rewrite al_aremove. unfold timer. rewrite al_aremove. destruct (Nat.eqb_spec k' k); [congruence|].
      apply (i_F _ _ HI).
    + apply aremove_NoDup. apply (i_G _ _ HI).
  - rewrite (aremove_absent k (sp_timers sp)) by (eapply inv_spec_none; eauto). destruct sp; exact HI.
Qed.

(* --- entry.item.value = task.value (setTask l.266) --- *)
Lemma Inv_setval s sp k p id e v due :
  Inv s sp -> timer k (timers s) = Some (p, id) -> item id (items s) = Some e ->
  alookup Nat.eqb k (sp_timers sp) = Some (e_val e, due) ->
  Inv (mkS (interval s) (slots s)
           (aset Nat.eqb id (mkE (e_key e) v (e_circle e) (e_diff e) (e_removed e)) (items s))
           (timers s) (ticked s) (next_id s))
      (mkSp (sp_T sp) (aset Nat.eqb k (v, due) (sp_timers sp))).
Proof.
  intros HI Et He Hsp.
  destruct (i_B _ _ HI k p id Et) as (Hp & Hin & e0 & He0 & Hk & Hl & Hd & Hsp0).
  rewrite He in He0. inversion He0; subst e0. clear He0.
  constructor; unfold nslots in *; psimpl.
  - apply (i_N _ _ HI).
  - apply (i_t _ _ HI).
  - intros k' p' id' Ht'.
    destruct (i_B _ _ HI k' p' id' Ht') as (Hp' & Hin' & e' & He' & Hk' & Hl' & Hd' & Hsp').
    split; [assumption|]. split; [assumption|]. unfold item. rewrite al_aset, al_aset.
    destruct (Nat.eqb_spec id' id) as [->|Hni].
    + rewrite He in He'. inversion He'; subst e'. rewrite Hk in Hk'. subst k'. rewrite Nat.eqb_refl.
      eexists. split; [reflexivity|]. psimpl. repeat split; try assumption.
      rewrite Hsp0 in Hsp. inversion Hsp. subst due. rewrite Et in Ht'. inversion Ht'; subst. reflexivity.
    + exists e'. destruct (Nat.eqb_spec k' k) as [->|Hnk].
      * rewrite Et in Ht'. inversion Ht'; subst. congruence.
      * repeat split; assumption.
  - intros p' id' Hp' Hin'. destruct (i_C _ _ HI p' id' Hp' Hin') as (e' & He' & Ht').
    unfold item. rewrite al_aset. destruct (Nat.eqb_spec id' id) as [->|Hni].
    + eexists. split; [reflexivity|]. psimpl. rewrite He in He'. inversion He'; subst e'. exact Ht'.
    + exists e'. split; assumption.
  - apply (i_D _ _ HI).
  - intros id' e'. unfold item. rewrite al_aset. destruct (Nat.eqb_spec id' id) as [->|Hni].
    + intros _. eapply (i_E _ _ HI); eauto.
    + apply (i_E _ _ HI).
  - intros k'. rewrite al_aset. destruct (Nat.eqb_spec k' k) as [->|Hnk].
    + intros _. unfold timer in Et. unfold timer. congruence.
    + apply (i_F _ _ HI).
  - apply aset_NoDup. apply (i_G _ _ HI).
Qed.

(* --- moveTask with delay >= interval --- *)
Lemma steps_ge_1 I d : (Z.pos I <= d)%Z -> 1 <= steps_of I d.
Proof.
  intro H. unfold steps_of. assert (1 <= d / Z.pos I)%Z; [|lia].
  apply Z.div_le_lower_bound; lia.
Qed.

Lemma Inv_move s sp k d : Inv s sp -> (Z.pos (interval s) <= d)%Z ->
  Inv (fst (move_task k d s)) (fst (sstep sp (SMove k (steps_of (interval s) d)))) /\ snd (move_task k d s) = [].
Proof.
  intros HI Hd. unfold move_task. cbn [sstep].
  destruct (timer k (timers s)) as [[p id]|] eqn:Et.
  2:{ rewrite (inv_spec_none _ _ k HI Et). split; [exact HI|reflexivity]. }
  destruct (i_B _ _ HI k p id Et) as (Hp & Hin & e & He & Hk & Hl & Hdf & Hsp).
  rewrite He, Hsp. destruct (Z.ltb_spec d (Z.pos (interval s))) as [?|_]; [lia|].
  pose proof (steps_ge_1 _ _ Hd) as Hs. set (steps := steps_of (interval s) d) in *.
  pose proof (i_N _ _ HI) as HN. pose proof (i_t _ _ HI) as Ht.
  fold (ahead (nslots s) (ticked s) p).
  pose proof (ahead_range (nslots s) (ticked s) p HN) as Hah.
  set (N := nslots s) in *. set (ah := ahead N (ticked s) p) in *.
  destruct (Nat.leb_spec ah steps) as [Hle|Hlt]; cbn [fst snd]; (split; [|reflexivity]).
  - (* in place *)
    constructor; unfold nslots in *; psimpl; fold N.
    + exact HN.
    + exact Ht.
    + intros k' p' id' Ht'.
      destruct (i_B _ _ HI k' p' id' Ht') as (Hp' & Hin' & e' & He' & Hk' & Hl' & Hd' & Hsp').
      split; [assumption|]. split; [assumption|]. unfold item. rewrite al_aset, al_aset.
      destruct (Nat.eqb_spec id' id) as [->|Hni].
      * rewrite He in He'. inversion He'; subst e'. rewrite Hk in Hk'. subst k'. rewrite Nat.eqb_refl.
        rewrite Et in Ht'. inversion Ht'; subst p'.
        eexists. split; [reflexivity|]. psimpl. repeat split; try assumption.
        -- apply Nat.mod_upper_bound. lia.
        -- do 2 f_equal. fold N. fold ah. pose proof (Nat.div_mod (steps - ah) N ltac:(lia)). lia.
      * exists e'. destruct (Nat.eqb_spec k' k) as [->|Hnk].
        -- rewrite Et in Ht'. inversion Ht'; subst. congruence.
        -- repeat split; assumption.
    + intros p' id' Hp' Hin'. destruct (i_C _ _ HI p' id' Hp' Hin') as (e' & He' & Ht').
      unfold item. rewrite al_aset. destruct (Nat.eqb_spec id' id) as [->|Hni].
      * eexists. split; [reflexivity|]. psimpl. rewrite He in He'. inversion He'; subst e'. exact Ht'.
      * exists e'. split; assumption.
    + apply (i_D _ _ HI).
    + intros id' e'. unfold item. rewrite al_aset. destruct (Nat.eqb_spec id' id) as [->|Hni].
      * intros _. eapply (i_E _ _ HI); eauto.
      * apply (i_E _ _ HI).
    + intros k'. rewrite al_aset. destruct (Nat.eqb_spec k' k) as [->|Hnk].
      * intros _. unfold timer in *. congruence.
      * apply (i_F _ _ HI).
    + apply aset_NoDup. apply (i_G _ _ HI).
  - (* tombstone + fresh entry at pos *)
    unfold pos_circle; cbn [fst]. fold N. set (pos := (ticked s + steps) mod N).
    assert (Hpos : pos < N) by (apply Nat.mod_upper_bound; lia).
    assert (Hahp : ahead N (ticked s) pos = steps).
    { unfold pos. rewrite ahead_pos by lia. rewrite Nat.mod_small by lia. lia. }
    assert (Hfresh : forall q x, q < N -> In x (slot q (slots s)) -> x < next_id s)
      by (intros q x Hq Hx; eapply inv_slot_fresh; eauto).
    constructor; unfold nslots in *; psimpl; rewrite ?push_length; fold N.
    + exact HN.
    + exact Ht.
    + intros k' p' id' Ht'. unfold timer, set_timer_position in Ht'. rewrite al_aset in Ht'.
      destruct (Nat.eqb_spec k' k) as [->|Hnk].
      * inversion Ht'; subst p' id'. split; [assumption|]. split; [apply in_slot_push; [fold N; lia|auto]|].
        eexists. unfold item. rewrite al_cons, Nat.eqb_refl. split; [reflexivity|]. psimpl.
        repeat split; try lia. rewrite al_aset, Nat.eqb_refl. do 2 f_equal. lia.
      * destruct (i_B _ _ HI k' p' id' Ht') as (Hp' & Hin' & e' & He' & Hk' & Hl' & Hd' & Hsp').
        split; [assumption|]. split; [apply in_slot_push; [fold N; lia|auto]|].
        exists e'. unfold item. rewrite al_cons, al_aset, al_aset.
        pose proof (i_E _ _ HI _ _ He').
        destruct (Nat.eqb_spec id' (next_id s)); [lia|].
        destruct (Nat.eqb_spec id' id) as [->|Hni]; [rewrite He in He'; inversion He'; subst e'; congruence|].
        destruct (Nat.eqb_spec k' k); [congruence|]. repeat split; assumption.
    + intros p' id' Hp' Hin'. apply in_slot_push in Hin'; [|fold N; lia].
      unfold item. rewrite al_cons, al_aset. destruct Hin' as [Hin'|[-> ->]].
      * pose proof (Hfresh _ _ Hp' Hin'). destruct (Nat.eqb_spec id' (next_id s)); [lia|].
        destruct (i_C _ _ HI p' id' Hp' Hin') as (e' & He' & Ht').
        destruct (Nat.eqb_spec id' id) as [->|Hni].
        -- eexists. split; [reflexivity|]. psimpl. discriminate.
        -- exists e'. split; [assumption|]. intro Hl'. specialize (Ht' Hl').
           unfold timer, set_timer_position. rewrite al_aset.
           destruct (Nat.eqb_spec (e_key e') k) as [E|E]; [|assumption].
           rewrite E, Et in Ht'. congruence.
      * rewrite Nat.eqb_refl. eexists. split; [reflexivity|]. psimpl. intros _.
        unfold timer, set_timer_position. rewrite al_aset, Nat.eqb_refl. reflexivity.
    + eapply Permutation_NoDup; [symmetry; apply concat_push_perm; fold N; lia|].
      constructor; [|apply (i_D _ _ HI)]. intro Hin'. apply in_concat_slot in Hin' as (q & Hq & Hx).
      pose proof (Hfresh q _ Hq Hx). lia.
    + intros id' e'. unfold item. rewrite al_cons, al_aset.
      destruct (Nat.eqb_spec id' (next_id s)); [lia|].
      destruct (Nat.eqb_spec id' id) as [->|Hni].
      * intros _. pose proof (i_E _ _ HI _ _ He). lia.
      * intro H. pose proof (i_E _ _ HI _ _ H). lia.
    + intros k'. rewrite al_aset. unfold timer, set_timer_position. rewrite al_aset.
      destruct (Nat.eqb_spec k' k) as [->|Hnk]; [discriminate|]. apply (i_F _ _ HI).
    + apply aset_NoDup. apply (i_G _ _ HI).
Qed.

(* --- setTask --- *)
Definition clamp (I : positive) (d : Z) : Z := if (d <? Z.pos I)%Z then Z.pos I else d.

Lemma clamp_ge I d : (Z.pos I <= clamp I d)%Z.
Proof. unfold clamp. destruct (Z.ltb_spec d (Z.pos I)); lia. Qed.

Lemma Inv_set s sp k v d : Inv s sp ->
  Inv (set_task k v d s) (fst (sstep sp (SSet k v (steps_of (interval s) (clamp (interval s) d))))).
Proof.
  intros HI. unfold set_task. fold (clamp (interval s) d). cbn [sstep fst].
  pose proof (clamp_ge (interval s) d) as Hd. set (d' := clamp (interval s) d) in *.
  pose proof (steps_ge_1 _ _ Hd) as Hs. set (steps := steps_of (interval s) d') in *.
  pose proof (i_N _ _ HI) as HN. pose proof (i_t _ _ HI) as Ht.
  destruct (timer k (timers s)) as [[p id]|] eqn:Et.
  - destruct (i_B _ _ HI k p id Et) as (Hp & Hin & e & He & Hk & Hl & Hdf & Hsp). rewrite He.
    pose proof (Inv_setval s sp k p id e v _ HI Et He Hsp) as HI1.
    set (s1 := mkS _ _ _ _ _ _) in *.
    destruct (Inv_move s1 _ k d' HI1 Hd) as [HI2 _].
    cbn [sstep sp_timers sp_T fst] in HI2. rewrite al_aset, Nat.eqb_refl in HI2. rewrite aset_aset in HI2.
    exact HI2.
  - unfold pos_circle; cbn [fst snd]. set (N := nslots s) in *. set (pos := (ticked s + steps) mod N).
    assert (Hpos : pos < N) by (apply Nat.mod_upper_bound; lia).
    assert (Hfresh : forall q x, q < N -> In x (slot q (slots s)) -> x < next_id s)
      by (intros q x Hq Hx; eapply inv_slot_fresh; eauto).
    constructor; unfold nslots in *; psimpl; rewrite ?push_length; fold N.
    + exact HN.
    + exact Ht.
    + intros k' p' id' Ht'. unfold timer, set_timer_position in Ht'. rewrite al_aset in Ht'.
      destruct (Nat.eqb_spec k' k) as [->|Hnk].
      * inversion Ht'; subst p' id'. split; [assumption|]. split; [apply in_slot_push; [fold N; lia|auto]|].
        eexists. unfold item. rewrite al_cons, Nat.eqb_refl. split; [reflexivity|]. psimpl.
        repeat split; try lia. rewrite al_aset, Nat.eqb_refl. do 2 f_equal.
        pose proof (set_arith N (ticked s) steps HN Ht Hs). fold pos in H. lia.
      * destruct (i_B _ _ HI k' p' id' Ht') as (Hp' & Hin' & e' & He' & Hk' & Hl' & Hd' & Hsp').
        split; [assumption|]. split; [apply in_slot_push; [fold N; lia|auto]|].
        exists e'. unfold item. rewrite al_cons, al_aset.
        pose proof (i_E _ _ HI _ _ He').
        destruct (Nat.eqb_spec id' (next_id s)); [lia|].
        destruct (Nat.eqb_spec k' k); [congruence|]. repeat split; assumption.
    + intros p' id' Hp' Hin'. apply in_slot_push in Hin'; [|fold N; lia].
      unfold item. rewrite al_cons. destruct Hin' as [Hin'|[-> ->]].
      * pose proof (Hfresh _ _ Hp' Hin'). destruct (Nat.eqb_spec id' (next_id s)); [lia|].
        destruct (i_C _ _ HI p' id' Hp' Hin') as (e' & He' & Ht').
        exists e'. split; [assumption|]. intro Hl'. specialize (Ht' Hl').
        unfold timer, set_timer_position. rewrite al_aset.
        destruct (Nat.eqb_spec (e_key e') k) as [E|E]; [|assumption].
        rewrite E, Et in Ht'. congruence.
      * rewrite Nat.eqb_refl. eexists. split; [reflexivity|]. psimpl. intros _.
        unfold timer, set_timer_position. rewrite al_aset, Nat.eqb_refl. reflexivity.
    + eapply Permutation_NoDup; [symmetry; apply concat_push_perm; fold N; lia|].
      constructor; [|apply (i_D _ _ HI)]. intro Hin'. apply in_concat_slot in Hin' as (q & Hq & Hx).
      pose proof (Hfresh q _ Hq Hx). lia.
    + intros id' e'. unfold item. rewrite al_cons.
      destruct (Nat.eqb_spec id' (next_id s)); [lia|].
      intro H. pose proof (i_E _ _ HI _ _ H). lia.
    + intros k'. rewrite al_aset. unfold timer, set_timer_position. rewrite al_aset.
      destruct (Nat.eqb_spec k' k) as [->|Hnk]; [discriminate|]. apply (i_F _ _ HI).
    + apply aset_NoDup. apply (i_G _ _ HI).
Qed.

(* --- onTick: loop invariant of scanAndRunTasks --- *)
(* tp = tickedPos after the increment, T' = T + 1, pend = elements of the scanned list not yet
   visited; sp is the abstract state BEFORE the tick *)
Record LI (N tp T' : nat) (pend : list nat) (a : sacc) (nid : nat) (sp : list (nat * (nat * nat))) : Prop := mkLI {
  l_len : length (a_slots a) = N;
  l_N : 0 < N;
  l_tp : tp < N;
  l_B : forall k p id, timer k (a_timers a) = Some (p, id) ->
        p < N /\ exists e, item id (a_items a) = Some e /\ e_key e = k /\ e_removed e = false /\ e_diff e < N /\
          exists due, alookup Nat.eqb k sp = Some (e_val e, due) /\
            (((In id (slot p (a_slots a)) \/ (p = tp /\ In id (a_kept a))) /\
              due = T' + ahead N tp p + e_circle e * N + e_diff e) \/
             (p = tp /\ In id pend /\ due = T' + e_circle e * N + e_diff e));
  l_C : forall p id, p < N ->
        In id (slot p (a_slots a)) \/ (p = tp /\ (In id (a_kept a) \/ In id pend)) ->
        exists e, item id (a_items a) = Some e /\ (e_removed e = false -> timer (e_key e) (a_timers a) = Some (p, id));
  l_D : NoDup (pend ++ a_kept a ++ concat (a_slots a));
  l_E : forall id e, item id (a_items a) = Some e -> id < nid;
  l_empty : slot tp (a_slots a) = [];
  l_F : forall k v due, alookup Nat.eqb k sp = Some (v, due) ->
        timer k (a_timers a) <> None \/ (due = T' /\ In (k, v) (a_fired a));
  l_K : forall k v, In (k, v) (a_fired a) -> alookup Nat.eqb k sp = Some (v, T') /\ timer k (a_timers a) = None;
  l_Kd : NoDup (map fst (a_fired a))
}.

Lemma LI_start s sp : Inv s sp ->
  let N := nslots s in let tp := (ticked s + 1) mod N in
  LI N tp (S (sp_T sp)) (slot tp (slots s))
     (mkA (upd tp (fun _ => []) (slots s)) (items s) (timers s) [] []) (next_id s) (sp_timers sp).
Proof.
  intros HI N tp. pose proof (i_N _ _ HI) as HN. pose proof (i_t _ _ HI) as Ht. fold N in HN, Ht.
  assert (Htp : tp < N) by (apply Nat.mod_upper_bound; lia).
  constructor; psimpl.
  - rewrite upd_length. reflexivity.
  - exact HN.
  - exact Htp.
  - intros k p id Et. destruct (i_B _ _ HI k p id Et) as (Hp & Hin & e & He & Hk & Hl & Hdf & Hsp).
    fold N in Hp, Hdf, Hsp. split; [assumption|]. exists e. repeat split; try assumption.
    eexists. split; [exact Hsp|]. destruct (Nat.eq_dec p tp) as [->|Hne].
    + right. repeat split; [assumption|]. unfold tp at 1. rewrite ahead_next by assumption. lia.
    + left. split; [left; rewrite slot_upd_neq by auto; assumption|].
      rewrite (ahead_step N (ticked s) p) by assumption. fold tp. lia.
  - intros p id Hp Hin. assert (Hin' : In id (slot p (slots s))).
    { destruct Hin as [Hin|[-> [[]|Hin]]]; [|assumption].
      destruct (Nat.eq_dec tp p) as [->|Hne]; [rewrite slot_upd_eq in Hin by (change (length (slots s)) with N; lia); destruct Hin|].
      rewrite slot_upd_neq in Hin by assumption. assumption. }
    apply (i_C _ _ HI p id Hp Hin').
  - simpl. eapply Permutation_NoDup; [apply concat_take_perm; change (length (slots s)) with N; eassumption|]. apply (i_D _ _ HI).
  - apply (i_E _ _ HI).
  - apply slot_upd_eq. change (length (slots s)) with N. lia.
  - intros k v due Hsp. left. apply (i_F _ _ HI). congruence.
  - intros k v [].
  - constructor.
Qed.

Lemma NoDup_app_l {A} (l1 l2 : list A) : NoDup (l1 ++ l2) -> NoDup l1.
Proof. induction l1; simpl; intro H; [constructor|]. inversion H; subst. constructor; [rewrite in_app_iff in *; tauto|auto]. Qed.
Lemma NoDup_app_r {A} (l1 l2 : list A) : NoDup (l1 ++ l2) -> NoDup l2.
Proof. induction l1; simpl; intro H; [assumption|]. inversion H; subst. auto. Qed.
Lemma NoDup_app_disj {A} (l1 l2 : list A) x : NoDup (l1 ++ l2) -> In x l1 -> In x l2 -> False.
Proof. induction l1; simpl; intros H H1 H2; [tauto|]. inversion H; subst. destruct H1 as [->|H1]; [rewrite in_app_iff in *; tauto|auto]. Qed.

Lemma perm_mid3 {A} (x : A) l1 l2 l3 : Permutation (x :: l1 ++ l2 ++ l3) (l1 ++ l2 ++ x :: l3).
Proof. rewrite (app_assoc l1 l2 (x :: l3)). apply Permutation_cons_app. rewrite app_assoc. reflexivity. Qed.

Lemma LI_step N tp T' id pend a nid sp : NoDup (map fst sp) ->
  LI N tp T' (id :: pend) a nid sp -> LI N tp T' pend (scan_one N tp a id) nid sp.
Proof.
  intros HG L. pose proof (l_N _ _ _ _ _ _ _ L) as HN. pose proof (l_tp _ _ _ _ _ _ _ L) as Htp.
  pose proof (l_D _ _ _ _ _ _ _ L) as HD. simpl in HD. inversion HD as [|? ? Hnin HD']; subst.
  rewrite !in_app_iff in Hnin.
  destruct (l_C _ _ _ _ _ _ _ L tp id Htp) as (e & He & Hlive); [right; split; [reflexivity|right; left; reflexivity]|].
  unfold scan_one. rewrite He. destruct (e_removed e) eqn:Hrem.
  { (* tombstone dropped *)
    constructor; try (apply L).
    - intros k p id' Et. destruct (l_B _ _ _ _ _ _ _ L k p id' Et) as (Hp & e' & He' & Hk & Hl & Hdf & due & Hsp & Hcase).
      split; [assumption|]. exists e'. repeat split; try assumption. exists due. split; [assumption|].
      destruct Hcase as [Hc|(-> & [->|Hin] & Hdue)]; [left; assumption | congruence | right; auto].
    - intros p id' Hp Hin. apply (l_C _ _ _ _ _ _ _ L p id' Hp). simpl. tauto.
    - assumption. }
  assert (Ht : timer (e_key e) (a_timers a) = Some (tp, id)) by (apply Hlive; reflexivity).
  destruct (l_B _ _ _ _ _ _ _ L _ _ _ Ht) as (_ & e0 & He0 & _ & _ & Hdf & due & Hsp & Hcase).
  rewrite He in He0. inversion He0; subst e0. clear He0.
  assert (Hdue : due = T' + e_circle e * N + e_diff e).
  { destruct Hcase as [[[Hin|[_ Hin]] _]|(_ & _ & H)]; [| |exact H].
    - rewrite (l_empty _ _ _ _ _ _ _ L) in Hin. destruct Hin.
    - tauto. }
  clear Hcase.
  assert (Hkeys : forall k p id', timer k (a_timers a) = Some (p, id') -> k <> e_key e -> id' <> id).
  { intros k p id' Et Hne ->. destruct (l_B _ _ _ _ _ _ _ L k p id Et) as (_ & e' & He' & Hk & _). congruence. }
  destruct (Nat.ltb_spec 0 (e_circle e)) as [Hc|Hc].
  { (* circle-- , stays *)
    constructor; psimpl; try (apply L).
    - intros k p id' Et. destruct (l_B _ _ _ _ _ _ _ L k p id' Et) as (Hp & e' & He' & Hk & Hl & Hdf' & due' & Hsp' & Hcase).
      split; [assumption|]. unfold item. rewrite al_aset. destruct (Nat.eqb_spec id' id) as [->|Hni].
      + rewrite He in He'. inversion He'; subst e'. rewrite Hk in Ht. rewrite Et in Ht. inversion Ht; subst p.
        eexists. split; [reflexivity|]. psimpl. repeat split; try assumption. exists due'. split; [assumption|].
        left. split; [right; split; [reflexivity|apply in_app_iff; simpl; auto]|].
        rewrite ahead_self by assumption. rewrite Hk in Hsp. rewrite Hsp in Hsp'. inversion Hsp'; subst due'.
        rewrite Hdue. nia.
      + exists e'. repeat split; try assumption. exists due'. split; [assumption|].
        destruct Hcase as [[[Hin|[-> Hin]] Hd]|(-> & [->|Hin] & Hd)]; [left; auto | | congruence | right; auto].
        left. split; [right; split; [reflexivity|apply in_app_iff; auto]|assumption].
    - intros p id' Hp Hin. unfold item. rewrite al_aset. destruct (Nat.eqb_spec id' id) as [->|Hni].
      + eexists. split; [reflexivity|]. psimpl. intros _.
        assert (p = tp); [|subst; assumption].
        destruct Hin as [Hin|[-> _]]; [|reflexivity]. exfalso. apply Hnin. right. right.
        apply in_concat_slot. exists p. rewrite (l_len _ _ _ _ _ _ _ L). auto.
      + apply (l_C _ _ _ _ _ _ _ L p id' Hp). rewrite in_app_iff in Hin. simpl in *. intuition congruence.
    - eapply Permutation_NoDup; [|exact HD]. rewrite <- app_assoc. simpl. apply perm_mid3.
    - intros id' e'. unfold item. rewrite al_aset. destruct (Nat.eqb_spec id' id) as [->|Hni].
      + intros _. eapply (l_E _ _ _ _ _ _ _ L); eauto.
      + apply (l_E _ _ _ _ _ _ _ L). }
  destruct (Nat.ltb_spec 0 (e_diff e)) as [Hdz|Hdz].
  { (* relocate to (tp + diff) mod N *)
    set (pos := (tp + e_diff e) mod N).
    assert (Hpos : pos < N) by (apply Nat.mod_upper_bound; lia).
    assert (Hpne : pos <> tp) by (apply small_shift_neq; lia).
    assert (Hah : ahead N tp pos = e_diff e).
    { unfold pos. rewrite ahead_pos by lia. rewrite Nat.mod_small by lia. lia. }
    pose proof (l_len _ _ _ _ _ _ _ L) as Hlen.
    constructor; psimpl; rewrite ?push_length; try (apply L).
    - intros k p id' Et. unfold timer, set_timer_position in Et. rewrite al_aset in Et.
      unfold item. rewrite al_aset. destruct (Nat.eqb_spec k (e_key e)) as [->|Hnk].
      + inversion Et; subst p id'. split; [assumption|]. rewrite Nat.eqb_refl.
        eexists. split; [reflexivity|]. psimpl. repeat split; try assumption; try lia.
        exists due. split; [assumption|]. left. split; [left; apply in_slot_push; [lia|auto]|]. lia.
      + destruct (l_B _ _ _ _ _ _ _ L k p id' Et) as (Hp & e' & He' & Hk & Hl & Hdf' & due' & Hsp' & Hcase).
        split; [assumption|]. pose proof (Hkeys _ _ _ Et Hnk). destruct (Nat.eqb_spec id' id); [congruence|].
        exists e'. repeat split; try assumption. exists due'. split; [assumption|].
        destruct Hcase as [[[Hin|[-> Hin]] Hd]|(-> & [->|Hin] & Hd)]; [left | left; auto | congruence | right; auto].
        split; [left; apply in_slot_push; [lia|auto]|assumption].
    - intros p id' Hp Hin. unfold item. rewrite al_aset. destruct (Nat.eqb_spec id' id) as [->|Hni].
      + eexists. split; [reflexivity|]. psimpl. intros _. unfold timer, set_timer_position. rewrite al_aset, Nat.eqb_refl.
        assert (p = pos); [|subst; reflexivity].
        destruct Hin as [Hin|[-> [Hin|Hin]]]; [| tauto | exfalso; inversion HD; subst; rewrite in_app_iff in *; tauto].
        apply in_slot_push in Hin as [Hin|[-> _]]; [|reflexivity|lia].
        exfalso. apply Hnin. right. right. apply in_concat_slot. exists p. rewrite Hlen. auto.
      + assert (Hin' : In id' (slot p (a_slots a)) \/ p = tp /\ (In id' (a_kept a) \/ In id' (id :: pend))).
        { destruct Hin as [Hin|Hin]; [|simpl; tauto]. apply in_slot_push in Hin as [Hin|[_ ->]]; [auto|congruence|lia]. }
        destruct (l_C _ _ _ _ _ _ _ L p id' Hp Hin') as (e' & He' & Ht').
        exists e'. split; [assumption|]. intro Hl'. specialize (Ht' Hl').
        unfold timer, set_timer_position. rewrite al_aset. destruct (Nat.eqb_spec (e_key e') (e_key e)) as [E|E]; [|assumption].
        rewrite E, Ht in Ht'. congruence.
    - eapply Permutation_NoDup; [|exact HD].
      rewrite (concat_push_perm pos id (a_slots a)) by lia. apply perm_mid3.
    - intros id' e'. unfold item. rewrite al_aset. destruct (Nat.eqb_spec id' id) as [->|Hni].
      + intros _. eapply (l_E _ _ _ _ _ _ _ L); eauto.
      + apply (l_E _ _ _ _ _ _ _ L).
    - unfold push. rewrite slot_upd_neq by assumption. apply L.
    - intros k v due' Hsp'. destruct (l_F _ _ _ _ _ _ _ L k v due' Hsp') as [Hn|Hf]; [left|right; assumption].
      unfold timer, set_timer_position. rewrite al_aset. destruct (k =? e_key e); [discriminate|assumption].
    - intros k v Hin. destruct (l_K _ _ _ _ _ _ _ L k v Hin) as [H1 H2]. split; [assumption|].
      unfold timer, set_timer_position. rewrite al_aset. destruct (Nat.eqb_spec k (e_key e)) as [->|]; [congruence|assumption]. }
  (* fire *)
  assert (Hc0 : e_circle e = 0) by lia. assert (Hd0 : e_diff e = 0) by lia.
  assert (HdueT : due = T') by (rewrite Hdue, Hc0, Hd0; lia).
  constructor; psimpl; try (apply L).
  - intros k p id' Et. unfold timer in Et. rewrite al_aremove in Et.
    destruct (Nat.eqb_spec k (e_key e)) as [->|Hnk]; [discriminate|].
    destruct (l_B _ _ _ _ _ _ _ L k p id' Et) as (Hp & e' & He' & Hk & Hl & Hdf' & due' & Hsp' & Hcase).
    split; [assumption|]. exists e'. repeat split; try assumption. exists due'. split; [assumption|].
    pose proof (Hkeys _ _ _ Et Hnk).
    destruct Hcase as [Hc'|(-> & [->|Hin] & Hd)]; [left; assumption | congruence | right; auto].
  - intros p id' Hp Hin.
    assert (Hin' : In id' (slot p (a_slots a)) \/ p = tp /\ (In id' (a_kept a) \/ In id' (id :: pend))) by (simpl; tauto).
    destruct (l_C _ _ _ _ _ _ _ L p id' Hp Hin') as (e' & He' & Ht').
    exists e'. split; [assumption|]. intro Hl'. specialize (Ht' Hl').
    unfold timer. rewrite al_aremove. destruct (Nat.eqb_spec (e_key e') (e_key e)) as [E|E]; [|assumption].
    exfalso. rewrite E, Ht in Ht'. inversion Ht'; subst p id'.
    destruct Hin as [Hin|[_ [Hin|Hin]]].
    + rewrite (l_empty _ _ _ _ _ _ _ L) in Hin. destruct Hin.
    + tauto.
    + tauto.
  - assumption.
  - intros k v due' Hsp'. destruct (Nat.eq_dec k (e_key e)) as [->|Hnk].
    + right. rewrite Hsp in Hsp'. inversion Hsp'; subst. split; [assumption|]. apply in_app_iff. simpl. auto.
    + destruct (l_F _ _ _ _ _ _ _ L k v due' Hsp') as [Hn|[Hf1 Hf2]]; [left|right; split; [assumption|apply in_app_iff; auto]].
      unfold timer. rewrite al_aremove. destruct (Nat.eqb_spec k (e_key e)); [congruence|assumption].
  - intros k v Hin. apply in_app_iff in Hin as [Hin|[E|[]]].
    + destruct (l_K _ _ _ _ _ _ _ L k v Hin) as [H1 H2]. split; [assumption|].
      unfold timer. rewrite al_aremove. destruct (k =? e_key e); [reflexivity|assumption].
    + inversion E; subst. split; [rewrite Hsp; do 2 f_equal; lia|]. unfold timer. rewrite al_aremove, Nat.eqb_refl. reflexivity.
  - rewrite map_app. simpl. eapply Permutation_NoDup; [apply Permutation_cons_append|].
    constructor; [|apply L]. intro Hin. apply in_map_iff in Hin as [[k v] [E Hin]]. simpl in E; subst k.
    destruct (l_K _ _ _ _ _ _ _ L _ _ Hin) as [_ H2]. congruence.
Qed.

Lemma LI_fold N tp T' l a nid sp : NoDup (map fst sp) ->
  LI N tp T' l a nid sp -> LI N tp T' [] (fold_left (scan_one N tp) l a) nid sp.
Proof.
  intro HG. revert a. induction l as [|id l IH]; intros a L; simpl; [assumption|].
  apply IH. apply LI_step; assumption.
Qed.

Lemma on_tick_eq s a1 :
  let N := nslots s in let tp := (ticked s + 1) mod N in
  a1 = fold_left (scan_one N tp) (slot tp (slots s)) (mkA (upd tp (fun _ => []) (slots s)) (items s) (timers s) [] []) ->
  slot tp (a_slots a1) = [] -> tp < length (a_slots a1) ->
  on_tick s = (mkS (interval s) (upd tp (fun r => a_kept a1 ++ r) (a_slots a1)) (a_items a1) (a_timers a1) tp (next_id s),
               a_fired a1).
Proof.
  intros N tp E Hempty Hlen. unfold on_tick. fold N. fold tp. rewrite <- E. rewrite Hempty. simpl.
  rewrite (upd_same tp [] (a_slots a1) []) by assumption. reflexivity.
Qed.

Lemma Inv_tick s sp : Inv s sp ->
  Inv (fst (on_tick s)) (fst (sstep sp STick)) /\ Permutation (snd (on_tick s)) (snd (sstep sp STick)).
Proof.
  intro HI. pose proof (LI_start s sp HI) as L0. cbv zeta in L0.
  set (N := nslots s) in *. set (tp := (ticked s + 1) mod N) in *.
  pose proof (i_G _ _ HI) as HG.
  apply (LI_fold _ _ _ _ _ _ _ HG) in L0.
  set (a1 := fold_left (scan_one N tp) (slot tp (slots s)) _) in *.
  pose proof (l_len _ _ _ _ _ _ _ L0) as Hlen. pose proof (l_N _ _ _ _ _ _ _ L0) as HN.
  pose proof (l_tp _ _ _ _ _ _ _ L0) as Htp. pose proof (l_empty _ _ _ _ _ _ _ L0) as Hempty.
  rewrite (on_tick_eq s a1 eq_refl Hempty) by (rewrite Hlen; exact Htp).
  fold N. fold tp. cbn [sstep fst snd]. set (T' := S (sp_T sp)) in *.
  assert (Hdue : forall k p id, timer k (a_timers a1) = Some (p, id) ->
            exists v due, alookup Nat.eqb k (sp_timers sp) = Some (v, due) /\ T' < due).
  { intros k p id Et. destruct (l_B _ _ _ _ _ _ _ L0 k p id Et) as (Hp & e & He & Hk & Hl & Hdf & due & Hsp & Hcase).
    exists (e_val e), due. split; [assumption|]. destruct Hcase as [[_ Hd]|(_ & [] & _)].
    pose proof (ahead_range N tp p HN). lia. }
  split.
  - constructor; unfold nslots; psimpl; rewrite ?upd_length, ?Hlen.
    + exact HN.
    + exact Htp.
    + intros k p id Et. destruct (l_B _ _ _ _ _ _ _ L0 k p id Et) as (Hp & e & He & Hk & Hl & Hdf & due & Hsp & Hcase).
      destruct Hcase as [[Hin Hd]|(_ & [] & _)].
      split; [assumption|]. split.
      * destruct (Nat.eq_dec p tp) as [->|Hne].
        -- rewrite slot_upd_eq by lia. rewrite Hempty, app_nil_r. destruct Hin as [Hin|[_ Hin]]; [rewrite Hempty in Hin; destruct Hin|assumption].
        -- rewrite slot_upd_neq by auto. destruct Hin as [Hin|[? _]]; [assumption|congruence].
      * exists e. repeat split; try assumption. rewrite (al_filter _ _ _ HG), Hsp.
        unfold due_now. cbn [snd fst]. pose proof (ahead_range N tp p HN).
        destruct (Nat.eqb_spec due T'); [lia|]. simpl. rewrite Hd. reflexivity.
    + intros p id Hp Hin. apply (l_C _ _ _ _ _ _ _ L0 p id Hp).
      destruct (Nat.eq_dec p tp) as [->|Hne].
      * rewrite slot_upd_eq in Hin by lia. rewrite Hempty, app_nil_r in Hin. right. auto.
      * rewrite slot_upd_neq in Hin by auto. left. assumption.
    + pose proof (l_D _ _ _ _ _ _ _ L0) as HD. simpl in HD.
      eapply Permutation_NoDup; [|exact HD]. symmetry.
      rewrite (concat_upd_perm tp _ (a_slots a1)) by lia. rewrite Hempty, app_nil_r.
      rewrite (upd_same tp [] (a_slots a1) []) by (try assumption; lia). reflexivity.
    + apply (l_E _ _ _ _ _ _ _ L0).
    + intros k Hk. destruct (alookup Nat.eqb k (sp_timers sp)) as [[v due]|] eqn:Hsp.
      * rewrite (al_filter _ _ _ HG), Hsp in Hk. unfold due_now in Hk. cbn [snd fst] in Hk.
        destruct (l_F _ _ _ _ _ _ _ L0 k v due Hsp) as [Hn|[-> _]]; [assumption|].
        rewrite Nat.eqb_refl in Hk. simpl in Hk. congruence.
      * rewrite (al_filter _ _ _ HG), Hsp in Hk. congruence.
    + apply filter_keys_NoDup. assumption.
  - apply NoDup_Permutation.
    + pose proof (l_Kd _ _ _ _ _ _ _ L0) as H. apply NoDup_map_inv in H. assumption.
    + apply (NoDup_map_inv fst). rewrite map_map. unfold task_of. cbn [fst]. apply filter_keys_NoDup. assumption.
    + intros [k v]. split.
      * intro Hin. destruct (l_K _ _ _ _ _ _ _ L0 k v Hin) as [Hsp _]. apply al_In in Hsp.
        apply in_map_iff. exists (k, (v, T')). split; [reflexivity|]. apply filter_In. split; [assumption|].
        unfold due_now. cbn [snd]. apply Nat.eqb_refl.
      * intro Hin. apply in_map_iff in Hin as [[k' [v' due]] [E Hin]]. unfold task_of in E. cbn [fst snd] in E.
        inversion E; subst k' v'. apply filter_In in Hin as [Hin Hd]. unfold due_now in Hd. cbn [snd] in Hd.
        apply Nat.eqb_eq in Hd. subst due. apply (In_al _ _ _ HG) in Hin.
        destruct (l_F _ _ _ _ _ _ _ L0 k v T' Hin) as [Hn|[_ Hf]]; [|assumption].
        exfalso. destruct (timer k (a_timers a1)) as [[p id]|] eqn:Et; [|congruence].
        destruct (Hdue k p id Et) as (v2 & due2 & Hsp2 & Hlt). rewrite Hin in Hsp2. inversion Hsp2. lia.
Qed.

(* --- drainAll --- *)
Lemma drain_perm s sp : Inv s sp ->
  Permutation (snd (drain_all s)) (map task_of (sp_timers sp)).
Proof.
  intro HI. unfold drain_all; cbn [snd]. pose proof (i_G _ _ HI) as HG.
  assert (Hmem : forall id, In id (concat (slots s)) -> forall kv, In kv (drain_task (items s) id) ->
            exists p e, p < nslots s /\ In id (slot p (slots s)) /\ item id (items s) = Some e /\ e_removed e = false /\
                        kv = (e_key e, e_val e) /\ timer (e_key e) (timers s) = Some (p, id)).
  { intros id Hin kv Hkv. apply in_concat_slot in Hin as (p & Hp & Hin).
    destruct (i_C _ _ HI p id Hp Hin) as (e & He & Ht). unfold drain_task in Hkv. rewrite He in Hkv.
    destruct (e_removed e) eqn:Hr; [destruct Hkv|]. destruct Hkv as [<-|[]]. exists p, e. auto 10. }
  apply NoDup_Permutation.
  - apply (NoDup_map_inv fst).
    pose proof (i_D _ _ HI) as HD. revert HD Hmem. generalize (concat (slots s)) as ids.
    induction ids as [|id ids IH]; intros HD Hmem; simpl; [constructor|].
    inversion HD as [|? ? Hn HD']; subst. rewrite map_app.
    assert (IH' : NoDup (map fst (flat_map (drain_task (items s)) ids))) by (apply IH; [assumption|intros; apply Hmem; simpl; auto]).
    unfold drain_task at 1. destruct (item id (items s)) as [e|] eqn:He; [|assumption].
    destruct (e_removed e) eqn:Hr; [assumption|]. simpl. constructor; [|assumption].
    intro Hin. apply in_map_iff in Hin as [[k v] [E Hin]]. simpl in E; subst k.
    apply in_flat_map in Hin as (id' & Hid' & Hkv).
    destruct (Hmem id' (or_intror Hid') _ Hkv) as (p' & e' & _ & _ & He' & _ & E & Ht').
    inversion E as [[E1 E2]].
    destruct (Hmem id (or_introl eq_refl) (e_key e, e_val e)) as (p & e0 & _ & _ & He0 & _ & E0 & Ht0).
    { unfold drain_task. rewrite He, Hr. left. reflexivity. }
    inversion E0 as [[E3 E4]]. rewrite <- E3, E1, Ht' in Ht0. inversion Ht0; subst. contradiction.
  - apply (NoDup_map_inv fst). rewrite map_map. unfold task_of; cbn [fst]. assumption.
  - intros [k v]. split.
    + intro Hin. apply in_flat_map in Hin as (id & Hid & Hkv).
      destruct (Hmem id Hid _ Hkv) as (p & e & _ & _ & He & _ & E & Ht). inversion E; subst k v.
      destruct (i_B _ _ HI _ _ _ Ht) as (_ & _ & e' & He' & _ & _ & _ & Hsp). rewrite He in He'. inversion He'; subst e'.
      apply al_In in Hsp. apply in_map_iff. eexists. split; [|exact Hsp]. reflexivity.
    + intro Hin. apply in_map_iff in Hin as [[k' [v' due]] [E Hin]]. unfold task_of in E; cbn [fst snd] in E.
      inversion E; subst k' v'. apply (In_al _ _ _ HG) in Hin.
      destruct (timer k (timers s)) as [[p id]|] eqn:Et; [|exfalso; apply (i_F _ _ HI k); congruence].
      destruct (i_B _ _ HI _ _ _ Et) as (Hp & Hi & e & He & Hk & Hl & _ & Hsp). rewrite Hin in Hsp. inversion Hsp; subst.
      apply in_flat_map. exists id. split; [apply in_concat_slot; exists p; auto|].
      unfold drain_task. rewrite He, Hl. left. reflexivity.
Qed.

Definition all_empty (s : st) : Prop := Forall (fun l => l = []) (slots s).

Lemma upd_fix {A} p (f : A -> A) l : Forall (fun x => f x = x) l -> upd p f l = l.
Proof.
  revert p; induction l as [|x r IH]; intros [|p] H; try reflexivity; inversion H; subst; unfold upd; fold (@upd A).
  - congruence.
  - f_equal. auto.
Qed.

Lemma drain_all_empty s : all_empty (fst (drain_all s)).
Proof. unfold all_empty, drain_all; cbn [fst slots]. apply Forall_forall. intros l H. apply in_map_iff in H as [? [<- _]]. reflexivity. Qed.

Lemma all_empty_slot s p : all_empty s -> slot p (slots s) = [].
Proof.
  unfold all_empty, slot. intro H. destruct (nth_in_or_default p (slots s) []) as [Hin|E]; [|assumption].
  rewrite Forall_forall in H. apply H. assumption.
Qed.

Lemma tick_all_empty s : all_empty s ->
  on_tick s = (mkS (interval s) (slots s) (items s) (timers s) ((ticked s + 1) mod nslots s) (next_id s), []).
Proof.
  intro H. unfold on_tick. set (tp := (ticked s + 1) mod nslots s).
  rewrite (all_empty_slot s tp H). cbn [fold_left a_slots a_items a_timers a_kept a_fired].
  assert (E : upd tp (fun _ : list nat => []) (slots s) = slots s).
  { apply upd_fix. eapply Forall_impl; [|exact H]. intros l ->. reflexivity. }
  rewrite E. rewrite (all_empty_slot s tp H). cbn [fold_left a_slots a_items a_timers a_kept a_fired fst snd].
  rewrite E. rewrite upd_fix; [reflexivity|]. apply Forall_forall. intros; reflexivity.
Qed.

Lemma ticks_all_empty n : forall s, all_empty s -> 0 < nslots s ->
  exists s', run s (repeat OTick n) = Ok (s', repeat [] n).
Proof.
  induction n as [|n IH]; intros s He HN; simpl; [eauto|].
  unfold step. destruct (Nat.eqb_spec (nslots s) 0); [lia|]. cbn [andb step_ok].
  rewrite (tick_all_empty s He).
  destruct (IH (mkS (interval s) (slots s) (items s) (timers s) ((ticked s + 1) mod nslots s) (next_id s))) as (s' & Hr); [exact He|exact HN|].
  rewrite Hr. eauto.
Qed.

(* ---------- histories ---------- *)
Definition abs_op (I : positive) (o : op) : sop :=
  match o with
  | OSet k v d => SSet k v (steps_of I (clamp I d))
  | OMove k d => SMove k (steps_of I d)
  | ORemove k => SRemove k
  | OTick => STick
  | ODrain => SDrain
  end.

(* the histories of the property: MoveTimer delays are at least one interval; Drain is a shutdown
   operation and is treated separately *)
Definition valid_op (I : positive) (o : op) : Prop :=
  match o with
  | OMove _ d => (Z.pos I <= d)%Z
  | ODrain => False
  | _ => True
  end.

Lemma step_ok_interval s o : interval (fst (step_ok s o)) = interval s.
Proof.
  destruct o; cbn [step_ok fst]; try reflexivity.
  - unfold set_task. destruct (timer k (timers s)) as [[p id]|]; [|reflexivity].
    unfold move_task. cbn [timers items interval]. destruct (timer k (timers s)) as [[p' id']|]; [|reflexivity].
    destruct (item id' _); [|reflexivity]. destruct (_ <? _)%Z; [reflexivity|]. destruct (_ <=? _); reflexivity.
  - unfold move_task. destruct (timer k (timers s)) as [[p' id']|]; [|reflexivity].
    destruct (item id' _); [|reflexivity]. destruct (_ <? _)%Z; [reflexivity|]. destruct (_ <=? _); reflexivity.
  - unfold remove_task. destruct (timer k (timers s)) as [[p' id']|]; reflexivity.
Qed.

Lemma step_refines s sp o : Inv s sp -> valid_op (interval s) o ->
  step s o = Ok (step_ok s o) /\
  Inv (fst (step_ok s o)) (fst (sstep sp (abs_op (interval s) o))) /\
  Permutation (snd (step_ok s o)) (snd (sstep sp (abs_op (interval s) o))).
Proof.
  intros HI Hv. split.
  { unfold step. pose proof (i_N _ _ HI). destruct (Nat.eqb_spec (nslots s) 0); [lia|reflexivity]. }
  destruct o; cbn [step_ok abs_op fst snd valid_op] in *.
  - split; [apply Inv_set; assumption|reflexivity].
  - destruct (Inv_move s sp k d HI Hv) as [H1 H2]. split; [assumption|]. rewrite H2.
    cbn [sstep]. destruct (alookup Nat.eqb k (sp_timers sp)) as [[? ?]|]; reflexivity.
  - split; [apply Inv_remove; assumption|reflexivity].
  - apply Inv_tick. assumption.
  - destruct Hv.
Qed.

Lemma run_refines ops : forall s sp, Inv s sp -> Forall (valid_op (interval s)) ops ->
  exists s' outs, run s ops = Ok (s', outs) /\
    Forall2 (@Permutation _) outs (snd (srun sp (map (abs_op (interval s)) ops))) /\
    Inv s' (fst (srun sp (map (abs_op (interval s)) ops))) /\ interval s' = interval s.
Proof.
  induction ops as [|o ops IH]; intros s sp HI Hv.
  - exists s, []. simpl. split; [reflexivity|]. split; [constructor|]. split; [assumption|reflexivity].
  - inversion Hv as [|? ? Hvo Hvr]; subst.
    destruct (step_refines s sp o HI Hvo) as (Hstep & HI' & Hperm).
    pose proof (step_ok_interval s o) as Hint.
    destruct (step_ok s o) as [s1 f1] eqn:Es. cbn [fst snd] in *.
    destruct (sstep sp (abs_op (interval s) o)) as [sp1 g1] eqn:Esp. cbn [fst snd] in *.
    rewrite <- Hint in Hvr.
    destruct (IH s1 sp1 HI' Hvr) as (s' & outs & Hrun & Hall & HI'' & Hint').
    exists s', (f1 :: outs). cbn [run map srun]. rewrite Hstep, Hrun, Esp. rewrite Hint in *.
    destruct (srun sp1 (map (abs_op (interval s)) ops)) as [sp2 gs] eqn:Esr. cbn [fst snd] in *.
    split; [reflexivity|]. split; [constructor; assumption|]. split; assumption.
Qed.

Lemma run_app ops1 : forall s ops2 s1 o1, run s ops1 = Ok (s1, o1) ->
  run s (ops1 ++ ops2) = match run s1 ops2 with Ok (s2, o2) => Ok (s2, o1 ++ o2) | Err e => Err e | Panic => Panic end.
Proof.
  induction ops1 as [|o ops1 IH]; intros s ops2 s1 o1 H; simpl in *.
  - inversion H; subst. destruct (run s1 ops2) as [[? ?]| |]; reflexivity.
  - destruct (step s o) as [[s' f]| |]; try discriminate.
    destruct (run s' ops1) as [[s'' fs]| |] eqn:E; try discriminate. inversion H; subst.
    rewrite (IH s' ops2 s1 fs E). destruct (run s1 ops2) as [[? ?]| |]; reflexivity.
Qed.

Lemma srun_app ops1 : forall sp ops2,
  srun sp (ops1 ++ ops2) =
  let (sp1, o1) := srun sp ops1 in let (sp2, o2) := srun sp1 ops2 in (sp2, o1 ++ o2).
Proof.
  induction ops1 as [|o ops1 IH]; intros sp ops2; simpl.
  - destruct (srun sp ops2); reflexivity.
  - destruct (sstep sp o) as [sp' f]. rewrite IH. destruct (srun sp' ops1) as [sp1 o1].
    destruct (srun sp1 ops2) as [sp2 o2]. reflexivity.
Qed.

(* the state reached after a valid history, with the abstract state it represents *)
Lemma reach I N ops : 0 < N -> Forall (valid_op I) ops ->
  exists s outs, run (init I N) ops = Ok (s, outs) /\
    Forall2 (@Permutation _) outs (snd (srun sinit (map (abs_op I) ops))) /\
    Inv s (fst (srun sinit (map (abs_op I) ops))) /\ interval s = I.
Proof. intros HN Hv. apply (run_refines ops (init I N) sinit (Inv_init I N HN) Hv). Qed.

Lemma refines I N ops : 0 < N -> Forall (valid_op I) ops ->
  exists s outs, run (init I N) ops = Ok (s, outs) /\
    Forall2 (@Permutation _) outs (snd (srun sinit (map (abs_op I) ops))).
Proof. intros HN Hv. destruct (reach I N ops HN Hv) as (s & outs & H1 & H2 & _). eauto. Qed.

(* ---------- consequences on the abstract timer, transported to the wheel ---------- *)
Definition keyed (k : nat) (f : list (nat * nat)) : list (nat * nat) := filter (fun kv => fst kv =? k) f.

(* the operation mentions key k (Drain concerns every key) *)
Definition touches (k : nat) (o : op) : bool :=
  match o with
  | OSet k' _ _ | OMove k' _ | ORemove k' => k' =? k
  | OTick => false
  | ODrain => true
  end.
Definition sets (k : nat) (o : op) : bool := match o with OSet k' _ _ => k' =? k | _ => false end.
Definition ticks (ops : list op) : nat := length (filter (fun o => match o with OTick => true | _ => false end) ops).
Definition silent (k : nat) (outs : list fired) : Prop := Forall (fun f => keyed k f = []) outs.
Definition skeys (sp : sst) : Prop := NoDup (map fst (sp_timers sp)).

Lemma skeys_step sp o : skeys sp -> skeys (fst (sstep sp o)).
Proof.
  unfold skeys. intro H. destruct o; cbn [sstep fst sp_timers].
  - apply aset_NoDup; assumption.
  - destruct (alookup Nat.eqb k (sp_timers sp)) as [[? ?]|]; cbn [fst sp_timers]; [apply aset_NoDup|]; assumption.
  - apply aremove_NoDup; assumption.
  - apply filter_keys_NoDup; assumption.
  - constructor.
Qed.

Lemma skeys_run ops : forall sp, skeys sp -> skeys (fst (srun sp ops)).
Proof.
  induction ops as [|o ops IH]; intros sp H; simpl; [assumption|].
  pose proof (skeys_step sp o H). destruct (sstep sp o) as [sp' f]. specialize (IH sp' H0).
  destruct (srun sp' ops). assumption.
Qed.

Lemma keyed_tasks_none k (m : list (nat * (nat * nat))) (f : nat * (nat * nat) -> bool) :
  (forall v due, In (k, (v, due)) m -> f (k, (v, due)) = false) -> keyed k (map task_of (filter f m)) = [].
Proof.
  intro H. induction m as [|[k' [v due]] r IH]; simpl; [reflexivity|].
  destruct (f (k', (v, due))) eqn:Ef; simpl.
  - unfold task_of at 1; cbn [fst snd]. destruct (Nat.eqb_spec k' k) as [->|Hne].
    + rewrite H in Ef by (left; reflexivity). discriminate.
    + apply IH. intros; apply H; right; assumption.
  - apply IH. intros; apply H; right; assumption.
Qed.

Lemma spec_wait I k v due ops : forall sp, skeys sp ->
  alookup Nat.eqb k (sp_timers sp) = Some (v, due) ->
  forallb (fun o => negb (touches k o)) ops = true -> sp_T sp + ticks ops < due ->
  alookup Nat.eqb k (sp_timers (fst (srun sp (map (abs_op I) ops)))) = Some (v, due) /\
  sp_T (fst (srun sp (map (abs_op I) ops))) = sp_T sp + ticks ops /\
  silent k (snd (srun sp (map (abs_op I) ops))).
Proof.
  induction ops as [|o ops IH]; intros sp HK Hl Hnt Ht; simpl.
  - unfold ticks; simpl. repeat split; [assumption|lia|constructor].
  - simpl in Hnt. apply andb_true_iff in Hnt as [Hno Hnt]. apply negb_true_iff in Hno.
    pose proof (skeys_step sp (abs_op I o) HK) as HK'.
    assert (Hstep : alookup Nat.eqb k (sp_timers (fst (sstep sp (abs_op I o)))) = Some (v, due) /\
                    sp_T (fst (sstep sp (abs_op I o))) + ticks ops = sp_T sp + ticks (o :: ops) /\
                    keyed k (snd (sstep sp (abs_op I o))) = []).
    { destruct o; cbn [abs_op sstep fst snd sp_T sp_timers touches] in *.
      - rewrite al_aset. destruct (Nat.eqb_spec k0 k); [discriminate|]. destruct (Nat.eqb_spec k k0); [congruence|].
        repeat split; assumption.
      - destruct (Nat.eqb_spec k0 k); [discriminate|].
        destruct (alookup Nat.eqb k0 (sp_timers sp)) as [[? ?]|]; cbn [fst snd sp_T sp_timers]; [|repeat split; assumption].
        rewrite al_aset. destruct (Nat.eqb_spec k k0); [congruence|]. repeat split; assumption.
      - rewrite al_aremove. destruct (Nat.eqb_spec k0 k); [discriminate|]. destruct (Nat.eqb_spec k k0); [congruence|].
        repeat split; assumption.
      - unfold ticks in *; simpl in *. rewrite (al_filter _ _ _ HK), Hl. unfold due_now; cbn [snd fst].
        destruct (Nat.eqb_spec due (S (sp_T sp))); [lia|]. simpl. split; [reflexivity|]. split; [lia|].
        apply keyed_tasks_none. intros v' due' Hin. apply (In_al _ _ _ HK) in Hin. rewrite Hl in Hin.
        inversion Hin; subst. unfold due_now; cbn [snd]. apply Nat.eqb_neq. assumption.
      - discriminate. }
    destruct Hstep as (H1 & H2 & H3).
    destruct (sstep sp (abs_op I o)) as [sp' f]. cbn [fst snd] in *.
    assert (Ht' : sp_T sp' + ticks ops < due) by lia.
    destruct (IH sp' HK' H1 Hnt Ht') as (G1 & G2 & G3).
    destruct (srun sp' (map (abs_op I) ops)) as [sp'' fs]. cbn [fst snd] in *.
    repeat split; [assumption|lia|constructor; assumption].
Qed.

Lemma filter_all_true {A} (l : list A) : filter (fun _ => true) l = l.
Proof. induction l; simpl; [reflexivity|f_equal; assumption]. Qed.

Lemma spec_absent I k ops : forall sp,
  alookup Nat.eqb k (sp_timers sp) = None -> forallb (fun o => negb (sets k o)) ops = true ->
  silent k (snd (srun sp (map (abs_op I) ops))).
Proof.
  induction ops as [|o ops IH]; intros sp Hl Hns; simpl; [constructor|].
  simpl in Hns. apply andb_true_iff in Hns as [Hno Hns]. apply negb_true_iff in Hno.
  assert (Hin : forall v due, ~ In (k, (v, due)) (sp_timers sp)).
  { intros v due Hin. apply al_None in Hl. apply Hl. apply in_map_iff. exists (k, (v, due)). auto. }
  assert (Hstep : alookup Nat.eqb k (sp_timers (fst (sstep sp (abs_op I o)))) = None /\
                  keyed k (snd (sstep sp (abs_op I o))) = []).
  { destruct o; cbn [abs_op sstep fst snd sp_timers sets] in *.
    - rewrite al_aset. destruct (Nat.eqb_spec k0 k); [discriminate|]. destruct (Nat.eqb_spec k k0); [congruence|]. auto.
    - destruct (alookup Nat.eqb k0 (sp_timers sp)) as [[? ?]|] eqn:E; cbn [fst snd sp_timers]; [|auto].
      rewrite al_aset. destruct (Nat.eqb_spec k k0); [congruence|]. auto.
    - rewrite al_aremove. destruct (k =? k0); auto.
    - split.
      + apply al_None. intro H. apply in_map_iff in H as [[k' [v due]] [E H]]. simpl in E; subst k'.
        apply filter_In in H as [H _]. exact (Hin _ _ H).
      + apply keyed_tasks_none. intros v due H. destruct (Hin _ _ H).
    - split; [reflexivity|].
      rewrite <- (filter_all_true (sp_timers sp)). apply keyed_tasks_none. intros v due H. destruct (Hin _ _ H). }
  destruct Hstep as [H1 H2]. destruct (sstep sp (abs_op I o)) as [sp' f]. cbn [fst snd] in *.
  specialize (IH sp' H1 Hns). destruct (srun sp' (map (abs_op I) ops)) as [sp'' fs]. constructor; assumption.
Qed.

Lemma nodup_all_eq {A} (x : A) l : NoDup l -> (forall y, In y l -> y = x) -> In x l -> l = [x].
Proof.
  intros Hnd Hall Hin. destruct l as [|a r]; [destruct Hin|].
  assert (a = x) by (apply Hall; left; reflexivity). subst a.
  destruct r as [|b r]; [reflexivity|]. exfalso.
  assert (b = x) by (apply Hall; right; left; reflexivity). subst b.
  inversion Hnd; subst. apply H1. left. reflexivity.
Qed.

Lemma spec_fire sp k v : skeys sp -> alookup Nat.eqb k (sp_timers sp) = Some (v, S (sp_T sp)) ->
  keyed k (snd (sstep sp STick)) = [(k, v)] /\ alookup Nat.eqb k (sp_timers (fst (sstep sp STick))) = None.
Proof.
  intros HK Hl. cbn [sstep fst snd sp_timers]. split.
  - apply nodup_all_eq.
    + unfold keyed. apply NoDup_filter. apply (NoDup_map_inv fst). rewrite map_map. unfold task_of; cbn [fst].
      apply filter_keys_NoDup. assumption.
    + intros [k' v'] Hin. unfold keyed in Hin. apply filter_In in Hin as [Hin Hk]. cbn [fst] in Hk.
      apply Nat.eqb_eq in Hk. subst k'. apply in_map_iff in Hin as [[k2 [v2 d2]] [E Hin]].
      unfold task_of in E; cbn [fst snd] in E. inversion E; subst. apply filter_In in Hin as [Hin _].
      apply (In_al _ _ _ HK) in Hin. rewrite Hl in Hin. inversion Hin; reflexivity.
    + unfold keyed. apply filter_In. cbn [fst]. split; [|apply Nat.eqb_refl].
      apply in_map_iff. exists (k, (v, S (sp_T sp))). split; [reflexivity|]. apply filter_In.
      split; [apply al_In; assumption|]. unfold due_now; cbn [snd]. apply Nat.eqb_refl.
  - rewrite (al_filter _ _ _ HK), Hl. unfold due_now; cbn [snd]. try rewrite Nat.eqb_refl. try reflexivity.
Qed.

Lemma Permutation_keyed k l l' : Permutation l l' -> Permutation (keyed k l) (keyed k l').
Proof.
  unfold keyed. induction 1; simpl.
  - constructor.
  - destruct (fst x =? k); [constructor|]; assumption.
  - destruct (fst x =? k), (fst y =? k); try reflexivity; try (constructor; reflexivity); apply perm_swap.
  - etransitivity; eassumption.
Qed.

Lemma silent_perm k outs souts : Forall2 (@Permutation _) outs souts -> silent k souts -> silent k outs.
Proof.
  induction 1 as [|x y l l' Hxy Hll IH]; intro Hs; [constructor|]. inversion Hs as [|? ? Hy Hs']; subst. constructor; [|apply IH; exact Hs'].
  apply (Permutation_keyed k) in Hxy. rewrite Hy in Hxy. apply Permutation_nil. symmetry. assumption.
Qed.

(* the abstract state reached by a history *)
Definition spec_after (I : positive) (ops : list op) : sst := fst (srun sinit (map (abs_op I) ops)).

Lemma skeys_after I ops : skeys (spec_after I ops).
Proof. apply skeys_run. constructor. Qed.

(* A scheduling call for key k: SetTimer(k, v, d) at any delay (below one interval it is clamped), or
   MoveTimer(k, d) of a pending key whose current value is v; n = the number of ticks it asks for *)
Definition schedules (I : positive) (sp : sst) (o : op) (k v n : nat) : Prop :=
  match o with
  | OSet k' v' d => k' = k /\ v' = v /\ n = steps_of I (clamp I d)
  | OMove k' d => k' = k /\ n = steps_of I d /\ exists due, alookup Nat.eqb k (sp_timers sp) = Some (v, due)
  | _ => False
  end.

Lemma schedules_spec I sp o k v n : schedules I sp o k v n ->
  alookup Nat.eqb k (sp_timers (fst (sstep sp (abs_op I o)))) = Some (v, sp_T sp + n) /\
  sp_T (fst (sstep sp (abs_op I o))) = sp_T sp.
Proof.
  destruct o; cbn [schedules abs_op sstep]; try tauto.
  - intros (-> & -> & ->). cbn [fst sp_timers sp_T]. rewrite al_aset, Nat.eqb_refl. auto.
  - intros (-> & -> & due & Hl). rewrite Hl. cbn [fst sp_timers sp_T]. rewrite al_aset, Nat.eqb_refl. auto.
Qed.

Lemma Forall2_app_inv_r' {A B} (R : A -> B -> Prop) l l1' l2' : Forall2 R l (l1' ++ l2') ->
  exists l1 l2, Forall2 R l1 l1' /\ Forall2 R l2 l2' /\ l = l1 ++ l2.
Proof. apply Forall2_app_inv_r. Qed.

Lemma Forall2_length {A B} (R : A -> B -> Prop) l l' : Forall2 R l l' -> length l = length l'.
Proof. induction 1; simpl; congruence. Qed.

Lemma srun_shape I pre o post1 post2 sp :
  srun sp (map (abs_op I) (pre ++ o :: post1 ++ OTick :: post2)) =
  let (sp0, so_pre) := srun sp (map (abs_op I) pre) in
  let (sp1, so_o) := sstep sp0 (abs_op I o) in
  let (sp2, so1) := srun sp1 (map (abs_op I) post1) in
  let (sp3, so_t) := sstep sp2 STick in
  let (sp4, so2) := srun sp3 (map (abs_op I) post2) in
  (sp4, so_pre ++ so_o :: so1 ++ so_t :: so2).
Proof.
  rewrite map_app, srun_app. destruct (srun sp (map (abs_op I) pre)) as [sp0 so_pre].
  cbn [map srun]. destruct (sstep sp0 (abs_op I o)) as [sp1 so_o].
  rewrite map_app, srun_app. destruct (srun sp1 (map (abs_op I) post1)) as [sp2 so1].
  cbn [map srun abs_op]. destruct (sstep sp2 STick) as [sp3 so_t].
  destruct (srun sp3 (map (abs_op I) post2)) as [sp4 so2]. reflexivity.
Qed.

Lemma srun_length I ops : forall sp, length (snd (srun sp (map (abs_op I) ops))) = length ops.
Proof.
  induction ops as [|a r IH]; intro sp; simpl; [reflexivity|].
  destruct (sstep sp (abs_op I a)) as [sp' f]. specialize (IH sp'). destruct (srun sp' (map (abs_op I) r)). simpl in *. lia.
Qed.

(* exactly once, at the requested tick, with the value most recently set *)
Lemma exactly_once I N pre o post1 post2 k v n :
  0 < N -> Forall (valid_op I) (pre ++ o :: post1 ++ OTick :: post2) ->
  schedules I (spec_after I pre) o k v n -> 1 <= n ->
  forallb (fun o => negb (touches k o)) post1 = true -> ticks post1 = n - 1 ->
  forallb (fun o => negb (sets k o)) post2 = true ->
  exists s o_pre o_o o1 o_t o2,
    run (init I N) (pre ++ o :: post1 ++ OTick :: post2) = Ok (s, o_pre ++ o_o :: o1 ++ o_t :: o2) /\
    length o_pre = length pre /\ length o1 = length post1 /\
    silent k o1 /\ keyed k o_t = [(k, v)] /\ silent k o2.
Proof.
  intros HN Hv Hsch Hn Hp1 Ht1 Hp2.
  destruct (refines I N _ HN Hv) as (s & outs & Hrun & Hall).
  rewrite srun_shape in Hall. unfold spec_after in Hsch.
  pose proof (skeys_after I pre) as HK0. unfold spec_after in HK0.
  pose proof (srun_length I pre sinit) as Hlen0.
  destruct (srun sinit (map (abs_op I) pre)) as [sp0 so_pre]. cbn [fst snd] in *.
  destruct (schedules_spec I sp0 o k v n Hsch) as [Hl1 HT1].
  pose proof (skeys_step sp0 (abs_op I o) HK0) as HK1.
  destruct (sstep sp0 (abs_op I o)) as [sp1 so_o]. cbn [fst snd] in *.
  assert (Hlt : sp_T sp1 + ticks post1 < sp_T sp0 + n) by lia.
  destruct (spec_wait I k v _ post1 sp1 HK1 Hl1 Hp1 Hlt) as (Hl2 & HT2 & Hs1).
  pose proof (skeys_run (map (abs_op I) post1) sp1 HK1) as HK2.
  pose proof (srun_length I post1 sp1) as Hlen1.
  destruct (srun sp1 (map (abs_op I) post1)) as [sp2 so1]. cbn [fst snd] in *.
  assert (Hl2' : alookup Nat.eqb k (sp_timers sp2) = Some (v, S (sp_T sp2))) by (rewrite Hl2; do 2 f_equal; lia).
  destruct (spec_fire sp2 k v HK2 Hl2') as [Hf Habs].
  destruct (sstep sp2 STick) as [sp3 so_t]. cbn [fst snd] in *.
  pose proof (spec_absent I k post2 sp3 Habs Hp2) as Hs2.
  destruct (srun sp3 (map (abs_op I) post2)) as [sp4 so2]. cbn [fst snd] in *.
  apply Forall2_app_inv_r in Hall as (o_pre & rest & Hpre & Hrest & ->).
  inversion Hrest as [|o_o ? rest' ? Ho Hrest']; subst.
  apply Forall2_app_inv_r in Hrest' as (o1 & rest2 & H1 & Hrest2 & ->).
  inversion Hrest2 as [|o_t ? o2 ? Hot H2]; subst.
  exists s, o_pre, o_o, o1, o_t, o2. split; [assumption|].
  split; [etransitivity; [exact (Forall2_length _ _ _ Hpre)|assumption]|].
  split; [etransitivity; [exact (Forall2_length _ _ _ H1)|assumption]|].
  split; [eapply silent_perm; eassumption|].
  split; [|eapply silent_perm; eassumption].
  apply (Permutation_keyed k) in Hot. rewrite Hf in Hot. symmetry in Hot. apply Permutation_length_1_inv in Hot. assumption.
Qed.

(* a removed task never fires (until it is set again) *)
Lemma removed_never_fires I N pre k post :
  0 < N -> Forall (valid_op I) (pre ++ ORemove k :: post) ->
  forallb (fun o => negb (sets k o)) post = true ->
  exists s o_pre o_post,
    run (init I N) (pre ++ ORemove k :: post) = Ok (s, o_pre ++ [] :: o_post) /\
    length o_pre = length pre /\ silent k o_post.
Proof.
  intros HN Hv Hp.
  destruct (refines I N _ HN Hv) as (s & outs & Hrun & Hall).
  rewrite map_app in Hall. cbn [map] in Hall. rewrite srun_app in Hall.
  pose proof (srun_length I pre sinit) as Hlen0.
  destruct (srun sinit (map (abs_op I) pre)) as [sp0 so_pre]. cbn [fst snd] in *.
  cbn [srun abs_op sstep] in Hall.
  assert (Habs : alookup Nat.eqb k (aremove Nat.eqb k (sp_timers sp0)) = None) by (rewrite al_aremove, Nat.eqb_refl; reflexivity).
  pose proof (spec_absent I k post (mkSp (sp_T sp0) (aremove Nat.eqb k (sp_timers sp0))) Habs Hp) as Hs.
  destruct (srun _ (map (abs_op I) post)) as [sp2 so2]. cbn [fst snd] in *.
  apply Forall2_app_inv_r in Hall as (o_pre & rest & Hpre & Hrest & ->).
  inversion Hrest as [|o_o ? o_post ? Ho Hpost]; subst.
  apply Permutation_sym in Ho. apply Permutation_nil in Ho. subst o_o.
  exists s, o_pre, o_post. split; [assumption|]. split; [etransitivity; [exact (Forall2_length _ _ _ Hpre)|assumption]|].
  eapply silent_perm; eassumption.
Qed.

(* Drain hands every pending task over exactly once; afterwards no tick fires anything *)
Lemma drain_once_then_silent I N ops n : 0 < N -> Forall (valid_op I) ops ->
  exists s outs s' drained s'',
    run (init I N) ops = Ok (s, outs) /\ step s ODrain = Ok (s', drained) /\
    Permutation drained (map task_of (sp_timers (spec_after I ops))) /\ NoDup (map fst drained) /\
    run s' (repeat OTick n) = Ok (s'', repeat [] n).
Proof.
  intros HN Hv. destruct (reach I N ops HN Hv) as (s & outs & Hrun & _ & HI & _).
  pose proof (drain_perm s _ HI) as Hp. pose proof (drain_all_empty s) as He.
  assert (HN' : 0 < nslots (fst (drain_all s))).
  { unfold nslots, drain_all; cbn [fst slots]. rewrite map_length. apply (i_N _ _ HI). }
  destruct (ticks_all_empty n _ He HN') as (s'' & Hr).
  exists s, outs, (fst (drain_all s)), (snd (drain_all s)), s''.
  split; [assumption|]. split.
  { unfold step. cbn [reaches_mod]. rewrite andb_false_r. cbn [step_ok]. destruct (drain_all s); reflexivity. }
  split; [exact Hp|]. split; [|exact Hr].
  eapply Permutation_NoDup; [apply Permutation_map; symmetry; exact Hp|].
  rewrite map_map. unfold task_of; cbn [fst]. apply (i_G _ _ HI).
Qed.

(* ---------- the exported calls: argument gate, closed gate ---------- *)
Definition args_ok (c : call) : bool :=
  match c with
  | CSet None _ _ | CMove None _ | CRemove None => false
  | CSet _ _ d | CMove _ d => (0 <? d)%Z
  | _ => true
  end.

Lemma api_bad_args w c : args_ok c = false -> api w c = Ok (w, mkO E_ARGUMENT [] []).
Proof.
  destruct c as [[k|] v d|[k|] d|[k|]| | |]; cbn [args_ok api]; intro H; try discriminate; try reflexivity.
  - destruct (Z.leb_spec d 0); [reflexivity|]. apply Z.ltb_ge in H. lia.
  - destruct (Z.leb_spec d 0); [reflexivity|]. apply Z.ltb_ge in H. lia.
Qed.

Lemma api_closed w c : w_closed w = true -> args_ok c = true -> c <> CStop ->
  api w c = Ok (w, if match c with CTick => true | _ => false end then mkO E_OK [] [] else mkO E_CLOSED [] []).
Proof.
  intros Hc Ha Hs.
  destruct c as [[k|] v d|[k|] d|[k|]| | |]; cbn [args_ok api] in *; try discriminate; unfold send; rewrite ?Hc; try reflexivity.
  - destruct (Z.leb_spec d 0); [apply Z.ltb_lt in Ha; lia|reflexivity].
  - destruct (Z.leb_spec d 0); [apply Z.ltb_lt in Ha; lia|reflexivity].
  - congruence.
Qed.

(* an open wheel forwards a well-formed call to the handler of the run loop *)
Lemma api_open s c : args_ok c = true ->
  api (mkW s false) c =
  match c with
  | CSet (Some k) v d => send (mkW s false) (OSet k v d) false
  | CMove (Some k) d => send (mkW s false) (OMove k d) false
  | CRemove (Some k) => send (mkW s false) (ORemove k) false
  | CDrain => send (mkW s false) ODrain true
  | CTick => send (mkW s false) OTick false
  | _ => Ok (mkW s true, mkO E_OK [] [])
  end.
Proof.
  destruct c as [[k|] v d|[k|] d|[k|]| | |]; cbn [args_ok api w_closed w_st]; intro H; try discriminate; try reflexivity.
  - destruct (Z.leb_spec d 0); [apply Z.ltb_lt in H; lia|reflexivity].
  - destruct (Z.leb_spec d 0); [apply Z.ltb_lt in H; lia|reflexivity].
Qed.

Lemma api_run_closed cs : forall w, w_closed w = true ->
  forallb args_ok cs = true -> forallb (fun c => match c with CStop => false | _ => true end) cs = true ->
  exists os, api_run w cs = Ok (w, os) /\
    Forall2 (fun c o => o = if match c with CTick => true | _ => false end then mkO E_OK [] [] else mkO E_CLOSED [] []) cs os.
Proof.
  induction cs as [|c cs IH]; intros w Hc Ha Hs; simpl; [eauto|].
  simpl in Ha, Hs. apply andb_true_iff in Ha as [Ha1 Ha2]. apply andb_true_iff in Hs as [Hs1 Hs2].
  rewrite (api_closed w c Hc Ha1) by (intros ->; discriminate).
  destruct (IH w Hc Ha2 Hs2) as (os & Hr & Hf). rewrite Hr. eexists. split; [reflexivity|]. constructor; [reflexivity|assumption].
Qed.

(* ---------- batches are values ---------- *)
(* The model hands every tick's batch (and Drain's hand-over) to the runner as a list VALUE computed when
   the handler runs; the wheel state keeps no reference to it.  Hence whatever ticks and calls follow --
   while the callbacks of the batch are still running -- the batch is the same: the outputs of a prefix of
   a history are a prefix of the outputs of the history. *)
Lemma api_run_app cs1 : forall w cs2 w1 o1, api_run w cs1 = Ok (w1, o1) ->
  api_run w (cs1 ++ cs2) = match api_run w1 cs2 with Ok (w2, o2) => Ok (w2, o1 ++ o2) | Err e => Err e | Panic => Panic end.
Proof.
  induction cs1 as [|c cs1 IH]; intros w cs2 w1 o1 H; simpl in *.
  - inversion H; subst. destruct (api_run w1 cs2) as [[? ?]| |]; reflexivity.
  - destruct (api w c) as [[w' o]| |]; try discriminate.
    destruct (api_run w' cs1) as [[w'' os]| |] eqn:E; try discriminate. inversion H; subst.
    rewrite (IH w' cs2 w1 os E). destruct (api_run w1 cs2) as [[? ?]| |]; reflexivity.
Qed.

Lemma batches_independent s ops1 ops2 s1 o1 s2 o : run s ops1 = Ok (s1, o1) ->
  run s (ops1 ++ ops2) = Ok (s2, o) -> firstn (length o1) o = o1 /\ run s1 ops2 = Ok (s2, skipn (length o1) o).
Proof.
  intros H1 H2. rewrite (run_app ops1 s ops2 s1 o1 H1) in H2.
  destruct (run s1 ops2) as [[s2' o2]| |]; try discriminate. inversion H2; subst.
  rewrite firstn_app, Nat.sub_diag, firstn_all, firstn_O, app_nil_r.
  rewrite skipn_app, Nat.sub_diag, skipn_all. simpl. auto.
Qed.

Lemma api_batches_independent w cs1 cs2 w1 o1 w2 o : api_run w cs1 = Ok (w1, o1) ->
  api_run w (cs1 ++ cs2) = Ok (w2, o) -> firstn (length o1) o = o1 /\ api_run w1 cs2 = Ok (w2, skipn (length o1) o).
Proof.
  intros H1 H2. rewrite (api_run_app cs1 w cs2 w1 o1 H1) in H2.
  destruct (api_run w1 cs2) as [[w2' o2]| |]; try discriminate. inversion H2; subst.
  rewrite firstn_app, Nat.sub_diag, firstn_all, firstn_O, app_nil_r.
  rewrite skipn_app, Nat.sub_diag, skipn_all. simpl. auto.
Qed.

(* ---------- panicking callbacks ---------- *)
(* the slots in use are (tasks started) - (tasks ended), whatever ended them: a panic leaks no slot *)
Definition starts (tr : list rev) : nat := length (filter (fun e => match e with RStart => true | _ => false end) tr).
Definition ends (tr : list rev) : nat := length (filter (fun e => match e with RStart => false | _ => true end) tr).
Definition calm (e : rev) : rev := match e with RFinish _ => RFinish false | e => e end.

Lemma rstep_calm limit s e : rstep limit s (calm e) = rstep limit s e.
Proof. destruct s as [n|], e as [|b]; reflexivity. Qed.

Lemma fold_left_none limit tr : fold_left (rstep limit) tr None = None /\ True.
Proof. split; [|exact Logic.I]. induction tr as [|e r IH]; simpl; [reflexivity|assumption]. Qed.

Lemma rrun_calm_from limit tr : forall s, fold_left (rstep limit) (map calm tr) s = fold_left (rstep limit) tr s.
Proof. induction tr as [|e r IH]; intro s; simpl; [reflexivity|]. rewrite rstep_calm. apply IH. Qed.

Lemma rrun_count_from limit tr : forall n m, fold_left (rstep limit) tr (Some n) = Some m -> m + ends tr = n + starts tr.
Proof.
  induction tr as [|e r IH]; intros n m H; simpl in *.
  - inversion H. unfold starts, ends; simpl. lia.
  - destruct e as [|b]; simpl in H.
    + destruct (n <? limit); [|rewrite (proj1 (fold_left_none limit r)) in H; discriminate].
      apply IH in H. unfold starts, ends in *; simpl. lia.
    + destruct n as [|n']; [rewrite (proj1 (fold_left_none limit r)) in H; discriminate|].
      apply IH in H. unfold starts, ends in *; simpl. lia.
Qed.

Lemma runner_no_leak limit tr n : rrun limit tr = Some n ->
  rrun limit (map calm tr) = Some n /\ n + ends tr = starts tr /\
  (ends tr = starts tr -> 0 < limit -> rrun limit (tr ++ [RStart]) = Some 1).
Proof.
  intro H. unfold rrun in *. split; [rewrite rrun_calm_from; assumption|].
  pose proof (rrun_count_from limit tr 0 n H) as E. split; [lia|].
  intros He Hl. rewrite fold_left_app, H. simpl. assert (n = 0) by lia. subst n.
  destruct (Nat.ltb_spec 0 limit); [reflexivity|lia].
Qed.
