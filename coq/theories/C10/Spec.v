(* C10 Spec: the abstract timer.  `timers : key |-> (value, due tick)`, T = ticks seen so far.
   A delay d given while T ticks have been seen means "due at tick T + floor(d / I)". *)
From God Require Import Base.Prelude.

Definition fired := list (nat * nat).                     (* (key, value) *)

Record sst := mkSp { sp_T : nat; sp_timers : list (nat * (nat * nat)) }.   (* key |-> (value, due) *)

Definition sinit : sst := mkSp 0 [].

Inductive sop :=
| SSet (k v steps : nat)          (* steps = floor(d / I) >= 1 *)
| SMove (k steps : nat)
| SRemove (k : nat)
| STick
| SDrain.

Definition due_now (T : nat) (kv : nat * (nat * nat)) : bool := snd (snd kv) =? T.
Definition task_of (kv : nat * (nat * nat)) : nat * nat := (fst kv, fst (snd kv)).

Definition sstep (s : sst) (o : sop) : sst * fired :=
  match o with
  | SSet k v n => (mkSp (sp_T s) (aset Nat.eqb k (v, sp_T s + n) (sp_timers s)), [])
  | SMove k n =>
      match alookup Nat.eqb k (sp_timers s) with
      | Some (v, _) => (mkSp (sp_T s) (aset Nat.eqb k (v, sp_T s + n) (sp_timers s)), [])
      | None => (s, [])
      end
  | SRemove k => (mkSp (sp_T s) (aremove Nat.eqb k (sp_timers s)), [])
  | STick =>
      let T := S (sp_T s) in
      (mkSp T (filter (fun kv => negb (due_now T kv)) (sp_timers s)),
       map task_of (filter (due_now T) (sp_timers s)))
  | SDrain => (mkSp (sp_T s) [], map task_of (sp_timers s))
  end.

Fixpoint srun (s : sst) (ops : list sop) : sst * list fired :=
  match ops with
  | [] => (s, [])
  | o :: r => let (s', f) := sstep s o in let (s'', fs) := srun s' r in (s'', f :: fs)
  end.
