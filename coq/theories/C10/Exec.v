(* C10 Exec: checkers evaluated by vm_compute on (call history, observed behaviour of the Go wheel). *)
From God Require Export Base.Prelude C10.Model.
From God Require Import C10.Spec C10.SafeMap.

(* what the driver saw for one call: error (0 nil, 1 ErrClosed, 2 ErrArgument, 3 panic), the
   (key,value) callbacks run after it in callback order, the pairs handed to the drain function *)
Record obs := mkObs { ob_err : nat; ob_fired : list (nat * nat); ob_drained : list (nat * nat) }.

(* a call of the wheel's API, or a driver gate operation (hold / release of a callback): the wheel
   is not involved, nothing may fire *)
(* XTicks n seen: n ticks issued as one driver call; seen = (tick offset, (key, value)) of every callback of the burst *)
Inductive xcall := XC (c : call) | XGate | XTicks (n : nat) (seen : list (nat * (nat * nat))).

Record wcase := mkcase {
  c_interval : Z;            (* nanoseconds *)
  c_slots : Z;
  c_calls : list xcall;
  c_new_ok : bool;           (* constructor returned a wheel *)
  c_obs : list obs;
  c_hung : bool              (* the driver gave up waiting (wheel stuck / callback never finished): observations incomplete *)
}.

Definition pair_eqb (a b : nat * nat) : bool := (fst a =? fst b) && (snd a =? snd b).

Fixpoint remove1 (x : nat * nat) (l : list (nat * nat)) : option (list (nat * nat)) :=
  match l with
  | [] => None
  | y :: r => if pair_eqb x y then Some r else option_map (cons y) (remove1 x r)
  end.

(* multiset equality *)
Fixpoint perm_b (l1 l2 : list (nat * nat)) : bool :=
  match l1 with
  | [] => match l2 with [] => true | _ => false end
  | x :: r => match remove1 x l2 with Some l2' => perm_b r l2' | None => false end
  end.

Definition nil_b {A} (l : list A) : bool := match l with [] => true | _ => false end.

Definition trip_eqb (a b : nat * (nat * nat)) : bool := (fst a =? fst b) && pair_eqb (snd a) (snd b).
Definition same_trips (l1 l2 : list (nat * (nat * nat))) : bool :=
  (length l1 =? length l2) && forallb (fun x => existsb (trip_eqb x) l2) l1 && forallb (fun x => existsb (trip_eqb x) l1) l2.

(* n ticks on the model wheel: (offset, task) of everything fired, in order *)
Fixpoint ticks_model (n i : nat) (w : wheel) (acc : list (nat * (nat * nat))) : option (wheel * list (nat * (nat * nat))) :=
  match n with
  | O => Some (w, List.rev acc)
  | S n' =>
      match api w CTick with
      | Ok (w', m) => ticks_model n' (S i) w' (rev_append (map (pair i) (o_fired m)) acc)
      | _ => None
      end
  end.

Fixpoint ticks_spec (n i : nat) (sp : sst) (acc : list (nat * (nat * nat))) : sst * list (nat * (nat * nat)) :=
  match n with
  | O => (sp, acc)
  | S n' => let (sp', f) := sstep sp STick in ticks_spec n' (S i) sp' (rev_append (map (pair i) f) acc)
  end.

(* ---- model agreement ---- *)
Fixpoint model_run (w : wheel) (cs : list xcall) (os : list obs) : bool :=
  match cs, os with
  | [], [] => true
  | XGate :: cs', o :: os' => (ob_err o =? 0) && nil_b (ob_fired o) && nil_b (ob_drained o) && model_run w cs' os'
  | XTicks n seen :: cs', o :: os' =>
      match ticks_model n 0 w [] with
      | Some (w', l) => (ob_err o =? 0) && nil_b (ob_drained o) && list_eqb trip_eqb l seen && model_run w' cs' os'
      | None => false
      end
  | XC c :: cs', o :: os' =>
      match api w c with
      | Ok (w', m) =>
          (ob_err o =? o_err m) && list_eqb pair_eqb (o_fired m) (ob_fired o) &&
          perm_b (o_drained m) (ob_drained o) && model_run w' cs' os'
      | Panic => (ob_err o =? 3) && nil_b (ob_fired o) && nil_b (ob_drained o) && model_run w cs' os'
      | Err _ => false
      end
  | _, _ => false
  end.

Definition wheel_model_ok (c : wcase) : bool :=
  match new_wheel (c_interval c) (c_slots c) true with
  | None => negb (c_new_ok c) && nil_b (c_obs c)
  | Some s => negb (c_hung c) && c_new_ok c && model_run (mkW s false) (c_calls c) (c_obs c)
  end.

(* ---- the property, checked on the observations against the abstract timer only ---- *)
Definition quiet (o : obs) : bool := nil_b (ob_fired o) && nil_b (ob_drained o).

Definition bad_args (c : call) : bool :=
  match c with
  | CSet None _ _ | CMove None _ | CRemove None => true
  | CSet _ _ d | CMove _ d => (d <=? 0)%Z
  | _ => false
  end.

(* closed: Stop seen; drained: Drain seen.  Returns true as soon as the history leaves the scope of
   the property text (delay below one interval; an operation other than ticks/Stop after Drain;
   a second Stop). *)
Fixpoint spec_run (I : positive) (sp : sst) (closed drained : bool) (cs : list xcall) (os : list obs) : bool :=
  match cs, os with
  | [], [] => true
  | XGate :: cs', o :: os' => (ob_err o =? 0) && quiet o && spec_run I sp closed drained cs' os'
  | XTicks n seen :: cs', o :: os' =>
      if closed then (ob_err o =? 0) && nil_b seen && spec_run I sp closed drained cs' os'
      else let (sp', l) := ticks_spec n 0 sp [] in
           (ob_err o =? 0) && nil_b (ob_drained o) && same_trips l seen && spec_run I sp' closed drained cs' os'
  | XC c :: cs', o :: os' =>
      if bad_args c then
        ((ob_err o =? 2) || (closed && (ob_err o =? 1))) && quiet o && spec_run I sp closed drained cs' os'
      else if closed then
        match c with
        | CStop => true
        | CTick => (ob_err o =? 0) && quiet o && spec_run I sp closed drained cs' os'
        | _ => (ob_err o =? 1) && quiet o && spec_run I sp closed drained cs' os'
        end
      else
        match c with
        | CStop => (ob_err o =? 0) && quiet o && spec_run I sp true drained cs' os'
        | CTick =>
            let (sp', f) := sstep sp STick in
            (ob_err o =? 0) && perm_b f (ob_fired o) && nil_b (ob_drained o) && spec_run I sp' closed drained cs' os'
        | CDrain =>
            if drained then true else
            let (sp', f) := sstep sp SDrain in
            (ob_err o =? 0) && nil_b (ob_fired o) && perm_b f (ob_drained o) && spec_run I sp' closed true cs' os'
        | CSet (Some k) v d =>
            if drained || (d <? Z.pos I)%Z then true else
            (ob_err o =? 0) && quiet o && spec_run I (fst (sstep sp (SSet k v (steps_of I d)))) closed drained cs' os'
        | CMove (Some k) d =>
            if drained || (d <? Z.pos I)%Z then true else
            (ob_err o =? 0) && quiet o && spec_run I (fst (sstep sp (SMove k (steps_of I d)))) closed drained cs' os'
        | CRemove (Some k) =>
            if drained then true else
            (ob_err o =? 0) && quiet o && spec_run I (fst (sstep sp (SRemove k))) closed drained cs' os'
        | _ => true
        end
  | _, _ => false
  end.

Definition wheel_spec_ok (c : wcase) : bool :=
  if (c_interval c <=? 0)%Z || (c_slots c <=? 0)%Z then true     (* outside "for every slot count" *)
  else negb (c_hung c) && c_new_ok c && spec_run (Z.to_pos (c_interval c)) sinit false false (c_calls c) (c_obs c).


(* ---- SafeMap histories (the timers index): observed Gets and internal counters ---- *)
Inductive smop :=
| OPut (k v : N) | ODel (k : N) | OChurn (k n : N)
| OGet (k : N) (seen : option N)                  (* observed result of Get *)
| ODump (dold dnew lold lnew size : N).           (* observed deletionOld, deletionNew, len(dirtyOld), len(dirtyNew), Size() *)

(* maxDeletion / copyThreshold of safemap.go, written out (Link.link_sm_constants ties them to the regenerated
   constants): the checkers neither stop building nor follow the code when that file changes *)
Definition sm_maxd : N := 10000.
Definition sm_copyt : N := 1000.

Definition optN_eqb (a b : option N) : bool := option_eqb N.eqb a b.

(* the transcription of safemap.go reproduces every observed Get AND the internal counters *)
Fixpoint sm_model_run (s : sm) (ops : list smop) : bool :=
  match ops with
  | [] => true
  | OPut k v :: r => sm_model_run (sm_put sm_maxd s k v) r
  | ODel k :: r => sm_model_run (sm_del sm_maxd sm_copyt s k) r
  | OChurn k n :: r => sm_model_run (sm_step sm_maxd sm_copyt s (SChurn k n)) r
  | OGet k seen :: r => optN_eqb (sm_get s k) seen && sm_model_run s r
  | ODump a b c d e :: r =>
      N.eqb (del_old s) a && N.eqb (del_new s) b && N.eqb (len (old s)) c && N.eqb (len (new s)) d &&
      N.eqb (len (old s) + len (new s)) e && sm_model_run s r
  end.

(* the property-level statement: SafeMap answers like a plain map (what the wheel's index relies on) *)
Fixpoint sm_spec_run (m : amap) (ops : list smop) : bool :=
  match ops with
  | [] => true
  | OPut k v :: r => sm_spec_run (aput k v m) r
  | ODel k :: r => sm_spec_run (adel k m) r
  | OChurn k n :: r => sm_spec_run (spec_step m (SChurn k n)) r
  | OGet k seen :: r => optN_eqb (look k m) seen && sm_spec_run m r
  | ODump _ _ _ _ size :: r => N.eqb (len m) size && sm_spec_run m r
  end.

(* CW2: two wheels running side by side in one process; each one's calls and observations, checked in isolation --
   the wheels are independent *)
Inductive case := CW (w : wcase) | CSM (ops : list smop) | CW2 (a b : wcase).

Definition model_ok (c : case) : bool :=
  match c with CW w => wheel_model_ok w | CSM ops => sm_model_run sm_empty ops | CW2 a b => wheel_model_ok a && wheel_model_ok b end.
Definition spec_ok (c : case) : bool :=
  match c with CW w => wheel_spec_ok w | CSM ops => sm_spec_run [] ops | CW2 a b => wheel_spec_ok a && wheel_spec_ok b end.
