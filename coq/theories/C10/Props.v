(* C10 Props: the property theorems, nothing else.
   Vocabulary (Model.v / Spec.v / Proofs.v): `run (init I N) ops` = per-handler callback lists of a wheel with
   N slots and interval I on the handler history ops (Set/Move/Remove/Tick in run-loop order);
   `srun sinit (map (abs_op I) ops)` = the abstract timer `key |-> (value, due tick)` on the same history,
   a delay d meaning "due at tick T + floor(d/I)"; `valid_op I`: MoveTimer delays are >= I and the history
   has no Drain (Drain has its own theorem); `keyed k f` = the callbacks of key k in f. *)
From God Require Import Base.Prelude C10.Model C10.Spec C10.Proofs.
From Coq Require Import Sorting.Permutation.

(* For every slot count N >= 1, every interval and every handler history (any delays >= I, any number of
   revolutions; SetTimer delays below I are clamped to I on both sides) the wheel does not panic and the
   (key,value) multiset it fires at every tick is exactly the abstract timer's. *)
Theorem c10_refines_timer_spec : forall (I : positive) (N : nat) (ops : list op),
  0 < N -> Forall (valid_op I) ops ->
  exists s outs, run (init I N) ops = Ok (s, outs) /\
    Forall2 (@Permutation _) outs (snd (srun sinit (map (abs_op I) ops))).
Proof. exact refines. Qed.
Print Assumptions c10_refines_timer_spec.

(* A task scheduled by `o` (SetTimer k v d, or MoveTimer k d of a pending key whose latest value is v) for
   n = floor(d/I) ticks, not touched during the next n-1 ticks (post1) and not set again later (post2):
   its callback (k,v) runs exactly once, during the n-th tick after the call, and at no other time. *)
Theorem c10_exactly_once : forall I N pre o post1 post2 k v n,
  0 < N -> Forall (valid_op I) (pre ++ o :: post1 ++ OTick :: post2) ->
  schedules I (spec_after I pre) o k v n -> 1 <= n ->
  forallb (fun o => negb (touches k o)) post1 = true -> ticks post1 = n - 1 ->
  forallb (fun o => negb (sets k o)) post2 = true ->
  exists s o_pre o_o o1 o_t o2,
    run (init I N) (pre ++ o :: post1 ++ OTick :: post2) = Ok (s, o_pre ++ o_o :: o1 ++ o_t :: o2) /\
    length o_pre = length pre /\ length o1 = length post1 /\
    silent k o1 /\ keyed k o_t = [(k, v)] /\ silent k o2.
Proof. exact exactly_once. Qed.
Print Assumptions c10_exactly_once.

(* for delays of at least one interval the number of ticks asked for is floor(d/I) >= 1 *)
Theorem c10_delay_rule : forall (I : positive) d, (Z.pos I <= d)%Z ->
  clamp I d = d /\ 1 <= steps_of I d /\ (Z.of_nat (steps_of I d) = d / Z.pos I)%Z.
Proof.
  intros I d H. split; [unfold clamp; destruct (Z.ltb_spec d (Z.pos I)); [lia|reflexivity]|].
  split; [apply steps_ge_1; assumption|]. unfold steps_of. apply Z2Nat.id. apply Z.div_pos; lia.
Qed.
Print Assumptions c10_delay_rule.

(* A removed task never fires (as long as the key is not set again). *)
Theorem c10_removed_never_fires : forall I N pre k post,
  0 < N -> Forall (valid_op I) (pre ++ ORemove k :: post) ->
  forallb (fun o => negb (sets k o)) post = true ->
  exists s o_pre o_post,
    run (init I N) (pre ++ ORemove k :: post) = Ok (s, o_pre ++ [] :: o_post) /\
    length o_pre = length pre /\ silent k o_post.
Proof. exact removed_never_fires. Qed.
Print Assumptions c10_removed_never_fires.

(* Drain after any history hands exactly the still-pending tasks, each once, to the drain function, and
   any number of later ticks fires nothing. *)
Theorem c10_drain_once_then_silent : forall I N ops n, 0 < N -> Forall (valid_op I) ops ->
  exists s outs s' drained s'',
    run (init I N) ops = Ok (s, outs) /\ step s ODrain = Ok (s', drained) /\
    Permutation drained (map task_of (sp_timers (spec_after I ops))) /\ NoDup (map fst drained) /\
    run s' (repeat OTick n) = Ok (s'', repeat [] n).
Proof. exact drain_once_then_silent. Qed.
Print Assumptions c10_drain_once_then_silent.

(* After Stop every well-formed call reports ErrClosed (a tick is not delivered), nothing runs and the
   wheel does not change. *)
Theorem c10_closed : forall cs w, w_closed w = true ->
  forallb args_ok cs = true -> forallb (fun c => match c with CStop => false | _ => true end) cs = true ->
  exists os, api_run w cs = Ok (w, os) /\
    Forall2 (fun c o => o = if match c with CTick => true | _ => false end then mkO E_OK [] [] else mkO E_CLOSED [] []) cs os.
Proof. exact api_run_closed. Qed.
Print Assumptions c10_closed.

(* nil key or non-positive delay: ErrArgument, no callback, wheel unchanged (open or closed) *)
Theorem c10_bad_args : forall w c, args_ok c = false -> api w c = Ok (w, mkO E_ARGUMENT [] []).
Proof. exact api_bad_args. Qed.
Print Assumptions c10_bad_args.

(* an open wheel hands a well-formed call to the run-loop handler the theorems above speak about *)
Theorem c10_api_forwards : forall s c, args_ok c = true ->
  api (mkW s false) c =
  match c with
  | CSet (Some k) v d => send (mkW s false) (OSet k v d) false
  | CMove (Some k) d => send (mkW s false) (OMove k d) false
  | CRemove (Some k) => send (mkW s false) (ORemove k) false
  | CDrain => send (mkW s false) ODrain true
  | CTick => send (mkW s false) OTick false
  | _ => Ok (mkW s true, mkO E_OK [] [])
  end.
Proof. exact api_open. Qed.
Print Assumptions c10_api_forwards.

(* Batches are values: the batch a tick hands to its callback goroutine (and the hand-over of Drain) is fixed
   when the handler runs; later ticks and calls -- arriving while slow callbacks of that batch are still
   running -- leave it unchanged (outputs of a prefix are a prefix of the outputs), on the handler level and
   on the exported API. *)
Theorem c10_batches_independent :
  (forall s ops1 ops2 s1 o1 s2 o, run s ops1 = Ok (s1, o1) -> run s (ops1 ++ ops2) = Ok (s2, o) ->
     firstn (length o1) o = o1 /\ run s1 ops2 = Ok (s2, skipn (length o1) o)) /\
  (forall w cs1 cs2 w1 o1 w2 o, api_run w cs1 = Ok (w1, o1) -> api_run w (cs1 ++ cs2) = Ok (w2, o) ->
     firstn (length o1) o = o1 /\ api_run w1 cs2 = Ok (w2, skipn (length o1) o)).
Proof. split; [exact batches_independent | exact api_batches_independent]. Qed.
Print Assumptions c10_batches_independent.

(* Drain racing with Stop: the hand-over is complete with respect to the wheel state at the moment the Drain is
   processed -- it is the output of that handler; a Stop that follows (while the drain function is still busy
   with the tasks) closes the wheel and changes nothing of it. *)
Theorem c10_drain_then_stop : forall s s' f, step s ODrain = Ok (s', f) ->
  api_run (mkW s false) [CDrain; CStop] = Ok (mkW s' true, [mkO E_OK [] f; mkO E_OK [] []]).
Proof. intros s s' f H. cbn [api_run api send w_closed w_st]. rewrite H. reflexivity. Qed.
Print Assumptions c10_drain_then_stop.

(* Panicking callbacks.  In the model the handlers take no result from the callbacks: a tick's batch and Drain's
   hand-over are outputs (c10_batches_independent), so a callback that panics changes neither what was handed over
   nor what later ticks fire.  What the run loop does share with its callbacks is the TaskRunner of drainAll
   (drainWorkers slots; Schedule blocks the loop while all are taken): every task that ENDS gives its slot back,
   panic or not -- the slots in use after any trace are starts - ends whatever the panic flags, and once every
   started task has ended the next Schedule goes through.  (Link.v: Schedule releases the slot inside the deferred
   rescue.Recover; runTasks wraps every execute in RunSafe.) *)
Theorem c10_runner_no_leak : forall limit tr n, rrun limit tr = Some n ->
  rrun limit (map calm tr) = Some n /\ n + ends tr = starts tr /\
  (ends tr = starts tr -> 0 < limit -> rrun limit (tr ++ [RStart]) = Some 1).
Proof. exact runner_no_leak. Qed.
Print Assumptions c10_runner_no_leak.

(* ---- non-vacuity ---- *)
(* the two inputs of DESIGN section 7 D7 (N = 10, five ticks seen): `Set k 8; Move k 2` fires at the 2nd tick
   after the move and `Set k 3; Move k 17` at the 17th -- the repaired moveTask *)
Example c10_d7_late_input_now_on_time :
  exists s, run (init 1 10) (repeat OTick 5 ++ [OSet 0 7 8; OMove 0 2; OTick; OTick; OTick]) =
    Ok (s, repeat [] 5 ++ [[]; []; []; [(0, 7)]; []]).
Proof. eexists. vm_compute. reflexivity. Qed.

Example c10_d7_early_input_now_on_time :
  exists s, run (init 1 10) (repeat OTick 5 ++ [OSet 0 7 3; OMove 0 17] ++ repeat OTick 18) =
    Ok (s, repeat [] 5 ++ [[]; []] ++ repeat [] 16 ++ [[(0, 7)]; []]).
Proof. eexists. vm_compute. reflexivity. Qed.

Example c10_hypotheses_satisfiable :
  Forall (valid_op 1000) [OSet 1 5 2500; OTick; OMove 1 1000; OTick; ORemove 1] /\
  schedules 1000 (spec_after 1000 [OSet 1 5 2500; OTick]) (OMove 1 3999) 1 5 3.
Proof.
  split; [repeat constructor; simpl; lia|]. vm_compute. split; [reflexivity|]. split; [reflexivity|]. eexists. reflexivity.
Qed.


(* The wheel's key index (SafeMap: two generations, deletion counters, compaction) behaves as a plain map:
   after ANY history of Put/Del and for ANY values of the two thresholds, Get answers like the association map.
   This discharges the "SafeMap behaves as a map" assumption of the wheel model. *)
From God Require C10.SafeMap.
Theorem c10_safemap_refines_map : forall maxd copyt ops k,
  SafeMap.sm_get (SafeMap.sm_run maxd copyt ops) k = SafeMap.look k (SafeMap.spec_run ops).
Proof. exact SafeMap.safemap_refines_map. Qed.
Print Assumptions c10_safemap_refines_map.

Example c10_safemap_compaction_reached :
  let s := SafeMap.sm_run 2 2 [SafeMap.SPut 1 10; SafeMap.SPut 2 20; SafeMap.SChurn 100 3; SafeMap.SPut 7 70; SafeMap.SDel 1] in
  SafeMap.sm_get s 7%N = Some 70%N /\ SafeMap.sm_get s 2%N = Some 20%N /\ SafeMap.new s = [] /\ SafeMap.del_old s = 0%N.
Proof. vm_compute. repeat split. Qed.

(* 8 slots, 8 tasks started and all of them panicked: the 9th Schedule is not blocked *)
Example c10_runner_after_8_panics :
  rrun 8 (repeat RStart 8 ++ repeat (RFinish true) 8 ++ [RStart]) = Some 1.
Proof. vm_compute. reflexivity. Qed.
