(* C10 Model: transcription of lib/collection/timingwheel.go as it is NOW (moveTask repaired,
   commit a316f69). Executable definitions only, in source order.

   Representation.  Go pointers to timingEntry are heap identifiers: `items : id |-> entry` is the
   heap, a slot (`*list.List`) is the list of the ids it holds front to back, and `timers`
   (SafeMap, modelled as a plain map) sends a key to its positionEntry (pos, item id).  Keys and
   values are natural numbers (the driver uses small strings / ints).
   Numbers.  `interval` is a positive number of nanoseconds (NewTimingWheel rejects <= 0), delays
   are Z nanoseconds; every other Go int (tickedPos, pos, steps, circle, diff) is non-negative on
   the domain interval > 0, delay > 0 and is a nat here.  getPositionAndCircle is only ever called
   with delay >= interval (setTask clamps, moveTask tests), hence steps >= 1 and the truncated
   `steps - 1` is exact (Link.v ties the function to the regenerated Go source). *)
From God Require Import Base.Prelude.

(* timingEntry (l.40-46): baseEntry.key, value, circle, diff, removed.  baseEntry.delay is not
   read after the entry has been placed. *)
Record entry := mkE { e_key : nat; e_val : nat; e_circle : nat; e_diff : nat; e_removed : bool }.

Definition fired := list (nat * nat).    (* (key, value) handed to execute / to the drain fn *)

(* TimingWheel (l.25-38).  numSlots = len(slots) by construction (l.144-147). *)
Record st := mkS {
  interval : positive;
  slots : list (list nat);
  items : list (nat * entry);
  timers : list (nat * (nat * nat));      (* key |-> (pos, item) *)
  ticked : nat;                           (* tickedPos *)
  next_id : nat                           (* allocator of the model's heap *)
}.

Definition nslots (s : st) : nat := length (slots s).

(* newTimingWheelWithClock (l.140-160): tickedPos = numSlots - 1 *)
Definition init (I : positive) (N : nat) : st := mkS I (repeat [] N) [] [] (N - 1) 0.

(* NewTimingWheel (l.65-72): argument gate *)
Definition new_wheel (I : Z) (N : Z) (has_exec : bool) : option st :=
  if (I <=? 0)%Z || (N <=? 0)%Z || negb has_exec then None
  else Some (init (Z.to_pos I) (Z.to_nat N)).

Fixpoint upd {A} (n : nat) (f : A -> A) (l : list A) : list A :=
  match l, n with
  | [], _ => []
  | x :: r, O => f x :: r
  | x :: r, S n' => x :: upd n' f r
  end.

Definition slot (p : nat) (sl : list (list nat)) : list nat := nth p sl [].
(* w.slots[pos].PushBack(item) *)
Definition push (p id : nat) (sl : list (list nat)) : list (list nat) := upd p (fun l => l ++ [id]) sl.

Definition item (id : nat) (it : list (nat * entry)) : option entry := alookup Nat.eqb id it.
Definition timer (k : nat) (tm : list (nat * (nat * nat))) : option (nat * nat) := alookup Nat.eqb k tm.

(* setTimerPosition (l.232-243): both branches leave timers[key] = (pos, item) *)
Definition set_timer_position (pos k id : nat) (tm : list (nat * (nat * nat))) := aset Nat.eqb k (pos, id) tm.

(* int(d / w.interval), d >= 0 *)
Definition steps_of (I : positive) (d : Z) : nat := Z.to_nat (d / Z.pos I).

(* getPositionAndCircle (l.308-314), steps >= 1 *)
Definition pos_circle (N tickedPos steps : nat) : nat * nat :=
  ((tickedPos + steps) mod N, (steps - 1) / N).

(* ---- scanAndRunTasks (l.194-230) ---- *)
Record sacc := mkA {
  a_slots : list (list nat); a_items : list (nat * entry); a_timers : list (nat * (nat * nat));
  a_kept : list nat;        (* entries that stay in the scanned list, in order *)
  a_fired : fired           (* tasks, in append order *)
}.

(* one iteration of the loop on element `id` of the scanned list; tp = tickedPos (already advanced) *)
Definition scan_one (N tp : nat) (a : sacc) (id : nat) : sacc :=
  match item id (a_items a) with
  | None => a                                            (* no dangling pointers in Go *)
  | Some e =>
      if e_removed e then a                              (* l.199-203 dropped *)
      else if 0 <? e_circle e then                       (* l.204-207 *)
        mkA (a_slots a) (aset Nat.eqb id (mkE (e_key e) (e_val e) (e_circle e - 1) (e_diff e) false) (a_items a))
            (a_timers a) (a_kept a ++ [id]) (a_fired a)
      else if 0 <? e_diff e then                         (* l.208-216 relocate *)
        let pos := (tp + e_diff e) mod N in
        mkA (push pos id (a_slots a))
            (aset Nat.eqb id (mkE (e_key e) (e_val e) (e_circle e) 0 false) (a_items a))
            (set_timer_position pos (e_key e) id (a_timers a)) (a_kept a) (a_fired a)
      else                                               (* l.219-226 fire *)
        mkA (a_slots a) (a_items a) (aremove Nat.eqb (e_key e) (a_timers a)) (a_kept a)
            (a_fired a ++ [(e_key e, e_val e)])
  end.

(* onTick (l.188-192) + scanAndRunTasks.  The scanned list is taken out of `slots` while it is
   iterated; an entry relocated into the very list under iteration (pos = tickedPos, possible only
   when diff is a positive multiple of numSlots) is appended behind the remaining elements and is
   therefore met again by the same loop: that is the second pass (its diff is 0 by then, so it
   cannot be appended a third time and nothing is left in the slot but `kept`). *)
Definition on_tick (s : st) : st * fired :=
  let N := nslots s in
  let tp := (ticked s + 1) mod N in
  let l := slot tp (slots s) in
  let a0 := mkA (upd tp (fun _ => []) (slots s)) (items s) (timers s) [] [] in
  let a1 := fold_left (scan_one N tp) l a0 in
  let again := slot tp (a_slots a1) in
  let a2 := fold_left (scan_one N tp) again
              (mkA (upd tp (fun _ => []) (a_slots a1)) (a_items a1) (a_timers a1) (a_kept a1) (a_fired a1)) in
  (mkS (interval s) (upd tp (fun r => a_kept a2 ++ r) (a_slots a2)) (a_items a2) (a_timers a2) tp (next_id s),
   a_fired a2).

(* ---- moveTask (l.276-306); second component: task run immediately (delay < interval) ---- *)
Definition move_task (k : nat) (d : Z) (s : st) : st * fired :=
  match timer k (timers s) with
  | None => (s, [])                                                          (* l.277-280 *)
  | Some (p, id) =>
      match item id (items s) with
      | None => (s, [])
      | Some e =>
          if (d <? Z.pos (interval s))%Z then (s, [(e_key e, e_val e)])      (* l.283-288 *)
          else
            let N := nslots s in
            let steps := steps_of (interval s) d in
            let pos := fst (pos_circle N (ticked s) steps) in                 (* l.290 *)
            let ahead := (p + N - ticked s - 1) mod N + 1 in                  (* l.293 *)
            if ahead <=? steps then                                           (* rem >= 0, l.294-296 *)
              let rem := steps - ahead in
              (mkS (interval s) (slots s)
                   (aset Nat.eqb id (mkE (e_key e) (e_val e) (rem / N) (rem mod N) (e_removed e)) (items s))
                   (timers s) (ticked s) (next_id s), [])
            else                                                              (* l.297-305 *)
              let id' := next_id s in
              (mkS (interval s) (push pos id' (slots s))
                   ((id', mkE k (e_val e) 0 0 false) ::
                    aset Nat.eqb id (mkE (e_key e) (e_val e) (e_circle e) (e_diff e) true) (items s))
                   (set_timer_position pos k id' (timers s)) (ticked s) (S id'), [])
      end
  end.

(* ---- setTask (l.259-274) ---- *)
Definition set_task (k v : nat) (d : Z) (s : st) : st :=
  let d := if (d <? Z.pos (interval s))%Z then Z.pos (interval s) else d in   (* l.260-262 *)
  match timer k (timers s) with
  | Some (p, id) =>                                                           (* l.264-267 *)
      let it := match item id (items s) with
                | Some e => aset Nat.eqb id (mkE (e_key e) v (e_circle e) (e_diff e) (e_removed e)) (items s)
                | None => items s
                end in
      fst (move_task k d (mkS (interval s) (slots s) it (timers s) (ticked s) (next_id s)))
  | None =>                                                                   (* l.268-273 *)
      let N := nslots s in
      let pc := pos_circle N (ticked s) (steps_of (interval s) d) in
      let id := next_id s in
      mkS (interval s) (push (fst pc) id (slots s)) ((id, mkE k v (snd pc) 0 false) :: items s)
          (set_timer_position (fst pc) k id (timers s)) (ticked s) (S id)
  end.

(* ---- removeTask (l.316-325) ---- *)
Definition remove_task (k : nat) (s : st) : st :=
  match timer k (timers s) with
  | None => s
  | Some (p, id) =>
      let it := match item id (items s) with
                | Some e => aset Nat.eqb id (mkE (e_key e) (e_val e) (e_circle e) (e_diff e) true) (items s)
                | None => items s
                end in
      mkS (interval s) (slots s) it (aremove Nat.eqb k (timers s)) (ticked s) (next_id s)
  end.

(* ---- drainAll (l.327-342): every slot emptied, non-tombstones handed to fn; timers untouched ---- *)
Definition drain_task (it : list (nat * entry)) (id : nat) : fired :=
  match item id it with
  | Some e => if e_removed e then [] else [(e_key e, e_val e)]
  | None => []
  end.

Definition drain_all (s : st) : st * fired :=
  (mkS (interval s) (map (fun _ => []) (slots s)) (items s) (timers s) (ticked s) (next_id s),
   flat_map (drain_task (items s)) (concat (slots s))).

(* ---- threading.TaskRunner as drainAll uses it (lib/threading/taskrunner.go), and RunSafe ----
   Schedule takes one of `limit` slots (blocking the run loop while none is free) and starts a goroutine
   whose deferred rescue.Recover gives the slot back when the task ends -- whether it returned or panicked.
   The number of slots in use is all the run loop can observe of its callbacks. *)
Inductive rev := RStart | RFinish (panicked : bool).

Definition rstep (limit : nat) (inflight : option nat) (e : rev) : option nat :=
  match inflight with
  | None => None
  | Some n =>
      match e with
      | RStart => if n <? limit then Some (S n) else None        (* would block *)
      | RFinish _ => match n with O => None | S m => Some m end
      end
  end.

Definition rrun (limit : nat) (tr : list rev) : option nat := fold_left (rstep limit) tr (Some 0).

(* ---- the run loop's handlers (l.168-186) ---- *)
Inductive op := OSet (k v : nat) (d : Z) | OMove (k : nat) (d : Z) | ORemove (k : nat) | OTick | ODrain.

Definition step_ok (s : st) (o : op) : st * fired :=
  match o with
  | OSet k v d => (set_task k v d s, [])
  | OMove k d => move_task k d s
  | ORemove k => (remove_task k s, [])
  | OTick => on_tick s
  | ODrain => drain_all s
  end.

(* `% numSlots` with numSlots = 0 panics (integer divide by zero): l.189, l.310 *)
Definition reaches_mod (s : st) (o : op) : bool :=
  match o with
  | OTick | OSet _ _ _ => true
  | OMove k d => match timer k (timers s) with Some _ => negb (d <? Z.pos (interval s))%Z | None => false end
  | _ => false
  end.

Definition step (s : st) (o : op) : result (st * fired) :=
  if (nslots s =? 0) && reaches_mod s o then Panic else Ok (step_ok s o).

(* per-operation outputs of a history *)
Fixpoint run (s : st) (ops : list op) : result (st * list fired) :=
  match ops with
  | [] => Ok (s, [])
  | o :: r =>
      match step s o with
      | Ok (s', f) => match run s' r with Ok (s'', fs) => Ok (s'', f :: fs) | Err e => Err e | Panic => Panic end
      | Err e => Err e
      | Panic => Panic
      end
  end.

(* ---- the exported API: argument and closed gates (l.74-138) ---- *)
Inductive call :=
| CSet (k : option nat) (v : nat) (d : Z)      (* None = nil key *)
| CMove (k : option nat) (d : Z)
| CRemove (k : option nat)
| CDrain
| CStop
| CTick.                                        (* the ticker delivers a tick *)

Record wheel := mkW { w_st : st; w_closed : bool }.

Definition E_OK := 0. Definition E_CLOSED := 1. Definition E_ARGUMENT := 2.

Record outcome := mkO { o_err : nat; o_fired : fired; o_drained : fired }.

Definition send (w : wheel) (o : op) (drain : bool) : result (wheel * outcome) :=
  if w_closed w then Ok (w, mkO E_CLOSED [] [])             (* select: only <-stopChannel is ready *)
  else match step (w_st w) o with
       | Ok (s', f) => Ok (mkW s' false, if drain then mkO E_OK [] f else mkO E_OK f [])
       | Err e => Err e
       | Panic => Panic
       end.

Definition api (w : wheel) (c : call) : result (wheel * outcome) :=
  match c with
  | CSet k v d =>
      match k with
      | Some k' => if (d <=? 0)%Z then Ok (w, mkO E_ARGUMENT [] []) else send w (OSet k' v d) false
      | None => Ok (w, mkO E_ARGUMENT [] [])
      end
  | CMove k d =>
      match k with
      | Some k' => if (d <=? 0)%Z then Ok (w, mkO E_ARGUMENT [] []) else send w (OMove k' d) false
      | None => Ok (w, mkO E_ARGUMENT [] [])
      end
  | CRemove k =>
      match k with
      | Some k' => send w (ORemove k') false
      | None => Ok (w, mkO E_ARGUMENT [] [])
      end
  | CDrain => send w ODrain true
  | CStop => if w_closed w then Panic                      (* close of closed channel *)
             else Ok (mkW (w_st w) true, mkO E_OK [] [])
  | CTick => if w_closed w then Ok (w, mkO E_OK [] [])     (* ticker stopped by run's exit *)
             else send w OTick false
  end.

Fixpoint api_run (w : wheel) (cs : list call) : result (wheel * list outcome) :=
  match cs with
  | [] => Ok (w, [])
  | c :: r =>
      match api w c with
      | Ok (w', o) => match api_run w' r with Ok (w'', os) => Ok (w'', o :: os) | Err e => Err e | Panic => Panic end
      | Err e => Err e
      | Panic => Panic
      end
  end.
