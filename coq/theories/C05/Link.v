(* C05 Link: what is regenerated from the Go sources (GodGen.C05_Gen) against the model and the generator.
   validateNumberRange & co. return error values and do not translate to GoLite; the tie is made of
   constants (tag keywords the generator renders, the case distance of toCamelCase) and call skeletons:
   every reflect Set{Int,Uint,Float} that narrows is preceded by its Overflow test (fix D1), and fillSlice
   tests the document value's Kind before IsNil (fix D9). *)
From God Require Import Base.Prelude C05.Model C05.Spec C05.Proofs C05.Exec.
From GodGen Require C05_Gen.
From Coq Require Import String Ascii.
Local Open Scope string_scope.

(* tag grammar keywords used by harness/props/c05.py render_tag *)
Lemma link_keywords :
  C05_Gen.optionalOption = "optional" /\ C05_Gen.defaultOption = "default" /\ C05_Gen.optionsOption = "options" /\
  C05_Gen.rangeOption = "range" /\ C05_Gen.stringOption = "string" /\ C05_Gen.optionSeparator = "|" /\
  C05_Gen.jsonTagKey = "json".
Proof. repeat split; reflexivity. Qed.

(* toCamelCase's letter-case distance is the one of the model's upper_ascii / lower_ascii *)
Lemma link_case_distance : forall c, is_low c = true ->
  (Z.of_nat (nat_of_ascii c) - Z.of_nat (nat_of_ascii (upper_ascii c)))%Z = C05_Gen.distanceBetweenUpperAndLower.
Proof. intros c. destruct c as [[] [] [] [] [] [] [] []]; intro H; try discriminate H; vm_compute; reflexivity. Qed.

(* every call of `set` is preceded, since the previous setter, by a call of `test` *)
Fixpoint guarded (set test : string) (seen : bool) (l : list string) : bool :=
  match l with
  | [] => true
  | x :: r =>
      if String.eqb x set then seen && guarded set test false r
      else if String.eqb x test then guarded set test true r
      else guarded set test seen r
  end.

Lemma link_json_number_overflow_tests :
  guarded "value.SetInt" "value.OverflowInt" false C05_Gen.json_number_calls = true /\
  guarded "value.SetUint" "value.OverflowUint" false C05_Gen.json_number_calls = true /\
  guarded "value.SetFloat" "value.OverflowFloat" false C05_Gen.json_number_calls = true /\
  existsb (String.eqb "value.SetInt") C05_Gen.json_number_calls = true.
Proof. repeat split; reflexivity. Qed.

Lemma link_set_matched_overflow_tests :
  guarded "value.SetInt" "value.OverflowInt" false C05_Gen.set_matched_calls = true /\
  guarded "value.SetUint" "value.OverflowUint" false C05_Gen.set_matched_calls = true /\
  guarded "value.SetFloat" "value.OverflowFloat" false C05_Gen.set_matched_calls = true /\
  existsb (String.eqb "value.SetUint") C05_Gen.set_matched_calls = true.
Proof. repeat split; reflexivity. Qed.

(* the model's Overflow tests are the reflect ones: fits_int w = not OverflowInt on a w-bit field *)
Lemma link_fits_int8 : forall z, fits_int W8 z = true <-> (-128 <= z <= 127)%Z.
Proof. intro z. unfold fits_int. simpl bits. lia. Qed.
Lemma link_fits_uint8 : forall z, fits_uint W8 z = true <-> (0 <= z <= 255)%Z.
Proof. intro z. unfold fits_uint. simpl bits. lia. Qed.

Lemma link_fill_slice_kind_test :
  guarded "refValue.IsNil" "refValue.Kind" false C05_Gen.fill_slice_calls = true /\
  guarded "fieldType.Elem" "fieldType.Kind" false C05_Gen.fill_slice_calls = true.
Proof. split; reflexivity. Qed.

(* soundness of the executable checker: spec_ok accepts a successful observation only if it agrees (strictly) *)
Lemma spec_ok_sound c v : spec_ok c = true -> c_outside c = false -> c_obs c = OOk v -> agrees (c_ty c) (eff_doc (c_ty c) (c_doc c)) v = true.
Proof.
  unfold spec_ok, spec_ok_t, obs_ok. intros H O E. rewrite O, E in H.
  destruct (val_finite v && agrees_t TNone (c_ty c) (eff_doc (c_ty c) (c_doc c)) v) eqn:G;
    [apply andb_true_iff in G as [_ G]; exact G | simpl in H; discriminate].
Qed.

Lemma spec_ok_no_panic c : spec_ok c = true -> c_obs c <> OPanic.
Proof.
  unfold spec_ok, spec_ok_t, obs_ok. intros H E. rewrite E in H. destruct (c_outside c); discriminate.
Qed.
