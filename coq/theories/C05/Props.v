(* C05 Props: the property theorems, nothing else.
   Model: C05.Model (transcription of lib/mapping on the repaired tree), Spec: C05.Spec.agrees.
   `unm_struct n fs m` is the code run on a struct with fields fs against the object m at ANY nesting level
   (top level, nested struct, slice/map element); field i of the struct corresponds to value i of the result.
   c05_roundtrip (httpc.buildRequest -> httpx.Parse): c05_roundtrip_partial (transport parts) + correspondence
   (Exec.spec_ok on the round-trip stream: parsed struct = sent struct). *)
From God Require Import Base.Prelude C05.Model C05.Spec C05.Proofs.
From Coq Require Import String Ascii.
Local Open Scope Z_scope.

(* never panics: every type whose embedded fields are structs, EVERY document, every fuel *)
Theorem c05_never_panics : forall n t d, wf_ty t = true -> unmarshal n t d <> Panic.
Proof. exact never_panics. Qed.
Print Assumptions c05_never_panics.

(* EXACT: whenever unmarshalling succeeds the struct agrees with the document (Spec.agrees): every present number
   is the same integer and fits its kind, bool/string/Duration/nested values are the document's, slices, maps,
   pointers, nested and embedded structs element by element, absent fields carry their default or stay zero, no
   required field is absent, options= and range= hold.  For every fuel, every document and every type in `wfx`:
   options=/range= declared only where the code consults them (opts_okb: not on Duration without `string`, not on
   containers, no range= on bool/string/float; default_okb: a default inside its own options=/range=), embedded
   fields are structs, members of an OPTIONAL embedded struct are named and declare no default and no optional=dep.
   Covers optional=dep/!dep (resolved flag) and slices given as a string holding a JSON array. *)
Theorem c05_exact : forall n t d v, wfx t = true -> unmarshal n t d = Ok v -> agrees t d v = true.
Proof. exact exact. Qed.
Print Assumptions c05_exact.

(* the same at every nesting level and for every entry point of the recursion *)
Theorem c05_exact_everywhere : forall n,
  (forall fs m v, wfx (Struct fs) = true -> unm_struct n fs m = Ok v -> agrees (Struct fs) (JObj m) v = true) /\
  (forall f m w, wfx_field f = true -> unm_field n f m = Ok w -> field_agrees f m w = true) /\
  (forall t et d v, wfx et = true -> fill_slice n t et d = Ok v -> (exists e, t = Slice e) /\ agrees (Slice et) d v = true) /\
  (forall et d v, wfx et = true -> gen_map n et d = Ok v -> agrees (Map et) d v = true).
Proof. exact exact_fuel. Qed.
Print Assumptions c05_exact_everywhere.

(* exactness of every scalar written into a slice / map element, a `string`-tagged field or from a default:
   all of them go through convertType + setMatchedPrimitiveValue; a number token through
   processFieldPrimitiveWithJSONNumber.  No wrap, no truncation: the result denotes the token's integer. *)
Theorem c05_exact_scalars :
  (forall k s fi v, convert_set k s fi = Ok v ->
     leaf_agrees k (match fi with Some i => JNum s i | None => JStr s None end) v = true) /\
  (forall t o raw fi w, json_number t o raw fi = Ok w -> agrees t (JNum raw fi) w = true) /\
  (forall w z raw fi, leaf_agrees (KInt w) (JNum raw fi) (VInt z) = true -> denotes_int raw z = true /\ fits_int w z = true) /\
  (forall w z raw fi, leaf_agrees (KUint w) (JNum raw fi) (VInt z) = true -> denotes_int raw z = true /\ fits_uint w z = true).
Proof.
  split; [exact (convert_set_exact None)|]. split; [intros; eapply json_number_exact; eauto|]. split.
  - intros w z raw fi H. simpl in H. apply andb_true_iff in H. exact H.
  - intros w z raw fi H. simpl in H. apply andb_true_iff in H. exact H.
Qed.
Print Assumptions c05_exact_scalars.

(* a required field (no default, not optional -- after optional=dep resolution --; scalar, pointer, slice, MAP, or
   struct with a required member) that is absent makes the whole struct fail *)
Theorem c05_required : forall n fs m i f o',
  nth_error fs i = Some f -> f_anon f = false ->
  olookup (f_key f) m = None -> resolve_opts (f_opts f) (f_key f) m = Ok o' ->
  o_default (f_opts f) = None -> o_optional o' = false ->
  required_kind (f_ty f) ->
  forall v, unm_struct n fs m <> Ok v.
Proof. exact struct_required. Qed.
Print Assumptions c05_required.

(* in particular an absent required map (repaired by /repo c271df3; it used to become an empty map) *)
Example c05_required_map_example :
  exists e, unmarshal 4 (Struct [mkfield "v" no_opts false (Map (Prim (KInt W64)))]) (JObj []) = Err e.
Proof. vm_compute. eexists; reflexivity. Qed.

(* an absent field with a default takes the parsed default (exactly: same integer, fits the kind) *)
Theorem c05_default : forall n fs m vs i f dv w,
  unm_struct n fs m = Ok (VStruct vs) ->
  nth_error fs i = Some f -> nth_error vs i = Some w -> f_anon f = false ->
  olookup (f_key f) m = None -> o_default (f_opts f) = Some dv ->
  default_image (f_ty f) dv w.
Proof. exact struct_default. Qed.
Print Assumptions c05_default.

(* an optional field (resolved flag) that is absent (or null) stays zero: nil pointer/slice/map, 0, "", false, zero struct *)
Theorem c05_optional_zero : forall n fs m vs i f w o',
  unm_struct n fs m = Ok (VStruct vs) ->
  nth_error fs i = Some f -> nth_error vs i = Some w -> f_anon f = false ->
  resolve_opts (f_opts f) (f_key f) m = Ok o' ->
  o_default (f_opts f) = None -> o_optional o' = true ->
  olookup (f_key f) m = None \/ olookup (f_key f) m = Some JNull ->
  w = zero_val (f_ty f).
Proof. exact struct_optional_zero. Qed.
Print Assumptions c05_optional_zero.

(* ... and leaving out every field of an all-optional struct is accepted, with the zero struct as result *)
Theorem c05_optional_succeeds : forall n fs m,
  (forall f, In f fs -> f_anon f = false /\ o_optional (f_opts f) = true /\ o_dep (f_opts f) = None /\
                        o_default (f_opts f) = None /\ olookup (f_key f) m = None) ->
  unm_struct (S (S n)) fs m = Ok (VStruct (map (fun f => zero_val (f_ty f)) fs)).
Proof. exact optional_succeeds. Qed.
Print Assumptions c05_optional_succeeds.

(* optional=dep / optional=!dep (fieldOptions.toOptionsWithContext, repaired by 4c6e8a8).
   (1) the resolved options differ from the declared ones in the optional flag only -- default, options=, range=,
       string survive, so c05_options_enforced / c05_range_enforced / c05_default / c05_exact apply unchanged;
   (2) optional=dep: both keys or neither are present, and the field is optional iff dep is absent;
       optional=!dep: exactly one of the two is present, and the field is optional iff dep is present;
   (3) a mismatch (one of dep / the field without the other; resp. both or neither) makes the struct fail. *)
Theorem c05_optional_dep : forall o k m o', resolve_opts o k m = Ok o' ->
  (o_default o' = o_default o /\ o_options o' = o_options o /\ o_range o' = o_range o /\ o_string o' = o_string o) /\
  (forall dep, o_optional o = true -> o_dep o = Some (false, dep) ->
     has_key dep m = has_key k m /\ o_optional o' = negb (has_key dep m)) /\
  (forall dep, o_optional o = true -> o_dep o = Some (true, dep) ->
     has_key dep m = negb (has_key k m) /\ o_optional o' = has_key dep m) /\
  ((o_optional o = false \/ o_dep o = None) -> o' = o).
Proof.
  intros o k m o' H. destruct (resolve_keeps _ _ _ _ H) as [E0 [E1 [E2 [E3 _]]]].
  destruct (resolve_semantics _ _ _ _ H) as [_ [N1 [N2 [P1 P2]]]].
  split; [auto|]. split; [exact P1|]. split; [exact P2|]. intros [E|E]; [apply N1; exact E|].
  destruct (o_optional o) eqn:Op; [apply N2; auto | apply N1; reflexivity].
Qed.
Print Assumptions c05_optional_dep.

Theorem c05_optional_dep_mismatch : forall n fs m i f,
  nth_error fs i = Some f -> f_anon f = false -> o_optional (f_opts f) = true ->
  (forall dep, o_dep (f_opts f) = Some (false, dep) -> has_key dep m <> has_key (f_key f) m) ->
  (forall dep, o_dep (f_opts f) = Some (true, dep) -> has_key dep m = has_key (f_key f) m) ->
  o_dep (f_opts f) <> None ->
  forall v, unm_struct n fs m <> Ok v.
Proof.
  intros n fs m i f Hi Ha Ho H1 H2 Hd. destruct (resolve_opts (f_opts f) (f_key f) m) as [o'|e|] eqn:R.
  - exfalso. unfold resolve_opts in R. rewrite Ho in R. destruct (o_dep (f_opts f)) as [[[] dep]|]; [| |contradiction].
    + destruct (String.eqb dep ""); [discriminate|]. rewrite (H2 dep eq_refl), eqb_reflx in R. discriminate.
    + destruct (Bool.eqb (has_key dep m) (has_key (f_key f) m)) eqn:B; [|discriminate]. apply eqb_prop in B. exact (H1 dep eq_refl B).
  - eapply struct_dep_mismatch; eauto.
  - exfalso. unfold resolve_opts in R. repeat (match type of R with context [match ?x with _ => _ end] => destruct x end); discriminate.
Qed.
Print Assumptions c05_optional_dep_mismatch.

(* the repaired defect D13 as an example: int `optional=b,range=[1:5]` <- {"v":7,"b":1} is rejected, 3 is accepted *)
Example c05_optional_dep_range_example :
  let t := Struct [mkfield "v" (mkopts true None [] (Some (mkrange (Some 1) true (Some 5) true)) false (Some (false, "b")) false) false (Prim (KInt W64));
                   mkfield "b" (mkopts true None [] None false None false) false (Prim (KInt W64))]%string in
  (exists e, unmarshal 6 t (JObj [("v", JNum "7" (mkfi true true true)); ("b", JNum "1" (mkfi true true true))]%string) = Err e) /\
  unmarshal 6 t (JObj [("v", JNum "3" (mkfi true true true)); ("b", JNum "1" (mkfi true true true))]%string) = Ok (VStruct [VInt 3; VInt 1]) /\
  unmarshal 6 t (JObj []) = Ok (VStruct [VInt 0; VInt 0]) /\
  (exists e, unmarshal 6 t (JObj [("v", JNum "3" (mkfi true true true))]%string) = Err e).
Proof. vm_compute. repeat split; try reflexivity; eexists; reflexivity. Qed.

(* the member's OWN key present with a null value: it counts as present for the both-or-neither / either-or rule
   (has_key), and null is accepted only when the RESOLVED flag is optional -- with optional=b, {"b":1,"v":null} fails like
   an absent v; with optional=!b, {"v":null} fails; {"b":null} makes b present, so v (optional=!b) is optional *)
Example c05_optional_dep_null_example :
  let fi := mkfi true true true in
  let t neg := Struct [mkfield "v" (mkopts true None [] None false (Some (neg, "b")) false) false (Prim (KInt W64));
                       mkfield "b" (mkopts true None [] None false None false) false (Prim (KInt W64))]%string in
  (exists e, unmarshal 6 (t false) (JObj [("b", JNum "1" fi); ("v", JNull)]%string) = Err e) /\
  (exists e, unmarshal 6 (t false) (JObj [("b", JNum "1" fi)]%string) = Err e) /\
  (exists e, unmarshal 6 (t true) (JObj [("v", JNull)]%string) = Err e) /\
  unmarshal 6 (t true) (JObj [("b", JNull)]%string) = Ok (VStruct [VInt 0; VInt 0]) /\
  unmarshal 6 (t false) (JObj []) = Ok (VStruct [VInt 0; VInt 0]).
Proof. vm_compute. repeat split; try reflexivity; eexists; reflexivity. Qed.

(* a present value outside options= makes it fail (contrapositive: success => the value's text is an option).
   Domain (options_enforced_on): scalar and pointer-to-scalar fields of every kind; a Duration only when it is
   `string`-tagged.  Outside the domain the code does not consult options= (c05_options_unenforced). *)
Theorem c05_options_enforced : forall n fs m vs i f w d,
  unm_struct n fs m = Ok (VStruct vs) ->
  nth_error fs i = Some f -> nth_error vs i = Some w -> f_anon f = false ->
  options_enforced_on (f_ty f) (f_opts f) ->
  olookup (f_key f) m = Some d -> d <> JNull ->
  value_in_options (f_opts f) d = true.
Proof. exact struct_options_enforced. Qed.
Print Assumptions c05_options_enforced.

(* a present number outside range= makes it fail.  Domain (range_enforced_on): sized ints/uints (plain, pointer,
   `string`-tagged) and `string`-tagged Duration.  Floats: enforced by the code, outside the model (opaque). *)
Theorem c05_range_enforced : forall n fs m vs i f w d,
  unm_struct n fs m = Ok (VStruct vs) ->
  nth_error fs i = Some f -> nth_error vs i = Some w -> f_anon f = false ->
  range_enforced_on (f_ty f) (f_opts f) ->
  olookup (f_key f) m = Some d -> d <> JNull ->
  value_in_range (f_opts f) w = true.
Proof. exact struct_range_enforced. Qed.
Print Assumptions c05_range_enforced.

(* outside those domains the clause is FALSE of the code (replayed on Go; KNOWN_FINDINGS classes
   options_range_unenforced_{duration,slice_elem,map_elem,default}): Duration, slice and map fields and default=
   values are accepted although they lie outside options= / range= -- and the property (agrees) rejects each *)
Definition o_opt12 := mkopts false None ["1s"; "2s"]%string None false None false.
Definition o_rng15 := mkopts false None [] (Some (mkrange (Some 1) true (Some 5) true)) false None false.
Definition one_field (o : fopts) (t : ty) := Struct [mkfield "v" o false t].
Theorem c05_options_range_unenforced :
  (* time.Duration `options=1s|2s` <- "3s" *)
  unmarshal 6 (one_field o_opt12 (Prim KDur)) (JObj [("v", JStr "3s" None)]%string) = Ok (VStruct [VInt 3000000000]) /\
  (* time.Duration `range=[1:5]` <- "7s" *)
  unmarshal 6 (one_field o_rng15 (Prim KDur)) (JObj [("v", JStr "7s" None)]%string) = Ok (VStruct [VInt 7000000000]) /\
  (* []string `options=1s|2s` <- ["c"] *)
  unmarshal 6 (one_field o_opt12 (Slice (Prim KStr))) (JObj [("v", JArr [JStr "c" None])]%string) = Ok (VStruct [VSlice [VStr "c"]]) /\
  (* []int `range=[1:5]` <- [7] *)
  unmarshal 6 (one_field o_rng15 (Slice (Prim (KInt W64)))) (JObj [("v", JArr [JNum "7" (mkfi true true true)])]%string)
    = Ok (VStruct [VSlice [VInt 7]]) /\
  (* map[string]int `range=[1:5]` <- {"k":7} *)
  unmarshal 6 (one_field o_rng15 (Map (Prim (KInt W64)))) (JObj [("v", JObj [("k", JNum "7" (mkfi true true true))])]%string)
    = Ok (VStruct [VMap [("k"%string, VInt 7)]]) /\
  (* int `default=7,range=[1:5]` <- {} *)
  unmarshal 6 (one_field (mkopts false (Some "7"%string) [] (Some (mkrange (Some 1) true (Some 5) true)) false None false) (Prim (KInt W64))) (JObj [])
    = Ok (VStruct [VInt 7]) /\
  agrees (one_field o_opt12 (Prim KDur)) (JObj [("v", JStr "3s" None)]%string) (VStruct [VInt 3000000000]) = false /\
  agrees (one_field o_rng15 (Slice (Prim (KInt W64)))) (JObj [("v", JArr [JNum "7" (mkfi true true true)])]%string) (VStruct [VSlice [VInt 7]]) = false /\
  agrees (one_field o_rng15 (Map (Prim (KInt W64)))) (JObj [("v", JObj [("k", JNum "7" (mkfi true true true))])]%string)
         (VStruct [VMap [("k"%string, VInt 7)]]) = false /\
  agrees (one_field (mkopts false (Some "7"%string) [] (Some (mkrange (Some 1) true (Some 5) true)) false None false) (Prim (KInt W64))) (JObj [])
         (VStruct [VInt 7]) = false.
Proof. vm_compute. repeat split. Qed.
Print Assumptions c05_options_range_unenforced.

(* JSON and YAML: the YAML front-end (yaml.v2 value -> toStringKeyMap -> json) hands the unmarshaller exactly the
   document the JSON front-end produces for the same content, hence the same struct / the same error *)
Theorem c05_json_yaml_agree : forall n t y j, same_content y j = true ->
  unmarshal n t (yaml_to_json y) = unmarshal n t j.
Proof. exact json_yaml_agree. Qed.
Print Assumptions c05_json_yaml_agree.

(* ... null is NOT in the common subset: yaml null reaches the unmarshaller as the string "" *)
Theorem c05_yaml_null_refuted : exists t,
  unmarshal (fuel_of t) t (yaml_to_json (YMap [("v"%string, YNull)])) <> unmarshal (fuel_of t) t (JObj [("v"%string, JNull)]).
Proof.
  exists (Struct [mkfield "v" (mkopts true None [] None false None false) false (Ptr (Prim (KInt W64)))]). vm_compute. discriminate.
Qed.
Print Assumptions c05_yaml_null_refuted.

(* config keys: snake_case (user_name), other initial case (UserName) and lowerCamel (userName) are identified, for
   every first word c0 a and every continuation b; canonical keys are fixed points (idempotence on these forms) *)
Theorem c05_conf_key_forms : forall c0 a c1 b,
  is_low c0 = true -> str_all is_alnum a = true -> is_low c1 = true ->
  let canon := to_camel_case (String c0 (a ++ String (upper_ascii c1) b)) in
  to_camel_case (String c0 (a ++ String "_" (String c1 b))) = canon /\
  to_camel_case (String (upper_ascii c0) (a ++ String (upper_ascii c1) b)) = canon.
Proof. exact conf_key_forms. Qed.
Print Assumptions c05_conf_key_forms.

Theorem c05_conf_key_idempotent : forall c0 r, is_low c0 = true -> str_all is_alnum r = true ->
  to_camel_case (String c0 r) = String c0 r /\ to_camel_case (to_camel_case (String c0 r)) = to_camel_case (String c0 r).
Proof. intros c0 r H0 Hr. rewrite (conf_key_fixpoint c0 r H0 Hr). split; [reflexivity | apply conf_key_fixpoint; assumption]. Qed.
Print Assumptions c05_conf_key_idempotent.

(* toCamelCase is not idempotent on arbitrary strings (a key starting with '_') *)
Theorem c05_conf_idempotent_general_refuted : exists s, to_camel_case (to_camel_case s) <> to_camel_case s.
Proof. exists "_a"%string. vm_compute. discriminate. Qed.
Print Assumptions c05_conf_idempotent_general_refuted.

(* ROUND TRIP, transport parts (`_partial`): for every escaping with unesc (esc s) = s, every canonical-name function
   and every trimming transport -- the path variables, the form values and the header values that
   httpc.buildRequest writes are the ones httpx.Parse reads, under the stated well-formedness (path values present and
   non-empty [and '/'-free: a path is its list of segments], form values non-empty, header values already trimmed,
   header names distinct after canonicalisation).  Missing for the full statement: the text conversions
   fmt.Sprint <-> convertType of the scalars and the JSON body (encoding/json), both covered by the round-trip
   correspondence stream (Exec.spec_ok: parsed struct = sent struct) only. *)
Theorem c05_roundtrip_partial : forall esc unesc : string -> string, (forall s, unesc (esc s) = s) ->
  forall (canon trim : string -> string),
  (forall p m, (forall n, In n (path_vars p) -> exists v, olookup n m = Some v /\ v <> EmptyString) ->
     exists w, fill_path esc p m = Some w /\
       match_path unesc p w = Some (map (fun n => (n, match olookup n m with Some v => v | None => EmptyString end)) (path_vars p))) /\
  (forall m, (forall kv, In kv m -> snd kv <> EmptyString) -> parse_query unesc (build_query esc m) = m) /\
  (forall m, NoDup (map (fun kv => canon (fst kv)) m) -> (forall kv, In kv m -> trim (snd kv) = snd kv) ->
     forall k v, In (k, v) m -> header_get canon k (transport_header trim (build_header canon m)) = Some v).
Proof.
  intros esc unesc E canon trim. split; [|split].
  - intros p m H. destruct (fill_path_defined esc p m H) as [w Hw]. exists w. split; [exact Hw|]. apply (path_roundtrip esc unesc E). exact Hw.
  - apply (query_roundtrip esc unesc E).
  - apply header_roundtrip.
Qed.
Print Assumptions c05_roundtrip_partial.

Example c05_roundtrip_example :
  let p := [Lit "api"; Var "id"; Lit "items"; Var "name"]%string in
  let m := [("name", "a b"); ("id", "42")]%string in
  fill_path (fun s => s) p m = Some ["api"; "42"; "items"; "a b"]%string /\
  match_path (fun s => s) p ["api"; "42"; "items"; "a b"]%string = Some [("id", "42"); ("name", "a b")]%string.
Proof. vm_compute. split; reflexivity. Qed.

(* FROM-STRING numbers (form/path/header values, `,string`, default=, string/number elements of slices and maps all go
   through convertType = convert_set): the accepted integer syntax is exactly strconv.ParseInt's / ParseUint's --
   an optional single sign (ParseInt only) followed by one or more decimal digits: no blanks, no 0x, no '.', no
   exponent; leading zeros are allowed ("007" is 7).  Everything accepted denotes that integer (parse_signed) and must
   fit int64 and the field's width (c05_exact_scalars / c05_exact): nothing is wrapped or truncated. *)
Theorem c05_int_string_syntax :
  (forall s, (exists z, parse_signed s = Some z) <-> int_syntax s = true) /\
  (forall s z, parse_int64 s = Some z -> parse_signed s = Some z /\ fits_int W64 z = true) /\
  (forall s z, parse_uint64 s = Some z -> parse_signed s = Some z /\ digits_syntax s = true) /\
  (forall w s v, convert_set (KInt w) s None = Ok v -> exists z, v = VInt z /\ parse_signed s = Some z /\ fits_int w z = true) /\
  (forall w s v, convert_set (KUint w) s None = Ok v -> exists z, v = VInt z /\ parse_signed s = Some z /\ fits_uint w z = true).
Proof.
  split; [exact parse_signed_syntax|]. split; [exact parse_int64_signed|]. split.
  - intros s z H. split; [apply parse_uint64_signed; exact H|]. apply parse_udec_syntax. unfold parse_uint64 in H.
    destruct (parse_udec s); [eauto | discriminate].
  - split; intros w s v H; unfold convert_set in H.
    + destruct (parse_int64 s) eqn:E; [|discriminate]. destruct (fits_int w z) eqn:F; inversion H; subst.
      apply parse_int64_signed in E as [E _]. eauto.
    + destruct (parse_uint64 s) eqn:E; [|discriminate]. destruct (fits_uint w z) eqn:F; inversion H; subst.
      apply parse_uint64_signed in E. eauto.
Qed.
Print Assumptions c05_int_string_syntax.

Example c05_int_string_examples :
  map (fun s => convert_set (KInt W64) s None)
      ["9223372036854775807"; "9223372036854775808"; "18446744073709551616"; "1e19"; "-1e30"; "9007199254740993.0";
       "1.0"; "1e3"; " 7"; "+7"; "0x10"; "007"; "-9223372036854775808"]%string
  = [Ok (VInt 9223372036854775807); Err E_parse; Err E_parse; Err E_parse; Err E_parse; Err E_parse;
     Err E_parse; Err E_parse; Err E_parse; Ok (VInt 7); Err E_parse; Ok (VInt 7); Ok (VInt (-9223372036854775808))] /\
  map (fun s => convert_set (KUint W64) s None) ["18446744073709551615"; "18446744073709551616"; "+7"; "007"; "-0"]%string
  = [Ok (VInt 18446744073709551615); Err E_parse; Err E_parse; Ok (VInt 7); Err E_parse] /\
  map (fun s => convert_set (KInt W8) s None) ["127"; "128"; "+0128"; "-128"; "-129"]%string
  = [Ok (VInt 127); Err E_overflow; Err E_overflow; Ok (VInt (-128)); Err E_overflow].
Proof. vm_compute. repeat split. Qed.

(* ROUND TRIP and zero values: every member except a form-tagged STRING carries its zero value explicitly on the wire
   ("0", "false", an empty header value, 0 / false / "" / [] in the JSON body), so it comes back as sent whatever its
   default=.  A form-tagged string set to "" is dropped by GetFormValues and comes back as the default (or fails when
   required): it round-trips iff it is non-empty, or its default is "" / it is optional without default. *)
Theorem c05_roundtrip_form_zero : forall optional dflt sent,
  form_string_back optional dflt sent = Some sent <->
  (sent <> EmptyString \/ dflt = Some EmptyString \/ (dflt = None /\ optional = true)).
Proof. exact form_string_back_spec. Qed.
Print Assumptions c05_roundtrip_form_zero.

(* Marshal: every member lands in the part named by its tag ("" when untagged) under its key; its value is the
   member's value, or fmt.Sprint of it when `string`-tagged *)
Theorem c05_marshal_entry : forall fs vs rows, marshal fs vs = Ok rows ->
  Forall2 (fun tfv row =>
    let '(tg, f, v) := tfv in let '(p, k, w) := row in
    k = f_key f /\ p = match tg with Some t => t | None => EmptyString end /\
    ((tg = None \/ o_string (f_opts f) = false) -> w = v) /\
    (tg <> None -> o_string (f_opts f) = true -> exists s, sprint v = Some s /\ w = VStr s)) (combine fs vs) rows.
Proof.
  intros fs vs rows H. apply marshal_rows in H. eapply Forall2_impl; [|exact H].
  intros [[tg f] v] [[p k] w] Hr. simpl in Hr. apply marshal_field_entry. exact Hr.
Qed.
Print Assumptions c05_marshal_entry.

(* floats stay opaque; the JSON/YAML clause on them is Spec.json_yaml_float_agree on oracle bit patterns.  On the
   witness found (token 1.0000000596046447753906250000001 into float32: both routes 0x3FF0000000000000 = 1.0,
   strconv.ParseFloat(.,32) = 1+2^-23) the routes agree with each other but not with a single rounding *)
Example c05_float32_double_rounding_witness :
  json_yaml_float_agree (Some 4607182418800017408%N) (Some 4607182418800017408%N) (Some 4607182419336888320%N) = false /\
  json_yaml_float_agree (Some 4607182419068452864%N) (Some 4607182419068452864%N) (Some 4607182419068452864%N) = true.
Proof. vm_compute. split; reflexivity. Qed.

(* READER entry points: UnmarshalJsonReader / UnmarshalYamlReader do the bytes variant's work on everything the reader
   delivers -- same verdict, same value, however the content is chunked; an empty or already drained reader is the
   bytes variant on the empty document.  (The tokenisers are a parameter; on the Go code this is Exec.spec_ok's
   c_readers clause on every case.) *)
Theorem c05_reader_bytes_agree : forall decode n t,
  (forall chunks, unmarshal_reader decode n t chunks = unmarshal_bytes decode n t (fold_right append EmptyString chunks)) /\
  unmarshal_reader decode n t [] = unmarshal_bytes decode n t EmptyString /\
  (forall c1 c2, fold_right append EmptyString c1 = fold_right append EmptyString c2 ->
                 unmarshal_reader decode n t c1 = unmarshal_reader decode n t c2).
Proof. intros. split; [reflexivity|]. split; [reflexivity|]. apply reader_chunking. Qed.
Print Assumptions c05_reader_bytes_agree.

(* FORM values are exact: the first value of a key reaches the unmarshaller unchanged unless it is EMPTY -- a blank,
   a tab, a newline, leading/trailing spaces are data and make the member present (no default, not "missing") --
   and a string member read from it (form/path/header mode = from_string) is exactly that text *)
Theorem c05_form_value_exact :
  (forall k s pj rest ps, s <> EmptyString ->
     exists m, form_doc ((k, JStr s pj :: rest) :: ps) = JObj m /\ olookup k m = Some (JStr s pj)) /\
  (forall t o s pj w, deref t = Prim KStr -> from_string t o (JStr s pj) = Ok w -> w = wrap_ptr t (VStr s)).
Proof. split; [exact form_doc_present | exact from_string_str_exact]. Qed.
Print Assumptions c05_form_value_exact.

(* HEADER maps built programmatically -- a key with no value (nil or empty list), one value, several values -- and
   every form: parsing never panics *)
Theorem c05_parse_total : forall n t, wf_ty t = true ->
  (forall p, unmarshal n t (header_doc p) <> Panic) /\ (forall p, unmarshal n t (form_doc p) <> Panic).
Proof. intros n t W. split; intro p; apply never_panics; exact W. Qed.
Print Assumptions c05_parse_total.

Example c05_form_blank_example :
  let t := Struct [mkfield "q" (mkopts false (Some "dflt") [] None true None false) false (Prim KStr)]%string in
  unmarshal 4 t (form_doc [("q", [JStr " " None])]%string) = Ok (VStruct [VStr " "]) /\
  unmarshal 4 t (form_doc [("q", [JStr "" None])]%string) = Ok (VStruct [VStr "dflt"]) /\
  unmarshal 4 (Struct [mkfield "X-A" (mkopts true None [] None false None false) false (Slice (Prim KStr))]%string)
            (header_doc [("X-A", Some [])]%string) = Ok (VStruct [VSlice []]).
Proof. vm_compute. repeat split. Qed.

(* INDEPENDENCE of calls: the result of a call inside any history of calls (with or without options, before or after)
   is the result of that call alone -- the model has no state to leak.  On the Go code this is Exec.spec_ok's pair
   clause: every option-less call made after (and before) a conf.Load* / WithCanonicalKeyFunc call in the same process
   must give what the same call gives in a process that never used options. *)
Theorem c05_calls_independent : forall pre c post,
  nth_error (run_history (pre ++ c :: post)) (List.length pre) = Some (run_call c).
Proof.
  intros pre c post. unfold run_history. rewrite map_app. rewrite nth_error_app2; rewrite map_length; [|lia].
  rewrite Nat.sub_diag. reflexivity.
Qed.
Print Assumptions c05_calls_independent.

(* JSON bodies: the json-tagged members are read from the body for EVERY method that carries one *)
Theorem c05_json_body_any_method : forall m1 m2 body n t, parse_json_body m1 body n t = parse_json_body m2 body n t.
Proof. reflexivity. Qed.
Print Assumptions c05_json_body_any_method.

(* YAML integer literals at the int64 / uint64 edge keep their text (yaml.v2 int64 / uint64 -> lang.Repr): the JSON and
   the YAML document are the same content, so the verdict and the value are the same -- never a wrapped number *)
Example c05_yaml_int_edges :
  same_content (YSeq [YInt 9223372036854775807; YInt 9223372036854775808; YInt 18446744073709551615; YInt (-9223372036854775808)])
               (JArr [JNum "9223372036854775807" (int_fi 9223372036854775807); JNum "9223372036854775808" (int_fi 9223372036854775808); JNum "18446744073709551615" (int_fi 18446744073709551615);
                      JNum "-9223372036854775808" (int_fi (-9223372036854775808))]) = true /\
  (let t := Struct [mkfield "v" no_opts false (Prim (KInt W64))]%string in
   exists e, unmarshal 4 t (yaml_to_json (YMap [("v", YInt 9223372036854775808)]%string)) = Err e) /\
  (let t := Struct [mkfield "v" no_opts false (Prim (KInt W64))]%string in
   unmarshal 4 t (yaml_to_json (YMap [("v", YInt 9223372036854775807)]%string)) = Ok (VStruct [VInt 9223372036854775807])).
Proof. vm_compute. split; [reflexivity|]. split; [eexists; reflexivity | reflexivity]. Qed.

(* options= are matched EXACTLY (String.eqb): a value is accepted only if it IS one of the declared options -- another
   letter case, surrounding blanks, a prefix or a superstring are different strings -- on every route: number tokens by
   their text, strings, bools, `,string` / form / path / header values (from_string), and environment values (env=) *)
Theorem c05_options_exact :
  (forall o s, in_options o s = true <-> (o_options o = [] \/ In s (o_options o))) /\
  (forall t o raw fi w, json_number t o raw fi = Ok w -> in_options o raw = true) /\
  (forall t o s pj w, from_string t o (JStr s pj) = Ok w -> in_options o s = true) /\
  (forall t o ev v, env_value t o ev = Ok v -> in_options o ev = true).
Proof.
  split; [exact in_options_exact|]. split; [|split; [|exact env_value_options]].
  - intros t o raw fi w H. unfold json_number in H. destruct (negb (range_ok_tok o raw fi)); [discriminate|].
    destruct (in_options o raw); [reflexivity | discriminate].
  - intros t o s pj w H. unfold from_string in H. destruct (deref t); try discriminate.
    destruct (in_options o s); [reflexivity | discriminate].
Qed.
Print Assumptions c05_options_exact.

Example c05_options_case_examples :
  let o := mkopts false None ["dev"; "test"; "prod"]%string None false None false in
  map (in_options o) ["dev"; "DEV"; "Prod"; " dev"; "dev "; "de"; "devel"; "prod"; ""]%string
  = [true; false; false; false; false; false; false; true; false].
Proof. vm_compute. reflexivity. Qed.

(* INHERIT, as HEAD behaves (pinned): an `inherit` member is looked up in its own object, then in the enclosing objects
   (nearest first).  Present as a non-object: the child's value.  Absent: the nearest enclosing value.  Present as an
   object in the child AND in an enclosing object: the nested sections are MERGED -- the child's entries win, the
   enclosing section's entries for the keys the child lacks are added.  (So a key the child's nested section leaves out
   takes the parent's nested value before any default / zero / required rule applies; one level only, see
   c05_inherit_shallow_example.) *)
Theorem c05_inherit :
  (forall k m anc v, olookup k m = Some v -> (forall vm, v <> JObj vm) -> inh_lookup k (m :: anc) = Some v) /\
  (forall k m anc, olookup k m = None -> inh_lookup k (m :: anc) = inh_lookup k anc) /\
  (forall k m anc vm pm, olookup k m = Some (JObj vm) -> inh_lookup k anc = Some (JObj pm) ->
     exists merged, inh_lookup k (m :: anc) = Some (JObj merged) /\
       forall key, olookup key merged = match olookup key vm with Some x => Some x | None => olookup key pm end) /\
  (forall k m anc vm, olookup k m = Some (JObj vm) -> (forall pm, inh_lookup k anc <> Some (JObj pm)) ->
     inh_lookup k (m :: anc) = Some (JObj vm)).
Proof.
  split; [|split; [|split; [exact inh_merge_lookup|]]].
  - intros k m anc v H N. simpl. rewrite H. destruct v; try reflexivity. exfalso. eapply N. reflexivity.
  - intros k m anc H. simpl. rewrite H. reflexivity.
  - intros k m anc vm H N. simpl. rewrite H. destruct (inh_lookup k anc) as [[]|] eqn:E; try reflexivity. exfalso. eapply N. reflexivity.
Qed.
Print Assumptions c05_inherit.

(* parent tls={cert,key,min}, child rpc.tls={cert}: the child's section is merged with the parent's *)
Example c05_inherit_nested_example :
  let tls := Struct [mkfield "cert" no_opts false (Prim KStr);
                     mkfield "key" (mkopts true None [] None false None false) false (Prim KStr);
                     mkfield "min" (mkopts false (Some "12") [] None false None false) false (Prim (KInt W64))]%string in
  let inh := mkopts false None [] None false None true in
  let t := Struct [mkfield "tls" no_opts false tls;
                   mkfield "rpc" no_opts false (Struct [mkfield "tls" inh false tls])]%string in
  let fi := mkfi true true true in
  unmarshal_inh (fuel_of t) t (JObj [("tls", JObj [("cert", JStr "pc" None); ("key", JStr "pk" None); ("min", JNum "13" fi)]);
                                     ("rpc", JObj [("tls", JObj [("cert", JStr "cc" None)])])]%string)
  = Ok (VStruct [VStruct [VStr "pc"; VStr "pk"; VInt 13]; VStruct [VStruct [VStr "cc"; VStr "pk"; VInt 13]]]) /\
  unmarshal_inh (fuel_of t) t (JObj [("tls", JObj [("cert", JStr "pc" None)]); ("rpc", JObj [])]%string)
  = Ok (VStruct [VStruct [VStr "pc"; VStr ""; VInt 12]; VStruct [VStruct [VStr "pc"; VStr ""; VInt 12]]]).
Proof. vm_compute. split; reflexivity. Qed.

(* the merge is SHALLOW: only the entries of the value found under the inherit key are filled from the enclosing section.
   A sub-section nested inside an inherited section (etcd.tls, not itself tagged) is taken exactly as the child wrote it:
   an absent optional key stays "", a default= key gets its default, an absent required key makes unmarshalling fail *)
Example c05_inherit_shallow_example :
  let tls := Struct [mkfield "cert" no_opts false (Prim KStr);
                     mkfield "key" (mkopts true None [] None false None false) false (Prim KStr);
                     mkfield "min" (mkopts false (Some "12") [] None false None false) false (Prim (KInt W64))]%string in
  let etcd := Struct [mkfield "hosts" (mkopts true None [] None false None false) false (Prim KStr); mkfield "tls" no_opts false tls]%string in
  let inh := mkopts false None [] None false None true in
  let t := Struct [mkfield "etcd" no_opts false etcd; mkfield "rpc" no_opts false (Struct [mkfield "etcd" inh false etcd])]%string in
  let fi := mkfi true true true in
  let parent := ("etcd", JObj [("hosts", JStr "ph" None); ("tls", JObj [("cert", JStr "pc" None); ("key", JStr "pk" None); ("min", JNum "13" fi)])])%string in
  unmarshal_inh (fuel_of t) t (JObj [parent; ("rpc", JObj [("etcd", JObj [("tls", JObj [("cert", JStr "cc" None)])])])]%string)
  = Ok (VStruct [VStruct [VStr "ph"; VStruct [VStr "pc"; VStr "pk"; VInt 13]];
                 VStruct [VStruct [VStr "ph"; VStruct [VStr "cc"; VStr ""; VInt 12]]]]) /\
  (exists e, unmarshal_inh (fuel_of t) t (JObj [parent; ("rpc", JObj [("etcd", JObj [("tls", JObj [("key", JStr "ck" None)])])])]%string) = Err e) /\
  unmarshal_inh (fuel_of t) t (JObj [parent; ("rpc", JObj [("etcd", JObj [("hosts", JStr "ch" None)])])]%string)
  = Ok (VStruct [VStruct [VStr "ph"; VStruct [VStr "pc"; VStr "pk"; VInt 13]];
                 VStruct [VStruct [VStr "ch"; VStruct [VStr "pc"; VStr "pk"; VInt 13]]]]).
Proof. vm_compute. split; [reflexivity|]. split; [eexists; reflexivity | reflexivity]. Qed.

(* ... and it is done IN PLACE on the decoded document: the same document, the same member types, only the declaration
   order of `etcd` and `rpc` swapped -- rpc.etcd.tls.key is "pk" when top.etcd.tls had already been filled from top.tls,
   "" otherwise (rpc.tls = null stops the lookup at rpc) *)
Example c05_inherit_order_dependent :
  let opt := mkopts true None [] None false None false in
  let inh := mkopts false None [] None false None true in
  let oinh := mkopts true None [] None false None true in
  let tls := Struct [mkfield "cert" no_opts false (Prim KStr); mkfield "key" opt false (Prim KStr)]%string in
  let etcd := Struct [mkfield "tls" inh false tls]%string in
  let rpc := Struct [mkfield "tls" oinh false tls; mkfield "etcd" oinh false etcd]%string in
  let d := JObj [("tls", JObj [("cert", JStr "cc" None); ("key", JStr "pk" None)]);
                 ("etcd", JObj [("tls", JObj [("cert", JStr "pc" None)])]); ("rpc", JObj [("tls", JNull)])]%string in
  let t1 := Struct [mkfield "tls" no_opts false tls; mkfield "etcd" no_opts false etcd; mkfield "rpc" no_opts false rpc]%string in
  let t2 := Struct [mkfield "tls" no_opts false tls; mkfield "rpc" no_opts false rpc; mkfield "etcd" no_opts false etcd]%string in
  unmarshal_inh (fuel_of t1) t1 d
  = Ok (VStruct [VStruct [VStr "cc"; VStr "pk"]; VStruct [VStruct [VStr "pc"; VStr "pk"]];
                 VStruct [VStruct [VStr ""; VStr ""]; VStruct [VStruct [VStr "pc"; VStr "pk"]]]]) /\
  unmarshal_inh (fuel_of t2) t2 d
  = Ok (VStruct [VStruct [VStr "cc"; VStr "pk"]; VStruct [VStruct [VStr ""; VStr ""]; VStruct [VStruct [VStr "pc"; VStr ""]]];
                 VStruct [VStruct [VStr "pc"; VStr "pk"]]]).
Proof. vm_compute. split; reflexivity. Qed.

(* FLOAT members are never stored beyond their range: a float32 member is written only from a token that parses as a
   float64 AND fits float32 (OverflowFloat, fix D1), on every route that goes through convertType / setMatchedPrimitiveValue
   (`,string`, form / path / header, default=, elements of []float32 and map[string]float32) and through
   processFieldPrimitiveWithJSONNumber; on the observed struct this is Spec.val_finite (no +Inf / -Inf / NaN) *)
Theorem c05_float_in_range :
  (forall s fi v, convert_set KF32 s fi = Ok v -> exists i, fi = Some i /\ fi_fits64 i = true /\ fi_fits32 i = true) /\
  (forall s fi v, convert_set KF64 s fi = Ok v -> exists i, fi = Some i /\ fi_fits64 i = true) /\
  (forall t o raw fi w, deref t = Prim KF32 -> json_number t o raw fi = Ok w -> fi_fits64 fi = true /\ fi_fits32 fi = true).
Proof.
  split; [|split].
  - intros s fi v H. unfold convert_set in H. destruct fi as [i|]; [|discriminate].
    destruct (fi_fits64 i) eqn:A; [|discriminate]. destruct (fi_fits32 i) eqn:B; [|discriminate]. eauto.
  - intros s fi v H. unfold convert_set in H. destruct fi as [i|]; [|discriminate]. destruct (fi_fits64 i) eqn:A; [|discriminate]. eauto.
  - intros t o raw fi w D H. unfold json_number in H. rewrite D in H.
    destruct (negb (range_ok_tok o raw fi)); [discriminate|]. destruct (negb (in_options o raw)); [discriminate|].
    destruct (fi_fits64 fi) eqn:A; [|discriminate]. destruct (fi_fits32 fi) eqn:B; [|discriminate]. auto.
Qed.
Print Assumptions c05_float_in_range.

(* ---------------- non-vacuity *)
Example c05_keys_example :
  to_camel_case "user_name" = "userName"%string /\ to_camel_case "UserName" = "userName"%string /\
  to_camel_case "userName" = "userName"%string /\ to_camel_case "max_conns_2x" = "maxConns2X"%string.
Proof. vm_compute. repeat split. Qed.

Definition ex_ty : ty := Struct [
  mkfield "i8" no_opts false (Prim (KInt W8));
  mkfield "n" (mkopts false (Some "5"%string) [] (Some (mkrange (Some 1) true (Some 9) true)) false None false) false (Prim (KInt W64));
  mkfield "p" (mkopts true None [] None false None false) false (Ptr (Prim KStr));
  mkfield "s" no_opts false (Slice (Struct [mkfield "d" no_opts false (Prim KDur)]))].
Definition fi0 := mkfi true true true.

Example c05_ok_example :
  unmarshal (fuel_of ex_ty) ex_ty (JObj [("i8", JNum "-128" fi0); ("s", JArr [JObj [("d", JStr "1m30s" None)]])]%string)
  = Ok (VStruct [VInt (-128); VInt 5; VNilPtr; VSlice [VStruct [VInt 90000000000]]]).
Proof. vm_compute. reflexivity. Qed.

(* the reproductions of D1 and D9 are errors of the repaired code, neither wrapped values nor panics *)
Example c05_d1_d9_examples :
  (exists e, unmarshal (fuel_of ex_ty) ex_ty (JObj [("i8", JNum "300" fi0); ("s", JArr [])]%string) = Err e) /\
  (exists e, unmarshal (fuel_of ex_ty) ex_ty (JObj [("i8", JNum "1" fi0); ("s", JArr [JNum "1" fi0])]%string) = Err e) /\
  (exists e, unmarshal (fuel_of ex_ty) ex_ty (JObj [("i8", JNum "1" fi0); ("s", JArr [JObj [("d", JNum "5" fi0)]])]%string) = Err e) /\
  (exists e, unmarshal (fuel_of ex_ty) ex_ty (JObj [("i8", JNum "1" fi0); ("n", JNum "10" fi0); ("s", JArr [])]%string) = Err e).
Proof. vm_compute. repeat split; eexists; reflexivity. Qed.

Example c05_wf_example : wf_ty ex_ty = true /\ wfx ex_ty = true. Proof. split; reflexivity. Qed.
Example c05_same_content_example :
  same_content (YMap [("a", YInt (-7)); ("b", YSeq [YBool true; YStr "x" None])]%string)
               (JObj [("a", JNum "-7" (int_fi (-7))); ("b", JArr [JBool true; JStr "x" None])]%string) = true.
Proof. vm_compute. reflexivity. Qed.
