(* C05 Props: the property theorems, nothing else.
   Model: C05.Model (transcription of lib/mapping on the repaired tree), Spec: C05.Spec.agrees.
   `unm_struct n fs m` is the code run on a struct with fields fs against the object m at ANY nesting level
   (top level, nested struct, slice/map element); field i of the struct corresponds to value i of the result.
   NOT covered by a theorem: c05_roundtrip (httpc.buildRequest -> httpx.Parse is not modelled);
   c05_exact is proved for scalar fields / scalar elements only (`_partial`): the lifting of `agrees` through
   slices, maps and nested structs is checked on every correspondence case by Exec.spec_ok, not proved. *)
From God Require Import Base.Prelude C05.Model C05.Spec C05.Proofs.
From Coq Require Import String Ascii.
Local Open Scope Z_scope.

(* never panics: every type whose embedded fields are structs, EVERY document, every fuel *)
Theorem c05_never_panics : forall n t d, wf_ty t = true -> unmarshal n t d <> Panic.
Proof. exact never_panics. Qed.
Print Assumptions c05_never_panics.

(* exactness of a present scalar (or pointer-to-scalar) field: the value IS the document's value -- the same
   integer, and it fits the kind (leaf_agrees: parse_signed token = Some z /\ fits_int/fits_uint w z); bool,
   string, Duration and float tokens likewise.  dur_opts_ok: no options=/range= on a Duration field. *)
Theorem c05_exact_partial : forall strict n fs m vs i f w d k,
  unm_struct n fs m = Ok (VStruct vs) ->
  nth_error fs i = Some f -> nth_error vs i = Some w -> f_anon f = false ->
  deref (f_ty f) = Prim k -> dur_opts_ok (f_ty f) (f_opts f) ->
  olookup (f_key f) m = Some d -> d <> JNull ->
  agrees strict (f_ty f) d w = true.
Proof. intros. eapply struct_scalar_present; eauto. Qed.
Print Assumptions c05_exact_partial.

(* exactness of every scalar written into a slice / map element, a `string`-tagged field or from a default:
   all of them go through convertType + setMatchedPrimitiveValue; a number token through
   processFieldPrimitiveWithJSONNumber.  No wrap, no truncation: the result denotes the token's integer. *)
Theorem c05_exact_elements_partial :
  (forall k s fi v, convert_set k s fi = Ok v ->
     leaf_agrees k (match fi with Some i => JNum s i | None => JStr s end) v = true) /\
  (forall t o raw fi w, json_number t o raw fi = Ok w -> agrees true t (JNum raw fi) w = true) /\
  (forall w z raw fi, leaf_agrees (KInt w) (JNum raw fi) (VInt z) = true -> parse_signed raw = Some z /\ fits_int w z = true) /\
  (forall w z raw fi, leaf_agrees (KUint w) (JNum raw fi) (VInt z) = true -> parse_signed raw = Some z /\ fits_uint w z = true).
Proof.
  split; [exact convert_set_exact|]. split; [intros; eapply json_number_exact; eauto|]. split.
  - intros w z raw fi H. simpl in H. destruct (parse_signed raw); [|discriminate]. apply andb_true_iff in H as [H1 H2].
    apply Z.eqb_eq in H1. subst. auto.
  - intros w z raw fi H. simpl in H. destruct (parse_signed raw); [|discriminate]. apply andb_true_iff in H as [H1 H2].
    apply Z.eqb_eq in H1. subst. auto.
Qed.
Print Assumptions c05_exact_elements_partial.

(* a required field (no default, not optional; scalar, pointer, slice, or struct with a required member) that is
   absent makes the whole struct fail *)
Theorem c05_required : forall n fs m i f,
  nth_error fs i = Some f -> f_anon f = false ->
  olookup (f_key f) m = None -> o_default (f_opts f) = None -> o_optional (f_opts f) = false ->
  required_kind (f_ty f) ->
  forall v, unm_struct n fs m <> Ok v.
Proof. exact struct_required. Qed.
Print Assumptions c05_required.

(* ... but an absent required MAP field is silently filled with an empty map: the clause is false of the code *)
Theorem c05_required_map_refuted : exists t d v,
  unmarshal (fuel_of t) t d = Ok v /\ agrees true t d v = false /\ agrees false t d v = true.
Proof.
  exists (Struct [mkfield "v" no_opts false (Map (Prim (KInt W64)))]), (JObj []), (VStruct [VMap []]).
  vm_compute. repeat split.
Qed.
Print Assumptions c05_required_map_refuted.

(* an absent field with a default takes the parsed default (exactly: same integer, fits the kind) *)
Theorem c05_default : forall n fs m vs i f dv w,
  unm_struct n fs m = Ok (VStruct vs) ->
  nth_error fs i = Some f -> nth_error vs i = Some w -> f_anon f = false ->
  olookup (f_key f) m = None -> o_default (f_opts f) = Some dv ->
  default_image (f_ty f) dv w.
Proof. exact struct_default. Qed.
Print Assumptions c05_default.

(* an optional field that is absent (or null) stays zero: nil pointer/slice/map, 0, "", false, zero struct *)
Theorem c05_optional_zero : forall n fs m vs i f w,
  unm_struct n fs m = Ok (VStruct vs) ->
  nth_error fs i = Some f -> nth_error vs i = Some w -> f_anon f = false ->
  o_default (f_opts f) = None -> o_optional (f_opts f) = true ->
  olookup (f_key f) m = None \/ olookup (f_key f) m = Some JNull ->
  w = zero_val (f_ty f).
Proof. exact struct_optional_zero. Qed.
Print Assumptions c05_optional_zero.

(* ... and leaving out every field of an all-optional struct is accepted, with the zero struct as result *)
Theorem c05_optional_succeeds : forall n fs m,
  (forall f, In f fs -> f_anon f = false /\ o_optional (f_opts f) = true /\ o_default (f_opts f) = None /\ olookup (f_key f) m = None) ->
  unm_struct (S (S n)) fs m = Ok (VStruct (map (fun f => zero_val (f_ty f)) fs)).
Proof. exact optional_succeeds. Qed.
Print Assumptions c05_optional_succeeds.

(* a present value outside options= makes it fail (contrapositive: success => the value's text is an option) *)
Theorem c05_options_enforced : forall n fs m vs i f w d k,
  unm_struct n fs m = Ok (VStruct vs) ->
  nth_error fs i = Some f -> nth_error vs i = Some w -> f_anon f = false ->
  deref (f_ty f) = Prim k -> dur_opts_ok (f_ty f) (f_opts f) ->
  olookup (f_key f) m = Some d -> d <> JNull ->
  value_in_options (f_opts f) d = true.
Proof. intros. eapply (struct_scalar_present true); eauto. Qed.
Print Assumptions c05_options_enforced.

(* a present number outside range= makes it fail *)
Theorem c05_range_enforced : forall n fs m vs i f w d k,
  unm_struct n fs m = Ok (VStruct vs) ->
  nth_error fs i = Some f -> nth_error vs i = Some w -> f_anon f = false ->
  deref (f_ty f) = Prim k -> dur_opts_ok (f_ty f) (f_opts f) -> is_int_ty (f_ty f) = true ->
  olookup (f_key f) m = Some d -> d <> JNull ->
  value_in_range (f_opts f) w = true.
Proof. intros. eapply (struct_scalar_present true); eauto. Qed.
Print Assumptions c05_range_enforced.

(* JSON and YAML: the YAML front-end (yaml.v2 value -> toStringKeyMap -> json) hands the unmarshaller exactly the
   document the JSON front-end produces for the same content, hence the same struct / the same error *)
Theorem c05_json_yaml_agree : forall n t y j, same_content y j = true ->
  unmarshal n t (yaml_to_json y) = unmarshal n t j.
Proof. exact json_yaml_agree. Qed.
Print Assumptions c05_json_yaml_agree.

(* ... null is NOT in the common subset: yaml null reaches the unmarshaller as the string "" *)
Theorem c05_yaml_null_refuted : exists t,
  unmarshal (fuel_of t) t (yaml_to_json (YMap [("v"%string, YNull)])) <> unmarshal (fuel_of t) t (JObj [("v"%string, JNull)]).
Proof.
  exists (Struct [mkfield "v" (mkopts true None [] None false) false (Ptr (Prim (KInt W64)))]). vm_compute. discriminate.
Qed.
Print Assumptions c05_yaml_null_refuted.

(* config keys: snake_case (user_name), other initial case (UserName) and lowerCamel (userName) are identified, for
   every first word c0 a and every continuation b; canonical keys are fixed points (idempotence on these forms) *)
Theorem c05_conf_key_forms : forall c0 a c1 b,
  is_low c0 = true -> str_all is_alnum a = true -> is_low c1 = true ->
  let canon := to_camel_case (String c0 (a ++ String (upper_ascii c1) b)) in
  to_camel_case (String c0 (a ++ String "_" (String c1 b))) = canon /\
  to_camel_case (String (upper_ascii c0) (a ++ String (upper_ascii c1) b)) = canon.
Proof. exact conf_key_forms. Qed.
Print Assumptions c05_conf_key_forms.

Theorem c05_conf_key_idempotent : forall c0 r, is_low c0 = true -> str_all is_alnum r = true ->
  to_camel_case (String c0 r) = String c0 r /\ to_camel_case (to_camel_case (String c0 r)) = to_camel_case (String c0 r).
Proof. intros c0 r H0 Hr. rewrite (conf_key_fixpoint c0 r H0 Hr). split; [reflexivity | apply conf_key_fixpoint; assumption]. Qed.
Print Assumptions c05_conf_key_idempotent.

(* toCamelCase is not idempotent on arbitrary strings (a key starting with '_') *)
Theorem c05_conf_idempotent_general_refuted : exists s, to_camel_case (to_camel_case s) <> to_camel_case s.
Proof. exists "_a"%string. vm_compute. discriminate. Qed.
Print Assumptions c05_conf_idempotent_general_refuted.

(* ---------------- non-vacuity *)
Example c05_keys_example :
  to_camel_case "user_name" = "userName"%string /\ to_camel_case "UserName" = "userName"%string /\
  to_camel_case "userName" = "userName"%string /\ to_camel_case "max_conns_2x" = "maxConns2X"%string.
Proof. vm_compute. repeat split. Qed.

Definition ex_ty : ty := Struct [
  mkfield "i8" no_opts false (Prim (KInt W8));
  mkfield "n" (mkopts false (Some "5"%string) [] (Some (mkrange (Some 1) true (Some 9) true)) false) false (Prim (KInt W64));
  mkfield "p" (mkopts true None [] None false) false (Ptr (Prim KStr));
  mkfield "s" no_opts false (Slice (Struct [mkfield "d" no_opts false (Prim KDur)]))].
Definition fi0 := mkfi true true true.

Example c05_ok_example :
  unmarshal (fuel_of ex_ty) ex_ty (JObj [("i8", JNum "-128" fi0); ("s", JArr [JObj [("d", JStr "1m30s")]])]%string)
  = Ok (VStruct [VInt (-128); VInt 5; VNilPtr; VSlice [VStruct [VInt 90000000000]]]).
Proof. vm_compute. reflexivity. Qed.

(* the reproductions of D1 and D9 are errors of the repaired code, neither wrapped values nor panics *)
Example c05_d1_d9_examples :
  (exists e, unmarshal (fuel_of ex_ty) ex_ty (JObj [("i8", JNum "300" fi0); ("s", JArr [])]%string) = Err e) /\
  (exists e, unmarshal (fuel_of ex_ty) ex_ty (JObj [("i8", JNum "1" fi0); ("s", JArr [JNum "1" fi0])]%string) = Err e) /\
  (exists e, unmarshal (fuel_of ex_ty) ex_ty (JObj [("i8", JNum "1" fi0); ("s", JArr [JObj [("d", JNum "5" fi0)]])]%string) = Err e) /\
  (exists e, unmarshal (fuel_of ex_ty) ex_ty (JObj [("i8", JNum "1" fi0); ("n", JNum "10" fi0); ("s", JArr [])]%string) = Err e).
Proof. vm_compute. repeat split; eexists; reflexivity. Qed.

Example c05_wf_example : wf_ty ex_ty = true. Proof. reflexivity. Qed.
Example c05_same_content_example :
  same_content (YMap [("a", YInt (-7)); ("b", YSeq [YBool true; YStr "x"])]%string)
               (JObj [("a", JNum "-7" int_fi); ("b", JArr [JBool true; JStr "x"])]%string) = true.
Proof. vm_compute. reflexivity. Qed.
