(* C05 Exec: checkers evaluated by vm_compute on (struct shape, document, what the Go code did). *)
From God Require Import Base.Prelude.
From God Require Export C05.Model C05.Spec.
From Coq Require Import String Ascii.
Local Open Scope Z_scope.

Inductive obs := OOk (v : val) | OErr | OPanic.

Inductive mobs := MRows (rows : list (string * string * val)) | MErr | MPanic.

(* a request handed to httpx.Parse: form pairs (key, values) or a programmatic header map (None = nil list) *)
Inductive direct :=
| DForm (t : ty) (pairs : list (string * list jv))
| DHeader (t : ty) (pairs : list (string * option (list jv))).

Record case := mkcase {
  c_ty : ty;                      (* struct shape materialised with reflect.StructOf *)
  c_doc : jv;                     (* the JSON document (numbers as tokens, float oracle attached) *)
  c_obs : obs;                    (* mapping.UnmarshalJsonBytes: dump of the struct | error | panic *)
  c_yaml : option (yv * obs);     (* the same content as YAML and mapping.UnmarshalYamlBytes' outcome *)
  c_conf : option (jv * obs * option obs);
                                  (* the same content with re-spelled keys (snake_case / UpperCamel at every struct level,
                                     also inside nested lists and maps), conf.LoadFromJsonBytes' outcome and, when the
                                     document is in the YAML subset, conf.LoadFromYamlBytes' outcome *)
  c_keys : list (string * string); (* (key spelling, conf.toCamelCase of it) observed *)
  c_outside : bool;               (* shape/document outside the modelled universe: checked for panic-freedom only *)
  c_rt : option (val * val * obs); (* round trip: intended request value, the value the driver built (sent with
                                     httpc.buildRequest + DoRequest), and what httpx.Parse made of the request *)
  c_str : option obs;             (* the same document through NewUnmarshaler(.., WithStringValues()): form/path/header mode *)
  c_float : list (option N * option N * option N);
                                  (* a number token into float32 and float64: Float64bits after the JSON route, after the
                                     YAML route, and of strconv.ParseFloat(token, bitsize) *)
  c_marshal : option (list (option string * field) * list val * mobs);
                                  (* mapping.Marshal of a struct value: members (part name, declaration), values, result *)
  c_readers : list (obs * obs);   (* pairs of outcomes that must be the same.  (reference call in a process that never used
                                     options, the same option-less call made after / before a conf.Load* or
                                     WithCanonicalKeyFunc call); (mapping.UnmarshalJsonBytes, httpx.Parse of a request with
                                     that JSON body, any method); and (bytes entry point, reader entry point) on the same content: UnmarshalJsonBytes vs
                                     UnmarshalJsonReader, UnmarshalYamlBytes vs UnmarshalYamlReader; also the empty and the
                                     blank document, an already drained reader, a one-byte-at-a-time reader *)
  c_direct : option (direct * obs); (* httpx.Parse called on a constructed request (GET query / POST form / header map) *)
  c_env : option (ty * fopts * string * obs)
                                  (* a one-member struct whose member carries env=NAME (with these other options), the value of
                                     that environment variable, and the outcome of unmarshalling {} *)
}.

Definition res_matches (r : result val) (o : obs) : bool :=
  match r, o with
  | Ok v, OOk w => val_eqb v w
  | Err e, OErr => negb (Nat.eqb e E_fuel)
  | Panic, OPanic => true
  | _, _ => false
  end.

Definition jv_eqb : jv -> jv -> bool :=
  fix go (a b : jv) {struct a} : bool :=
    match a, b with
    | JNull, JNull => true
    | JBool x, JBool y => Bool.eqb x y
    | JNum r1 _, JNum r2 _ => String.eqb r1 r2
    | JStr x _, JStr y _ => String.eqb x y
    | JArr l1, JArr l2 => all2 (fun x y => go x y) l1 l2
    | JObj m1, JObj m2 => all2 (fun p q => String.eqb (fst p) (fst q) && go (snd p) (snd q)) m1 m2
    | _, _ => false
    end.

(* conf: keys of the document and of the fields are both canonicalised (config.go:57-66) *)
Fixpoint camel_ty (t : ty) : ty :=
  match t with
  | Prim k => Prim k
  | Ptr t' => Ptr (camel_ty t')
  | Slice t' => Slice (camel_ty t')
  | Map t' => Map (camel_ty t')
  | Struct fs => Struct (map (fun f => mkfield (if f_anon f then f_key f else to_camel_case (f_key f)) (f_opts f) (f_anon f) (camel_ty (f_ty f))) fs)
  end.

(* WithStringValues(): every scalar member is read as if it were `string`-tagged, at every nesting level *)
Fixpoint force_string (t : ty) : ty :=
  match t with
  | Prim k => Prim k
  | Ptr t' => Ptr (force_string t')
  | Slice t' => Slice (force_string t')
  | Map t' => Map (force_string t')
  | Struct fs => Struct (map (fun f =>
      let o := f_opts f in
      let o' := match deref (f_ty f) with
                | Prim _ => mkopts (o_optional o) (o_default o) (o_options o) (o_range o) true (o_dep o) (o_inherit o)
                | _ => o end in
      mkfield (f_key f) o' (f_anon f) (force_string (f_ty f))) fs)
  end.

Definition row_eqb (a b : string * string * val) : bool :=
  String.eqb (fst (fst a)) (fst (fst b)) && String.eqb (snd (fst a)) (snd (fst b)) && val_eqb (snd a) (snd b).

Definition marshal_matches (r : result (list (string * string * val))) (o : mobs) : bool :=
  match r, o with
  | Ok rows, MRows rows' => Nat.eqb (List.length rows) (List.length rows') && forallb (fun a => existsb (row_eqb a) rows') rows
  | Err _, MErr => true
  | _, _ => false
  end.

(* nil and empty slices are identified (a nil header list leaves the field nil, an empty one makes it empty) *)
Fixpoint norm_nil (v : val) : val :=
  match v with
  | VNilSlice => VSlice []
  | VStruct l => VStruct (map norm_nil l)
  | VPtr v' => VPtr (norm_nil v')
  | _ => v
  end.
Definition has_nil_list (pairs : list (string * option (list jv))) : bool :=
  existsb (fun kv => match snd kv with None => true | Some _ => false end) pairs.
Definition direct_ty (d : direct) : ty := force_string (match d with DForm t _ | DHeader t _ => t end).
Definition direct_doc (d : direct) : jv := match d with DForm _ p => form_doc p | DHeader _ p => header_doc p end.

(* --- the transcription reproduces what the Go code did --- *)
(* `inherit` members are resolved first (Model.inherit_doc); the identity when no member is tagged inherit *)
Definition eff_doc (t : ty) (d : jv) : jv := if has_inherit t then inherit_doc t [] d else d.

Definition model_ok (c : case) : bool :=
  let n := fuel_of (c_ty c) in
  if c_outside c then true else
  res_matches (unmarshal n (c_ty c) (eff_doc (c_ty c) (c_doc c))) (c_obs c) &&
  match c_yaml c with
  | None => true
  | Some (y, o) => res_matches (unmarshal n (c_ty c) (eff_doc (c_ty c) (yaml_to_json y))) o
  end &&
  match c_conf c with
  | None => true
  | Some (d, o, oy) =>
      res_matches (unmarshal n (camel_ty (c_ty c)) (camel_keys d)) o &&
      match oy with None => true | Some o' => res_matches (unmarshal n (camel_ty (c_ty c)) (camel_keys d)) o' end
  end &&
  forallb (fun kc => String.eqb (to_camel_case (fst kc)) (snd kc)) (c_keys c) &&
  match c_rt c with
  | None => true
  | Some (intended, built, _) => val_eqb intended built      (* the driver sent the generated value *)
  end &&
  match c_str c with
  | None => true
  | Some o => res_matches (unmarshal n (force_string (c_ty c)) (c_doc c)) o
  end &&
  match c_marshal c with
  | None => true
  | Some (fs, vs, o) => marshal_matches (marshal fs vs) o
  end &&
  match c_direct c with
  | None => true
  | Some (d, o) =>
      let r := unmarshal (fuel_of (direct_ty d)) (direct_ty d) (direct_doc d) in
      match r, o with
      | Ok v, OOk w => val_eqb (norm_nil v) (norm_nil w)
      | _, _ => res_matches r o
      end
  end &&
  match c_env c with
  | None => true
  | Some (t, o, ev, ob) => res_matches (bind (env_value t o ev) (fun v => Ok (VStruct [v]))) ob
  end.

Definition obs_eqb (a b : obs) : bool :=
  match a, b with
  | OOk v, OOk w => val_eqb v w
  | OErr, OErr => true
  | _, _ => false
  end.

(* --- the property, on the observed behaviour alone --- *)
Definition obs_ok (tol : tolerance) (t : ty) (d : jv) (o : obs) : bool :=
  match o with
  | OPanic => false                                   (* it never panics *)
  | OErr => true                                      (* failing with an error is always allowed *)
  | OOk v => val_finite v && agrees_t tol t d v       (* finite floats; exact, defaults, optional zero, required, options, range *)
  end.

(* "optional absent fields stay zero": a document that leaves out every field of an all-optional struct cannot
   be refused (c05_optional_succeeds) *)
Definition all_optional_absent (t : ty) (d : jv) : bool :=
  match t, d with
  | Struct fs, JObj m =>
      forallb (fun f => negb (f_anon f) && o_optional (f_opts f) &&
                        (match o_default (f_opts f) with None => true | Some _ => false end) &&
                        (match o_dep (f_opts f) with None => true | Some _ => false end) &&
                        negb (has_key (f_key f) m)) fs
  | _, _ => false
  end.

Definition conf_same (orig o : obs) : bool :=
  match o with OPanic => false | _ => true end &&
  match orig, o with
  | OOk v, OOk w => val_eqb v w
  | OOk _, OErr => false
  | _, _ => true
  end.

(* env=: the environment value stands for the document's value: exactly one of options=, inside range=, exact *)
Definition env_ok (t : ty) (o : fopts) (ev : string) (ob : obs) : bool :=
  match ob with
  | OPanic => false
  | OErr => true
  | OOk (VStruct [w]) =>
      in_options o ev && value_in_range o w &&
      match deref t, unwrap t w with
      | Prim k, Some w' => leaf_agrees k (JStr ev None) w'
      | _, _ => false
      end
  | OOk _ => false
  end.

Definition spec_ok_t (tol : tolerance) (c : case) : bool :=
  if c_outside c then match c_obs c with OPanic => false | _ => true end else
  obs_ok tol (c_ty c) (eff_doc (c_ty c) (c_doc c)) (c_obs c) &&
  (if all_optional_absent (c_ty c) (c_doc c) then match c_obs c with OOk _ => true | _ => false end else true) &&
  match c_yaml c with
  | None => true
  | Some (y, o) =>
      (* same content (the generator renders one abstract document twice) => same struct *)
      if jv_eqb (yaml_to_json y) (c_doc c) then obs_eqb o (c_obs c) else negb (match o with OPanic => true | _ => false end)
  end &&
  match c_conf c with
  | None => true
  | Some (d, o, oy) =>
      (* keys re-spelled in snake_case / other initial case, at any depth: config loading (JSON and YAML) gives the
         same struct as the canonical spelling *)
      conf_same (c_obs c) o && match oy with None => true | Some o' => conf_same (c_obs c) o' end
  end &&
  match c_rt c with
  | None => true
  | Some (_, built, o) =>
      (* a well-formed request struct sent with the client helper is parsed back into an equal struct *)
      match o with OOk w => val_eqb built w | _ => false end
  end &&
  match c_str c with
  | None => true
  | Some o => obs_ok tol (force_string (c_ty c)) (c_doc c) o       (* form/path/header mode: same clauses *)
  end &&
  forallb (fun jyo => json_yaml_float_agree (fst (fst jyo)) (snd (fst jyo)) (snd jyo)) (c_float c) &&
  match c_marshal c with Some (_, _, MPanic) => false | _ => true end &&
  (* reader entry points: same verdict and same value as the bytes entry points, on every content *)
  forallb (fun p => obs_eqb (fst p) (snd p)) (c_readers c) &&
  (* httpx.Parse directly: form values arrive unchanged and count as present (blank is not empty); header maps with
     empty / nil / several values never panic *)
  match c_direct c with
  | None => true
  | Some (DHeader t p, o) =>
      if has_nil_list p then match o with OPanic => false | _ => true end
      else obs_ok tol (direct_ty (DHeader t p)) (header_doc p) o
  | Some (d, o) => obs_ok tol (direct_ty d) (direct_doc d) o
  end &&
  match c_env c with None => true | Some (t, o, ev, ob) => env_ok t o ev ob end.

(* the property *)
Definition spec_ok (c : case) : bool := spec_ok_t TNone c.

(* the property with exactly one known-unenforced clause masked (KNOWN_FINDINGS classes): a failing case belongs
   to class k iff spec_ok c = false and the k-masked checker accepts it -- i.e. that clause is the sole reason *)
Definition spec_mask_dur (c : case) : bool := spec_ok_t TDur c.
Definition spec_mask_slice (c : case) : bool := spec_ok_t TSliceElem c.
Definition spec_mask_map (c : case) : bool := spec_ok_t TMapElem c.
Definition spec_mask_default (c : case) : bool := spec_ok_t TDefault c.
