(* C05 Spec: what it means for a value to be the exact image of a document at a type.
   `agrees t d v`: v is the struct/value the property allows for document d at type t:
   - a present number is the SAME integer and fits the kind (no wrap, no truncation);
   - present bool/string/nested values are structurally equal (text coercions "1"->true, 5->"5" inside
     slices/maps/`string` fields are the integer/bool/string the text denotes);
   - absent + default: the parsed default; absent + optional: zero; absent + required: no value at all
     (only a struct none of whose fields is required may be filled from the empty object);
   - options= and range= are respected by every present value.
   (the struct case is also available as `field_agrees`, see agrees_struct). *)
From God Require Import Base.Prelude C05.Model.
From Coq Require Import String Ascii.
Local Open Scope Z_scope.

Definition all2 {A B} (f : A -> B -> bool) : list A -> list B -> bool :=
  fix go l1 l2 :=
    match l1, l2 with
    | [], [] => true
    | a :: r1, b :: r2 => f a b && go r1 r2
    | _, _ => false
    end.

(* equality of values; a float leaf whose token is not canonical is opaque *)
Fixpoint val_eqb (a b : val) {struct a} : bool :=
  match a, b with
  | VBool x, VBool y => Bool.eqb x y
  | VInt x, VInt y => x =? y
  | VFloat r1 c1, VFloat r2 c2 => if c1 && c2 then String.eqb r1 r2 else true
  | VStr x, VStr y => String.eqb x y
  | VNilPtr, VNilPtr | VNilSlice, VNilSlice | VNilMap, VNilMap => true
  | VPtr x, VPtr y => val_eqb x y
  | VSlice l1, VSlice l2 => all2 (fun x y => val_eqb x y) l1 l2
  | VMap l1, VMap l2 => all2 (fun p q => String.eqb (fst p) (fst q) && val_eqb (snd p) (snd q)) l1 l2
  | VStruct l1, VStruct l2 => all2 (fun x y => val_eqb x y) l1 l2
  | _, _ => false
  end.

Definition text_of (d : jv) : option string :=
  match d with
  | JNum raw _ => Some raw | JStr s => Some s
  | JBool b => Some (if b then "true" else "false")%string
  | _ => None
  end.

(* the exact image of a scalar document value at a primitive kind *)
Definition leaf_agrees (k : kind) (d : jv) (v : val) : bool :=
  match k, v with
  | KInt w, VInt z =>
      match d with
      | JNum s _ | JStr s => match parse_signed s with Some z' => (z =? z') && fits_int w z | None => false end
      | _ => false end
  | KUint w, VInt z =>
      match d with
      | JNum s _ | JStr s => match parse_signed s with Some z' => (z =? z') && fits_uint w z | None => false end
      | _ => false end
  | KDur, VInt z =>
      fits_int W64 z &&
      match d with
      | JNum s _ => match parse_signed s with Some z' => z =? z' | None => false end
      | JStr s => (match parse_dur s with Some z' => z =? z' | None => false end) ||
                  (match parse_signed s with Some z' => z =? z' | None => false end)
      | _ => false end
  | KBool, VBool b =>
      match d with
      | JBool b' => Bool.eqb b b'
      | JNum s _ | JStr s => match parse_bool s with Some b' => Bool.eqb b b' | None => false end
      | _ => false end
  | KStr, VStr s => match d with JStr s' | JNum s' _ => String.eqb s s' | _ => false end
  | (KF32 | KF64), VFloat raw c =>
      match d with
      | JNum raw' fi => fi_fits64 fi && (if c && fi_canon fi then String.eqb raw raw' else true)
      | JStr _ => true
      | _ => false end
  | _, _ => false
  end.

Definition unwrap (t : ty) (v : val) : option val :=
  if is_ptr t then match v with VPtr v' => Some v' | _ => None end else Some v.

Definition value_in_range (o : fopts) (v : val) : bool :=
  match o_range o with
  | None => true
  | Some r => match v with VInt z | VPtr (VInt z) => in_range r z | _ => false end
  end.

Definition value_in_options (o : fopts) (d : jv) : bool :=
  match o_options o with
  | [] => true
  | _ => match text_of d with Some s => in_options o s | None => false end
  end.

Definition has_key (k : string) (m : obj) : bool := match olookup k m with Some _ => true | None => false end.

Fixpoint agrees (t : ty) (d : jv) (v : val) {struct t} : bool :=
    match t with
    | Prim k => leaf_agrees k d v
    | Ptr t' => match v with VPtr v' => agrees t' d v' | _ => false end
    | Slice et =>
        match d, v with
        | JArr [], VSlice [] => true
        | JArr l, VSlice vs =>
            negb (forallb is_null l) &&
            all2 (fun x w => if is_null x then val_eqb w (zero_val et) else agrees et x w) l vs
        | JArr (x :: l), VNilSlice => forallb is_null (x :: l)
        | _, _ => false
        end
    | Map et =>
        match d, v with
        | JObj m, VMap l => all2 (fun p q => String.eqb (fst p) (fst q) && agrees et (snd p) (snd q)) m l
        | _, _ => false
        end
    | Struct fs =>
        match d, v with
        | JObj m, VStruct vs =>
            all2 (fun f w =>
              let ft := f_ty f in let o := f_opts f in
              if f_anon f then
                (* embedded struct: filled from the same object, not from a wrapped key *)
                negb (has_key (f_key f) m) &&
                ((o_optional o && val_eqb w (zero_val ft)) ||
                 match unwrap ft w with Some w' => agrees (deref ft) (JObj m) w' | None => false end)
              else
                match olookup (f_key f) m with
                | Some JNull => o_optional o && val_eqb w (zero_val ft)
                | Some x => agrees ft x w && value_in_options o x && value_in_range o w
                | None =>
                    match o_default o with
                    | Some dv =>
                        match deref ft, unwrap ft w with
                        | Prim KDur, Some (VInt z) => match parse_dur dv with Some z' => z =? z' | None => false end
                        | Prim k, Some w' => leaf_agrees k (JStr dv) w'
                        | _, _ => false
                        end
                    | None =>
                        if o_optional o then val_eqb w (zero_val ft)
                        else match deref ft, unwrap ft w with
                             | Struct sub, Some w' => negb (ty_required (deref ft)) && agrees (deref ft) (JObj []) w'
                             | _, _ => false          (* required and absent: no value is acceptable *)
                             end
                    end
                end) fs vs
        | _, _ => false
        end
    end.

(* one field of a struct against the object the struct is filled from (the body of the Struct case) *)
Definition field_agrees (f : field) (m : obj) (w : val) : bool :=
  let ft := f_ty f in let o := f_opts f in
  if f_anon f then
    negb (has_key (f_key f) m) &&
    ((o_optional o && val_eqb w (zero_val ft)) ||
     match unwrap ft w with Some w' => agrees (deref ft) (JObj m) w' | None => false end)
  else
    match olookup (f_key f) m with
    | Some JNull => o_optional o && val_eqb w (zero_val ft)
    | Some x => agrees ft x w && value_in_options o x && value_in_range o w
    | None =>
        match o_default o with
        | Some dv =>
            match deref ft, unwrap ft w with
            | Prim KDur, Some (VInt z) => match parse_dur dv with Some z' => z =? z' | None => false end
            | Prim k, Some w' => leaf_agrees k (JStr dv) w'
            | _, _ => false
            end
        | None =>
            if o_optional o then val_eqb w (zero_val ft)
            else match deref ft, unwrap ft w with
                 | Struct sub, Some w' => negb (ty_required (deref ft)) && agrees (deref ft) (JObj []) w'
                 | _, _ => false
                 end
        end
    end.

Lemma agrees_struct fs m vs : agrees (Struct fs) (JObj m) (VStruct vs) = all2 (fun f w => field_agrees f m w) fs vs.
Proof. reflexivity. Qed.
