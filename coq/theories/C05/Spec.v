(* C05 Spec: what it means for a value to be the exact image of a document at a type.
   `agrees t d v`: v is the struct/value the property allows for document d at type t:
   - a present number is the SAME integer and fits the kind (no wrap, no truncation);
   - present bool/string/nested values are structurally equal (text coercions "1"->true, 5->"5" inside
     slices/maps/`string` fields are the integer/bool/string the text denotes);
   - absent + default: the parsed default; absent + optional: zero; absent + required: no value at all
     (only a struct none of whose fields is required may be filled from the empty object);
   - options= and range= are respected by every present value: a scalar, every element of a slice, every value
     of a map, and by the declared default (the property text makes no exception for kinds or positions);
   - optional=dep / optional=!dep: the field's optional flag is the resolved one (Model.resolve_opts), and a
     both-or-neither / either-or mismatch allows no value at all.
   `tol` names ONE clause of the text that the code is known not to enforce (KNOWN_FINDINGS classes); `agrees_t tol`
   tolerates exactly that clause.  The property is `agrees = agrees_t TNone`.
   (the struct case is also available as `field_agrees`, see agrees_struct). *)
From God Require Import Base.Prelude C05.Model.
From Coq Require Import String Ascii.
Local Open Scope Z_scope.

Definition all2 {A B} (f : A -> B -> bool) : list A -> list B -> bool :=
  fix go l1 l2 :=
    match l1, l2 with
    | [], [] => true
    | a :: r1, b :: r2 => f a b && go r1 r2
    | _, _ => false
    end.

(* equality of values; a float leaf whose token is not canonical is opaque *)
Fixpoint val_eqb (a b : val) {struct a} : bool :=
  match a, b with
  | VBool x, VBool y => Bool.eqb x y
  | VInt x, VInt y => x =? y
  | VFloat r1 c1, VFloat r2 c2 => if c1 && c2 then String.eqb r1 r2 else true
  | VStr x, VStr y => String.eqb x y
  | VNilPtr, VNilPtr | VNilSlice, VNilSlice | VNilMap, VNilMap => true
  | VPtr x, VPtr y => val_eqb x y
  | VSlice l1, VSlice l2 => all2 (fun x y => val_eqb x y) l1 l2
  | VMap l1, VMap l2 => all2 (fun p q => String.eqb (fst p) (fst q) && val_eqb (snd p) (snd q)) l1 l2
  | VStruct l1, VStruct l2 => all2 (fun x y => val_eqb x y) l1 l2
  | _, _ => false
  end.

Definition text_of (d : jv) : option string :=
  match d with
  | JNum raw _ => Some raw | JStr s _ => Some s
  | JBool b => Some (if b then "true" else "false")%string
  | _ => None
  end.

(* ---- which integer a text denotes: strconv.ParseInt syntax, or a decimal with fraction / exponent whose value
   is integral ("1e3" is 1000, "1.0" is 1, "9007199254740993.0" is 9007199254740993; "1.5" denotes no integer).
   The property only says "rejected, or exactly that integer": an implementation may accept either spelling. *)
Inductive dstate := DInt | DFrac | DExp0 | DExp.
Fixpoint dec_loop (s : string) (st : dstate) (m fl : Z) (eneg : bool) (e : Z) (nd ed : bool) : option (Z * Z) :=
  match s with
  | EmptyString =>
      match st with
      | DInt | DFrac => if nd then Some (m, - fl) else None
      | DExp0 => None
      | DExp => if ed then Some (m, (if eneg then - e else e) - fl) else None
      end
  | String c r =>
      match st, digit_of c with
      | DInt, Some d => dec_loop r DInt (m * 10 + d) fl eneg e true ed
      | DFrac, Some d => dec_loop r DFrac (m * 10 + d) (fl + 1) eneg e true ed
      | DExp0, Some d => dec_loop r DExp m fl eneg d nd true
      | DExp, Some d => if e <? 100000 then dec_loop r DExp m fl eneg (e * 10 + d) nd true else None
      | DInt, None =>
          if Ascii.eqb c "." then dec_loop r DFrac m fl eneg e nd ed
          else if (Ascii.eqb c "e" || Ascii.eqb c "E") && nd then dec_loop r DExp0 m fl eneg e nd ed else None
      | DFrac, None => if (Ascii.eqb c "e" || Ascii.eqb c "E") && nd then dec_loop r DExp0 m fl eneg e nd ed else None
      | DExp0, None =>
          if Ascii.eqb c "+" then dec_loop r DExp m fl false e nd ed
          else if Ascii.eqb c "-" then dec_loop r DExp m fl true e nd ed else None
      | DExp, None => None
      end
  end.

Definition decimal_int (s : string) : option Z :=
  let '(neg, r) := match s with
                   | String c r => if Ascii.eqb c "-" then (true, r) else if Ascii.eqb c "+" then (false, r) else (false, s)
                   | EmptyString => (false, s) end in
  match dec_loop r DInt 0 0 false 0 false false with
  | Some (m, e) =>
      let v := if m =? 0 then Some 0
               else if 0 <=? e then (if e <=? 40 then Some (m * 10 ^ e) else None)
               else if e <? -5000 then None
               else (if m mod 10 ^ (- e) =? 0 then Some (m / 10 ^ (- e)) else None) in
      option_map (fun z => if neg then - z else z) v
  | None => None
  end.

Definition denotes_int0 (s : string) (z : Z) : bool :=
  (match parse_signed s with Some z' => z =? z' | None => false end) ||
  (match decimal_int s with Some z' => z =? z' | None => false end).

(* surrounding blanks do not change which integer a text denotes (an implementation may trim or reject) *)
Definition is_ws (c : ascii) : bool :=
  Ascii.eqb c " " || Ascii.eqb c "009" || Ascii.eqb c "010" || Ascii.eqb c "013".
Fixpoint ltrim (s : string) : string :=
  match s with String c r => if is_ws c then ltrim r else s | EmptyString => EmptyString end.
Fixpoint rtrim (s : string) : string :=
  match s with
  | EmptyString => EmptyString
  | String c r => match rtrim r with
                  | EmptyString => if is_ws c then EmptyString else String c EmptyString
                  | r' => String c r'
                  end
  end.
Definition denotes_int (s : string) (z : Z) : bool :=
  denotes_int0 s z || denotes_int0 (rtrim (ltrim s)) z.

(* the exact image of a scalar document value at a primitive kind *)
Definition leaf_agrees (k : kind) (d : jv) (v : val) : bool :=
  match k, v with
  | KInt w, VInt z =>
      match d with
      | JNum s _ | JStr s _ => denotes_int s z && fits_int w z
      | _ => false end
  | KUint w, VInt z =>
      match d with
      | JNum s _ | JStr s _ => denotes_int s z && fits_uint w z
      | _ => false end
  | KDur, VInt z =>
      fits_int W64 z &&
      match d with
      | JNum s _ => denotes_int s z
      | JStr s _ => (match parse_dur s with Some z' => z =? z' | None => false end) || denotes_int s z
      | _ => false end
  | KBool, VBool b =>
      match d with
      | JBool b' => Bool.eqb b b'
      | JNum s _ | JStr s _ => match parse_bool s with Some b' => Bool.eqb b b' | None => false end
      | _ => false end
  | KStr, VStr s => match d with JStr s' _ | JNum s' _ => String.eqb s s' | _ => false end
  | (KF32 | KF64), VFloat raw c =>
      match d with
      | JNum raw' fi => fi_fits64 fi && (if c && fi_canon fi then String.eqb raw raw' else true)
      | JStr _ _ => true
      | _ => false end
  | _, _ => false
  end.

Definition unwrap (t : ty) (v : val) : option val :=
  if is_ptr t then match v with VPtr v' => Some v' | _ => None end else Some v.

(* range= on the value that was stored: a number, or every element / map value *)
Fixpoint val_in_range (r : range) (v : val) {struct v} : bool :=
  match v with
  | VInt z => in_range r z
  | VPtr v' => val_in_range r v'
  | VSlice l => forallb (fun x => val_in_range r x) l
  | VMap m => forallb (fun kv => val_in_range r (snd kv)) m
  | VNilPtr | VNilSlice | VNilMap => true
  | _ => false
  end.
Definition value_in_range (o : fopts) (v : val) : bool :=
  match o_range o with None => true | Some r => val_in_range r v end.

(* options= on the document value: a scalar's text, or every (non-null) element / map value *)
Fixpoint doc_in_options (o : fopts) (d : jv) {struct d} : bool :=
  match d with
  | JNull => true
  | JArr l => forallb (fun x => doc_in_options o x) l
  | JObj m => forallb (fun kv => doc_in_options o (snd kv)) m
  | _ => match text_of d with Some s => in_options o s | None => false end
  end.
Definition value_in_options (o : fopts) (d : jv) : bool :=
  match o_options o with [] => true | _ => doc_in_options o d end.

Inductive tolerance := TNone | TDur | TSliceElem | TMapElem | TDefault.
Definition tol_eqb (a b : tolerance) : bool :=
  match a, b with TNone, TNone | TDur, TDur | TSliceElem, TSliceElem | TMapElem, TMapElem | TDefault, TDefault => true | _, _ => false end.

(* the clause class a present value's options=/range= check belongs to *)
Definition constraint_class (t : ty) (o : fopts) : tolerance :=
  match deref t with
  | Prim KDur => if o_string o then TNone else TDur
  | Slice _ => TSliceElem
  | Map _ => TMapElem
  | _ => TNone
  end.

Section Agrees.
  Variable tol : tolerance.

  Fixpoint agrees_t (t : ty) (d : jv) (v : val) {struct t} : bool :=
    match t with
    | Prim k => leaf_agrees k d v
    | Ptr t' => match v with VPtr v' => agrees_t t' d v' | _ => false end
    | Slice et =>
        (* a string holding a JSON array is read as that array (fillSliceFromString); the text null as [] *)
        let d' := match d with JStr _ (Some JNull) => JArr [] | JStr _ (Some j) => j | _ => d end in
        match d', v with
        | JArr [], VSlice [] => true
        | JArr l, VSlice vs =>
            negb (forallb is_null l) &&
            all2 (fun x w => if is_null x then val_eqb w (zero_val et) else agrees_t et x w) l vs
        | JArr (x :: l), VNilSlice => forallb is_null (x :: l)
        | _, _ => false
        end
    | Map et =>
        match d, v with
        | JObj m, VMap l => all2 (fun p q => String.eqb (fst p) (fst q) && agrees_t et (snd p) (snd q)) m l
        | _, _ => false
        end
    | Struct fs =>
        match d, v with
        | JObj m, VStruct vs =>
            all2 (fun f w =>
              let ft := f_ty f in
              match resolve_opts (f_opts f) (f_key f) m with
              | Ok o =>
                if f_anon f then
                  (* embedded struct: filled from the same object, not from a wrapped key *)
                  negb (has_key (f_key f) m) &&
                  ((o_optional o && val_eqb w (zero_val ft)) ||
                   match unwrap ft w with Some w' => agrees_t (deref ft) (JObj m) w' | None => false end)
                else
                  match olookup (f_key f) m with
                  | Some JNull => o_optional o && val_eqb w (zero_val ft)
                  | Some x =>
                      agrees_t ft x w &&
                      ((negb (tol_eqb tol TNone) && tol_eqb tol (constraint_class ft o)) ||
                       (value_in_options o x && value_in_range o w))
                  | None =>
                      match o_default o with
                      | Some dv =>
                          match deref ft, unwrap ft w with
                          | Prim KDur, Some (VInt z) => match parse_dur dv with Some z' => z =? z' | None => false end
                          | Prim k, Some w' => leaf_agrees k (JStr dv None) w'
                          | _, _ => false
                          end &&
                          (tol_eqb tol TDefault || (in_options o dv && value_in_range o w))
                      | None =>
                          if o_optional o then val_eqb w (zero_val ft)
                          else match deref ft, unwrap ft w with
                               | Struct sub, Some w' => negb (ty_required (deref ft)) && agrees_t (deref ft) (JObj []) w'
                               | _, _ => false          (* required and absent: no value is acceptable *)
                               end
                      end
                  end
              | _ => false                                (* optional=dep mismatch: no value is acceptable *)
              end) fs vs
        | _, _ => false
        end
    end.

  (* one field of a struct against the object the struct is filled from (the body of the Struct case) *)
  Definition field_agrees_t (f : field) (m : obj) (w : val) : bool :=
    let ft := f_ty f in
    match resolve_opts (f_opts f) (f_key f) m with
    | Ok o =>
      if f_anon f then
        negb (has_key (f_key f) m) &&
        ((o_optional o && val_eqb w (zero_val ft)) ||
         match unwrap ft w with Some w' => agrees_t (deref ft) (JObj m) w' | None => false end)
      else
        match olookup (f_key f) m with
        | Some JNull => o_optional o && val_eqb w (zero_val ft)
        | Some x =>
            agrees_t ft x w &&
            ((negb (tol_eqb tol TNone) && tol_eqb tol (constraint_class ft o)) ||
             (value_in_options o x && value_in_range o w))
        | None =>
            match o_default o with
            | Some dv =>
                match deref ft, unwrap ft w with
                | Prim KDur, Some (VInt z) => match parse_dur dv with Some z' => z =? z' | None => false end
                | Prim k, Some w' => leaf_agrees k (JStr dv None) w'
                | _, _ => false
                end &&
                (tol_eqb tol TDefault || (in_options o dv && value_in_range o w))
            | None =>
                if o_optional o then val_eqb w (zero_val ft)
                else match deref ft, unwrap ft w with
                     | Struct sub, Some w' => negb (ty_required (deref ft)) && agrees_t (deref ft) (JObj []) w'
                     | _, _ => false
                     end
            end
        end
    | _ => false
    end.

  Lemma agrees_struct_t fs m vs :
    agrees_t (Struct fs) (JObj m) (VStruct vs) = all2 (fun f w => field_agrees_t f m w) fs vs.
  Proof. reflexivity. Qed.
End Agrees.

(* the property *)
Definition agrees := agrees_t TNone.
Definition field_agrees := field_agrees_t TNone.
Lemma agrees_struct fs m vs : agrees (Struct fs) (JObj m) (VStruct vs) = all2 (fun f w => field_agrees f m w) fs vs.
Proof. reflexivity. Qed.

(* ------------------------------------------------------------------ floats: JSON and YAML routes, on oracle values
   j, y: math.Float64bits of the field after the JSON / the YAML route (None = rejected); o: the bits of
   strconv.ParseFloat(token, bitsize).  Same content => same struct; and an accepted number is that float,
   rounded once to the field's precision. *)
Definition optN_eqb (a b : option N) : bool :=
  match a, b with Some x, Some y => N.eqb x y | None, None => true | _, _ => false end.
Definition json_yaml_float_agree (j y o : option N) : bool :=
  optN_eqb j y && match j with Some _ => optN_eqb j o | None => true end.

(* whatever the route, a float member of a result is a finite number: never +Inf / -Inf / NaN (a value above
   MaxFloat32 / MaxFloat64 must be rejected, not stored) *)
Fixpoint val_finite (v : val) {struct v} : bool :=
  match v with
  | VFloat raw _ => negb (String.eqb raw "+Inf" || String.eqb raw "-Inf" || String.eqb raw "Inf" || String.eqb raw "NaN")
  | VPtr v' => val_finite v'
  | VSlice l => forallb (fun x => val_finite x) l
  | VMap m => forallb (fun kv => val_finite (snd kv)) m
  | VStruct l => forallb (fun x => val_finite x) l
  | _ => true
  end.
