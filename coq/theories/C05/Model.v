(* C05 Model: executable transcription of lib/mapping (unmarshaler.go, utils.go, fieldoptions.go) on the
   REPAIRED tree (fixes D1: OverflowInt/Uint/Float checks, D9: type tests before assertions).
   Type universe, documents with numbers kept as their decimal token (json.Number), values.
   Line numbers refer to lib/mapping/unmarshaler.go unless a file is named.
   Floats are opaque: a number token carries an oracle `finfo` (does strconv.ParseFloat succeed, does the
   result fit float32, is the token already the shortest 'f' rendering).  Strings are ASCII. *)
From God Require Import Base.Prelude.
From Coq Require Import String Ascii.
Local Open Scope Z_scope.

(* ------------------------------------------------------------------ types *)
Inductive width := W8 | W16 | W32 | W64.           (* int/uint are 64-bit on the driver platform *)
Inductive kind := KBool | KInt (w : width) | KUint (w : width) | KF32 | KF64 | KStr | KDur.

Record range := mkrange { r_left : option Z; r_linc : bool; r_right : option Z; r_rinc : bool }.
Record fopts := mkopts {
  o_optional : bool; o_default : option string; o_options : list string;
  o_range : option range; o_string : bool;
  o_dep : option (bool * string);  (* optional=dep (false, dep) / optional=!dep (true, dep); only with o_optional *)
  o_inherit : bool                 (* inherit: the key is also looked up in the enclosing sections (valuer.go) *) }.
Definition no_opts : fopts := mkopts false None [] None false None false.
(* parseKeyAndOptions returns options == nil iff the tag has no option segment *)
Definition opts_nil (o : fopts) : bool :=
  negb (o_optional o) && (match o_default o with None => true | _ => false end) &&
  (match o_options o with [] => true | _ => false end) &&
  (match o_range o with None => true | _ => false end) && negb (o_string o) && negb (o_inherit o).

Record fdecl (T : Type) := mkfield { f_key : string; f_opts : fopts; f_anon : bool; f_ty : T }.
Arguments mkfield {T}. Arguments f_key {T}. Arguments f_opts {T}. Arguments f_anon {T}. Arguments f_ty {T}.

Inductive ty :=
| Prim (k : kind) | Ptr (t : ty) | Slice (t : ty) | Map (t : ty) (* key type string *)
| Struct (fs : list (fdecl ty)).
Definition field := fdecl ty.

(* ------------------------------------------------------------------ documents and values *)
Record finfo := mkfi { fi_fits64 : bool; fi_fits32 : bool; fi_canon : bool }.
Inductive jv :=
| JNull | JBool (b : bool) | JNum (raw : string) (fi : finfo)
| JStr (s : string) (pj : option jv)   (* pj: the value the text denotes when it is a JSON text (encoder oracle) *)
| JArr (l : list jv) | JObj (m : list (string * jv)).
Definition obj := list (string * jv).

Inductive val :=
| VBool (b : bool) | VInt (z : Z) | VFloat (raw : string) (canon : bool) | VStr (s : string)
| VNilPtr | VPtr (v : val) | VNilSlice | VSlice (l : list val) | VNilMap | VMap (m : list (string * val))
| VStruct (l : list val).

(* error classes (informative only) *)
Definition E_fuel := 99%nat.     Definition E_required := 1%nat.  Definition E_mismatch := 2%nat.
Definition E_options := 3%nat.   Definition E_range := 4%nat.     Definition E_overflow := 5%nat.
Definition E_parse := 6%nat.     Definition E_null := 7%nat.      Definition E_anon := 8%nat.
Definition E_outside := 9%nat.   (* behaviour delegated to encoding/json or ParseFloat on strings: outside the model *)

Definition bind {A B} (r : result A) (f : A -> result B) : result B :=
  match r with Ok a => f a | Err e => Err e | Panic => Panic end.

Fixpoint mapM {A B} (f : A -> result B) (l : list A) : result (list B) :=
  match l with
  | [] => Ok []
  | a :: r => bind (f a) (fun b => bind (mapM f r) (fun bs => Ok (b :: bs)))
  end.

Definition olookup {V} (k : string) (m : list (string * V)) : option V := alookup String.eqb k m.

(* ------------------------------------------------------------------ text parsers (strconv) *)
Definition digit_of (c : ascii) : option Z :=
  let n := Z.of_nat (nat_of_ascii c) in if (48 <=? n) && (n <=? 57) then Some (n - 48) else None.

Fixpoint parse_digits (s : string) (acc : Z) : option Z :=
  match s with
  | EmptyString => Some acc
  | String c r => match digit_of c with Some d => parse_digits r (acc * 10 + d) | None => None end
  end.

Definition parse_udec (s : string) : option Z :=
  match s with EmptyString => None | _ => parse_digits s 0 end.

(* optional sign, then decimal digits: the integer a token denotes (no size limit) *)
Definition parse_signed (s : string) : option Z :=
  match s with
  | String c r =>
      if Ascii.eqb c "-"%char then option_map Z.opp (parse_udec r)
      else if Ascii.eqb c "+"%char then parse_udec r
      else parse_udec s
  | EmptyString => None
  end.

(* strconv.ParseInt(s, 10, 64) *)
Definition parse_int64 (s : string) : option Z :=
  match parse_signed s with
  | Some z => if (- 2 ^ 63 <=? z) && (z <? 2 ^ 63) then Some z else None
  | None => None
  end.

(* strconv.ParseUint(s, 10, 64): no sign accepted *)
Definition parse_uint64 (s : string) : option Z :=
  match parse_udec s with
  | Some z => if z <? 2 ^ 64 then Some z else None
  | None => None
  end.

Definition lower_ascii (c : ascii) : ascii :=
  let n := nat_of_ascii c in if (Nat.leb 65 n && Nat.leb n 90)%bool then ascii_of_nat (n + 32) else c.
Fixpoint lower (s : string) : string :=
  match s with EmptyString => EmptyString | String c r => String (lower_ascii c) (lower r) end.

(* convertType, case reflect.Bool (utils.go:174-182) *)
Definition parse_bool (s : string) : option bool :=
  let l := lower s in
  if String.eqb l "1" || String.eqb l "true" then Some true
  else if String.eqb l "0" || String.eqb l "false" then Some false else None.

(* time.ParseDuration restricted to [+-]? ( "0" | (digits unit)+ ), units ns us ms s m h, no fractions.
   Strings containing '.' or other characters denote no duration in the model (generator keeps away). *)
Definition unit_ns (u : string) : option Z :=
  if String.eqb u "ns" then Some 1 else if String.eqb u "us" then Some 1000
  else if String.eqb u "ms" then Some 1000000 else if String.eqb u "s" then Some 1000000000
  else if String.eqb u "m" then Some 60000000000 else if String.eqb u "h" then Some 3600000000000 else None.

Definition is_digit (c : ascii) : bool := match digit_of c with Some _ => true | None => false end.

(* state: total so far, digits of the current number (None = none read yet), unit letters read so far *)
Fixpoint dur_loop (s : string) (total : Z) (num : option Z) (u : string) : option Z :=
  match s with
  | EmptyString =>
      match num, u with
      | Some n, String _ _ =>
          match unit_ns u with
          | Some m => if (n <=? 2 ^ 63) && (n <=? 2 ^ 63 / m) && (total + n * m <=? 2 ^ 63) then Some (total + n * m) else None
          | None => None
          end
      | _, _ => None
      end
  | String c r =>
      if is_digit c then
        match num, u with
        | Some n, EmptyString => match digit_of c with Some d => dur_loop r total (Some (n * 10 + d)) EmptyString | None => None end
        | None, EmptyString => dur_loop r total (digit_of c) EmptyString
        | Some n, String _ _ =>
            match unit_ns u with
            | Some m => if (n <=? 2 ^ 63) && (n <=? 2 ^ 63 / m) && (total + n * m <=? 2 ^ 63)
                        then dur_loop r (total + n * m) (digit_of c) EmptyString else None
            | None => None
            end
        | None, String _ _ => None
        end
      else
        match num with
        | Some _ => if Ascii.eqb c "."%char then None else dur_loop r total num (u ++ String c EmptyString)
        | None => None
        end
  end.

Definition dur_body (neg : bool) (r : string) : option Z :=
  if String.eqb r "0" then Some 0 else
  match dur_loop r 0 None EmptyString with
  | Some d => if neg then Some (- d) else if d <=? 2 ^ 63 - 1 then Some d else None
  | None => None
  end.

Definition parse_dur (s : string) : option Z :=
  match s with
  | String c r =>
      if Ascii.eqb c "-"%char then dur_body true r
      else if Ascii.eqb c "+"%char then dur_body false r else dur_body false s
  | EmptyString => dur_body false s
  end.

(* ------------------------------------------------------------------ kinds *)
Definition bits (w : width) : Z := match w with W8 => 8 | W16 => 16 | W32 => 32 | W64 => 64 end.
Definition fits_int (w : width) (z : Z) : bool := (- 2 ^ (bits w - 1) <=? z) && (z <? 2 ^ (bits w - 1)).
Definition fits_uint (w : width) (z : Z) : bool := (0 <=? z) && (z <? 2 ^ bits w).

Definition in_range (r : range) (z : Z) : bool :=
  (match r_left r with None => true | Some l => if r_linc r then l <=? z else l <? z end) &&
  (match r_right r with None => true | Some h => if r_rinc r then z <=? h else z <? h end).

Definition deref (t : ty) : ty := match t with Ptr t' => t' | _ => t end.
Definition is_ptr (t : ty) : bool := match t with Ptr _ => true | _ => false end.
Definition wrap_ptr (t : ty) (v : val) : val := if is_ptr t then VPtr v else v.

Fixpoint zero_val (t : ty) : val :=
  match t with
  | Prim KBool => VBool false
  | Prim (KInt _) | Prim (KUint _) | Prim KDur => VInt 0
  | Prim KF32 | Prim KF64 => VFloat "0" true
  | Prim KStr => VStr ""
  | Ptr _ => VNilPtr
  | Slice _ => VNilSlice
  | Map _ => VNilMap
  | Struct fs => VStruct (map (fun f => zero_val (f_ty f)) fs)
  end.

(* implicitValueRequiredStruct (utils.go:552-583), on the fields of a struct type *)
Fixpoint ty_required (t : ty) : bool :=
  match t with
  | Struct fs =>
      existsb (fun f =>
        if opts_nil (f_opts f) then
          match f_ty f with Struct _ => ty_required (f_ty f) | _ => true end
        else (negb (o_optional (f_opts f)) && (match o_default (f_opts f) with None => true | Some _ => false end))
             || (match o_dep (f_opts f) with Some (true, _) => true | _ => false end)) fs
  | _ => true
  end.

(* convertType + setMatchedPrimitiveValue (utils.go:172-240; overflow tests = fix D1).
   time.Duration has Kind Int64 here.  Float text without an oracle is outside the model. *)
Definition convert_set (k : kind) (s : string) (fi : option finfo) : result val :=
  match k with
  | KBool => match parse_bool s with Some b => Ok (VBool b) | None => Err E_mismatch end
  | KInt w => match parse_int64 s with
              | Some z => if fits_int w z then Ok (VInt z) else Err E_overflow
              | None => Err E_parse end
  | KDur => match parse_int64 s with Some z => Ok (VInt z) | None => Err E_parse end
  | KUint w => match parse_uint64 s with
               | Some z => if fits_uint w z then Ok (VInt z) else Err E_overflow
               | None => Err E_parse end
  | KF64 => match fi with
            | Some i => if fi_fits64 i then Ok (VFloat s (fi_canon i)) else Err E_parse
            | None => Err E_outside end
  | KF32 => match fi with
            | Some i => if fi_fits64 i then (if fi_fits32 i then Ok (VFloat s (fi_canon i)) else Err E_overflow) else Err E_parse
            | None => Err E_outside end
  | KStr => Ok (VStr s)
  end.

(* the number a converted value has for validateValueRange (utils.go:159-170): toFloat64 fails on bool/string *)
Definition range_ok_val (o : fopts) (v : val) : bool :=
  match o_range o with
  | None => true
  | Some r => match v with VInt z => in_range r z | _ => false (* bool/string: toFloat64 fails; float: outside the model *) end
  end.

(* validateJsonNumberRange (utils.go:113-124): Float64() must succeed, then compare.
   Integer tokens compare exactly (bounds are integers of magnitude <= 2^53); fraction/exponent tokens are
   opaque: they pass here and are rejected by ParseInt afterwards (ranges exist on integer kinds only). *)
Definition range_ok_tok (o : fopts) (raw : string) (fi : finfo) : bool :=
  match o_range o with
  | None => true
  | Some r => fi_fits64 fi && match parse_signed raw with Some z => in_range r z | None => true end
  end.

Definition in_options (o : fopts) (s : string) : bool :=
  match o_options o with [] => true | l => existsb (String.eqb s) l end.

(* reflect.Kind of a decoded document value; json.Number has Kind String *)
Inductive rk := RNil | RBool | RString | RSlice | RMap.
Definition vkind (d : jv) : rk :=
  match d with JNull => RNil | JBool _ => RBool | JNum _ _ | JStr _ _ => RString | JArr _ => RSlice | JObj _ => RMap end.

(* processFieldPrimitiveWithJSONNumber (552-612) *)
Definition json_number (t : ty) (o : fopts) (raw : string) (fi : finfo) : result val :=
  if negb (range_ok_tok o raw fi) then Err E_range else
  if negb (in_options o raw) then Err E_options else
  match deref t with
  | Prim (KInt w) =>
      match parse_int64 raw with
      | Some z => if fits_int w z then Ok (wrap_ptr t (VInt z)) else Err E_overflow   (* D1 *)
      | None => Err E_parse end
  | Prim KDur => match parse_int64 raw with Some z => Ok (wrap_ptr t (VInt z)) | None => Err E_parse end
  | Prim (KUint w) =>
      match parse_int64 raw with
      | Some z => if z <? 0 then Err E_parse else if fits_uint w z then Ok (wrap_ptr t (VInt z)) else Err E_overflow
      | None => Err E_parse end
  | Prim KF64 => if fi_fits64 fi then Ok (wrap_ptr t (VFloat raw (fi_canon fi))) else Err E_parse
  | Prim KF32 => if fi_fits64 fi then (if fi_fits32 fi then Ok (wrap_ptr t (VFloat raw (fi_canon fi))) else Err E_overflow)
                 else Err E_parse
  | _ => Err E_mismatch
  end.

(* fromString branch of processNamedFieldWithValue (763-779) + fillPrimitive (861-888) *)
Definition from_string (t : ty) (o : fopts) (d : jv) : result val :=
  match deref t with
  | Prim k =>
      match d with
      | JStr s _ =>
          if negb (in_options o s) then Err E_options else
          bind (convert_set k s None) (fun v => if range_ok_val o v then Ok (wrap_ptr t v) else Err E_range)
      | JNum raw fi =>
          if negb (in_options o raw) then Err E_options else     (* Repr(mapValue): D9 *)
          if negb (range_ok_tok o raw fi) then Err E_range else
          bind (convert_set k raw (Some fi)) (fun v => Ok (wrap_ptr t v))
      | _ => Err E_mismatch
      end
  | _ => Err E_mismatch
  end.

(* fieldOptions.toOptionsWithContext (fieldoptions.go:70-111, after 4c6e8a8 every option survives, only Optional
   is replaced): optional=dep -- both keys or neither, and the field is optional iff dep is absent;
   optional=!dep -- exactly one of the two, and the field is optional iff dep is present *)
Definition has_key (k : string) (m : obj) : bool := match olookup k m with Some _ => true | None => false end.
Definition set_optional (o : fopts) (b : bool) : fopts :=
  mkopts b (o_default o) (o_options o) (o_range o) (o_string o) (o_dep o) (o_inherit o).
Definition resolve_opts (o : fopts) (key : string) (m : obj) : result fopts :=
  if o_optional o then
    match o_dep o with
    | None => Ok o
    | Some (true, dep) =>
        if String.eqb dep "" then Err E_required else
        if Bool.eqb (has_key dep m) (has_key key m) then Err E_required else Ok (set_optional o (has_key dep m))
    | Some (false, dep) =>
        if Bool.eqb (has_key dep m) (has_key key m) then Ok (set_optional o (negb (has_key dep m))) else Err E_required
    end
  else Ok o.

Section WithRec.
  (* the three recursive entry points, one fuel step further down *)
  Variable rec_struct : list field -> obj -> result val.     (* unmarshalWithFullName on a fresh struct *)
  Variable rec_slice : ty -> ty -> jv -> result val.         (* fillSlice fieldType elemType value *)
  Variable rec_map : ty -> jv -> result val.                 (* generateMap elemType value *)

  (* fillMap (118-140): the field must be a map (D9) *)
  Definition fill_map (t : ty) (d : jv) : result val :=
    match t with Map et => rec_map et d | _ => Err E_mismatch end.

  (* processFieldPrimitive (555-582) *)
  Definition field_primitive (t : ty) (o : fopts) (d : jv) : result val :=
    match deref t, d with
    | Slice et, JArr _ => rec_slice t et d
    | _, JNum raw fi => json_number t o raw fi
    | Prim KBool, JBool b =>
        if negb (in_options o (if b then "true" else "false")) then Err E_options else
        match o_range o with Some _ => Err E_range | None => Ok (wrap_ptr t (VBool b)) end
    | Prim KStr, JStr s _ =>
        if negb (in_options o s) then Err E_options else
        match o_range o with Some _ => Err E_range | None => Ok (wrap_ptr t (VStr s)) end
    | _, _ => Err E_mismatch
    end.

  (* fillSliceValue (263-309) for a non-nil element *)
  Definition slice_value (et : ty) (x : jv) : result val :=
    match x with
    | JNum raw fi =>
        match et with
        | Prim k => convert_set k raw (Some fi)
        | Ptr (Prim k) => bind (convert_set k raw (Some fi)) (fun v => Ok (VPtr v))
        | _ => Err E_mismatch
        end
    | JStr s _ =>
        match et with
        | Prim k => convert_set k s None
        | Ptr (Prim k) => bind (convert_set k s None) (fun v => Ok (VPtr v))
        | _ => Err E_mismatch
        end
    | JObj _ => match et with Map et2 => rec_map et2 x | _ => Err E_mismatch end     (* D9 *)
    | JBool b =>
        match et with
        | Prim KBool => Ok (VBool b)
        | Ptr (Prim KBool) => Ok (VPtr (VBool b))
        | _ => Err E_mismatch
        end
    | _ => Err E_mismatch
    end.

  (* fillSliceFromString (238-270): the text (string or json.Number) is decoded as JSON into []any; every element goes
     through fillSliceValue into a slice of the dereffed element type, which must be assignable to the field (D9);
     a null element is a type mismatch (D9), the text "null" gives an empty slice *)
  Definition from_string_slice (t et : ty) (d : jv) : result val :=
    match d with
    | JStr _ (Some pj) =>
        match t, et with
        | Slice _, Ptr _ => Err E_mismatch
        | Slice _, _ =>
            match pj with
            | JArr l => bind (mapM (slice_value et) l) (fun vs => Ok (VSlice vs))
            | JNull => Ok (VSlice [])
            | _ => Err E_parse
            end
        | _, _ => Err E_mismatch
        end
    | _ => Err E_parse                             (* not a JSON text; a number token is never an array *)
    end.

  (* processFieldNotFromString (524-553) *)
  Definition not_from_string (t : ty) (o : fopts) (d : jv) : result val :=
    match vkind d, deref t with
    | RMap, Struct fs =>
        match d with JObj m => bind (rec_struct fs m) (fun v => Ok (wrap_ptr t v)) | _ => Err E_mismatch end
    | RMap, Map _ => fill_map t d
    | RString, Map _ => Err E_outside          (* fillMapFromString: encoding/json on the text *)
    | RString, Slice et => from_string_slice t et d
    | RString, Prim KDur =>
        match d with
        | JStr s _ => match parse_dur s with Some z => Ok (wrap_ptr t (VInt z)) | None => Err E_parse end
        | _ => Err E_mismatch                  (* json.Number: type test added by D9 *)
        end
    | _, _ => field_primitive t o d
    end.

  (* processNamedFieldWithValue (735-781) *)
  Definition with_value (t : ty) (o : fopts) (d : jv) : result val :=
    match d with
    | JNull => if o_optional o then Ok (zero_val t) else Err E_null
    | _ =>
        match deref t with
        | Prim _ => if o_string o then from_string t o d else not_from_string t o d
        | _ => not_from_string t o d
        end
    end.

  (* processNamedFieldWithoutValue (783-833) *)
  Definition without_value (t : ty) (o : fopts) : result val :=
    match o_default o with
    | Some dv =>
        match deref t with
        | Prim KDur => match parse_dur dv with Some z => Ok (wrap_ptr t (VInt z)) | None => Err E_parse end
        | Prim k => bind (convert_set k dv None) (fun v => Ok (wrap_ptr t v))
        | Slice _ => Err E_outside             (* fillSliceWithDefault *)
        | _ => Err E_mismatch                  (* convertType: unsupported kind *)
        end
    | None =>
        if o_optional o then Ok (zero_val t) else
        match deref t with
        | Slice _ => Err E_mismatch            (* emptyMap into a slice *)
        | Map _ => Err E_required              (* c271df3: an absent required map is reported as unset *)
        | Struct fs =>
            if ty_required (Struct fs) then Err E_required
            else bind (rec_struct fs []) (fun v => Ok (wrap_ptr t v))
        | _ => Err E_required
        end
    end.

  Variable rec_field : field -> obj -> result val.           (* processField, for sub-fields *)

  (* processAnonymousFieldOptional (455-494) *)
  Definition anon_optional (t : ty) (sub : list field) (m : obj) : result val :=
    bind (mapM (fun sf => match olookup (f_key sf) m with
                          | Some _ => bind (rec_field sf m) (fun v => Ok (v, true))
                          | None => Ok (zero_val (f_ty sf), false)
                          end) sub) (fun rs =>
      let filled := existsb snd rs in
      let required := List.length (filter (fun sf => negb (o_optional (f_opts sf))) sub) in
      let required_filled := List.length (filter (fun sf => negb (o_optional (f_opts sf)) &&
                                 match olookup (f_key sf) m with Some _ => true | None => false end) sub) in
      if filled then
        if Nat.eqb required required_filled then Ok (wrap_ptr t (VStruct (map fst rs))) else Err E_anon
      else Ok (zero_val t)).

  (* processField (511-522) = processAnonymousField (437-453) | processNamedField (702-733) *)
  Definition process_field (f : field) (m : obj) : result val :=
    bind (resolve_opts (f_opts f) (f_key f) m) (fun o =>        (* parseOptionsWithContext *)
    if f_anon f then
      match olookup (f_key f) m with
      | Some _ => Err E_anon
      | None =>
          match deref (f_ty f) with
          | Struct sub =>
              if o_optional o then anon_optional (f_ty f) sub m
              else bind (mapM (fun sf => rec_field sf m) sub) (fun vs => Ok (wrap_ptr (f_ty f) (VStruct vs)))
          | _ => Panic                           (* NumField of a non-struct type *)
          end
      end
    else
      match olookup (f_key f) m with
      | None => without_value (f_ty f) o
      | Some d => with_value (f_ty f) o d
      end).

  (* loop body of fillSlice (193-226) for a non-nil element *)
  Definition slice_elem (et : ty) (x : jv) : result val :=
    match deref et with
    | Struct fs =>
        match x with JObj m => bind (rec_struct fs m) (fun v => Ok (wrap_ptr et v)) | _ => Err E_mismatch end  (* D9 *)
    | Slice et2 => if is_ptr et then Err E_mismatch else rec_slice et et2 x                                    (* D9 *)
    | _ => slice_value et x
    end.

  Definition is_null (d : jv) : bool := match d with JNull => true | _ => false end.

  (* fillSlice (159-236) *)
  Definition fill_slice_body (t et : ty) (d : jv) : result val :=
    match t with
    | Slice _ =>
        match d with
        | JArr [] => Ok (VSlice [])
        | JArr l =>
            bind (mapM (fun x => if is_null x then Ok (zero_val et) else slice_elem et x) l) (fun vs =>
              if forallb is_null l then Ok VNilSlice else Ok (VSlice vs))
        | _ => Err E_mismatch                    (* D9: refValue.Kind() != Slice *)
        end
    | _ => Err E_mismatch                        (* D9: pointer to slice, array *)
    end.

  (* loop body of generateMap (340-415) *)
  Definition map_elem (et : ty) (x : jv) : result val :=
    if is_ptr et && negb (match deref et with Struct _ => true | _ => false end) then Err E_mismatch else  (* D9 *)
    match deref et with
    | Slice et2 => rec_slice et et2 x
    | Struct fs =>
        match x with JObj m => bind (rec_struct fs m) (fun v => Ok (wrap_ptr et v)) | _ => Err E_mismatch end
    | Map et2 => match x with JObj _ => rec_map et2 x | _ => Err E_mismatch end
    | Prim k =>
        match x with
        | JBool b => match k with KBool => Ok (VBool b) | _ => Err E_mismatch end
        | JStr s _ => match k with KStr => Ok (VStr s) | _ => Err E_mismatch end
        | JNum raw fi => convert_set k raw (Some fi)
        | _ => Err E_mismatch
        end
    | Ptr _ => Err E_mismatch
    end.

  Definition gen_map_body (et : ty) (d : jv) : result val :=
    match d with
    | JObj m => bind (mapM (fun kv => bind (map_elem et (snd kv)) (fun v => Ok (fst kv, v))) m) (fun l => Ok (VMap l))
    | _ => Err E_mismatch                        (* D9: refValue.Kind() != Map *)
    end.
End WithRec.

(* fuel = nesting depth still allowed; every recursive entry goes one level down in the type *)
Fixpoint unm_struct (n : nat) (fs : list field) (m : obj) {struct n} : result val :=
  match n with
  | O => Err E_fuel
  | S n' => bind (mapM (fun f => unm_field n' f m) fs) (fun vs => Ok (VStruct vs))
  end
with unm_field (n : nat) (f : field) (m : obj) {struct n} : result val :=
  match n with
  | O => Err E_fuel
  | S n' => process_field (unm_struct n') (fill_slice n') (gen_map n') (unm_field n') f m
  end
with fill_slice (n : nat) (t et : ty) (d : jv) {struct n} : result val :=
  match n with
  | O => Err E_fuel
  | S n' => fill_slice_body (unm_struct n') (fill_slice n') (gen_map n') t et d
  end
with gen_map (n : nat) (et : ty) (d : jv) {struct n} : result val :=
  match n with
  | O => Err E_fuel
  | S n' => gen_map_body (unm_struct n') (fill_slice n') (gen_map n') et d
  end.

(* UnmarshalJsonBytes: the document must be an object, the target a struct *)
Definition unmarshal (n : nat) (t : ty) (d : jv) : result val :=
  match t, d with
  | Struct fs, JObj m => unm_struct n fs m
  | _, _ => Err E_mismatch
  end.

(* depth of a type: fuel 2 * depth + 2 is enough *)
Fixpoint ty_depth (t : ty) : nat :=
  match t with
  | Prim _ => 1
  | Ptr t' | Slice t' | Map t' => S (ty_depth t')
  | Struct fs => S (fold_right (fun f acc => Nat.max (ty_depth (f_ty f)) acc) 0%nat fs)
  end.
Definition fuel_of (t : ty) : nat := 2 * ty_depth t + 2.

(* ------------------------------------------------------------------ YAML front-end
   internal/encoding/encoding.go: yaml.Unmarshal, toStringKeyMap (ints/floats -> json.Number(lang.Repr v)),
   json.Encode, then the JSON path with UseNumber.  Float tokens are the 'f',-1 rendering (opaque). *)
From Coq Require Import DecimalString.

Inductive yv :=
| YNull | YBool (b : bool) | YInt (z : Z) | YFloat (raw : string) (fi : finfo) | YStr (s : string) (pj : option jv)
| YSeq (l : list yv) | YMap (m : list (string * yv)).

Definition render_z (z : Z) : string := NilZero.string_of_int (Z.to_int z).
(* a yaml int is an int64/uint64: it always parses as float64 and fits float32's range *)
Definition int_fi (z : Z) : finfo := mkfi true true (Z.abs z <? 2 ^ 24).   (* exact in float32, printed as itself *)

Fixpoint yaml_to_json (y : yv) : jv :=
  match y with
  | YNull => JStr "" None     (* toStringKeyMap default case: lang.Repr(nil) = "" -- NOT JSON null *)
  | YBool b => JBool b
  | YInt z => JNum (render_z z) (int_fi z)
  | YFloat raw fi => JNum raw fi
  | YStr s pj => JStr s pj
  | YSeq l => JArr (map yaml_to_json l)
  | YMap m => JObj (map (fun kv => (fst kv, yaml_to_json (snd kv))) m)
  end.

(* ------------------------------------------------------------------ lib/conf/config.go:76-112 toCamelCase
   state: (capNext, boundary); ASCII only *)
Definition is_cap (c : ascii) : bool := let n := nat_of_ascii c in (Nat.leb 65 n && Nat.leb n 90)%bool.
Definition is_low (c : ascii) : bool := let n := nat_of_ascii c in (Nat.leb 97 n && Nat.leb n 122)%bool.
Definition upper_ascii (c : ascii) : ascii := if is_low c then ascii_of_nat (nat_of_ascii c - 32) else c.

Fixpoint camel_loop (s : string) (cap_next boundary : bool) : string :=
  match s with
  | EmptyString => EmptyString
  | String c r =>
      let letter := is_cap c || is_low c in
      let c' := if boundary && letter then (if cap_next then upper_ascii c else lower_ascii c) else c in
      let boundary' := if boundary && letter then false else boundary in
      if letter then String c' (camel_loop r false boundary')
      else if Ascii.eqb c " "%char || Ascii.eqb c "009"%char then String c' (camel_loop r false true)
      else if Ascii.eqb c "_"%char then camel_loop r true true
      else String c' (camel_loop r true boundary')
  end.
Definition to_camel_case (s : string) : string := camel_loop s false true.

(* toCamelCaseKeyMap / toCamelCaseInterface (config.go:114-138) *)
Fixpoint camel_keys (d : jv) : jv :=
  match d with
  | JObj m => JObj (map (fun kv => (to_camel_case (fst kv), camel_keys (snd kv))) m)
  | JArr l => JArr (map camel_keys l)
  | _ => d
  end.

(* ------------------------------------------------------------------ httpc.buildRequest / httpx.Parse, transport parts
   api/httpc/requests.go:104-200 (fillPath, buildFormQuery, fillHeader) and api/httpx/requests.go:27-105 with
   api/router (path variables), GetFormValues, ParseHeaders -- as transformers of (name, text) lists.
   The wire codecs are parameters: url escaping of a path segment / query value, MIME canonical header names, the
   transport's trimming of header values.  A URL path is the list of its segments (no '/' inside a value). *)
Section Transport.
  Variable esc unesc : string -> string.
  Variable canon : string -> string.
  Variable trim : string -> string.

  Definition smap := list (string * string).
  Inductive seg := Lit (s : string) | Var (name : string).

  (* fillPath: every :name segment becomes its value; a missing or empty value is an error *)
  Fixpoint fill_path (p : list seg) (m : smap) : option (list string) :=
    match p with
    | [] => Some []
    | Lit s :: r => option_map (cons s) (fill_path r m)
    | Var n :: r =>
        match olookup n m with
        | Some v => if String.eqb v "" then None else option_map (cons (esc v)) (fill_path r m)
        | None => None
        end
    end.

  (* the router matches segment by segment and binds the (unescaped) variables: pathvar.Vars *)
  Fixpoint match_path (p : list seg) (w : list string) : option smap :=
    match p, w with
    | [], [] => Some []
    | Lit s :: r, x :: w' => if String.eqb s x then match_path r w' else None
    | Var n :: r, x :: w' => option_map (cons (n, unesc x)) (match_path r w')
    | _, _ => None
    end.

  Fixpoint path_vars (p : list seg) : list string :=
    match p with [] => [] | Lit _ :: r => path_vars r | Var n :: r => n :: path_vars r end.

  (* buildFormQuery (url.Values.Encode) and GetFormValues (empty values are dropped) *)
  Definition build_query (m : smap) : smap := map (fun kv => (fst kv, esc (snd kv))) m.
  Definition parse_query (q : smap) : smap :=
    filter (fun kv => negb (String.eqb (snd kv) "")) (map (fun kv => (fst kv, unesc (snd kv))) q).

  (* fillHeader (Header.Add canonicalises the name), the transport, ParseHeaders + canonical key lookup *)
  Definition build_header (m : smap) : smap := map (fun kv => (canon (fst kv), snd kv)) m.
  Definition transport_header (h : smap) : smap := map (fun kv => (fst kv, trim (snd kv))) h.
  Definition header_get (k : string) (h : smap) : option string := olookup (canon k) h.
End Transport.

(* ------------------------------------------------------------------ lib/mapping/marshaler.go: Marshal
   struct -> parts: map[tag]map[key]value.  A field without any tag goes to part "" under its name, unvalidated.
   validate (77-106): a non-optional pointer must be non-nil, a non-optional slice/map non-empty; an optional zero
   value is not checked further; options= against fmt.Sprint of the value; range= against the number.
   fmt.Sprint is modelled for ints, bools and strings (other kinds with options=/string: outside the model). *)
Definition sprint (v : val) : option string :=
  match v with
  | VInt z => Some (render_z z)
  | VBool b => Some (if b then "true" else "false")%string
  | VStr s => Some s
  | _ => None
  end.

Fixpoint is_zero (v : val) : bool :=
  match v with
  | VBool b => negb b
  | VInt z => z =? 0
  | VStr s => String.eqb s ""
  | VFloat r _ => String.eqb r "0"
  | VNilPtr | VNilSlice | VNilMap => true
  | VStruct l => forallb (fun x => is_zero x) l
  | _ => false
  end.

Definition nonempty_required (t : ty) (v : val) : bool :=
  match t, v with
  | Ptr _, VNilPtr => false
  | Slice _, (VNilSlice | VSlice []) => false
  | Map _, (VNilMap | VMap []) => false
  | _, _ => true
  end.

(* one member: (part name or None for an untagged field, declaration) and its value *)
Definition marshal_field (tag : option string) (f : field) (v : val) : result (string * string * val) :=
  match tag with
  | None => Ok (EmptyString, f_key f, v)
  | Some tg =>
      let o := f_opts f in
      let has_opts := negb (opts_nil o) in
      if negb (has_opts && o_optional o) && negb (nonempty_required (f_ty f) v) then Err E_required else
      if negb has_opts then Ok (tg, f_key f, v) else
      let checked :=
        if o_optional o && is_zero v then Ok tt else
        match o_options o with
        | [] => Ok tt
        | l => match sprint v with
               | Some s => if existsb (String.eqb s) l then Ok tt else Err E_options
               | None => Err E_outside end
        end in
      bind checked (fun _ =>
      let ranged :=
        if o_optional o && is_zero v then Ok tt else
        match o_range o with
        | None => Ok tt
        | Some r => match v with VInt z => if in_range r z then Ok tt else Err E_range | VFloat _ _ => Err E_outside | _ => Err E_range end
        end in
      bind ranged (fun _ =>
      if o_string o then match sprint v with Some s => Ok (tg, f_key f, VStr s) | None => Err E_outside end
      else Ok (tg, f_key f, v)))
  end.

Fixpoint marshal (fs : list (option string * field)) (vs : list val) : result (list (string * string * val)) :=
  match fs, vs with
  | [], [] => Ok []
  | (tg, f) :: r, v :: vr => bind (marshal_field tg f v) (fun e => bind (marshal r vr) (fun es => Ok (e :: es)))
  | _, _ => Err E_mismatch
  end.

(* GetFormValues + a form-tagged string member: an empty value never reaches the unmarshaller, so the member is
   absent: it takes its default, stays "" when optional, and is an error when required *)
Definition form_string_back (optional : bool) (dflt : option string) (sent : string) : option string :=
  if String.eqb sent "" then
    match dflt with Some d => Some d | None => if optional then Some EmptyString else None end
  else Some sent.

(* ------------------------------------------------------------------ httpx.Parse on a constructed request
   GetFormValues (api/httpx/utils.go:8-28): the FIRST value of every form key, dropped only when it is empty -- no
   trimming: blanks, tabs and newlines are data.  encoding.ParseHeaders (api/internal/encoding/parser.go): a key
   with exactly one value maps to that string, any other value list (several, none, nil) to the list itself. *)
Definition form_doc (pairs : list (string * list jv)) : jv :=
  JObj (flat_map (fun kv =>
          match snd kv with
          | JStr s pj :: _ => if String.eqb s "" then [] else [(fst kv, JStr s pj)]
          | _ => []
          end) pairs).

Definition header_doc (pairs : list (string * option (list jv))) : jv :=
  JObj (map (fun kv => (fst kv, match snd kv with
                                | Some [v] => v
                                | Some vs => JArr vs
                                | None => JArr []          (* a nil []string: fillSlice leaves the field nil *)
                                end)) pairs).

(* ------------------------------------------------------------------ reader entry points (jsonunmarshal.go:23-50,
   yamlunmarshaler.go:20-27): the reader is consumed to its end and the bytes variant's work is done on what was
   read.  `decode` is the tokeniser (encoding/json with UseNumber, resp. yaml.v2 + YamlToJson), a parameter. *)
Section Readers.
  Variable decode : string -> option jv.
  Definition unmarshal_bytes (n : nat) (t : ty) (content : string) : result val :=
    match decode content with Some d => unmarshal n t d | None => Err E_parse end.
  (* a reader delivers its content in chunks; a drained reader delivers none *)
  Definition unmarshal_reader (n : nat) (t : ty) (chunks : list string) : result val :=
    unmarshal_bytes n t (fold_right append EmptyString chunks).
End Readers.

(* ------------------------------------------------------------------ histories of calls in one process
   The code keeps process-wide memos (optionsCache, cacheKeys, defaultCache, structRequiredCache) and a shared
   jsonUnmarshaler; none of them may influence a result: a call is a function of its own type, document and options.
   `call`: (canonical-key option used?, type, document) -- conf.Load* / WithCanonicalKeyFunc canonicalise the field
   keys (Exec.camel_ty is the same map on types), option-less entry points do not. *)
Definition call := (nat * ty * jv)%type.
Definition run_call (c : call) : result val := let '(n, t, d) := c in unmarshal n t d.
Definition run_history (h : list call) : list (result val) := map run_call h.

(* httpx.ParseJsonBody (requests.go:44-52): the body is read whenever there is one (Content-Length > 0 and a JSON
   content type) -- for every method; without a body the struct is filled from the empty object *)
Definition parse_json_body (method : string) (body : option jv) (n : nat) (t : ty) : result val :=
  match body with Some d => unmarshal n t d | None => unmarshal n t (JObj []) end.

(* ------------------------------------------------------------------ inherit (valuer.go: recursiveValuer)
   A field tagged `inherit` is looked up in the object of its own struct first, then in the objects of the enclosing
   structs (nearest first).  HEAD behaviour, pinned: when the key is present in the child AND in an enclosing object
   and both hold a nested object, the child's entries win and the enclosing object's entries for the keys the child
   LACKS are added (a nested section is merged, not replaced); a non-object value of the child is taken as is.
   The chain of enclosing objects restarts inside slice / map elements (fillSlice / generateMap call Unmarshal afresh)
   and is empty for a struct filled from the empty object.
   The merge is done IN PLACE on the decoded document, so the outcome depends on the declaration order of the members
   (a section merged while an earlier member was processed is inherited in its merged form by a later one).
   The model is a document transformation: `inherit_doc t anc d` writes, at every struct level, the value an `inherit`
   field resolves to under that field's key; the inherit-free model then runs on the result. *)
Fixpoint inh_lookup (k : string) (chain : list obj) : option jv :=
  match chain with
  | [] => None
  | m :: rest =>
      match olookup k m with
      | None => inh_lookup k rest
      | Some (JObj vm) =>
          match inh_lookup k rest with
          | Some (JObj pm) => Some (JObj (vm ++ filter (fun kv => negb (has_key (fst kv) vm)) pm))
          | _ => Some (JObj vm)
          end
      | Some v => Some v
      end
  end.

Fixpoint areplace (k : string) (v : jv) (m : obj) : obj :=
  match m with
  | [] => [(k, v)]
  | (k', v') :: r => if String.eqb k k' then (k, v) :: r else (k', v') :: areplace k v r
  end.

Fixpoint inherit_doc (t : ty) (anc : list obj) (d : jv) {struct t} : jv :=
  match t with
  | Prim _ => d
  | Ptr t' => inherit_doc t' anc d
  | Slice et => match d with JArr l => JArr (map (inherit_doc et []) l) | _ => d end
  | Map et => match d with JObj m => JObj (map (fun kv => (fst kv, inherit_doc et [] (snd kv))) m) | _ => d end
  | Struct fs =>
      match d with
      | JObj m =>
          (* members are processed in declaration order ON THE SAME MAPS: a merge writes the filled-in entries into the
             child's section in place (vm[k] = v), so a member processed later -- and every struct below it -- sees the
             sections as the earlier members left them (`acc`), not as the document had them *)
          JObj (fold_left (fun acc f =>
                  if f_anon f then
                    match inherit_doc (deref (f_ty f)) anc (JObj acc) with JObj acc' => acc' | _ => acc end
                  else
                    let found := if o_inherit (f_opts f) then inh_lookup (f_key f) (acc :: anc) else olookup (f_key f) acc in
                    match found with
                    | Some v => areplace (f_key f) (inherit_doc (f_ty f) (acc :: anc) v) acc
                    | None => acc
                    end) fs m)
      | _ => d
      end
  end.

Fixpoint has_inherit (t : ty) : bool :=
  match t with
  | Prim _ => false
  | Ptr t' | Slice t' | Map t' => has_inherit t'
  | Struct fs => existsb (fun f => o_inherit (f_opts f) || has_inherit (f_ty f)) fs
  end.

Definition unmarshal_inh (n : nat) (t : ty) (d : jv) : result val :=
  unmarshal n t (if has_inherit t then inherit_doc t [] d else d).

(* ------------------------------------------------------------------ env= (processFieldWithEnvValue, 641-669): a non-empty
   environment value replaces the document's; it must be one of options= exactly; then by reflect.Kind of the field:
   bool via strconv.ParseBool, string as is, every other kind as a json.Number (range=, overflow tests).
   (reflect.Int64 -- int64 as well as time.Duration -- goes through time.ParseDuration: not modelled, not generated.) *)
Definition parse_bool_strconv (s : string) : option bool :=
  if existsb (String.eqb s) ["1"; "t"; "T"; "TRUE"; "true"; "True"]%string then Some true
  else if existsb (String.eqb s) ["0"; "f"; "F"; "FALSE"; "false"; "False"]%string then Some false else None.
Definition env_value (t : ty) (o : fopts) (ev : string) : result val :=
  if negb (in_options o ev) then Err E_options else
  match t with
  | Prim KBool => match parse_bool_strconv ev with Some b => Ok (VBool b) | None => Err E_parse end
  | Prim KStr => Ok (VStr ev)
  | _ => json_number t o ev (mkfi true true true)
  end.
